(** * A failed insertion into a freshly parsed packet leaves the message as it was (C10).

    [insert_rr] first brings the packet to pointer-free form, then checks size and record count
    before moving any byte. When it reports an error on a freshly parsed packet [p], the object
    holds exactly [uncompress p] - which the parser accepts and which reads as the same question
    and records (C05_roundtrip) - and the cursor is untouched. *)

From DV Require Import Model.Base Model.NameCheck Model.Parser Model.Header Model.Readers Model.Uncompress
  Model.Mutate Spec.NameSpec Spec.PacketSpec Spec.RecordSpec Spec.PlainSpec Proofs.ListLemmas Proofs.Hoare
  Proofs.HeaderBits Proofs.ParserInv Proofs.InsertLemmas Proofs.UncompressSpec Proofs.PlainWf.

Lemma prologue_on_parsed p v it q v' : pp_packet v = p -> pp_maybe_compressed v = true ->
  uncompress p = Ok q -> uncompress q = Ok q -> parse q = Ok v' ->
  forall s1 r, insert_prologue (v, it) = (s1, r) ->
  match r with
  | Ok _ => pp_packet (fst s1) = q /\ snd s1 = it
  | Err _ => False
  | Panic _ => True
  end.
Proof.
  intros Hpk Hmc Hu Huq Hpq s1 r.
  unfold insert_prologue, m_recompute, cbind, getv, clift, putv, cret.
  cbn [fst snd]. rewrite Hmc, Hpk, Hu. cbn [fst snd pp_with_packet pp_maybe_compressed pp_packet]. rewrite Hmc. cbn [negb].
  rewrite Huq, Hpq.
  destruct (negb (edns_summary_same (pp_with_packet v q) v')); cbn [fst snd pp_update pp_maybe_compressed pp_packet].
  - intros H; inversion H; subst. exact I.
  - intros H; inversion H; subst. cbn [fst snd pp_packet]. split; reflexivity.
Qed.

Theorem failed_insert_message : forall p v sec rr it s' e, bytes_ok p -> parse p = Ok v ->
  m_insert_rr sec rr (v, it) = (s', Err e) ->
  exists q v' qls qt lxa lxn lxr lxa' lxn' lxr',
    pp_packet (fst s') = q /\ snd s' = it /\ uncompress p = Ok q /\ parse q = Ok v' /\
    reading p qls qt lxa lxn lxr /\ reading q qls qt lxa' lxn' lxr' /\
    map plain_record lxa' = map plain_record lxa /\ map plain_record lxn' = map plain_record lxn /\
    map plain_record lxr' = map plain_record lxr.
Proof.
  intros p v sec rr it s' e Hb Hp H.
  destruct (uncompress_roundtrip p v Hb Hp) as (q & v' & qls & qt & lxa & lxn & lxr & lxa' & lxn' & lxr' &
                                                 Hu & Hbq & Hpq & Huq & R & R' & Ea & En & Er & _).
  destruct (parse_shape p v Hb Hp) as (sq & san & sns & sar & an & ns & ar & F).
  pose proof (pf_packet _ _ _ _ _ _ _ _ _ F) as Hpk. pose proof (pf_mc _ _ _ _ _ _ _ _ _ F) as Hmc.
  exists q, v', qls, qt, lxa, lxn, lxr, lxa', lxn', lxr'.
  assert (Hres : pp_packet (fst s') = q /\ snd s' = it);
    [|destruct Hres as [A B]; split; [exact A|]; split; [exact B|]; split; [exact Hu|]; split; [exact Hpq|]; split; [exact R|]; split; [exact R'|]; auto].
  unfold m_insert_rr in H. apply cbind_err in H. destruct H as [H|(a & s1 & H1 & H2)].
  - pose proof (prologue_on_parsed p v it q v' Hpk Hmc Hu Huq Hpq _ _ H) as X. contradiction.
  - pose proof (prologue_on_parsed p v it q v' Hpk Hmc Hu Huq Hpq _ _ H1) as X. cbv beta iota in X.
    apply insert_core_err in H2. subst s'. exact X.
Qed.
