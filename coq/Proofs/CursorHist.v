(** * Histories with cursor operations (C08, C09, C11).

    A cursor is put on the record at a byte offset with the iterator's own [set_offset] and
    [recompute]; the operation acts through it and the cursor is dropped. [hops3_keep_dinv]: from any
    response that satisfies the invariant, every history of insertions, recomputes, header setters,
    deletions of non-OPT records and TTL changes on non-OPT records keeps the invariant. *)

From DV Require Import Model.Base Model.NameCheck Model.Parser Model.Header Model.Readers Model.Uncompress Model.Mutate
  Spec.NameSpec Spec.PacketSpec Spec.RecordSpec Spec.PlainSpec Proofs.ListLemmas Proofs.Hoare Proofs.ParserInv Proofs.ParseSound
  Proofs.NameIff Proofs.ReadersAgree Proofs.QuestionSpec Proofs.HeaderBits Proofs.WalkValues Proofs.WalkSkip Proofs.PlainWf Proofs.EdnsPlain
  Proofs.InsertSpec Proofs.HeaderInv Proofs.Chain Proofs.SetTtlInv Proofs.DeleteInv Proofs.SetNameInv Proofs.ReplaceInv Proofs.Totality.
From Coq Require Import ZifyBool ZifyNat ZifyN.

Definition with_cursor (off : nat) (m : cm unit) : cm unit :=
  fun s => let '(s1, r) := ((m_set_offset off ;;- m_recompute_rr) ;;- m) s in ((fst s1, snd s), r).

Inductive hop3 : Type :=
| H3Base (o : hop2)
| H3Delete (off : nat)
| H3SetTtl (off : nat) (t : N)
| H3SetName (off : nat) (nm : bytes)
| H3SetIp (off : nat) (ip : bytes).

Definition run_hop3 (o : hop3) : cm unit :=
  match o with
  | H3Base o => run_hop2 o
  | H3Delete off => with_cursor off m_delete
  | H3SetTtl off t => with_cursor off (m_set_ttl t)
  | H3SetName off nm => with_cursor off (m_set_raw_name nm)
  | H3SetIp off ip => with_cursor off (m_set_ip ip)
  end.

(** [off] is where a non-OPT record of a record section starts *)
Definition record_starts (v : ppacket) (off : nat) : Prop :=
  exists qls qt lA lN lR r x, reading (pp_packet v) qls qt lA lN lR /\ In (r, x) (lA ++ lN ++ lR) /\ is_opt r = false /\ rv_off r = off.

Definition hop3_ok_at (v : ppacket) (o : hop3) : Prop :=
  match o with
  | H3Base o => hop2_ok o
  | H3Delete off => record_starts v off
  | H3SetTtl off t => record_starts v off /\ (t < 4294967296)%N
  | H3SetName off nm => record_starts v off /\ bytes_ok nm
  | H3SetIp off ip => record_starts v off /\ bytes_ok ip
  end.

Fixpoint run_hops3 (ops : list hop3) (s : st) : st * res unit :=
  match ops with
  | [] => (s, Ok tt)
  | o :: ops' => match run_hop3 o s with (s1, Ok _) => run_hops3 ops' s1 | (s1, Err e) => (s1, Err e) | (s1, Panic x) => (s1, Panic x) end
  end.

(** every operation of the history is applicable in the state it is applied to *)
Fixpoint ok_along (ops : list hop3) (s : st) : Prop :=
  match ops with
  | [] => True
  | o :: ops' => hop3_ok_at (fst s) o /\ match run_hop3 o s with (s1, Ok _) => ok_along ops' s1 | _ => True end
  end.

Lemma cursor_on v it r e : bytes_ok (pp_packet v) -> record_at (pp_packet v) r e -> it_section it <> SQuestion ->
  (m_set_offset (rv_off r) ;;- m_recompute_rr) (v, it) =
  ((v, it_set (it_set it (Some (rv_off r)) (it_offset_next it) (it_name_end it)) (Some (rv_off r)) e (rv_name_end r)), Ok tt).
Proof.
  intros Hb (Hcn & _ & _ & _ & Hrd & He & Hle & _) Hsec. set (q := pp_packet v) in *.
  assert (Hck : check_compressed_name q (rv_off r) = Ok (rv_name_end r)) by (apply check_compressed_name_iff; exists (rv_labels r); exact Hcn).
  assert (Hlt : rv_off r < rv_name_end r) by (destruct Hcn as (_ & Hna); exact (name_at_end_gt _ _ _ _ _ _ _ _ Hna)).
  unfold m_set_offset, m_recompute_rr, cbind, getv, getit, clift, putit. cbn [fst snd]. fold q.
  replace (length q <? rv_off r) with false by lia. cbn [fst snd it_set it_offset it_section unwrap]. fold q.
  rewrite (skip_name_agrees q _ _ Hck ltac:(lia)).
  assert (Eq : section_eqb (it_section it) SQuestion = false) by (destruct (it_section it); try reflexivity; congruence).
  rewrite Eq. apply (be16_at_u16 q (rv_name_end r + 8) 203) in Hrd. rewrite (skip_rdata_agrees q _ _ Hrd). rewrite Nat2N.id, <- He. reflexivity.
Qed.

Lemma set_ttl_flags t v it s' : m_set_ttl t (v, it) = (s', Ok tt) ->
  forall w0, u16_at (pp_packet v) 2 w0 -> u16_at (pp_packet (fst s')) 2 w0.
Proof.
  unfold m_set_ttl, cbind, getv, getit, clift, putv. cbn [fst snd]. intros H w0 Hw0.
  destruct (unwrap (it_offset it) 681) as [o| |]; try (inversion H; fail).
  destruct (slice_from (pp_packet v) (it_name_end it) 682) as [sl| |]; try (inversion H; fail).
  destruct (write_at (pp_packet v) (it_name_end it + DNS_RR_TTL_OFFSET) (be32_bytes t) 683) as [p'| |] eqn:Ew; try (inversion H; fail).
  inversion H; subst s'. cbn [fst pp_with_packet pp_packet]. unfold DNS_RR_TTL_OFFSET in Ew.
  eapply u16_at_same; [| |exact Hw0]; eapply write_at_nth; try exact Ew; lia.
Qed.

Lemma set_ip_flags ip v it s' : m_set_ip ip (v, it) = (s', Ok tt) ->
  forall w0, u16_at (pp_packet v) 2 w0 -> u16_at (pp_packet (fst s')) 2 w0.
Proof.
  unfold m_set_ip, cbind, getv, getit, clift, putv. cbn [fst snd]. intros H w0 Hw0.
  destruct (it_rr_type v it) as [t| |]; try (inversion H; fail).
  destruct (slice_from (pp_packet v) (it_name_end it) 691) as [rd| |]; try (inversion H; fail). unfold DNS_RR_HEADER_SIZE in H.
  destruct (t =? TYPE_A)%N.
  - destruct (negb (length ip =? 4)); [inversion H|]. destruct (length rd <? 10 + 4); [inversion H|].
    destruct (write_at (pp_packet v) (it_name_end it + 10) ip 693) as [p'| |] eqn:Ew; try (inversion H; fail).
    inversion H; subst s'. cbn [fst pp_with_packet pp_packet]. eapply u16_at_same; [| |exact Hw0]; eapply write_at_nth; try exact Ew; lia.
  - destruct (t =? TYPE_AAAA)%N; [|inversion H]. destruct (negb (length ip =? 16)); [inversion H|]. destruct (length rd <? 10 + 16); [inversion H|].
    destruct (write_at (pp_packet v) (it_name_end it + 10) ip 695) as [p'| |] eqn:Ew; try (inversion H; fail).
    inversion H; subst s'. cbn [fst pp_with_packet pp_packet]. eapply u16_at_same; [| |exact Hw0]; eapply write_at_nth; try exact Ew; lia.
Qed.

Theorem hop3_keeps_dinv : forall o v it s1, dinv v -> is_response (pp_packet v) -> it_section it <> SQuestion -> hop3_ok_at v o ->
  run_hop3 o (v, it) = (s1, Ok tt) -> dinv (fst s1) /\ snd s1 = it /\ is_response (pp_packet (fst s1)).
Proof.
  intros o v it s1 Hd Hr Hsec Ho E. destruct o as [o|off|off t|off nm|off ip]; cbn [run_hop3 hop3_ok_at] in E, Ho.
  - exact (hop2_keeps_dinv o v it s1 Hd Hr Ho E).
  - destruct Ho as (qls & qt & lA & lN & lR & r & x & Rd & Hin & Hno & <-).
    destruct (reading_record_in _ _ _ _ _ _ Rd r x Hin) as (_ & e & Hrec).
    unfold with_cursor in E. unfold cbind at 1 in E. rewrite (cursor_on v it r e (di_bytes _ Hd) Hrec Hsec) in E.
    match type of E with context [m_delete (v, ?c)] => set (cur := c) in * end.
    destruct (m_delete (v, cur)) as [s2 [u| |]] eqn:Edel; inversion E; subst s1. destruct u. cbn [fst snd].
    assert (He : e = rv_name_end r + 10 + rv_rdlen r) by (destruct Hrec as (_ & _ & _ & _ & _ & He & _); exact He).
    destruct (delete_keeps_dinv v cur s2 qls qt lA lN lR r x Hd Rd Hin Hno eq_refl eq_refl He Edel) as (Hd' & _ & (A & Nn & R & A' & Nn' & R' & X1 & r0 & X2 & Hrest)).
    cbv zeta in Hrest. destruct Hrest as (_ & _ & _ & _ & _ & _ & _ & _ & Hfl).
    split; [exact Hd'|]. split; [reflexivity|]. destruct Hr as (w & Hw & Hq). exists w. split; [exact (Hfl w Hw)|exact Hq].
  - destruct Ho as ((qls & qt & lA & lN & lR & r & x & Rd & Hin & Hno & <-) & Ht).
    destruct (reading_record_in _ _ _ _ _ _ Rd r x Hin) as (_ & e & Hrec).
    unfold with_cursor in E. unfold cbind at 1 in E. rewrite (cursor_on v it r e (di_bytes _ Hd) Hrec Hsec) in E.
    match type of E with context [m_set_ttl t (v, ?c)] => set (cur := c) in * end.
    destruct (m_set_ttl t (v, cur)) as [s2 [u| |]] eqn:Eset; inversion E; subst s1. destruct u. cbn [fst snd].
    destruct (set_ttl_keeps_dinv v cur t s2 qls qt lA lN lR r x Hd Ht Rd Hin Hno ltac:(discriminate) eq_refl Eset) as (Hd' & _).
    split; [exact Hd'|]. split; [reflexivity|]. destruct Hr as (w & Hw & Hq). exists w. split; [exact (set_ttl_flags _ _ _ _ Eset w Hw)|exact Hq].
  - destruct Ho as ((qls & qt & lA & lN & lR & r & x & Rd & Hin & Hno & <-) & Hbn).
    destruct (reading_record_in _ _ _ _ _ _ Rd r x Hin) as (_ & e & Hrec).
    unfold with_cursor in E. unfold cbind at 1 in E. rewrite (cursor_on v it r e (di_bytes _ Hd) Hrec Hsec) in E.
    match type of E with context [m_set_raw_name nm (v, ?c)] => set (cur := c) in * end.
    destruct (m_set_raw_name nm (v, cur)) as [s2 [u| |]] eqn:Eset; inversion E; subst s1. destruct u. cbn [fst snd].
    destruct (set_raw_name_keeps_dinv nm v cur s2 qls qt lA lN lR r x Hd Hbn Rd Hin Hno eq_refl eq_refl Eset)
      as (Hd' & (n & ls & A & Nn & R & A' & Nn' & R' & X1 & r0 & X2 & Hrest)).
    cbv zeta in Hrest. destruct Hrest as (_ & _ & _ & _ & _ & _ & _ & _ & _ & _ & _ & _ & _ & Hfl).
    split; [exact Hd'|]. split; [reflexivity|]. destruct Hr as (w & Hw & Hq). exists w. split; [exact (Hfl w Hw)|exact Hq].
  - destruct Ho as ((qls & qt & lA & lN & lR & r & x & Rd & Hin & Hno & <-) & Hbi).
    destruct (reading_record_in _ _ _ _ _ _ Rd r x Hin) as (_ & e & Hrec).
    unfold with_cursor in E. unfold cbind at 1 in E. rewrite (cursor_on v it r e (di_bytes _ Hd) Hrec Hsec) in E.
    match type of E with context [m_set_ip ip (v, ?c)] => set (cur := c) in * end.
    destruct (m_set_ip ip (v, cur)) as [s2 [u| |]] eqn:Eset; inversion E; subst s1. destruct u. cbn [fst snd].
    destruct (set_ip_keeps_dinv v cur ip s2 qls qt lA lN lR r x Hd Hbi Rd Hin eq_refl eq_refl Eset) as (Hd' & _).
    split; [exact Hd'|]. split; [reflexivity|]. destruct Hr as (w & Hw & Hq). exists w. split; [exact (set_ip_flags _ _ _ _ Eset w Hw)|exact Hq].
Qed.

Theorem hops3_keep_dinv : forall ops v it s', dinv v -> is_response (pp_packet v) -> it_section it <> SQuestion -> ok_along ops (v, it) ->
  run_hops3 ops (v, it) = (s', Ok tt) -> dinv (fst s') /\ snd s' = it /\ is_response (pp_packet (fst s')).
Proof.
  induction ops as [|o ops IH]; intros v it s' Hd Hr Hsec Hok H; cbn [run_hops3] in H.
  - inversion H; subst. auto.
  - cbn [ok_along fst] in Hok. destruct Hok as [Ho Hrest].
    destruct (run_hop3 o (v, it)) as [s1 [u| |]] eqn:E; try discriminate. destruct u.
    destruct (hop3_keeps_dinv o v it s1 Hd Hr Hsec Ho E) as (Hd1 & Hit1 & Hr1).
    destruct s1 as [v1 it1]. cbn [fst snd] in *. subst it1. apply (IH v1 it s' Hd1 Hr1 Hsec Hrest H).
Qed.

(** ** Every such history runs to the end: no step has a [Panic] outcome, a step that reports an error changes nothing *)
Fixpoint run_hops3_tol (ops : list hop3) (s : st) : st * res unit :=
  match ops with
  | [] => (s, Ok tt)
  | o :: ops' => match run_hop3 o s with (s1, Ok _) => run_hops3_tol ops' s1 | (s1, Err _) => run_hops3_tol ops' s1 | (s1, Panic x) => (s1, Panic x) end
  end.

Fixpoint ok_along_tol (ops : list hop3) (s : st) : Prop :=
  match ops with
  | [] => True
  | o :: ops' => hop3_ok_at (fst s) o /\ match run_hop3 o s with (s1, Ok _) => ok_along_tol ops' s1 | (s1, Err _) => ok_along_tol ops' s1 | _ => True end
  end.

Lemma with_cursor_on v it r e m : bytes_ok (pp_packet v) -> record_at (pp_packet v) r e -> it_section it <> SQuestion ->
  with_cursor (rv_off r) m (v, it) =
  (let '(s1, r0) := m (v, it_set (it_set it (Some (rv_off r)) (it_offset_next it) (it_name_end it)) (Some (rv_off r)) e (rv_name_end r)) in ((fst s1, it), r0)).
Proof. intros Hb Hrec Hsec. unfold with_cursor. unfold cbind at 1. rewrite (cursor_on v it r e Hb Hrec Hsec). reflexivity. Qed.

Lemma hop3_outcome o v it : dinv v -> is_response (pp_packet v) -> it_section it <> SQuestion -> hop3_ok_at v o ->
  (exists s1, run_hop3 o (v, it) = (s1, Ok tt)) \/ (exists e, run_hop3 o (v, it) = ((v, it), Err e)).
Proof.
  intros Hd Hr Hsec Ho. destruct o as [o|off|off t|off nm|off ip]; cbn [run_hop3 hop3_ok_at] in *.
  - destruct (run_hop2 o (v, it)) as [s1 [u|e|x]] eqn:E.
    + destruct u. left. eauto.
    + right. exists e. f_equal.
      destruct o as [sec rx| |n|n|n| |n]; cbn [run_hop2] in E;
        [exact (failed_insert_on_dinv _ _ _ _ _ _ Hd E)|rewrite (recompute_keeps_dinv v it Hd) in E; discriminate| | | | |];
        exact (setter_err_state _ _ _ _ _ E).
    + exfalso. exact (hop2_no_panic o v it s1 x Hd Ho E).
  - destruct Ho as (qls & qt & lA & lN & lR & r & x & Rd & Hin & Hno & <-).
    destruct (reading_record_in _ _ _ _ _ _ Rd r x Hin) as (_ & e & Hrec).
    assert (He : e = rv_name_end r + 10 + rv_rdlen r) by (destruct Hrec as (_ & _ & _ & _ & _ & He & _); exact He).
    left. rewrite (with_cursor_on v it r e _ (di_bytes _ Hd) Hrec Hsec).
    match goal with |- context [m_delete (v, ?c)] => set (cur := c) end.
    destruct (delete_total v cur qls qt lA lN lR r x Hd Rd Hin Hno eq_refl eq_refl He) as (s2 & ->). eauto.
  - destruct Ho as ((qls & qt & lA & lN & lR & r & x & Rd & Hin & Hno & <-) & Ht).
    destruct (reading_record_in _ _ _ _ _ _ Rd r x Hin) as (_ & e & Hrec).
    left. rewrite (with_cursor_on v it r e _ (di_bytes _ Hd) Hrec Hsec).
    match goal with |- context [m_set_ttl t (v, ?c)] => set (cur := c) end.
    destruct (set_ttl_total v cur t qls qt lA lN lR r x Hd Rd Hin ltac:(discriminate) eq_refl) as (s2 & ->). eauto.
  - destruct Ho as ((qls & qt & lA & lN & lR & r & x & Rd & Hin & Hno & <-) & Hbn).
    destruct (reading_record_in _ _ _ _ _ _ Rd r x Hin) as (_ & e & Hrec).
    assert (He : e = rv_name_end r + 10 + rv_rdlen r) by (destruct Hrec as (_ & _ & _ & _ & _ & He & _); exact He).
    rewrite (with_cursor_on v it r e _ (di_bytes _ Hd) Hrec Hsec).
    match goal with |- context [m_set_raw_name nm (v, ?c)] => set (cur := c) end.
    destruct (set_raw_name_outcome nm v cur qls qt lA lN lR r x Hd Hbn Rd Hin Hno eq_refl eq_refl He Hsec) as [(s2 & ->)|(e2 & ->)]; [left; eauto|].
    right. exists e2. reflexivity.
  - destruct Ho as ((qls & qt & lA & lN & lR & r & x & Rd & Hin & Hno & <-) & Hbi).
    destruct (reading_record_in _ _ _ _ _ _ Rd r x Hin) as (_ & e & Hrec).
    rewrite (with_cursor_on v it r e _ (di_bytes _ Hd) Hrec Hsec).
    match goal with |- context [m_set_ip ip (v, ?c)] => set (cur := c) end.
    destruct (set_ip_outcome v cur ip qls qt lA lN lR r x Hd Rd Hin eq_refl eq_refl) as [(s2 & ->)|(e2 & ->)]; [left; eauto|].
    right. exists e2. reflexivity.
Qed.

Theorem hops3_tol_total : forall ops v it, dinv v -> is_response (pp_packet v) -> it_section it <> SQuestion -> ok_along_tol ops (v, it) ->
  exists s', run_hops3_tol ops (v, it) = (s', Ok tt) /\ dinv (fst s') /\ snd s' = it /\ is_response (pp_packet (fst s')).
Proof.
  induction ops as [|o ops IH]; intros v it Hd Hr Hsec Hok; cbn [run_hops3_tol].
  - exists (v, it). auto.
  - cbn [ok_along_tol fst] in Hok. destruct Hok as [Ho Hrest].
    destruct (hop3_outcome o v it Hd Hr Hsec Ho) as [(s1 & E)|(e & E)]; rewrite E in Hrest |- *.
    + destruct (hop3_keeps_dinv o v it s1 Hd Hr Hsec Ho E) as (Hd1 & Hit1 & Hr1).
      destruct s1 as [v1 it1]. cbn [fst snd] in *. subst it1. exact (IH v1 it Hd1 Hr1 Hsec Hrest).
    + exact (IH v it Hd Hr Hsec Hrest).
Qed.

(** ** From a freshly parsed response: the first insertion or recompute decompresses, then any history with cursor operations *)
Lemma first_hop_dinv : forall p v it o s1, bytes_ok p -> parse p = Ok v -> is_response p ->
  (o = H2Recompute \/ exists sec rx, o = H2Insert sec rx) -> hop2_ok o ->
  run_hop2 o (v, it) = (s1, Ok tt) -> dinv (fst s1) /\ snd s1 = it /\ is_response (pp_packet (fst s1)).
Proof.
  intros p v it o s1 Hb Hp Hr Hfirst Hok E.
  destruct (prologue_dinv p v it Hb Hp) as (dv & Hpro & Hd & Hrd).
  destruct Hfirst as [->|(sec & rx & ->)]; cbn [run_hop2] in E.
  - destruct (recompute_fresh p v it Hb Hp) as (q & v' & Hu & Hp' & Hpk' & Hrc). rewrite Hrc in E. inversion E; subst s1. cbn [fst snd].
    destruct (insert_prologue_fresh p v it Hb Hp) as (q2 & v2 & Hu2 & Hp2 & _ & Hpro2).
    rewrite Hu in Hu2. inversion Hu2; subst q2. rewrite Hp' in Hp2. inversion Hp2; subst v2.
    rewrite Hpro in Hpro2. inversion Hpro2; subst dv. auto.
  - assert (E' : m_insert_rr sec (plain_record rx) (dv, it) = (s1, Ok tt)).
    { unfold m_insert_rr in E |- *. unfold cbind in E |- *. rewrite Hpro in E.
      unfold insert_prologue, cbind, getv, cret. cbn [fst snd]. rewrite (di_mc _ Hd). exact E. }
    destruct Hok as [Hrx Hsec].
    destruct (insert_keeps_dinv dv it sec rx s1 Hd Hrx Hsec (fun _ => Hrd Hr) E') as (Hd1 & Hit1 & Hr1 & _). auto.
Qed.

Theorem fresh_history3_dinv : forall p v it o ops s1 s', bytes_ok p -> parse p = Ok v -> is_response p -> it_section it <> SQuestion ->
  (o = H2Recompute \/ exists sec rx, o = H2Insert sec rx) -> hop2_ok o ->
  run_hop2 o (v, it) = (s1, Ok tt) -> ok_along ops s1 -> run_hops3 ops s1 = (s', Ok tt) ->
  dinv (fst s') /\ snd s' = it /\ is_response (pp_packet (fst s')).
Proof.
  intros p v it o ops s1 s' Hb Hp Hr Hsec Hfirst Hok E Hal H.
  destruct (first_hop_dinv p v it o s1 Hb Hp Hr Hfirst Hok E) as (Hd1 & Hit1 & Hr1).
  destruct s1 as [v1 it1]. cbn [fst snd] in *. subst it1. exact (hops3_keep_dinv ops v1 it s' Hd1 Hr1 Hsec Hal H).
Qed.

Theorem fresh_history3_total : forall p v it o ops s1, bytes_ok p -> parse p = Ok v -> is_response p -> it_section it <> SQuestion ->
  (o = H2Recompute \/ exists sec rx, o = H2Insert sec rx) -> hop2_ok o ->
  run_hop2 o (v, it) = (s1, Ok tt) -> ok_along_tol ops s1 ->
  exists s', run_hops3_tol ops s1 = (s', Ok tt) /\ dinv (fst s') /\ snd s' = it /\ is_response (pp_packet (fst s')).
Proof.
  intros p v it o ops s1 Hb Hp Hr Hsec Hfirst Hok E Hal.
  destruct (first_hop_dinv p v it o s1 Hb Hp Hr Hfirst Hok E) as (Hd1 & Hit1 & Hr1).
  destruct s1 as [v1 it1]. cbn [fst snd] in *. subst it1. exact (hops3_tol_total ops v1 it Hd1 Hr1 Hsec Hal).
Qed.
