(** * Hoare-style reasoning for the [res] and [resc] monads.

    [hoare m Q]: the computation [m] does not panic, and if it returns [Ok a] then [Q a].
    ([Err] is always allowed: every Rust [Result::Err] is a legitimate outcome.) *)

From DV Require Import Model.Base.

Definition hoare {A} (m : res A) (Q : A -> Prop) : Prop :=
  match m with
  | Ok a => Q a
  | Err _ => True
  | Panic _ => False
  end.

Definition nopanic {A} (m : res A) : Prop := hoare m (fun _ => True).

Lemma hoare_ret {A} (a : A) (Q : A -> Prop) : Q a -> hoare (Ok a) Q.
Proof. exact (fun H => H). Qed.

Lemma hoare_err {A} e (Q : A -> Prop) : hoare (Err e) Q.
Proof. exact I. Qed.

Lemma hoare_bind {A B} (m : res A) (f : A -> res B) (Q : A -> Prop) (R : B -> Prop) :
  hoare m Q -> (forall a, Q a -> hoare (f a) R) -> hoare (bind m f) R.
Proof.
  destruct m as [a|e|s]; cbn; intros Hm Hf; [apply Hf; exact Hm | exact I | exact Hm].
Qed.

Lemma hoare_weaken {A} (m : res A) (Q R : A -> Prop) :
  hoare m Q -> (forall a, Q a -> R a) -> hoare m R.
Proof. destruct m; cbn; auto. Qed.

Lemma hoare_inv {A} (m : res A) (Q : A -> Prop) a : hoare m Q -> m = Ok a -> Q a.
Proof. intros H ->; exact H. Qed.

Lemma hoare_nopanic {A} (m : res A) (Q : A -> Prop) : hoare m Q -> nopanic m.
Proof. destruct m; cbn; auto. Qed.

Lemma nopanic_not {A} (m : res A) : nopanic m <-> (forall s, m <> Panic s).
Proof.
  destruct m; cbn; split; intros H; try exact I; try discriminate; try (intros; discriminate).
  - destruct H.
  - exact (H site eq_refl).
Qed.

Lemma nopanic_cases {A} (m : res A) : nopanic m <-> (exists a, m = Ok a) \/ (exists e, m = Err e).
Proof.
  destruct m; cbn; split; intros H; eauto.
  - destruct H.
  - destruct H as [[a H]|[e H]]; discriminate.
Qed.

(** Cost monad: the property is about the result; costs are treated separately. *)
Definition hoarec {A} (m : resc A) (Q : A -> Prop) : Prop := hoare (fst m) Q.

Lemma hoarec_lift {A} (m : res A) (Q : A -> Prop) : hoare m Q -> hoarec (lift m) Q.
Proof. exact (fun H => H). Qed.

Lemma hoarec_callc {A} (m : res A) k (Q : A -> Prop) : hoare m Q -> hoarec (callc m k) Q.
Proof. exact (fun H => H). Qed.

Lemma hoarec_tick {A} (m : resc A) (Q : A -> Prop) : hoarec m Q -> hoarec (tick m) Q.
Proof. exact (fun H => H). Qed.

Lemma hoarec_bind {A B} (m : resc A) (f : A -> resc B) (Q : A -> Prop) (R : B -> Prop) :
  hoarec m Q -> (forall a, Q a -> hoarec (f a) R) -> hoarec (bindc m f) R.
Proof.
  unfold hoarec, bindc. destruct m as [r k]; cbn [fst snd].
  destruct r as [a|e|s]; cbn; intros Hm Hf; [apply Hf; exact Hm | exact I | exact Hm].
Qed.

Lemma hoarec_weaken {A} (m : resc A) (Q R : A -> Prop) :
  hoarec m Q -> (forall a, Q a -> R a) -> hoarec m R.
Proof. apply hoare_weaken. Qed.

Lemma fst_bindc {A B} (m : resc A) (f : A -> resc B) :
  fst (bindc m f) = bind (fst m) (fun a => fst (f a)).
Proof. unfold bindc, bind. destruct (fst m); reflexivity. Qed.

(** ** Fuelled loops *)

Section Loop.
  Context {St A : Type}.
  Variable step : St -> step_res St (res A).
  Variable Inv : St -> Prop.
  Variable Q : A -> Prop.
  Variable measure : St -> nat.

  Hypothesis step_ok : forall s, Inv s ->
    match step s with
    | Done r => hoare r Q
    | Continue s' => Inv s' /\ measure s' < measure s
    end.

  Lemma run_loop_hoare : forall fuel s,
    Inv s -> measure s < fuel -> hoare (run_loop step fuel s) Q.
  Proof.
    induction fuel as [|fuel IH]; intros s Hi Hm; [lia|].
    cbn [run_loop]. pose proof (step_ok s Hi) as Hs.
    destruct (step s) as [s'|r]; [|exact Hs].
    destruct Hs as [Hi' Hlt]. apply IH; [exact Hi' | lia].
  Qed.

  Lemma loop_count_le : forall fuel s,
    Inv s -> loop_count step fuel s <= measure s + 1.
  Proof.
    induction fuel as [|fuel IH]; intros s Hi; cbn [loop_count]; [lia|].
    pose proof (step_ok s Hi) as Hs.
    destruct (step s) as [s'|r]; [|lia].
    destruct Hs as [Hi' Hlt]. specialize (IH s' Hi'). lia.
  Qed.
End Loop.

(** Partial correctness for any amount of fuel: an [Ok] result satisfies the postcondition
    (running out of fuel is [Panic OutOfFuel], not [Ok]). *)
Section LoopPartial.
  Context {St A : Type}.
  Variable step : St -> step_res St (res A).
  Variable Inv : St -> Prop.
  Variable Q : A -> Prop.
  Hypothesis step_ok : forall s, Inv s ->
    match step s with
    | Done r => hoare r Q
    | Continue s' => Inv s'
    end.

  Lemma run_loop_partial : forall fuel s a, Inv s -> run_loop step fuel s = Ok a -> Q a.
  Proof.
    induction fuel as [|fuel IH]; intros s a Hi Hr; cbn [run_loop] in Hr; [discriminate|].
    pose proof (step_ok s Hi) as Hs.
    destruct (step s) as [s'|r]; [eapply IH; eauto|].
    subst r. exact Hs.
  Qed.
End LoopPartial.

(** Same, when only [Ok] results matter (errors and panics are not excluded). *)
Definition okpost {A} (r : res A) (Q : A -> Prop) : Prop :=
  match r with Ok a => Q a | _ => True end.

Section LoopOk.
  Context {St A : Type}.
  Variable step : St -> step_res St (res A).
  Variable Inv : St -> Prop.
  Variable Q : A -> Prop.
  Hypothesis step_ok : forall s, Inv s ->
    match step s with
    | Done r => okpost r Q
    | Continue s' => Inv s'
    end.

  Lemma run_loop_okpost : forall fuel s a, Inv s -> run_loop step fuel s = Ok a -> Q a.
  Proof.
    induction fuel as [|fuel IH]; intros s a Hi Hr; cbn [run_loop] in Hr; [discriminate|].
    pose proof (step_ok s Hi) as Hs.
    destruct (step s) as [s'|r]; [eapply IH; eauto|].
    subst r. exact Hs.
  Qed.
End LoopOk.

Definition bytes_ok (p : bytes) : Prop := Forall (fun b => (b < 256)%N) p.

Lemma bytes_ok_nth p off b : bytes_ok p -> nth_error p off = Some b -> (b < 256)%N.
Proof.
  intros H Hn. unfold bytes_ok in H. rewrite Forall_forall in H.
  apply H. eapply nth_error_In; eauto.
Qed.

Lemma nth_error_some_lt {A} (l : list A) n : n < length l -> exists x, nth_error l n = Some x.
Proof.
  intros H. destruct (nth_error l n) eqn:E; [eauto|].
  apply nth_error_None in E. lia.
Qed.

Lemma byte_at_hoare p off site (Q : N -> Prop) :
  off < length p -> (forall b, nth_error p off = Some b -> Q b) -> hoare (byte_at p off site) Q.
Proof.
  intros Hl HQ. unfold byte_at. destruct (nth_error_some_lt p off Hl) as [b Hb].
  rewrite Hb. apply HQ; exact Hb.
Qed.

Lemma be16_at_hoare p off site :
  off + 1 < length p -> bytes_ok p -> hoare (be16_at p off site) (fun v => (v < 65536)%N).
Proof.
  intros Hl Hb. unfold be16_at.
  eapply hoare_bind; [apply byte_at_hoare with (Q := fun b => (b < 256)%N); [lia|] |].
  { intros b E; eapply bytes_ok_nth; eauto. }
  intros hi Hhi.
  eapply hoare_bind; [apply byte_at_hoare with (Q := fun b => (b < 256)%N); [lia|] |].
  { intros b E; eapply bytes_ok_nth; eauto. }
  intros lo Hlo. unfold hoare. cbv beta in *. lia.
Qed.

Lemma be16_at_nopanic p off site :
  off + 1 < length p -> nopanic (be16_at p off site).
Proof.
  intros Hl. unfold be16_at, nopanic.
  eapply hoare_bind; [apply byte_at_hoare with (Q := fun _ => True); [lia | auto] |].
  intros hi _.
  eapply hoare_bind; [apply byte_at_hoare with (Q := fun _ => True); [lia | auto] |].
  intros lo _. exact I.
Qed.
