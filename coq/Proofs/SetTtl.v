(** * The TTL setter changes the TTL of its record and nothing else a reader can see (C09).

    Stated on the declarative reading of a section ([records_at], Spec/RecordSpec.v): after
    [set_rr_ttl t] on the cursor of the k-th record, walking the section returns the same views as
    before except that the k-th one carries the TTL [t].

    The statement needs a hypothesis the code does not check: no owner name of the section is read
    through the four bytes being written ([name_reads], the footprint of a name).  A compression
    pointer may legally target a TTL field; the theorem is false there, and the implementation
    renames the later record (known finding data-pointer, findings/C09-data-pointer.json).  *)

From DV Require Import Model.Base Model.NameCheck Model.Parser Model.Header Model.Readers Model.Uncompress
  Model.Mutate Spec.NameSpec Spec.PacketSpec Spec.RecordSpec Proofs.ListLemmas Proofs.Hoare
  Proofs.HeaderBits Proofs.NameIff Proofs.ParserInv Proofs.ParseSound Proofs.ReadersAgree
  Proofs.ReadersLabels Proofs.QuestionSpec Proofs.WalkValues.
From Coq Require Import ZArith ZifyBool ZifyNat ZifyN.
Ltac Zify.zify_post_hook ::= Z.div_mod_to_equations.

(** ** The bytes a name is read through *)
Inductive name_reads (p : bytes) : nat -> nat -> Prop :=
| NRhere : forall off, name_reads p off off
| NRlabel : forall off len i, nth_error p off = Some len -> (1 <= len)%N -> (len <= 63)%N ->
    off < i <= off + N.to_nat len -> name_reads p off i
| NRnext : forall off len i, nth_error p off = Some len -> (1 <= len)%N -> (len <= 63)%N ->
    name_reads p (off + N.to_nat len + 1) i -> name_reads p off i
| NRptr : forall off hi, nth_error p off = Some hi -> N.land hi 192 = 192%N -> name_reads p off (off + 1)
| NRjump : forall off hi lo i, nth_error p off = Some hi -> N.land hi 192 = 192%N ->
    nth_error p (off + 1) = Some lo -> name_reads p (ptr_target hi lo) i -> name_reads p off i.

(** inversion principles, by the kind of byte the name starts with *)
Lemma reads_root p off i : nth_error p off = Some 0%N -> name_reads p off i -> i = off.
Proof.
  intros Hz H. inversion H; subst; try reflexivity;
    match goal with Hn : nth_error p off = Some ?x |- _ => rewrite Hz in Hn; inversion Hn; subst end;
    try lia; match goal with Hl : N.land 0 192 = 192%N |- _ => cbn in Hl; discriminate end.
Qed.

Lemma reads_label p off len i : nth_error p off = Some len -> (1 <= len)%N -> (len <= 63)%N ->
  name_reads p off i -> i = off \/ off < i <= off + N.to_nat len \/ name_reads p (off + N.to_nat len + 1) i.
Proof.
  intros Hl H1 H63 H. inversion H; subst; auto;
    match goal with Hn : nth_error p off = Some ?x |- _ => rewrite Hl in Hn; inversion Hn; subst end; auto;
    exfalso; match goal with Hp : N.land _ 192 = 192%N |- _ => pose proof (small_not_ptr _ H63) as Hs; rewrite Hp in Hs; discriminate end.
Qed.

Lemma reads_ptr p off hi lo i : nth_error p off = Some hi -> N.land hi 192 = 192%N -> nth_error p (off + 1) = Some lo ->
  name_reads p off i -> i = off \/ i = off + 1 \/ name_reads p (ptr_target hi lo) i.
Proof.
  intros Hh Hp Hl H. inversion H; subst; auto;
    match goal with Hn : nth_error p off = Some ?x |- _ => rewrite Hh in Hn; inversion Hn; subst end.
  - exfalso. match goal with H63 : (_ <= 63)%N |- _ => pose proof (small_not_ptr _ H63) as Hs; rewrite Hp in Hs; discriminate end.
  - exfalso. match goal with H63 : (_ <= 63)%N |- _ => pose proof (small_not_ptr _ H63) as Hs; rewrite Hp in Hs; discriminate end.
  - match goal with Hn : nth_error p (off + 1) = Some ?x |- _ => rewrite Hl in Hn; inversion Hn; subst end. auto.
Qed.

Lemma firstn_skipn_ext {A} (p p' : list A) a n :
  (forall j, j < n -> nth_error p' (a + j) = nth_error p (a + j)) ->
  firstn n (skipn a p') = firstn n (skipn a p).
Proof.
  intros H. apply nth_error_ext. intros j. destruct (Nat.lt_ge_cases j n) as [Hj|Hj].
  - rewrite !nth_error_firstn by exact Hj. rewrite !nth_error_skipn. apply H. exact Hj.
  - rewrite !nth_error_firstn_ge by exact Hj. reflexivity.
Qed.

Lemma name_at_ext p p' : length p' = length p ->
  forall off bar low hops budget ls e, name_at p off bar low hops budget ls e ->
  (forall i, name_reads p off i -> nth_error p' i = nth_error p i) ->
  name_at p' off bar low hops budget ls e.
Proof.
  intros Hlen. induction 1 as [off bar low hops budget Hlt Hz Hb
                 |off bar low hops budget len ls e Hlt Hlen' Hl1 Hl63 Hfit Hok Hbud Hrest IH
                 |off bar low hops budget hi lo tb ls e' Hlt Hhi Hptr Hlo Ht Htb Hnz Hrest IH]; intros Hext.
  - apply NRoot; [exact Hlt| |exact Hb]. rewrite (Hext off (NRhere p off)). exact Hz.
  - assert (Hlab : firstn (N.to_nat len) (skipn (off + 1) p') = firstn (N.to_nat len) (skipn (off + 1) p)).
    { apply firstn_skipn_ext. intros j Hj. apply Hext. eapply NRlabel; eauto. lia. }
    rewrite <- Hlab. eapply NLabel; eauto.
    + rewrite (Hext off (NRhere p off)). exact Hlen'.
    + lia.
    + rewrite Hlab. exact Hok.
    + apply IH. intros i Hi. apply Hext. eapply NRnext; eauto.
  - eapply NPtr with (tb := tb); eauto.
    + rewrite (Hext off (NRhere p off)). exact Hhi.
    + rewrite (Hext (off + 1) (NRptr p off hi Hhi Hptr)). exact Hlo.
    + rewrite (Hext (ptr_target hi lo)); [exact Htb|]. eapply NRjump; eauto. apply NRhere.
    + apply IH. intros i Hi. apply Hext. eapply NRjump; eauto.
Qed.

(** ** Walking a declaratively readable section (the walk lemma of WalkValues on [records_at]) *)
Definition rv_end (r : rec_view) : nat := rv_name_end r + 10 + rv_rdlen r.

Lemma record_at_end p r e : record_at p r e -> e = rv_end r /\ rv_off r < rv_name_end r /\ e <= length p.
Proof.
  intros (Hcn & _ & _ & _ & _ & Ho & Hl & _). destruct Hcn as [_ Hna]. apply name_at_end_gt in Hna.
  unfold rv_end. lia.
Qed.

Lemma records_at_span p : forall off l e, records_at p off l e -> off + 11 * length l <= e.
Proof.
  induction 1 as [off|r off1 l e Hr Hrest IH]; [cbn; lia|].
  apply record_at_end in Hr. cbn [length]. unfold rv_end in Hr. lia.
Qed.

Lemma records_at_nth p : forall off l e, records_at p off l e ->
  forall k r, nth_error l k = Some r -> off <= rv_off r /\ rv_end r <= e /\ exists e', record_at p r e'.
Proof.
  induction 1 as [off|r off1 l e Hr Hrest IH]; intros k r' Hk; [destruct k; discriminate|].
  pose proof (records_at_span _ _ _ _ Hrest) as Hsp. pose proof (record_at_end _ _ _ Hr) as (He & Hlt & _).
  destruct k as [|k]; cbn in Hk.
  - inversion Hk; subst r'. split; [lia|]. split; [lia|eauto].
  - destruct (IH k r' Hk) as (A & B & C). split; [unfold rv_end in *; lia|]. split; [exact B|exact C].
Qed.

Section WalkRecs.
  Variables (p : bytes) (v : ppacket).
  Hypothesis Hb : bytes_ok p.
  Hypothesis Hpk : pp_packet v = p.

  Lemma walk_views_recs : forall off l off', records_at p off l off' ->
    forall fuel it acc r0, length l < fuel ->
      record_at p r0 off -> it_offset it = Some (rv_off r0) -> it_name_end it = rv_name_end r0 ->
      it_offset_next it = off -> it_rrs_left it = N.of_nat (length l) ->
      walk_fold fuel (r_next_including_opt v) (collect_view v) (Some it) acc =
      Ok (acc ++ view_of p r0 :: map (view_of p) l).
  Proof.
    induction 1 as [off|r off1 l e Hr Hrest IH];
      intros fuel it acc r0 Hfuel Hr0 Hoff Hne Hnext Hleft; (destruct fuel as [|fuel]; [cbn in Hfuel; lia|]); cbn [walk_fold].
    - rewrite (collect_view_ok p v Hb Hpk r0 off it acc Hr0 Hoff Hne). cbn [bind].
      unfold r_next_including_opt. rewrite Hoff. cbn [bind]. rewrite Hleft. cbn [length N.of_nat N.eqb bind].
      rewrite walk_fold_None. reflexivity.
    - rewrite (collect_view_ok p v Hb Hpk r0 (rv_off r) it acc Hr0 Hoff Hne). cbn [bind].
      rewrite (next_on_record p v Hpk r off1 it (length l) Hr) by (try congruence; assumption). cbn [bind].
      match goal with |- context [walk_fold fuel _ _ (Some ?it1) _] => set (it' := it1) end.
      rewrite (IH fuel it' (acc ++ [view_of p r0]) r) by (try reflexivity; try exact Hr; cbn in Hfuel; lia).
      rewrite <- app_assoc. reflexivity.
  Qed.

  Lemma walk_views_section_recs sec off l off' count :
    records_at p off l off' -> off' <= length p -> count = N.of_nat (length l) ->
    (match sec with
     | SAnswer => hdr_ancount p = Ok count /\ pp_offset_answers v = (if (0 <? count)%N then Some off else None)
     | SNameServers => hdr_nscount p = Ok count /\ pp_offset_nameservers v = (if (0 <? count)%N then Some off else None)
     | SAdditional => hdr_arcount p = Ok count /\ pp_offset_additional v = (if (0 <? count)%N then Some off else None)
     | _ => False
     end) ->
    walk_views v sec = Ok (map (view_of p) l).
  Proof.
    intros Hrecs Hend Hcount Hsec. unfold walk_views.
    pose proof (records_at_span _ _ _ _ Hrecs) as Hspan.
    destruct l as [|r l].
    - cbn [length N.of_nat] in Hcount. rewrite Hcount in *.
      unfold r_next_including_opt. cbn [it_new it_offset it_section bind]. rewrite Hpk.
      destruct sec; try contradiction; destruct Hsec as [Hh _]; rewrite Hh; cbn [bind N.eqb]; rewrite walk_fold_None; reflexivity.
    - assert (Hinv : exists off1, record_at p r off1 /\ records_at p off1 l off' /\ off = rv_off r).
      { clear -Hrecs. inversion Hrecs. eauto. }
      destruct Hinv as (off1 & Hr & Hrest & Hoff).
      assert (Hpos : (0 <? count)%N = true) by (cbn [length] in Hcount; lia). rewrite Hpos in Hsec.
      rewrite (first_on_record p v Hpk r off1 sec count (length l) Hr) by (try (cbn [length] in Hcount; lia); rewrite <- Hoff; exact Hsec).
      cbn [bind].
      match goal with |- context [walk_fold _ _ _ (Some ?it1) _] => set (it' := it1) end.
      rewrite (walk_views_recs _ _ _ Hrest (walk_fuel (pp_packet v)) it' [] r); try reflexivity; try exact Hr.
      rewrite Hpk. unfold walk_fuel. cbn [length] in Hspan. lia.
  Qed.
End WalkRecs.

(** ** Stability of the reading of one record under a write elsewhere *)
Lemma u16_at_stable p p' off x : u16_at p off x ->
  nth_error p' off = nth_error p off -> nth_error p' (off + 1) = nth_error p (off + 1) -> u16_at p' off x.
Proof. intros (a & b & Ha & Hb & ->) E1 E2. exists a, b. rewrite E1, E2. auto. Qed.

Lemma u32_at_stable p p' off x : u32_at p off x ->
  (forall j, j < 4 -> nth_error p' (off + j) = nth_error p (off + j)) -> u32_at p' off x.
Proof.
  intros (a & b & c & d & Ha & Hb & Hc & Hd & ->) E. exists a, b, c, d.
  pose proof (E 0 ltac:(lia)) as E0. rewrite Nat.add_0_r in E0.
  rewrite E0, (E 1), (E 2), (E 3) by lia. auto.
Qed.

Section Stable.
  Variables (p p' : bytes) (lo hi : nat).
  Hypothesis Hlen : length p' = length p.
  Hypothesis Hsame : forall j, j < lo \/ hi <= j -> nth_error p' j = nth_error p j.

  Lemma cname_l_stable off ls e : cname_l p off ls e ->
    (forall i, name_reads p off i -> i < lo \/ hi <= i) -> cname_l p' off ls e.
  Proof.
    intros [Hlt Hna] Hfp. split; [lia|]. rewrite Hlen.
    eapply name_at_ext; [exact Hlen|exact Hna|]. intros i Hi. apply Hsame. apply Hfp. exact Hi.
  Qed.

  (** a record wholly before or after the written range, whose owner name is not read through it *)
  Lemma record_at_stable r e : record_at p r e ->
    (forall i, name_reads p (rv_off r) i -> i < lo \/ hi <= i) ->
    (hi <= rv_name_end r \/ e <= lo) ->
    record_at p' r e /\ rdata_of p' r = rdata_of p r.
  Proof.
    intros (Hcn & Ht & Hc & Httl & Hrl & Ho & Hl & HA & HAAAA) Hfp Hpos.
    assert (Hfix : forall j, rv_name_end r <= j < e -> nth_error p' j = nth_error p j) by (intros j Hj; apply Hsame; lia).
    split.
    - split; [apply cname_l_stable; assumption|].
      split; [eapply u16_at_stable; [exact Ht| |]; apply Hfix; lia|].
      split; [eapply u16_at_stable; [exact Hc| |]; apply Hfix; lia|].
      split; [eapply u32_at_stable; [exact Httl|]; intros j Hj; apply Hfix; lia|].
      split; [eapply u16_at_stable; [exact Hrl| |]; apply Hfix; lia|].
      split; [exact Ho|]. split; [lia|]. split; assumption.
    - unfold rdata_of. apply firstn_skipn_ext. intros j Hj. apply Hfix. lia.
  Qed.

  Lemma records_at_stable : forall off l e, records_at p off l e ->
    (forall r, In r l -> forall i, name_reads p (rv_off r) i -> i < lo \/ hi <= i) ->
    (hi <= off \/ e <= lo) ->
    records_at p' off l e /\ map (view_of p') l = map (view_of p) l.
  Proof.
    induction 1 as [off|r off1 l e Hr Hrest IH]; intros Hfp Hpos; [split; [constructor|reflexivity]|].
    pose proof (record_at_end _ _ _ Hr) as (He & Hlt & _).
    pose proof (records_at_span _ _ _ _ Hrest) as Hsp.
    destruct (record_at_stable r off1 Hr (Hfp r (or_introl eq_refl))) as [Hr' Hrd]; [lia|].
    destruct IH as [IH1 IH2]; [intros r' Hin; apply Hfp; right; exact Hin|unfold rv_end in *; lia|].
    split; [econstructor; eauto|]. cbn [map]. f_equal; [|exact IH2].
    unfold view_of. rewrite Hrd. reflexivity.
  Qed.
End Stable.

(** ** The write *)
Definition rv_with_ttl (r : rec_view) (t : N) : rec_view :=
  {| rv_off := rv_off r; rv_labels := rv_labels r; rv_name_end := rv_name_end r; rv_type := rv_type r;
     rv_class := rv_class r; rv_ttl := t; rv_rdlen := rv_rdlen r |}.

Fixpoint replace_nth {A} (l : list A) (k : nat) (x : A) : list A :=
  match l, k with
  | [], _ => []
  | _ :: l', O => x :: l'
  | y :: l', S k' => y :: replace_nth l' k' x
  end.

Lemma be32_bytes_value t : (t < 4294967296)%N ->
  let b := be32_bytes t in
  exists a b1 c d, b = [a; b1; c; d] /\ t = (((a * 256 + b1) * 256 + c) * 256 + d)%N /\
                   (a < 256)%N /\ (b1 < 256)%N /\ (c < 256)%N /\ (d < 256)%N.
Proof.
  intros Ht. unfold be32_bytes. eexists _, _, _, _. split; [reflexivity|]. lia.
Qed.

Section Write.
  Variables (p p' : bytes) (t : N).
  Hypothesis Ht : (t < 4294967296)%N.

  Lemma record_ttl_written r e :
    record_at p r e ->
    write_at p (rv_name_end r + 4) (be32_bytes t) 683 = Ok p' ->
    (forall i, name_reads p (rv_off r) i -> i < rv_name_end r + 4 \/ rv_name_end r + 8 <= i) ->
    record_at p' (rv_with_ttl r t) e /\ rdata_of p' (rv_with_ttl r t) = rdata_of p r.
  Proof.
    intros (Hcn & Hty & Hc & Httl & Hrl & Ho & Hl & HA & HAAAA) Hw Hfp.
    assert (Hlen : length p' = length p) by (eapply write_at_length; eauto).
    assert (Hsame : forall j, j < rv_name_end r + 4 \/ rv_name_end r + 8 <= j -> nth_error p' j = nth_error p j).
    { intros j Hj. eapply write_at_other; [exact Hw|]. cbn [length be32_bytes]. lia. }
    split.
    - unfold record_at. cbn [rv_with_ttl rv_off rv_labels rv_name_end rv_type rv_class rv_ttl rv_rdlen].
      split; [eapply cname_l_stable; eauto|].
      split; [eapply u16_at_stable; [exact Hty| |]; apply Hsame; lia|].
      split; [eapply u16_at_stable; [exact Hc| |]; apply Hsame; lia|].
      split.
      { destruct (be32_bytes_value t Ht) as (a & b & c & d & Hbytes & Hval & _).
        exists a, b, c, d.
        pose proof (write_at_inside _ _ _ _ _ 0 Hw ltac:(cbn; lia)) as W0.
        pose proof (write_at_inside _ _ _ _ _ 1 Hw ltac:(cbn; lia)) as W1.
        pose proof (write_at_inside _ _ _ _ _ 2 Hw ltac:(cbn; lia)) as W2.
        pose proof (write_at_inside _ _ _ _ _ 3 Hw ltac:(cbn; lia)) as W3.
        rewrite Hbytes in W0, W1, W2, W3. cbn [nth_error] in W0, W1, W2, W3. rewrite Nat.add_0_r in W0.
        replace (rv_name_end r + 4 + 1) with (rv_name_end r + 4 + 1) by lia.
        repeat split; try assumption. }
      split; [eapply u16_at_stable; [exact Hrl| |]; apply Hsame; lia|].
      split; [exact Ho|]. split; [lia|]. split; assumption.
    - unfold rdata_of. cbn [rv_with_ttl rv_rdlen rv_name_end]. apply firstn_skipn_ext. intros j Hj. apply Hsame. lia.
  Qed.

  (** the whole section *)
  Lemma records_ttl_written : forall off l e, records_at p off l e ->
    forall k r, nth_error l k = Some r ->
    write_at p (rv_name_end r + 4) (be32_bytes t) 683 = Ok p' ->
    (forall r', In r' l -> forall i, name_reads p (rv_off r') i -> i < rv_name_end r + 4 \/ rv_name_end r + 8 <= i) ->
    records_at p' off (replace_nth l k (rv_with_ttl r t)) e /\
    map (view_of p') (replace_nth l k (rv_with_ttl r t)) = map (view_of p) (replace_nth l k (rv_with_ttl r t)).
  Proof.
    induction 1 as [off|r0 off1 l e Hr Hrest IH]; intros k r Hk Hw Hfp; [destruct k; discriminate|].
    assert (Hlen : length p' = length p) by (eapply write_at_length; eauto).
    assert (Hsame : forall j, j < rv_name_end r + 4 \/ rv_name_end r + 8 <= j -> nth_error p' j = nth_error p j).
    { intros j Hj. eapply write_at_other; [exact Hw|]. cbn [length be32_bytes]. lia. }
    pose proof (record_at_end _ _ _ Hr) as (He & Hlt & _).
    destruct k as [|k]; cbn [nth_error] in Hk; cbn [replace_nth].
    - inversion Hk; subst r0.
      destruct (record_ttl_written r off1 Hr Hw (Hfp r (or_introl eq_refl))) as [Hr' Hrd].
      destruct (records_at_stable p p' (rv_name_end r + 4) (rv_name_end r + 8) Hlen Hsame off1 l e Hrest) as [Hl' Hv'].
      { intros r' Hin. apply Hfp. right. exact Hin. }
      { left. unfold rv_end in He. lia. }
      split.
      + change (rv_off r) with (rv_off (rv_with_ttl r t)). econstructor; eauto.
      + cbn [map]. f_equal; [|exact Hv']. unfold view_of. rewrite Hrd.
        cbn [rv_with_ttl rv_off rv_labels rv_type rv_class rv_ttl rv_rdlen]. unfold rdata_of. reflexivity.
    - destruct (records_at_nth _ _ _ _ Hrest k r Hk) as (Hge & _ & _).
      destruct (record_at_stable p p' (rv_name_end r + 4) (rv_name_end r + 8) Hlen Hsame r0 off1 Hr (Hfp r0 (or_introl eq_refl))) as [Hr' Hrd].
      { right. destruct (records_at_nth _ _ _ _ Hrest k r Hk) as (_ & _ & (e' & Hre)). apply record_at_end in Hre. lia. }
      destruct (IH k r Hk Hw) as [IH1 IH2]; [intros r' Hin; apply Hfp; right; exact Hin|].
      split; [econstructor; eauto|]. cbn [map]. f_equal; [|exact IH2]. unfold view_of. rewrite Hrd. reflexivity.
  Qed.
End Write.

Lemma bytes_ok_write p off w site p' : bytes_ok p -> bytes_ok w -> write_at p off w site = Ok p' -> bytes_ok p'.
Proof.
  unfold write_at, bytes_ok. intros Hp Hw. destruct (off + length w <=? length p); [|discriminate].
  intros H; inversion H; subst. apply Forall_app. split; [apply Forall_firstn; exact Hp|].
  apply Forall_app. split; [exact Hw|apply Forall_skipn; exact Hp].
Qed.

(** ** The operation on the object, and what a reader then sees *)
Theorem set_ttl_effect : forall p v sec count off l e k r t it,
  bytes_ok p -> pp_packet v = p -> 12 <= off ->
  records_at p off l e -> e <= length p -> count = N.of_nat (length l) ->
  (match sec with
   | SAnswer => hdr_ancount p = Ok count /\ pp_offset_answers v = (if (0 <? count)%N then Some off else None)
   | SNameServers => hdr_nscount p = Ok count /\ pp_offset_nameservers v = (if (0 <? count)%N then Some off else None)
   | SAdditional => hdr_arcount p = Ok count /\ pp_offset_additional v = (if (0 <? count)%N then Some off else None)
   | _ => False
   end) ->
  nth_error l k = Some r -> it_offset it = Some (rv_off r) -> it_name_end it = rv_name_end r ->
  (t < 4294967296)%N ->
  (forall r', In r' l -> forall i, name_reads p (rv_off r') i -> i < rv_name_end r + 4 \/ rv_name_end r + 8 <= i) ->
  exists v', m_set_ttl t (v, it) = ((v', it), Ok tt) /\
    only_bytes_changed p (pp_packet v') (rv_name_end r + 4) (rv_name_end r + 8) /\
    walk_views v sec = Ok (map (view_of p) l) /\
    walk_views v' sec = Ok (map (view_of p) (replace_nth l k (rv_with_ttl r t))).
Proof.
  intros p v sec count off l e k r t it Hb Hpk H12 Hrecs Hend Hcount Hsec Hk Hoff Hne Ht Hfp.
  destruct (records_at_nth _ _ _ _ Hrecs k r Hk) as (Hge & Hre & (e' & Hr)).
  pose proof (record_at_end _ _ _ Hr) as (He' & Hlt & Hle').
  assert (Hw : exists p', write_at p (rv_name_end r + 4) (be32_bytes t) 683 = Ok p').
  { unfold write_at. cbn [length be32_bytes]. destruct (rv_name_end r + 4 + 4 <=? length p) eqn:E; [eauto|unfold rv_end in *; lia]. }
  destruct Hw as (p' & Hw).
  exists (pp_with_packet v p'). split.
  { unfold m_set_ttl, cbind, getv, getit, clift, putv. cbn [fst snd]. rewrite Hoff. cbn [unwrap].
    rewrite Hpk, Hne. unfold slice_from. destruct (rv_name_end r <=? length p) eqn:E; [|unfold rv_end in *; lia].
    unfold DNS_RR_TTL_OFFSET. rewrite Hw. reflexivity. }
  assert (Hlen : length p' = length p) by (eapply write_at_length; eauto).
  assert (Hsame : forall j, j < rv_name_end r + 4 \/ rv_name_end r + 8 <= j -> nth_error p' j = nth_error p j).
  { intros j Hj. eapply write_at_other; [exact Hw|]. cbn [length be32_bytes]. lia. }
  split; [split; [exact Hlen|exact Hsame]|].
  split; [eapply walk_views_section_recs; eauto|].
  destruct (records_ttl_written p p' t Ht off l e Hrecs k r Hk Hw Hfp) as [Hrecs' Hviews].
  rewrite <- Hviews.
  assert (Hb' : bytes_ok p').
  { eapply bytes_ok_write; [exact Hb| |exact Hw]. destruct (be32_bytes_value t Ht) as (a & b & c & d & -> & _ & A & B & C & D).
    repeat constructor; assumption. }
  assert (Hhdr : forall o site, o + 1 < 12 -> be16_at p' o site = be16_at p o site).
  { intros o site Ho. unfold be16_at, byte_at. rewrite !Hsame by lia. reflexivity. }
  eapply (walk_views_section_recs p' (pp_with_packet v p') Hb' eq_refl sec off _ e count Hrecs'); [lia| |].
  - rewrite Hcount. clear. revert k. induction l as [|x l IH]; intros [|k]; cbn [replace_nth length]; try reflexivity.
    f_equal. specialize (IH k). lia.
  - unfold hdr_ancount, hdr_nscount, hdr_arcount in *. cbn [pp_with_packet pp_offset_answers pp_offset_nameservers pp_offset_additional].
    destruct sec; try contradiction; rewrite Hhdr by lia; exact Hsec.
Qed.
