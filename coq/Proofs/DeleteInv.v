(** * Deleting a record of a decompressed object (C08, C09, C11).

    [lists_dinv]: an object whose packet is a [build] over chains, whose section offsets are the
    ones that [build] has, whose EDNS offset is where the first OPT record of the additional list
    sits and whose EDNS fields are those of a parse that had the same OPT record, satisfies [dinv].
    [delete_keeps_dinv]: from a state satisfying [dinv], with the cursor on a non-OPT record of a
    record section, a successful [delete] leaves such an object over the lists with exactly that
    record removed. *)

From DV Require Import Model.Base Model.NameCheck Model.Parser Model.Header Model.Readers Model.Uncompress Model.Mutate
  Spec.NameSpec Spec.PacketSpec Spec.RecordSpec Spec.PlainSpec Proofs.ListLemmas Proofs.Hoare Proofs.ParserInv Proofs.ParseSound
  Proofs.ParseComplete Proofs.ReadersLabels Proofs.HeaderBits Proofs.QuestionSpec Proofs.WalkValues Proofs.SetTtl Proofs.WalkSkip Proofs.UncompressSpec Proofs.PlainWf
  Proofs.InsertLemmas Proofs.EdnsFacts Proofs.EdnsPos Proofs.EdnsPlain Proofs.InsertSpec Proofs.HeaderInv Proofs.Chain Proofs.SetTtlInv.
From Coq Require Import ZifyBool ZifyNat ZifyN.

Definition edns_off_of (o3 : nat) (R : list (rec_view * rd_view)) : option nat :=
  match opt_rel R with Some (k, _) => Some (o3 + k + 11) | None => None end.

Definition opt_rec_of (R : list (rec_view * rd_view)) : option (rec_view * rd_view) :=
  match opt_rel R with Some (_, y) => Some y | None => None end.

Theorem lists_dinv : forall v' H w qls qt A Nn R t1 t2 t3 f0 q0 w0 A0 Nn0 R0 u1 u2 u3,
  (* the new object *)
  let q := build H qls qt A Nn R in
  let o1 := 12 + length (wire_of_labels qls) + 4 in
  let o2 := o1 + length (cat A) in
  let o3 := o2 + length (cat Nn) in
  pp_packet v' = q -> bytes_ok q -> pp_maybe_compressed v' = false ->
  length H = 12 -> u16_at H 2 w -> u16_at H 4 1%N ->
  u16_at H 6 (N.of_nat (length A)) -> u16_at H 8 (N.of_nat (length Nn)) -> u16_at H 10 (N.of_nat (length R)) ->
  (N.land w 32768 <> 32768%N -> length A = 0 /\ length Nn = 0) ->
  Forall label_ok qls -> length (wire_of_labels qls) <= 255 -> bytes_ok (wire_of_labels qls) -> (qt < 65536)%N ->
  chain SAnswer false A t1 -> chain SNameServers t1 Nn t2 -> chain SAdditional t2 R t3 ->
  pp_offset_question v' = Some 12 ->
  pp_offset_answers v' = (if 0 <? length A then Some o1 else None) ->
  pp_offset_nameservers v' = (if 0 <? length Nn then Some o2 else None) ->
  pp_offset_additional v' = (if 0 <? length R then Some o3 else None) ->
  pp_offset_edns v' = edns_off_of o3 R ->
  (* the EDNS fields are those of an accepted packet with the same OPT record *)
  bytes_ok q0 -> parse q0 = Ok f0 -> plain_parts q0 w0 qls qt A0 Nn0 R0 u1 u2 u3 -> opt_rec_of R = opt_rec_of R0 ->
  pp_edns_count v' = pp_edns_count f0 -> pp_ext_rcode v' = pp_ext_rcode f0 -> pp_edns_version v' = pp_edns_version f0 ->
  pp_ext_flags v' = pp_ext_flags f0 -> pp_max_payload v' = pp_max_payload f0 ->
  dinv v' /\ reading q qls qt (place o1 A) (place o2 Nn) (place o3 R).
Proof.
  intros v' H w qls qt A Nn R t1 t2 t3 f0 q0 w0 A0 Nn0 R0 u1 u2 u3 q o1 o2 o3 Hpk Hbq Hmc HH U2 U4 U6 U8 U10 Hg Hqok Hq255 Hqb Hqt CA CN CR
         Voq Voa Von Vor Voe Hb0 Hf0 P0 Eopt Vc Vrc Vver Vxf Vmp.
  pose proof (chain_sec_ctx _ _ _ _ CA) as SA. pose proof (chain_sec_ctx _ _ _ _ CN) as SN. pose proof (chain_sec_ctx _ _ _ _ CR) as SR.
  pose proof (build_parts H qls qt w A Nn R t1 t2 t3 HH U2 U4 U6 U8 U10 Hg Hqok Hq255 Hqb Hqt SA SN SR) as P. fold q in P.
  assert (HbH : bytes_ok H).
  { unfold q, build in Hbq. unfold bytes_ok in *. apply Forall_app in Hbq. apply Hbq. }
  destruct (build_wf H qls qt w A Nn R t1 t2 t3 HH HbH U2 U4 U6 U8 U10 Hg Hqok Hq255 Hqb Hqt SA SN SR) as (_ & Wz & _ & Rz).
  fold q o1 o2 o3 in Wz, Rz. split; [|exact Rz].
  destruct (parse_complete q Hbq Wz) as (f & Hf).
  constructor; rewrite ?Hpk; [exact Hmc|exact Hbq|exact (build_fixed q f _ _ _ _ _ _ _ _ _ Hbq Hf P)|].
  exists f. split; [exact Hf|].
  destruct (parse_offsets q f _ _ _ _ _ _ _ _ _ Hbq Hf P) as (Oa & On & Or). fold o1 o2 o3 in Oa, On, Or.
  destruct (parse_shape _ _ Hbq Hf) as (? & ? & ? & ? & ? & ? & ? & Ff).
  destruct (build_summary q f _ _ _ _ _ _ _ _ _ Hbq Hf P) as (Sz & Iz). fold o1 o2 o3 in Sz, Iz.
  destruct (build_summary q0 f0 _ _ _ _ _ _ _ _ _ Hb0 Hf0 P0) as (S0 & I0).
  assert (Esum : pp_offset_edns f = edns_off_of o3 R /\ pp_edns_count f0 = pp_edns_count f /\ pp_ext_rcode f0 = pp_ext_rcode f /\
                 pp_edns_version f0 = pp_edns_version f /\ pp_ext_flags f0 = pp_ext_flags f /\ pp_max_payload f0 = pp_max_payload f).
  { unfold edns_off_of, opt_rec_of in *. destruct (opt_rel R) as [[k y]|] eqn:E1, (opt_rel R0) as [[k0 y0]|] eqn:E0; try discriminate.
    - inversion Eopt; subst y0.
      destruct (I0 k0 y eq_refl) as (Hoy & Hx0 & e0' & Hr0). destruct (Iz k y eq_refl) as (_ & Hxz & ez' & Hrz).
      destruct (summary_same_opt _ _ _ _ _ _ _ _ _ Hb0 Hbq S0 Sz Hr0 Hrz Hx0 Hxz ltac:(rewrite is_opt_rv_at; exact Hoy) ltac:(rewrite is_opt_rv_at; exact Hoy) eq_refl eq_refl)
        as (E1' & E2 & E3 & E4 & E5).
      cbn [summary_of rv_at rv_off] in Sz. destruct Sz as (Oz & _). rewrite Oz. repeat split; congruence.
    - cbn [summary_of] in S0, Sz. destruct S0 as (_ & C1 & C2 & C3 & C4 & C5). destruct Sz as (Oz & D1 & D2 & D3 & D4 & D5).
      repeat split; congruence. }
  destruct Esum as (E0 & E1 & E2 & E3 & E4 & E5).
  assert (Hpkf : pp_packet f = q) by exact (pf_packet _ _ _ _ _ _ _ _ _ Ff).
  unfold same_view. rewrite Hpk, Hpkf, Voq, Voa, Von, Vor, Voe, Vc, Vrc, Vver, Vxf, Vmp, (pf_oq _ _ _ _ _ _ _ _ _ Ff), Oa, On, Or, E0.
  repeat split; assumption.
Qed.

(** ** What [delete] does to an uncompressed object *)

Lemma cur_sec_same v v' it it' : it_offset it' = it_offset it ->
  pp_offset_question v' = pp_offset_question v -> pp_offset_answers v' = pp_offset_answers v ->
  pp_offset_nameservers v' = pp_offset_nameservers v -> pp_offset_additional v' = pp_offset_additional v ->
  it_current_section v' it' = it_current_section v it.
Proof. intros E0 E1 E2 E3 E4. unfold it_current_section. rewrite E0, E1, E2, E3, E4. reflexivity. Qed.

Lemma delete_view v it s' off k sec :
  pp_maybe_compressed v = false -> it_offset it = Some off -> it_offset_next it = off + k -> 0 < k ->
  off + k <= length (pp_packet v) ->
  it_current_section v it = Ok sec -> sec <> SQuestion ->
  (if section_eqb sec SAdditional then t <- it_rr_type v it ;; Ok (t =? TYPE_OPT)%N else Ok false) = Ok false ->
  m_delete (v, it) = (s', Ok tt) ->
  let q := pp_packet v in
  let p1 := firstn off q ++ skipn (off + k) q in
  exists oed oar ons p2 c,
    (if opt_lt (Some off) (pp_offset_edns v) then shift_opt_wrap (pp_offset_edns v) false k else Ok (pp_offset_edns v)) = Ok oed /\
    (if section_eqb sec SNameServers || section_eqb sec SAnswer then shift_opt (pp_offset_additional v) false k 657 else Ok (pp_offset_additional v)) = Ok oar /\
    (if section_eqb sec SAnswer then shift_opt (pp_offset_nameservers v) false k 658 else Ok (pp_offset_nameservers v)) = Ok ons /\
    rrcount_dec p1 sec = Ok (p2, c) /\
    let v3 := pp_update v p2 (pp_offset_question v) (pp_offset_answers v) ons oar oed false (pp_cached v) in
    (if (c =? 0)%N then pp_clear_section v3 sec else Ok v3) = Ok (fst s') /\ it_offset (snd s') = None.
Proof.
  intros Hmc Eoff Enext Hk Hlen Esec Hnq Hopt Hdel q p1.
  unfold m_delete, cbind, getv, getit, clift, putv, putit, cret in Hdel. cbn [fst snd] in Hdel.
  rewrite Eoff, Esec, Hopt, Hmc in Hdel. cbn [fst snd unwrap] in Hdel. rewrite ?Eoff, ?Enext in Hdel. cbn [unwrap] in Hdel.
  unfold usub at 1 in Hdel. replace (off <=? off + k) with true in Hdel by lia. replace (off + k - off) with k in Hdel by lia.
  replace (k =? 0) with false in Hdel by lia.
  unfold m_resize_rr, m_set_offset_next, cbind, getv, getit, clift, putv, putit, cret in Hdel. cbn [fst snd] in Hdel.
  replace (k =? 0) with false in Hdel by lia. cbn [fst snd] in Hdel. rewrite ?Eoff, ?Enext in Hdel. fold q in Hdel.
  replace (length q <? k) with false in Hdel by (unfold q; lia). replace (length q <? off + k) with false in Hdel by (unfold q; lia).
  cbn [fst snd pp_with_packet pp_packet] in Hdel. fold p1 in Hdel.
  unfold usub at 1 in Hdel. replace (k <=? off + k) with true in Hdel by lia. replace (off + k - k) with off in Hdel by lia.
  assert (Lp1 : length p1 = length q - k).
  { unfold p1. rewrite app_length, firstn_length, skipn_length. unfold q. lia. }
  replace (length p1 <? off) with false in Hdel by (unfold q in *; lia).
  cbn [fst snd it_set it_offset it_offset_next it_name_end] in Hdel.
  match type of Hdel with context [it_current_section ?a ?b] => rewrite (cur_sec_same v a it b) in Hdel by (try reflexivity; cbn [it_set it_offset]; congruence) end.
  rewrite Esec in Hdel. cbn [pp_with_packet pp_offset_edns pp_offset_additional pp_offset_nameservers pp_offset_answers pp_offset_question pp_cached pp_maybe_compressed] in Hdel.
  destruct (if opt_lt (Some off) (pp_offset_edns v) then shift_opt_wrap (pp_offset_edns v) false k else Ok (pp_offset_edns v)) as [oed| |] eqn:Eoed;
    try (inversion Hdel; fail).
  assert (Eq : section_eqb sec SQuestion = false) by (destruct sec; try reflexivity; congruence).
  rewrite Eq, !orb_false_r in Hdel.
  destruct (if section_eqb sec SNameServers || section_eqb sec SAnswer then shift_opt (pp_offset_additional v) false k 657 else Ok (pp_offset_additional v))
    as [oar| |] eqn:Eoar; try (inversion Hdel; fail).
  destruct (if section_eqb sec SAnswer then shift_opt (pp_offset_nameservers v) false k 658 else Ok (pp_offset_nameservers v))
    as [ons| |] eqn:Eons; try (inversion Hdel; fail).
  cbn [fst snd pp_update pp_packet it_set it_offset it_offset_next it_name_end] in Hdel. rewrite Eoff in Hdel. cbn [unwrap] in Hdel.
  replace (length p1 <? off) with false in Hdel by (unfold q in *; lia).
  cbn [fst snd pp_update pp_packet it_set it_offset it_offset_next it_name_end] in Hdel.
  destruct (rrcount_dec p1 sec) as [[p2 c]| |] eqn:Edec; try (inversion Hdel; fail).
  cbn [fst snd pp_with_packet pp_packet pp_offset_question pp_offset_answers pp_offset_nameservers pp_offset_additional pp_offset_edns
       pp_edns_count pp_ext_rcode pp_edns_version pp_ext_flags pp_maybe_compressed pp_max_payload pp_cached] in Hdel.
  exists oed, oar, ons, p2, c. repeat (split; [reflexivity|]).
  destruct (c =? 0)%N.
  - match type of Hdel with context [pp_clear_section ?z sec] => destruct (pp_clear_section z sec) as [v4| |] eqn:Ecl end; try (inversion Hdel; fail).
    inversion Hdel; subst s'. cbn [fst snd it_offset]. split; [|reflexivity]. rewrite <- Ecl. unfold pp_update. rewrite Hmc. reflexivity.
  - inversion Hdel; subst s'. cbn [fst snd it_offset]. split; [|reflexivity]. unfold pp_update. rewrite Hmc. reflexivity.
Qed.

Lemma u16_at_lt p i x : bytes_ok p -> u16_at p i x -> (x < 65536)%N.
Proof.
  intros Hb (hi & lo & Hhi & Hlo & ->). pose proof (bytes_ok_nth _ _ _ Hb Hhi). pose proof (bytes_ok_nth _ _ _ Hb Hlo). lia.
Qed.

Lemma rrcount_dec_facts q sec p2 c' : bytes_ok q -> rrcount_dec q sec = Ok (p2, c') ->
  sec = SAnswer \/ sec = SNameServers \/ sec = SAdditional ->
  exists c, u16_at q (sec_co sec) c /\ c <> 0%N /\ c' = (c - 1)%N /\ u16_at p2 (sec_co sec) (c - 1) /\ length p2 = length q /\
            (forall i, i < sec_co sec \/ sec_co sec + 2 <= i -> nth_error p2 i = nth_error q i) /\ bytes_ok p2.
Proof.
  intros Hb H Hsec. unfold rrcount_dec in H.
  assert (Hco : count_offset sec = Ok (sec_co sec)) by (destruct Hsec as [->|[->| ->]]; reflexivity).
  rewrite Hco in H. cbn [bind] in H.
  destruct (be16_at q (sec_co sec) 614) as [c| |] eqn:Ec; cbn [bind] in H; try discriminate.
  destruct (c =? 0)%N eqn:E0; [discriminate|].
  destruct (write_at q (sec_co sec) (be16_bytes (c - 1)) 616) as [p'| |] eqn:Ew; cbn [bind] in H; try discriminate.
  inversion H; subst p' c'. clear H. apply be16_at_u16 in Ec. pose proof (u16_at_lt _ _ _ Hb Ec) as Hlt.
  exists c. split; [exact Ec|]. split; [lia|]. split; [reflexivity|].
  split; [eapply write_at_u16; [exact Ew|lia]|]. split; [exact (write_at_length _ _ _ _ _ Ew)|].
  split; [intros i Hi; eapply write_at_nth; [exact Ew|]; cbn [length be16_bytes]; exact Hi|].
  unfold write_at in Ew. destruct (sec_co sec + length (be16_bytes (c - 1)) <=? length q); [|discriminate].
  injection Ew as <-. apply bytes_ok_app; [apply Forall_firstn; exact Hb|].
  change (bytes_ok (be16_bytes (c - 1) ++ skipn (sec_co sec + 2) q)). apply bytes_ok_app; [apply bytes_ok_be16|apply Forall_skipn; exact Hb].
Qed.

Definition off_ge (off : nat) (o : option nat) : bool := match o with Some x => x <=? off | None => false end.

Lemma cur_sec_of v it off : it_offset it = Some off -> pp_offset_question v = Some 12 -> 12 <= off ->
  it_current_section v it = Ok (if off_ge off (pp_offset_additional v) then SAdditional
                                else if off_ge off (pp_offset_nameservers v) then SNameServers
                                else if off_ge off (pp_offset_answers v) then SAnswer else SQuestion).
Proof.
  intros Eoff Eq Hle. unfold it_current_section, opt_ge, opt_lt, is_some, off_ge. rewrite Eoff, Eq.
  replace (off <? 12) with false by lia.
  destruct (pp_offset_answers v) as [a|], (pp_offset_nameservers v) as [n|], (pp_offset_additional v) as [r|]; cbn [andb negb];
    repeat match goal with |- context [?x <? ?y] => destruct (Nat.ltb_spec x y) end;
    repeat match goal with |- context [?x <=? ?y] => destruct (Nat.leb_spec x y) end; cbn [andb negb]; try reflexivity; lia.
Qed.

(** the bytes: cutting a record out of a packet and decrementing a count *)
Lemma cut_bytes H B1 rc B2 sec p2 c' : length H = 12 -> bytes_ok (H ++ B1 ++ B2) -> 0 < length rc ->
  let q := H ++ B1 ++ rc ++ B2 in
  let off := 12 + length B1 in
  sec = SAnswer \/ sec = SNameServers \/ sec = SAdditional ->
  rrcount_dec (firstn off q ++ skipn (off + length rc) q) sec = Ok (p2, c') ->
  exists H2 c, p2 = H2 ++ B1 ++ B2 /\ length H2 = 12 /\ bytes_ok p2 /\ u16_at H (sec_co sec) c /\ c <> 0%N /\ c' = (c - 1)%N /\
    u16_at H2 (sec_co sec) (c - 1) /\
    (forall i x, i + 1 < 12 -> (i + 1 < sec_co sec \/ sec_co sec + 2 <= i) -> u16_at H i x -> u16_at H2 i x).
Proof.
  intros HH Hb Hrc q off Hsec Hdec.
  assert (Ep1 : firstn off q ++ skipn (off + length rc) q = H ++ B1 ++ B2).
  { unfold q, off. replace (H ++ B1 ++ rc ++ B2) with ((H ++ B1) ++ rc ++ B2) by (rewrite <- app_assoc; reflexivity).
    replace (12 + length B1) with (length (H ++ B1)) by (rewrite app_length; lia).
    rewrite firstn_app_exact. rewrite skipn_app, skipn_all2 by lia. cbn [app].
    replace (length (H ++ B1) + length rc - length (H ++ B1)) with (length rc) by lia. rewrite skipn_app_exact. rewrite <- app_assoc. reflexivity. }
  rewrite Ep1 in Hdec.
  destruct (rrcount_dec_facts _ _ _ _ Hb Hdec Hsec) as (c & Hc & Hc0 & -> & Hc1 & Hl & Hsame & Hb2).
  assert (Hco : sec_co sec + 1 < 12) by (destruct Hsec as [->|[->| ->]]; cbn; lia).
  exists (firstn 12 p2), c.
  assert (LH2 : length (firstn 12 p2) = 12) by (rewrite firstn_length, Hl, !app_length; lia).
  split.
  { rewrite <- (firstn_skipn 12 p2) at 1. f_equal.
    replace (B1 ++ B2) with (skipn 12 (H ++ B1 ++ B2)) by (rewrite <- HH; apply skipn_app_exact).
    apply list_eq_nth; [rewrite !skipn_length; lia|]. intros i Hi. rewrite !nth_error_skipn. apply Hsame. right. lia. }
  split; [exact LH2|]. split; [exact Hb2|].
  split. { destruct Hc as (a & b & Ha & Hb' & E). exists a, b. rewrite nth_error_app1 in Ha, Hb' by lia. auto. }
  split; [exact Hc0|]. split; [reflexivity|]. split; [apply u16_at_firstn; [lia|exact Hc1]|].
  intros i x Hi Hout Hx. apply u16_at_firstn; [exact Hi|]. eapply u16_at_same; [apply Hsame; lia|apply Hsame; lia|].
  apply u16_at_head0; [exact HH|exact Hi|exact Hx].
Qed.

(** the lists behind a state that satisfies the invariant, and the offsets the view holds *)
Lemma dinv_parts v : dinv v ->
  exists f w qls qt A Nn R s1 s2 s3 t1 t2 t3,
    let q := pp_packet v in
    let o1 := 12 + length (wire_of_labels qls) + 4 in
    let o2 := o1 + length (cat A) in
    let o3 := o2 + length (cat Nn) in
    parse q = Ok f /\ same_view v f /\ plain_parts q w qls qt A Nn R s1 s2 s3 /\
    chain SAnswer false A t1 /\ chain SNameServers t1 Nn t2 /\ chain SAdditional t2 R t3 /\
    length q = o3 + length (cat R) /\ reading q qls qt (place o1 A) (place o2 Nn) (place o3 R) /\
    pp_offset_question v = Some 12 /\
    pp_offset_answers v = (if 0 <? length A then Some o1 else None) /\
    pp_offset_nameservers v = (if 0 <? length Nn then Some o2 else None) /\
    pp_offset_additional v = (if 0 <? length R then Some o3 else None) /\
    pp_offset_edns v = edns_off_of o3 R.
Proof.
  intros [Hmc Hb Hfix (f & Hf & Hsv)]. set (q := pp_packet v) in *.
  destruct (plain_parts_of q f Hb Hf Hfix) as (w & qls & qt & A & Nn & R & s1 & s2 & s3 & P).
  destruct (parts_build_wf q w qls qt A Nn R s1 s2 s3 Hb P) as (Lq & Rq).
  destruct (parts_chains q f w qls qt A Nn R s1 s2 s3 Hb Hf P) as (t1 & t2 & t3 & CA & CN & CR).
  destruct (parse_offsets q f _ _ _ _ _ _ _ _ _ Hb Hf P) as (Oa & On & Or).
  destruct (parse_shape _ _ Hb Hf) as (? & ? & ? & ? & ? & ? & ? & Ff).
  destruct (build_summary q f _ _ _ _ _ _ _ _ _ Hb Hf P) as (Sz & _).
  exists f, w, qls, qt, A, Nn, R, s1, s2, s3, t1, t2, t3. cbv zeta.
  pose proof Hsv as (_ & Voq & Voa & Von & Vor & Voe & _).
  repeat (split; [assumption|]).
  rewrite Voq, Voa, Von, Vor, Voe, (pf_oq _ _ _ _ _ _ _ _ _ Ff), Oa, On, Or.
  repeat (split; [reflexivity|]).
  unfold edns_off_of. destruct (opt_rel R) as [[k y]|]; cbn [summary_of rv_at rv_off] in Sz; destruct Sz as (Oz & _); exact Oz.
Qed.

Lemma opt_rel_app a b : opt_rel (a ++ b) =
  match opt_rel a with
  | Some z => Some z
  | None => match opt_rel b with Some (k, y) => Some (length (cat a) + k, y) | None => None end
  end.
Proof.
  induction a as [|rx a IH]; cbn [app opt_rel].
  - destruct (opt_rel b) as [[k y]|]; reflexivity.
  - destruct (is_opt (fst rx)); [reflexivity|]. rewrite IH, cat_cons, app_length.
    destruct (opt_rel a) as [[k y]|]; [reflexivity|]. destruct (opt_rel b) as [[k y]|]; [|reflexivity]. f_equal. f_equal. lia.
Qed.

Lemma opt_rel_bound a k y : opt_rel a = Some (k, y) -> k + 11 <= length (cat a).
Proof.
  revert k. induction a as [|rx a IH]; intros k H; cbn [opt_rel] in H; [discriminate|]. rewrite cat_cons, app_length.
  destruct (is_opt (fst rx)) eqn:E.
  - inversion H; subst. rewrite plain_record_length.
    assert (1 <= length (wire_of_labels (rv_labels (fst y)))) by (unfold wire_of_labels; rewrite app_length; cbn [length]; lia). lia.
  - destruct (opt_rel a) as [[k' y']|]; [|discriminate]. inversion H; subst. specialize (IH _ eq_refl). lia.
Qed.

Theorem delete_answer : forall v it s' f w qls qt A1 r0 x A2 Nn R s1 s2 s3 t1 t2 t3,
  let q := pp_packet v in
  let A := A1 ++ (r0, x) :: A2 in
  let o1 := 12 + length (wire_of_labels qls) + 4 in
  let o2 := o1 + length (cat A) in
  let o3 := o2 + length (cat Nn) in
  let off := o1 + length (cat A1) in
  let k := length (plain_record (r0, x)) in
  dinv v -> parse q = Ok f -> same_view v f -> plain_parts q w qls qt A Nn R s1 s2 s3 ->
  chain SAnswer false A t1 -> chain SNameServers t1 Nn t2 -> chain SAdditional t2 R t3 ->
  pp_offset_question v = Some 12 ->
  pp_offset_answers v = (if 0 <? length A then Some o1 else None) ->
  pp_offset_nameservers v = (if 0 <? length Nn then Some o2 else None) ->
  pp_offset_additional v = (if 0 <? length R then Some o3 else None) ->
  pp_offset_edns v = edns_off_of o3 R ->
  is_opt r0 = false -> it_offset it = Some off -> it_offset_next it = off + k ->
  m_delete (v, it) = (s', Ok tt) ->
  dinv (fst s') /\ it_offset (snd s') = None /\
  reading (pp_packet (fst s')) qls qt (place o1 (A1 ++ A2)) (place (o1 + length (cat (A1 ++ A2))) Nn)
          (place (o1 + length (cat (A1 ++ A2)) + length (cat Nn)) R) /\
  (forall w0, u16_at q 2 w0 -> u16_at (pp_packet (fst s')) 2 w0).
Proof.
  intros v it s' f w qls qt A1 r0 x A2 Nn R s1 s2 s3 t1 t2 t3 q A o1 o2 o3 off k Hd Hf Hsv P CA CN CR Voq Voa Von Vor Voe Hno Eoff Enext Hdel.
  pose proof Hd as [Hmc Hb Hfix _]. fold q in Hb, Hfix.
  pose proof P as [Peq P12 Pw Pqd Pan Pns Par Pgate Pqok Pq255 Pqb Pqt PCA PCN PCR].
  set (H := firstn 12 q) in *. set (Qb := plain_question qls qt CLASS_IN) in *.
  assert (HH : length H = 12) by (unfold H; rewrite firstn_length; lia).
  assert (LQb : length Qb = length (wire_of_labels qls) + 4) by (unfold Qb, plain_question; rewrite !app_length; cbn [length be16_bytes]; lia).
  set (rc := plain_record (r0, x)) in *. set (B1 := Qb ++ cat A1). set (B2 := cat A2 ++ cat Nn ++ cat R).
  assert (Eq : q = H ++ B1 ++ rc ++ B2).
  { rewrite Peq at 1. unfold build, A, B1, B2. fold Qb. rewrite cat_app, cat_cons. fold rc. rewrite <- !app_assoc. reflexivity. }
  assert (Hk : 0 < k) by (unfold k, rc; rewrite plain_record_length; lia).
  assert (LB1 : 12 + length B1 = off) by (unfold B1, off, o1; rewrite app_length, LQb; lia).
  assert (LA : length (cat A) = length (cat A1) + k + length (cat A2)) by (unfold A, k; rewrite cat_app, cat_cons, !app_length; fold rc; lia).
  assert (Lq : length q = o3 + length (cat R)).
  { rewrite Eq. unfold B1, B2. rewrite !app_length, HH, LQb. fold k. unfold o3, o2, o1. lia. }
  assert (LenA : length A = length A1 + length A2 + 1) by (unfold A; rewrite app_length; cbn [length]; lia).
  (* the section *)
  assert (Esec : it_current_section v it = Ok SAnswer).
  { rewrite (cur_sec_of v it off Eoff Voq ltac:(unfold off, o1; lia)). rewrite Voa, Von, Vor.
    replace (0 <? length A) with true by lia.
    destruct (0 <? length Nn), (0 <? length R); cbn [off_ge];
      repeat match goal with |- context [?a <=? ?b] => destruct (Nat.leb_spec a b) end; try reflexivity; unfold off, o3, o2 in *; lia. }
  destruct (delete_view v it s' off k SAnswer Hmc Eoff Enext Hk ltac:(fold q; unfold off, o3, o2, o1 in *; lia) Esec ltac:(discriminate) eq_refl Hdel)
    as (oed & oar & ons & p2 & c & Eoed & Eoar & Eons & Edec & Efin & Hit).
  fold q in Edec. cbn [section_eqb orb] in Eoar, Eons.
  assert (Hb12 : bytes_ok (H ++ B1 ++ B2)).
  { rewrite Eq in Hb. unfold bytes_ok in *. rewrite !Forall_app in *. tauto. }
  rewrite Eq in Edec. rewrite <- LB1 in Edec.
  destruct (cut_bytes H B1 rc B2 SAnswer p2 c HH Hb12 Hk ltac:(auto) Edec) as (H2 & c0 & Ep2 & LH2 & Hb2 & Hc0 & Hc00 & Ec & Hc1 & Hfld).
  cbn [sec_co] in Hc0, Hc1, Hfld.
  assert (Ec0 : c0 = N.of_nat (length A)).
  { eapply u16_at_fun; [exact Hc0|]. apply u16_at_firstn; [lia|exact Pan]. }
  assert (Ec' : c = N.of_nat (length (A1 ++ A2))) by (rewrite Ec, Ec0, LenA, app_length; lia).
  (* the offsets after *)
  assert (Eons' : ons = if 0 <? length Nn then Some (o1 + length (cat (A1 ++ A2))) else None).
  { rewrite Von in Eons. destruct (0 <? length Nn); cbn [shift_opt] in Eons; [|inversion Eons; reflexivity].
    unfold usub in Eons. replace (k <=? o2) with true in Eons by (unfold o2; lia). unfold bind in Eons.
    assert (E2 : o2 - k = o1 + length (cat (A1 ++ A2))) by (rewrite cat_app, app_length; unfold o2; lia). rewrite <- E2. congruence. }
  assert (Eoar' : oar = if 0 <? length R then Some (o1 + length (cat (A1 ++ A2)) + length (cat Nn)) else None).
  { rewrite Vor in Eoar. destruct (0 <? length R); cbn [shift_opt] in Eoar; [|inversion Eoar; reflexivity].
    unfold usub in Eoar. replace (k <=? o3) with true in Eoar by (unfold o3, o2; lia). unfold bind in Eoar.
    assert (E2 : o3 - k = o1 + length (cat (A1 ++ A2)) + length (cat Nn)) by (rewrite cat_app, app_length; unfold o3, o2; lia). rewrite <- E2. congruence. }
  assert (Eoed' : oed = edns_off_of (o1 + length (cat (A1 ++ A2)) + length (cat Nn)) R).
  { rewrite Voe in Eoed. unfold edns_off_of in *. destruct (opt_rel R) as [[kk y]|]; cbn [opt_lt] in Eoed; [|inversion Eoed; reflexivity].
    replace (off <? o3 + kk + 11) with true in Eoed by (unfold off, o3, o2; lia). cbn [shift_opt_wrap] in Eoed.
    replace (k <=? o3 + kk + 11) with true in Eoed by (unfold o3, o2; lia). 
    assert (E2 : o3 + kk + 11 - k = o1 + length (cat (A1 ++ A2)) + length (cat Nn) + kk + 11) by (rewrite cat_app, app_length; unfold o3, o2; lia).
    rewrite <- E2. congruence. }
  (* the header *)
  assert (U2 : u16_at H2 2 w) by (apply Hfld; [lia|lia|apply u16_at_firstn; [lia|exact Pw]]).
  assert (U4 : u16_at H2 4 1%N) by (apply Hfld; [lia|lia|apply u16_at_firstn; [lia|exact Pqd]]).
  assert (U6 : u16_at H2 6 (N.of_nat (length (A1 ++ A2)))) by (rewrite <- Ec', Ec; exact Hc1).
  assert (U8 : u16_at H2 8 (N.of_nat (length Nn))) by (apply Hfld; [lia|lia|apply u16_at_firstn; [lia|exact Pns]]).
  assert (U10 : u16_at H2 10 (N.of_nat (length R))) by (apply Hfld; [lia|lia|apply u16_at_firstn; [lia|exact Par]]).
  assert (Ebuild : p2 = build H2 qls qt (A1 ++ A2) Nn R).
  { rewrite Ep2. unfold build, B1, B2. fold Qb. rewrite cat_app, <- !app_assoc. reflexivity. }
  assert (CA' : chain SAnswer false (A1 ++ A2) t1) by exact (chain_remove _ _ _ _ _ _ CA Hno).
  pose proof Hsv as (_ & _ & _ & _ & _ & _ & Vc & Vrc & Vver & Vxf & Vmp).
  assert (Hg' : N.land w 32768 <> 32768%N -> length (A1 ++ A2) = 0 /\ length Nn = 0).
  { intros Hn. destruct (Pgate Hn). lia. }
  assert (Hview : pp_packet (fst s') = p2 /\ pp_maybe_compressed (fst s') = false /\ pp_offset_question (fst s') = Some 12 /\
                  pp_offset_answers (fst s') = (if 0 <? length (A1 ++ A2) then Some o1 else None) /\
                  pp_offset_nameservers (fst s') = ons /\ pp_offset_additional (fst s') = oar /\ pp_offset_edns (fst s') = oed /\
                  pp_edns_count (fst s') = pp_edns_count v /\ pp_ext_rcode (fst s') = pp_ext_rcode v /\ pp_edns_version (fst s') = pp_edns_version v /\
                  pp_ext_flags (fst s') = pp_ext_flags v /\ pp_max_payload (fst s') = pp_max_payload v).
  { destruct (c =? 0)%N eqn:E0; cbn [pp_clear_section] in Efin; inversion Efin as [Ev]; cbn [pp_update pp_packet pp_maybe_compressed pp_offset_question
      pp_offset_answers pp_offset_nameservers pp_offset_additional pp_offset_edns pp_edns_count pp_ext_rcode pp_edns_version pp_ext_flags pp_max_payload];
      rewrite ?Voq, ?Voa; repeat (split; [reflexivity|]); try reflexivity.
    - replace (0 <? length (A1 ++ A2)) with false by lia. repeat (split; [reflexivity|]). reflexivity.
    - replace (0 <? length (A1 ++ A2)) with true by lia. replace (0 <? length A) with true by lia. repeat (split; [reflexivity|]). reflexivity. }
  destruct Hview as (Wpk & Wmc & Woq & Woa & Won & Wor & Woe & Wc & Wrc & Wver & Wxf & Wmp).
  destruct (lists_dinv (fst s') H2 w qls qt (A1 ++ A2) Nn R t1 t2 t3 f q w A Nn R s1 s2 s3) as (Hd' & Rd'); try assumption; try congruence.
  - rewrite Won. exact Eons'.
  - rewrite Wor. exact Eoar'.
  - rewrite Woe. exact Eoed'.
  - split; [exact Hd'|]. split; [exact Hit|]. rewrite Wpk, Ebuild. split; [exact Rd'|].
    intros w0 Hw0. rewrite (u16_at_fun _ _ _ _ Hw0 Pw). unfold build. apply u16_at_head0; [exact LH2|lia|exact U2].
Qed.

Theorem delete_nameserver : forall v it s' f w qls qt A N1 r0 x N2 R s1 s2 s3 t1 t2 t3,
  let q := pp_packet v in
  let Nn := N1 ++ (r0, x) :: N2 in
  let o1 := 12 + length (wire_of_labels qls) + 4 in
  let o2 := o1 + length (cat A) in
  let o3 := o2 + length (cat Nn) in
  let off := o2 + length (cat N1) in
  let k := length (plain_record (r0, x)) in
  dinv v -> parse q = Ok f -> same_view v f -> plain_parts q w qls qt A Nn R s1 s2 s3 ->
  chain SAnswer false A t1 -> chain SNameServers t1 Nn t2 -> chain SAdditional t2 R t3 ->
  pp_offset_question v = Some 12 ->
  pp_offset_answers v = (if 0 <? length A then Some o1 else None) ->
  pp_offset_nameservers v = (if 0 <? length Nn then Some o2 else None) ->
  pp_offset_additional v = (if 0 <? length R then Some o3 else None) ->
  pp_offset_edns v = edns_off_of o3 R ->
  is_opt r0 = false -> it_offset it = Some off -> it_offset_next it = off + k ->
  m_delete (v, it) = (s', Ok tt) ->
  dinv (fst s') /\ it_offset (snd s') = None /\
  reading (pp_packet (fst s')) qls qt (place o1 A) (place o2 (N1 ++ N2)) (place (o2 + length (cat (N1 ++ N2))) R) /\
  (forall w0, u16_at q 2 w0 -> u16_at (pp_packet (fst s')) 2 w0).
Proof.
  intros v it s' f w qls qt A N1 r0 x N2 R s1 s2 s3 t1 t2 t3 q Nn o1 o2 o3 off k Hd Hf Hsv P CA CN CR Voq Voa Von Vor Voe Hno Eoff Enext Hdel.
  pose proof Hd as [Hmc Hb Hfix _]. fold q in Hb, Hfix.
  pose proof P as [Peq P12 Pw Pqd Pan Pns Par Pgate Pqok Pq255 Pqb Pqt PCA PCN PCR].
  set (H := firstn 12 q) in *. set (Qb := plain_question qls qt CLASS_IN) in *.
  assert (HH : length H = 12) by (unfold H; rewrite firstn_length; lia).
  assert (LQb : length Qb = length (wire_of_labels qls) + 4) by (unfold Qb, plain_question; rewrite !app_length; cbn [length be16_bytes]; lia).
  set (rc := plain_record (r0, x)) in *. set (B1 := Qb ++ cat A ++ cat N1). set (B2 := cat N2 ++ cat R).
  assert (Eq : q = H ++ B1 ++ rc ++ B2).
  { rewrite Peq at 1. unfold build, Nn, B1, B2. fold Qb. rewrite cat_app, cat_cons. fold rc. rewrite <- !app_assoc. reflexivity. }
  assert (Hk : 0 < k) by (unfold k, rc; rewrite plain_record_length; lia).
  assert (LB1 : 12 + length B1 = off) by (unfold B1, off, o2, o1; rewrite !app_length, LQb; lia).
  assert (LA : length (cat Nn) = length (cat N1) + k + length (cat N2)) by (unfold Nn, k; rewrite cat_app, cat_cons, !app_length; fold rc; lia).
  assert (Lq : length q = o3 + length (cat R)).
  { rewrite Eq. unfold B1, B2. rewrite !app_length, HH, LQb. fold k. unfold o3, o2, o1. lia. }
  assert (LenA : length Nn = length N1 + length N2 + 1) by (unfold Nn; rewrite app_length; cbn [length]; lia).
  (* the section *)
  assert (Esec : it_current_section v it = Ok SNameServers).
  { rewrite (cur_sec_of v it off Eoff Voq ltac:(unfold off, o2, o1; lia)). rewrite Voa, Von, Vor.
    replace (0 <? length Nn) with true by lia.
    destruct (0 <? length A), (0 <? length R); cbn [off_ge];
      repeat match goal with |- context [?a <=? ?b] => destruct (Nat.leb_spec a b) end; try reflexivity; unfold off, o3, o2 in *; lia. }
  destruct (delete_view v it s' off k SNameServers Hmc Eoff Enext Hk ltac:(fold q; unfold off, o3, o2, o1 in *; lia) Esec ltac:(discriminate) eq_refl Hdel)
    as (oed & oar & ons & p2 & c & Eoed & Eoar & Eons & Edec & Efin & Hit).
  fold q in Edec. cbn [section_eqb orb] in Eoar, Eons.
  assert (Hb12 : bytes_ok (H ++ B1 ++ B2)).
  { rewrite Eq in Hb. unfold bytes_ok in *. rewrite !Forall_app in *. tauto. }
  rewrite Eq in Edec. rewrite <- LB1 in Edec.
  destruct (cut_bytes H B1 rc B2 SNameServers p2 c HH Hb12 Hk ltac:(auto) Edec) as (H2 & c0 & Ep2 & LH2 & Hb2 & Hc0 & Hc00 & Ec & Hc1 & Hfld).
  cbn [sec_co] in Hc0, Hc1, Hfld.
  assert (Ec0 : c0 = N.of_nat (length Nn)).
  { eapply u16_at_fun; [exact Hc0|]. apply u16_at_firstn; [lia|exact Pns]. }
  assert (Ec' : c = N.of_nat (length (N1 ++ N2))) by (rewrite Ec, Ec0, LenA, app_length; lia).
  (* the offsets after *)
  assert (Eons' : ons = pp_offset_nameservers v) by congruence.
  assert (Eoar' : oar = if 0 <? length R then Some (o2 + length (cat (N1 ++ N2))) else None).
  { rewrite Vor in Eoar. destruct (0 <? length R); cbn [shift_opt] in Eoar; [|inversion Eoar; reflexivity].
    unfold usub in Eoar. replace (k <=? o3) with true in Eoar by (unfold o3, o2; lia). unfold bind in Eoar.
    assert (E2 : o3 - k = o2 + length (cat (N1 ++ N2))) by (rewrite cat_app, app_length; unfold o3; lia). rewrite <- E2. congruence. }
  assert (Eoed' : oed = edns_off_of (o2 + length (cat (N1 ++ N2))) R).
  { rewrite Voe in Eoed. unfold edns_off_of in *. destruct (opt_rel R) as [[kk y]|]; cbn [opt_lt] in Eoed; [|inversion Eoed; reflexivity].
    replace (off <? o3 + kk + 11) with true in Eoed by (unfold off, o3; lia). cbn [shift_opt_wrap] in Eoed.
    replace (k <=? o3 + kk + 11) with true in Eoed by (unfold o3; lia).
    assert (E2 : o3 + kk + 11 - k = o2 + length (cat (N1 ++ N2)) + kk + 11) by (rewrite cat_app, app_length; unfold o3; lia).
    rewrite <- E2. congruence. }
  (* the header *)
  assert (U2 : u16_at H2 2 w) by (apply Hfld; [lia|lia|apply u16_at_firstn; [lia|exact Pw]]).
  assert (U4 : u16_at H2 4 1%N) by (apply Hfld; [lia|lia|apply u16_at_firstn; [lia|exact Pqd]]).
  assert (U6 : u16_at H2 6 (N.of_nat (length A))) by (apply Hfld; [lia|lia|apply u16_at_firstn; [lia|exact Pan]]).
  assert (U8 : u16_at H2 8 (N.of_nat (length (N1 ++ N2)))) by (rewrite <- Ec', Ec; exact Hc1).
  assert (U10 : u16_at H2 10 (N.of_nat (length R))) by (apply Hfld; [lia|lia|apply u16_at_firstn; [lia|exact Par]]).
  assert (Ebuild : p2 = build H2 qls qt A (N1 ++ N2) R).
  { rewrite Ep2. unfold build, B1, B2. fold Qb. rewrite cat_app, <- !app_assoc. reflexivity. }
  assert (CN' : chain SNameServers t1 (N1 ++ N2) t2) by exact (chain_remove _ _ _ _ _ _ CN Hno).
  pose proof Hsv as (_ & _ & _ & _ & _ & _ & Vc & Vrc & Vver & Vxf & Vmp).
  assert (Hg' : N.land w 32768 <> 32768%N -> length A = 0 /\ length (N1 ++ N2) = 0).
  { intros Hn. destruct (Pgate Hn). lia. }
  assert (Hview : pp_packet (fst s') = p2 /\ pp_maybe_compressed (fst s') = false /\ pp_offset_question (fst s') = Some 12 /\
                  pp_offset_answers (fst s') = pp_offset_answers v /\
                  pp_offset_nameservers (fst s') = (if 0 <? length (N1 ++ N2) then Some o2 else None) /\ pp_offset_additional (fst s') = oar /\ pp_offset_edns (fst s') = oed /\
                  pp_edns_count (fst s') = pp_edns_count v /\ pp_ext_rcode (fst s') = pp_ext_rcode v /\ pp_edns_version (fst s') = pp_edns_version v /\
                  pp_ext_flags (fst s') = pp_ext_flags v /\ pp_max_payload (fst s') = pp_max_payload v).
  { destruct (c =? 0)%N eqn:E0; cbn [pp_clear_section] in Efin; inversion Efin as [Ev]; cbn [pp_update pp_packet pp_maybe_compressed pp_offset_question
      pp_offset_answers pp_offset_nameservers pp_offset_additional pp_offset_edns pp_edns_count pp_ext_rcode pp_edns_version pp_ext_flags pp_max_payload];
      rewrite ?Voq, ?Eons', ?Von; repeat (split; [reflexivity|]); try reflexivity.
    - replace (0 <? length (N1 ++ N2)) with false by lia. repeat (split; [reflexivity|]). reflexivity.
    - replace (0 <? length (N1 ++ N2)) with true by lia. replace (0 <? length Nn) with true by lia. repeat (split; [reflexivity|]). reflexivity. }
  destruct Hview as (Wpk & Wmc & Woq & Woa & Won & Wor & Woe & Wc & Wrc & Wver & Wxf & Wmp).
  destruct (lists_dinv (fst s') H2 w qls qt A (N1 ++ N2) R t1 t2 t3 f q w A Nn R s1 s2 s3) as (Hd' & Rd'); try assumption; try congruence.
  - rewrite Woa. exact Voa.
  - rewrite Wor. exact Eoar'.
  - rewrite Woe. exact Eoed'.
  - split; [exact Hd'|]. split; [exact Hit|]. rewrite Wpk, Ebuild. split; [exact Rd'|].
    intros w0 Hw0. rewrite (u16_at_fun _ _ _ _ Hw0 Pw). unfold build. apply u16_at_head0; [exact LH2|lia|exact U2].
Qed.

Lemma opt_rel_remove R1 y R2 : is_opt (fst y) = false ->
  opt_rec_of (R1 ++ R2) = opt_rec_of (R1 ++ y :: R2) /\
  match opt_rel R1 with
  | Some z => opt_rel (R1 ++ y :: R2) = Some z /\ opt_rel (R1 ++ R2) = Some z
  | None => match opt_rel R2 with
            | Some (k2, y2) => opt_rel (R1 ++ y :: R2) = Some (length (cat R1) + (length (plain_record y) + k2), y2) /\
                               opt_rel (R1 ++ R2) = Some (length (cat R1) + k2, y2)
            | None => opt_rel (R1 ++ y :: R2) = None /\ opt_rel (R1 ++ R2) = None
            end
  end.
Proof.
  intros Hno. unfold opt_rec_of. rewrite !opt_rel_app. cbn [opt_rel]. rewrite Hno.
  destruct (opt_rel R1) as [[k1 y1]|]; [auto|]. destruct (opt_rel R2) as [[k2 y2]|]; auto.
Qed.

Theorem delete_additional : forall v it s' f w qls qt A Nn R1 r0 x R2 s1 s2 s3 t1 t2 t3,
  let q := pp_packet v in
  let R := R1 ++ (r0, x) :: R2 in
  let o1 := 12 + length (wire_of_labels qls) + 4 in
  let o2 := o1 + length (cat A) in
  let o3 := o2 + length (cat Nn) in
  let off := o3 + length (cat R1) in
  let k := length (plain_record (r0, x)) in
  dinv v -> parse q = Ok f -> same_view v f -> plain_parts q w qls qt A Nn R s1 s2 s3 ->
  chain SAnswer false A t1 -> chain SNameServers t1 Nn t2 -> chain SAdditional t2 R t3 ->
  pp_offset_question v = Some 12 ->
  pp_offset_answers v = (if 0 <? length A then Some o1 else None) ->
  pp_offset_nameservers v = (if 0 <? length Nn then Some o2 else None) ->
  pp_offset_additional v = (if 0 <? length R then Some o3 else None) ->
  pp_offset_edns v = edns_off_of o3 R ->
  is_opt r0 = false -> it_offset it = Some off -> it_offset_next it = off + k ->
  it_name_end it = off + length (wire_of_labels (rv_labels r0)) ->
  m_delete (v, it) = (s', Ok tt) ->
  dinv (fst s') /\ it_offset (snd s') = None /\
  reading (pp_packet (fst s')) qls qt (place o1 A) (place o2 Nn) (place o3 (R1 ++ R2)) /\
  (forall w0, u16_at q 2 w0 -> u16_at (pp_packet (fst s')) 2 w0).
Proof.
  intros v it s' f w qls qt A Nn R1 r0 x R2 s1 s2 s3 t1 t2 t3 q R o1 o2 o3 off k Hd Hf Hsv P CA CN CR Voq Voa Von Vor Voe Hno Eoff Enext Ene Hdel.
  pose proof Hd as [Hmc Hb Hfix _]. fold q in Hb, Hfix.
  pose proof P as [Peq P12 Pw Pqd Pan Pns Par Pgate Pqok Pq255 Pqb Pqt PCA PCN PCR].
  set (H := firstn 12 q) in *. set (Qb := plain_question qls qt CLASS_IN) in *.
  assert (HH : length H = 12) by (unfold H; rewrite firstn_length; lia).
  assert (LQb : length Qb = length (wire_of_labels qls) + 4) by (unfold Qb, plain_question; rewrite !app_length; cbn [length be16_bytes]; lia).
  set (rc := plain_record (r0, x)) in *. set (B1 := Qb ++ cat A ++ cat Nn ++ cat R1). set (B2 := cat R2).
  assert (Eq : q = H ++ B1 ++ rc ++ B2).
  { rewrite Peq at 1. unfold build, R, B1, B2. fold Qb. rewrite cat_app, cat_cons. fold rc. rewrite <- !app_assoc. reflexivity. }
  assert (Hk : 0 < k) by (unfold k, rc; rewrite plain_record_length; lia).
  assert (LB1 : 12 + length B1 = off) by (unfold B1, off, o3, o2, o1; rewrite !app_length, LQb; lia).
  assert (LA : length (cat R) = length (cat R1) + k + length (cat R2)) by (unfold R, k; rewrite cat_app, cat_cons, !app_length; fold rc; lia).
  assert (Lq : length q = o3 + length (cat R)).
  { rewrite Eq. unfold B1, B2. rewrite !app_length, HH, LQb. fold k. unfold o3, o2, o1. lia. }
  assert (LenA : length R = length R1 + length R2 + 1) by (unfold R; rewrite app_length; cbn [length]; lia).
  (* the section *)
  assert (Esec : it_current_section v it = Ok SAdditional).
  { rewrite (cur_sec_of v it off Eoff Voq ltac:(unfold off, o3, o2, o1; lia)). rewrite Voa, Von, Vor.
    replace (0 <? length R) with true by lia.
    destruct (0 <? length A), (0 <? length Nn); cbn [off_ge];
      repeat match goal with |- context [?a <=? ?b] => destruct (Nat.leb_spec a b) end; try reflexivity; unfold off, o3, o2 in *; lia. }
  assert (Hopt : (if section_eqb SAdditional SAdditional then t <- it_rr_type v it ;; Ok (t =? TYPE_OPT)%N else Ok false) = Ok false).
  { cbn [section_eqb].
    destruct (parts_build_wf q w qls qt A Nn R s1 s2 s3 Hb P) as (_ & Rq). fold o1 o2 o3 in Rq.
    destruct (reading_record_in _ _ _ _ _ _ Rq (rv_at r0 x off) x) as (_ & e0 & Hr0).
    { apply in_or_app. right. apply in_or_app. right. unfold R. rewrite place_split. apply in_or_app. right. left. reflexivity. }
    rewrite (it_rr_type_ok q v eq_refl _ e0 it Hr0 Eoff Ene). cbn [bind rv_at rv_type]. unfold is_opt in Hno. rewrite Hno. reflexivity. }
  destruct (delete_view v it s' off k SAdditional Hmc Eoff Enext Hk ltac:(fold q; unfold off, o3, o2, o1 in *; lia) Esec ltac:(discriminate) Hopt Hdel)
    as (oed & oar & ons & p2 & c & Eoed & Eoar & Eons & Edec & Efin & Hit).
  fold q in Edec. cbn [section_eqb orb] in Eoar, Eons.
  assert (Hb12 : bytes_ok (H ++ B1 ++ B2)).
  { rewrite Eq in Hb. unfold bytes_ok in *. rewrite !Forall_app in *. tauto. }
  rewrite Eq in Edec. rewrite <- LB1 in Edec.
  destruct (cut_bytes H B1 rc B2 SAdditional p2 c HH Hb12 Hk ltac:(auto) Edec) as (H2 & c0 & Ep2 & LH2 & Hb2 & Hc0 & Hc00 & Ec & Hc1 & Hfld).
  cbn [sec_co] in Hc0, Hc1, Hfld.
  assert (Ec0 : c0 = N.of_nat (length R)).
  { eapply u16_at_fun; [exact Hc0|]. apply u16_at_firstn; [lia|exact Par]. }
  assert (Ec' : c = N.of_nat (length (R1 ++ R2))) by (rewrite Ec, Ec0, LenA, app_length; lia).
  (* the offsets after *)
  assert (Eons' : ons = pp_offset_nameservers v) by congruence.
  assert (Eoar' : oar = pp_offset_additional v) by congruence.
  destruct (opt_rel_remove R1 (r0, x) R2 Hno) as (Eoo & Hcases). fold R in Eoo, Hcases.
  assert (Eoed' : oed = edns_off_of o3 (R1 ++ R2)).
  { rewrite Voe in Eoed. unfold edns_off_of in *. destruct (opt_rel R1) as [[k1 y1]|] eqn:E1.
    - destruct Hcases as (Eold & ->). pose proof (opt_rel_bound _ _ _ E1). rewrite Eold in Eoed. cbn [opt_lt] in Eoed.
      replace (off <? o3 + k1 + 11) with false in Eoed by (unfold off; lia). congruence.
    - destruct (opt_rel R2) as [[k2 y2]|].
      + destruct Hcases as (Eold & ->). rewrite Eold in Eoed. cbn [opt_lt] in Eoed.
        replace (off <? o3 + (length (cat R1) + (length (plain_record (r0, x)) + k2)) + 11) with true in Eoed by (unfold off; lia).
        cbn [shift_opt_wrap] in Eoed. fold rc k in Eoed.
        replace (k <=? o3 + (length (cat R1) + (k + k2)) + 11) with true in Eoed by lia.
        assert (E2 : o3 + (length (cat R1) + (k + k2)) + 11 - k = o3 + (length (cat R1) + k2) + 11) by lia. rewrite <- E2. congruence.
      + destruct Hcases as (Eold & ->). rewrite Eold in Eoed. cbn [opt_lt] in Eoed. congruence. }
  (* the header *)
  assert (U2 : u16_at H2 2 w) by (apply Hfld; [lia|lia|apply u16_at_firstn; [lia|exact Pw]]).
  assert (U4 : u16_at H2 4 1%N) by (apply Hfld; [lia|lia|apply u16_at_firstn; [lia|exact Pqd]]).
  assert (U6 : u16_at H2 6 (N.of_nat (length A))) by (apply Hfld; [lia|lia|apply u16_at_firstn; [lia|exact Pan]]).
  assert (U8 : u16_at H2 8 (N.of_nat (length Nn))) by (apply Hfld; [lia|lia|apply u16_at_firstn; [lia|exact Pns]]).
  assert (U10 : u16_at H2 10 (N.of_nat (length (R1 ++ R2)))) by (rewrite <- Ec', Ec; exact Hc1).
  assert (Ebuild : p2 = build H2 qls qt A Nn (R1 ++ R2)).
  { rewrite Ep2. unfold build, B1, B2. fold Qb. rewrite cat_app, <- !app_assoc. reflexivity. }
  assert (CR' : chain SAdditional t2 (R1 ++ R2) t3) by exact (chain_remove _ _ _ _ _ _ CR Hno).
  pose proof Hsv as (_ & _ & _ & _ & _ & _ & Vc & Vrc & Vver & Vxf & Vmp).
  assert (Hview : pp_packet (fst s') = p2 /\ pp_maybe_compressed (fst s') = false /\ pp_offset_question (fst s') = Some 12 /\
                  pp_offset_answers (fst s') = pp_offset_answers v /\
                  pp_offset_nameservers (fst s') = pp_offset_nameservers v /\ pp_offset_additional (fst s') = (if 0 <? length (R1 ++ R2) then Some o3 else None) /\ pp_offset_edns (fst s') = oed /\
                  pp_edns_count (fst s') = pp_edns_count v /\ pp_ext_rcode (fst s') = pp_ext_rcode v /\ pp_edns_version (fst s') = pp_edns_version v /\
                  pp_ext_flags (fst s') = pp_ext_flags v /\ pp_max_payload (fst s') = pp_max_payload v).
  { destruct (c =? 0)%N eqn:E0; cbn [pp_clear_section] in Efin; inversion Efin as [Ev]; cbn [pp_update pp_packet pp_maybe_compressed pp_offset_question
      pp_offset_answers pp_offset_nameservers pp_offset_additional pp_offset_edns pp_edns_count pp_ext_rcode pp_edns_version pp_ext_flags pp_max_payload];
      rewrite ?Voq, ?Eons', ?Eoar', ?Vor; repeat (split; [reflexivity|]); try reflexivity.
    - replace (0 <? length (R1 ++ R2)) with false by lia. repeat (split; [reflexivity|]). reflexivity.
    - replace (0 <? length (R1 ++ R2)) with true by lia. replace (0 <? length R) with true by lia. repeat (split; [reflexivity|]). reflexivity. }
  destruct Hview as (Wpk & Wmc & Woq & Woa & Won & Wor & Woe & Wc & Wrc & Wver & Wxf & Wmp).
  destruct (lists_dinv (fst s') H2 w qls qt A Nn (R1 ++ R2) t1 t2 t3 f q w A Nn R s1 s2 s3) as (Hd' & Rd'); try assumption; try congruence.
  - rewrite Woa. exact Voa.
  - rewrite Won. exact Von.
  - rewrite Woe. exact Eoed'.
  - split; [exact Hd'|]. split; [exact Hit|]. rewrite Wpk, Ebuild. split; [exact Rd'|].
    intros w0 Hw0. rewrite (u16_at_fun _ _ _ _ Hw0 Pw). unfold build. apply u16_at_head0; [exact LH2|lia|exact U2].
Qed.

(** ** The three sections together *)
Theorem delete_keeps_dinv : forall v it s' qls qt lA lN lR r x,
  dinv v -> reading (pp_packet v) qls qt lA lN lR -> In (r, x) (lA ++ lN ++ lR) -> is_opt r = false ->
  it_offset it = Some (rv_off r) -> it_name_end it = rv_name_end r -> it_offset_next it = rv_name_end r + 10 + rv_rdlen r ->
  m_delete (v, it) = (s', Ok tt) ->
  dinv (fst s') /\ it_offset (snd s') = None /\
  exists A Nn R A' Nn' R' X1 r0 X2,
    let o1 := 12 + length (wire_of_labels qls) + 4 in
    lA = place o1 A /\ lN = place (o1 + length (cat A)) Nn /\ lR = place (o1 + length (cat A) + length (cat Nn)) R /\
    reading (pp_packet (fst s')) qls qt (place o1 A') (place (o1 + length (cat A')) Nn') (place (o1 + length (cat A') + length (cat Nn')) R') /\
    A ++ Nn ++ R = X1 ++ (r0, x) :: X2 /\ A' ++ Nn' ++ R' = X1 ++ X2 /\ r = rv_at r0 x (o1 + length (cat X1)) /\
    ((length A' + 1 = length A /\ Nn' = Nn /\ R' = R) \/ (A' = A /\ length Nn' + 1 = length Nn /\ R' = R) \/
     (A' = A /\ Nn' = Nn /\ length R' + 1 = length R)) /\
    (forall w0, u16_at (pp_packet v) 2 w0 -> u16_at (pp_packet (fst s')) 2 w0).
Proof.
  intros v it s' qls qt lA lN lR r x Hd Rd Hin Hno Eoff Ene Enext Hdel.
  destruct (dinv_parts v Hd) as (f & w & qls0 & qt0 & A & Nn & R & s1 & s2 & s3 & t1 & t2 & t3 & Hf & Hsv & P & CA & CN & CR & Lq & Rq & Voq & Voa & Von & Vor & Voe).
  destruct (reading_fun _ _ _ _ _ _ _ _ _ _ _ Rq Rd) as (-> & -> & <- & <- & <-).
  set (o1 := 12 + length (wire_of_labels qls) + 4) in *. set (o2 := o1 + length (cat A)) in *. set (o3 := o2 + length (cat Nn)) in *.
  apply in_app_or in Hin. destruct Hin as [Hin|Hin]; [|apply in_app_or in Hin; destruct Hin as [Hin|Hin]].
  - destruct (in_place_split A o1 r x Hin) as (A1 & r0 & A2 & EA & Er). subst A.
    assert (Hno0 : is_opt r0 = false) by (rewrite Er in Hno; exact Hno).
    rewrite Er in Eoff, Ene, Enext. cbn [rv_at rv_off rv_name_end rv_rdlen] in Eoff, Ene, Enext.
    assert (Enext' : it_offset_next it = o1 + length (cat A1) + length (plain_record (r0, x))) by (rewrite plain_record_length; cbn [fst snd]; lia).
    destruct (delete_answer v it s' f w qls qt A1 r0 x A2 Nn R s1 s2 s3 t1 t2 t3 Hd Hf Hsv P CA CN CR Voq Voa Von Vor Voe Hno0 Eoff Enext' Hdel)
      as (Hd' & Hit & Rd' & Hfl).
    split; [exact Hd'|]. split; [exact Hit|].
    exists (A1 ++ (r0, x) :: A2), Nn, R, (A1 ++ A2), Nn, R, A1, r0, (A2 ++ Nn ++ R). cbv zeta. fold o1.
    repeat (split; [reflexivity|]). split; [exact Rd'|]. rewrite <- !app_assoc. cbn [app]. repeat (split; [reflexivity|]).
    split; [exact Er|]. split; [|exact Hfl]. left. rewrite !app_length. cbn [length]. split; [lia|]. split; reflexivity.
  - destruct (in_place_split Nn o2 r x Hin) as (N1 & r0 & N2 & EN & Er). subst Nn.
    assert (Hno0 : is_opt r0 = false) by (rewrite Er in Hno; exact Hno).
    rewrite Er in Eoff, Ene, Enext. cbn [rv_at rv_off rv_name_end rv_rdlen] in Eoff, Ene, Enext.
    assert (Enext' : it_offset_next it = o2 + length (cat N1) + length (plain_record (r0, x))) by (rewrite plain_record_length; cbn [fst snd]; lia).
    destruct (delete_nameserver v it s' f w qls qt A N1 r0 x N2 R s1 s2 s3 t1 t2 t3 Hd Hf Hsv P CA CN CR Voq Voa Von Vor Voe Hno0 Eoff Enext' Hdel)
      as (Hd' & Hit & Rd' & Hfl).
    split; [exact Hd'|]. split; [exact Hit|].
    exists A, (N1 ++ (r0, x) :: N2), R, A, (N1 ++ N2), R, (A ++ N1), r0, (N2 ++ R). cbv zeta. fold o1 o2.
    repeat (split; [reflexivity|]). split; [exact Rd'|]. rewrite <- !app_assoc. cbn [app]. repeat (split; [reflexivity|]).
    split; [rewrite cat_app, app_length; unfold o2 in Er; rewrite Er; f_equal; lia|].
    split; [|exact Hfl]. right. left. rewrite !app_length. cbn [length]. split; [reflexivity|]. split; [lia|reflexivity].
  - destruct (in_place_split R o3 r x Hin) as (R1 & r0 & R2 & ER & Er). subst R.
    assert (Hno0 : is_opt r0 = false) by (rewrite Er in Hno; exact Hno).
    rewrite Er in Eoff, Ene, Enext. cbn [rv_at rv_off rv_name_end rv_rdlen] in Eoff, Ene, Enext.
    assert (Enext' : it_offset_next it = o3 + length (cat R1) + length (plain_record (r0, x))) by (rewrite plain_record_length; cbn [fst snd]; lia).
    destruct (delete_additional v it s' f w qls qt A Nn R1 r0 x R2 s1 s2 s3 t1 t2 t3 Hd Hf Hsv P CA CN CR Voq Voa Von Vor Voe Hno0 Eoff Enext' Ene Hdel)
      as (Hd' & Hit & Rd' & Hfl).
    split; [exact Hd'|]. split; [exact Hit|].
    exists A, Nn, (R1 ++ (r0, x) :: R2), A, Nn, (R1 ++ R2), (A ++ Nn ++ R1), r0, R2. cbv zeta. fold o1 o2 o3.
    repeat (split; [reflexivity|]). split; [exact Rd'|]. rewrite <- !app_assoc. cbn [app]. repeat (split; [reflexivity|]).
    split; [rewrite !cat_app, !app_length; unfold o3, o2 in Er; rewrite Er; f_equal; lia|].
    split; [|exact Hfl]. right. right. rewrite !app_length. cbn [length]. split; [reflexivity|]. split; [reflexivity|lia].
Qed.

(** a second deletion through the same cursor reports a void record and changes nothing (C11) *)
Lemma delete_void v it : it_offset it = None -> m_delete (v, it) = ((v, it), Err VoidRecord).
Proof. intros E. unfold m_delete, cbind, getv, getit, clift. cbn [fst snd]. rewrite E. reflexivity. Qed.

(** in a state that satisfies the invariant a section's offset is where its first record starts; an empty section is absent *)
Definition first_off (l : list (rec_view * rd_view)) : option nat :=
  match l with [] => None | rx :: _ => Some (rv_off (fst rx)) end.

Lemma dinv_reading_offsets v qls qt lA lN lR : dinv v -> reading (pp_packet v) qls qt lA lN lR ->
  pp_offset_question v = Some 12 /\ pp_offset_answers v = first_off lA /\ pp_offset_nameservers v = first_off lN /\
  pp_offset_additional v = first_off lR.
Proof.
  intros Hd Rd.
  destruct (dinv_parts v Hd) as (f & w & qls0 & qt0 & A & Nn & R & s1 & s2 & s3 & t1 & t2 & t3 & Hf & Hsv & P & CA & CN & CR & Lq & Rq & Voq & Voa & Von & Vor & Voe).
  destruct (reading_fun _ _ _ _ _ _ _ _ _ _ _ Rq Rd) as (-> & -> & <- & <- & <-).
  rewrite Voq, Voa, Von, Vor. split; [reflexivity|].
  split; [destruct A; reflexivity|]. split; [destruct Nn; reflexivity|destruct R; reflexivity].
Qed.
