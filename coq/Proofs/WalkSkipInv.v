(** * The deleting walk with the OPT-skipping [next()] (C11).

    The iterator's ordinary [next()] is [next_including_opt] followed by [maybe_skip_opt_section].  On any
    object of [objst] it yields the next record that is not the OPT record ([r_next_from]); the loop
    next / decide / delete with it refines the abstract machine on the section's records other than OPT
    ([walk_refines_skip]). *)

From DV Require Import Model.Base Model.NameCheck Model.Parser Model.Header Model.Readers Model.Uncompress Model.Mutate
  Spec.NameSpec Spec.PacketSpec Spec.RecordSpec Spec.PlainSpec Proofs.ListLemmas Proofs.Hoare Proofs.ParserInv Proofs.ParseSound
  Proofs.ParseComplete Proofs.NameIff Proofs.NameCheckTotal Proofs.ReadersAgree Proofs.ReadersLabels Proofs.HeaderBits Proofs.QuestionSpec
  Proofs.WalkValues Proofs.SetTtl Proofs.WalkSkip Proofs.UncompressSpec Proofs.PlainWf Proofs.InsertLemmas Proofs.EdnsFacts Proofs.EdnsPos
  Proofs.EdnsPlain Proofs.InsertSpec Proofs.HeaderInv Proofs.Chain Proofs.SetTtlInv Proofs.DeleteInv Proofs.SetNameInv Proofs.Totality
  Proofs.WalkInv Proofs.CursorHist Proofs.DecompressFirst Proofs.WalkFresh Proofs.DeleteWalk.
From Coq Require Import ZifyBool ZifyNat ZifyN.

Definition nonoptp (rx : rec_view * rd_view) : bool := negb (is_opt (fst rx)).

(** the first record of [l] that [next()] stops on, and what follows it *)
Definition skip_first (l : list (rec_view * rd_view)) : option ((rec_view * rd_view) * list (rec_view * rd_view)) :=
  match l with
  | [] => None
  | rx :: l' => if is_opt (fst rx) then match l' with [] => None | rx2 :: l3 => Some (rx2, l3) end else Some (rx, l')
  end.

Lemma opt_ok_suffix : forall l1 l seen, opt_ok seen (l1 ++ l) -> exists seen', opt_ok seen' l.
Proof.
  induction l1 as [|r l1 IH]; intros l seen H; cbn [app opt_ok] in H; [eauto|].
  destruct (is_opt r); [destruct H as [_ H]|]; eapply IH; exact H.
Qed.

Lemma opt_ok_true_nonopt : forall l, opt_ok true l -> forallb non_opt l = true.
Proof.
  induction l as [|r l IH]; intros H; cbn [opt_ok forallb] in *; [reflexivity|]. unfold non_opt at 1.
  destruct (is_opt r); [destruct H; discriminate|]. cbn [negb andb]. exact (IH H).
Qed.

(** what the parser's policy says about the OPT records of a section of any such object *)
Lemma objst_opt_ok v qls qt lA lN lR sec : objst v -> reading (pp_packet v) qls qt lA lN lR ->
  sec = SAnswer \/ sec = SNameServers \/ sec = SAdditional ->
  exists seen, opt_ok seen (map fst (sec_list sec lA lN lR)) /\
    (sec <> SAdditional -> forallb non_opt (map fst (sec_list sec lA lN lR)) = true).
Proof.
  intros Hst Rd Hsec.
  assert (Hf : exists f, bytes_ok (pp_packet v) /\ parse (pp_packet v) = Ok f).
  { destruct Hst as [[_ Hb _ (f & Hf & _)]|[Hb Hp]]; eauto. }
  destruct Hf as (f & Hb & Hp). set (p := pp_packet v) in *.
  destruct Rd as [(qe0 & f1 & f2 & Hcn0 & _ & _ & _ & Ra & Rn & Rr) _ Han0 Hns0 Har0].
  destruct (parse_view p f Hb Hp) as (an & ns & ar & qe & e1 & t1 & e2 & t2 & t3 & Hpk & (ls & Hqn) & Hq4 & Han & Hns & Har &
                                      Hlan & Hlns & Hlar & Hc1 & Hc2 & Hc3 & _).
  rewrite Han0 in Han. rewrite Hns0 in Hns. rewrite Har0 in Har. inversion Han; inversion Hns; inversion Har; subst an ns ar.
  destruct (cname_l_fun _ _ _ _ _ _ Hcn0 Hqn) as [_ <-].
  destruct (rrs_wf_records _ _ _ _ _ _ _ Hc1) as (l1 & Hl1 & Hn1 & Ho1 & Hno1 & _).
  destruct (records_at_fun p _ _ _ Hl1 _ _ Ra ltac:(rewrite map_length; lia)) as [-> ->].
  destruct (rrs_wf_records _ _ _ _ _ _ _ Hc2) as (l2 & Hl2 & Hn2 & Ho2 & Hno2 & _).
  destruct (records_at_fun p _ _ _ Hl2 _ _ Rn ltac:(rewrite map_length; lia)) as [-> ->].
  destruct (rrs_wf_records _ _ _ _ _ _ _ Hc3) as (l3 & Hl3 & Hn3 & Ho3 & Hno3 & _).
  destruct (records_at_fun p _ _ _ Hl3 _ _ Rr ltac:(rewrite map_length; lia)) as [-> _].
  destruct Hsec as [->|[->| ->]]; cbn [sec_list]; eexists; (split; [eassumption|]); intros Hne; auto; congruence.
Qed.

Lemma cur_on_it_on sec r n : cur_on sec r n = it_on sec r (rv_end r) n.
Proof. reflexivity. Qed.

(** [next()] from a void cursor at the start of the section, or from a cursor on the record before [l] *)
Theorem r_next_from : forall v it qls qt lA lN lR sec l1 l, objst v -> reading (pp_packet v) qls qt lA lN lR ->
  sec = SAnswer \/ sec = SNameServers \/ sec = SAdditional -> sec_list sec lA lN lR = l1 ++ l ->
  ((l1 = [] /\ it_offset it = None /\ it_section it = sec) \/ (exists l0 rxp, l1 = l0 ++ [rxp] /\ it = cur_on sec (fst rxp) (length l))) ->
  r_next v it = Ok (match skip_first l with None => None | Some (rx, l') => Some (cur_on sec (fst rx) (length l')) end).
Proof.
  intros v it qls qt lA lN lR sec l1 l Hst Rd Hsec El Hit. set (p := pp_packet v) in *.
  assert (Hinc : r_next_including_opt v it = Ok (match l with [] => None | rx :: l' => Some (cur_on sec (fst rx) (length l')) end)).
  { destruct Hit as [(-> & Eoff & Es)|(l0 & rxp & -> & ->)].
    - cbn [app] in El. rewrite (next_restart_obj v it qls qt lA lN lR sec Hst Rd Eoff Es Hsec), El. reflexivity.
    - rewrite <- app_assoc in El. cbn [app] in El. exact (next_advance_obj v qls qt lA lN lR sec l0 rxp l Hst Rd Hsec El). }
  unfold r_next. rewrite Hinc. cbn [bind].
  destruct l as [|[r x] l']; [reflexivity|]. cbn [fst skip_first].
  destruct (objst_opt_ok v qls qt lA lN lR sec Hst Rd Hsec) as (seen0 & Hok0 & Hno0).
  rewrite El, map_app in Hok0. destruct (opt_ok_suffix _ _ _ Hok0) as (seen & Hok). cbn [map fst] in Hok.
  destruct (reading_sections p qls qt lA lN lR Rd sec Hsec) as (a & b & Rs & _). rewrite El, map_app in Rs. cbn [map fst] in Rs.
  destruct (records_at_split p _ a r _ b Rs) as (e & Hrec & R2).
  destruct (record_at_end _ _ _ Hrec) as (He & _).
  assert (Hsa : is_opt r = true -> sec = SAdditional).
  { intros Ho. destruct sec; try reflexivity; exfalso.
    all: try (destruct Hsec as [H|[H|H]]; discriminate).
    all: specialize (Hno0 ltac:(discriminate)); rewrite El, map_app, forallb_app in Hno0; cbn [map fst forallb] in Hno0;
      unfold non_opt in Hno0 at 2; rewrite Ho in Hno0; cbn [negb andb] in Hno0; rewrite andb_false_r in Hno0; discriminate. }
  rewrite cur_on_it_on. rewrite <- (map_length fst l'). rewrite <- He.
  rewrite (maybe_skip_spec p v eq_refl sec r e (map fst l') b seen Hrec R2 Hok Hsa).
  unfold after_skip. destruct (is_opt r) eqn:Eo.
  - destruct l' as [|[r2 x2] l3]; cbn [map fst length]; [reflexivity|]. rewrite map_length. reflexivity.
  - rewrite map_length, He. reflexivity.
Qed.

Lemma filter_unpl l : filter nonoptp (map unpl l) = map unpl (filter nonoptp l).
Proof. induction l as [|rx l IH]; cbn [map filter]; [reflexivity|]. change (nonoptp (unpl rx)) with (nonoptp rx). destruct (nonoptp rx); cbn [map]; rewrite IH; reflexivity. Qed.

(** under the parser's policy [skip_first] is the head of the filtered list *)
Lemma skip_first_filter : forall l seen, opt_ok seen (map fst l) ->
  match skip_first l with
  | None => filter nonoptp l = []
  | Some (rx, l') => nonoptp rx = true /\ exists pre, l = pre ++ rx :: l' /\ filter nonoptp pre = [] /\ filter nonoptp l = rx :: filter nonoptp l'
  end.
Proof.
  intros [|[r x] l'] seen H; [reflexivity|]. cbn [map fst opt_ok] in H. unfold skip_first. cbn [fst]. destruct (is_opt r) eqn:Eo.
  - destruct H as [_ H]. destruct l' as [|[r2 x2] l3].
    + unfold nonoptp. cbn [filter fst]. rewrite Eo. reflexivity.
    + cbn [map fst opt_ok] in H. destruct (is_opt r2) eqn:Eo2; [destruct H; discriminate|].
      split; [unfold nonoptp; cbn [fst]; rewrite Eo2; reflexivity|]. exists [(r, x)]. split; [reflexivity|].
      unfold nonoptp. cbn [filter fst app]. rewrite Eo, Eo2. cbn [negb]. auto.
  - split; [unfold nonoptp; cbn [fst]; rewrite Eo; reflexivity|]. exists []. split; [reflexivity|]. split; [reflexivity|].
    unfold nonoptp. cbn [filter fst]. rewrite Eo. reflexivity.
Qed.

Section RefineSkip.
  Variable sec : section.
  Hypothesis Hsec : sec = SAnswer \/ sec = SNameServers \/ sec = SAdditional.
  Variable D : rec_view * rd_view -> bool.
  Variable dec : ppacket -> rrit -> bool.
  Hypothesis dec_ok : forall v qls qt lA lN lR rxp n, reading (pp_packet v) qls qt lA lN lR -> In rxp (sec_list sec lA lN lR) ->
    dec v (cur_on sec (fst rxp) n) = D (unpl rxp).

  Fixpoint cwalk_s (fuel : nat) (v : ppacket) (it : rrit) (cs : list rrit) : option (ppacket * list rrit) :=
    match fuel with
    | O => None
    | S f =>
      match r_next v it with
      | Ok None => Some (v, cs)
      | Ok (Some cur) =>
        if dec v cur then
          match m_delete (v, cur) with
          | ((v', cur'), Ok _) => cwalk_s f v' cur' (cs ++ [cur])
          | _ => None
          end
        else cwalk_s f v cur (cs ++ [cur])
      | _ => None
      end
    end.

  (** the next call of [next()] will look at [l]; [i] records other than OPT lie before it *)
  Definition Cur_s (it : rrit) (lc : list (rec_view * rd_view)) (i : nat) : Prop :=
    exists l1 l, lc = l1 ++ l /\ i = length (filter nonoptp l1) /\
      ((l1 = [] /\ it_offset it = None /\ it_section it = sec) \/ (exists l0 rxp, l1 = l0 ++ [rxp] /\ it = cur_on sec (fst rxp) (length l))).

  Theorem walk_refines_skip : forall fuel v it qls qt lA lN lR i cs ys,
    objst v -> reading (pp_packet v) qls qt lA lN lR -> Cur_s it (sec_list sec lA lN lR) i -> Forall2 (yielded sec) cs ys ->
    match awalk D fuel (filter nonoptp (map unpl (sec_list sec lA lN lR))) i ys with
    | None => cwalk_s fuel v it cs = None
    | Some (l', ys') =>
      exists v' cs' lA' lN' lR', cwalk_s fuel v it cs = Some (v', cs') /\ objst v' /\ reading (pp_packet v') qls qt lA' lN' lR' /\
        filter nonoptp (map unpl (sec_list sec lA' lN' lR')) = l' /\ other_sections_kept sec lA lN lR lA' lN' lR' /\
        Forall2 (yielded sec) cs' ys'
    end.
  Proof.
    induction fuel as [|fuel IH]; intros v it qls qt lA lN lR i cs ys Hst Rd Hc Hy; cbn [awalk cwalk_s]; [reflexivity|].
    set (lc := sec_list sec lA lN lR) in *.
    destruct Hc as (l1 & l & El & Ei & Hit).
    rewrite (r_next_from v it qls qt lA lN lR sec l1 l Hst Rd Hsec El Hit).
    destruct (objst_opt_ok v qls qt lA lN lR sec Hst Rd Hsec) as (seen0 & Hok0 & _). fold lc in Hok0.
    rewrite El, map_app in Hok0. destruct (opt_ok_suffix _ _ _ Hok0) as (seen & Hok).
    pose proof (skip_first_filter l seen Hok) as Hsf.
    rewrite filter_unpl, nth_error_map, El, filter_app, Ei, nth_error_app2, Nat.sub_diag by lia.
    destruct (skip_first l) as [[rxp l']|].
    - destruct Hsf as (Hnp & pre & Epre & Fpre & Efl). rewrite Efl. cbn [nth_error option_map].
      assert (Elc : lc = (l1 ++ pre) ++ rxp :: l') by (rewrite El, Epre, <- app_assoc; reflexivity).
      assert (Hin : In rxp (sec_list sec lA lN lR)) by (fold lc; rewrite Elc; apply in_or_app; right; left; reflexivity).
      rewrite (dec_ok v qls qt lA lN lR rxp _ Rd Hin).
      set (cur := cur_on sec (fst rxp) (length l')).
      assert (Hyc : Forall2 (yielded sec) (cs ++ [cur]) (ys ++ [unpl rxp])).
      { apply Forall2_app; [exact Hy|]. constructor; [|constructor]. exists rxp, (length l'). auto. }
      assert (Fl1p : filter nonoptp (l1 ++ pre) = filter nonoptp l1) by (rewrite filter_app, Fpre, app_nil_r; reflexivity).
      destruct (D (unpl rxp)) eqn:Ed.
      + assert (Hno : is_opt (fst rxp) = false) by (unfold nonoptp in Hnp; destruct (is_opt (fst rxp)); [discriminate|reflexivity]).
        destruct rxp as [r x]. cbn [fst] in *.
        destruct (delete_obj sec v qls qt lA lN lR (l1 ++ pre) r x l' (length l') Hst Rd Hsec Elc Hno)
          as ([v' cur'] & Hdel & Hd' & Ho' & Hs' & lA1 & lN1 & lR1 & Rd1 & El1 & Hk1).
        fold cur in Hdel. rewrite Hdel. cbn [fst snd] in *.
        assert (Erm : remove_nth (length (filter nonoptp l1)) (map unpl (filter nonoptp l1 ++ (r, x) :: filter nonoptp l')) =
                      filter nonoptp (map unpl (sec_list sec lA1 lN1 lR1))).
        { rewrite El1, <- map_app, filter_unpl, filter_app, Fl1p, !map_app. cbn [map].
          rewrite <- (map_length unpl (filter nonoptp l1)). apply remove_nth_app. }
        rewrite Erm.
        specialize (IH v' cur' qls qt lA1 lN1 lR1 0 (cs ++ [cur]) (ys ++ [unpl (r, x)]) (or_introl Hd') Rd1).
        assert (Hc0 : Cur_s cur' (sec_list sec lA1 lN1 lR1) 0) by (exists [], (sec_list sec lA1 lN1 lR1); split; [reflexivity|]; split; [reflexivity|]; left; repeat split; assumption).
        specialize (IH Hc0 Hyc).
        destruct (awalk D fuel (filter nonoptp (map unpl (sec_list sec lA1 lN1 lR1))) 0 (ys ++ [unpl (r, x)])) as [[l'' ys']|]; [|exact IH].
        destruct IH as (v2 & cs2 & lA2 & lN2 & lR2 & Hw & Hd2 & Rd2 & El2 & Hk2 & Hy2).
        exists v2, cs2, lA2, lN2, lR2. repeat (split; [assumption|]). split; [exact (kept_trans sec _ _ _ _ _ _ _ _ _ Hk1 Hk2)|exact Hy2].
      + rewrite map_app. cbn [map].
        assert (Hc1 : Cur_s cur lc (S (length (filter nonoptp l1)))).
        { exists ((l1 ++ pre) ++ [rxp]), l'. split; [rewrite Elc, <- !app_assoc; reflexivity|]. split.
          - rewrite filter_app, Fl1p, app_length. cbn [filter]. rewrite Hnp. cbn [length]. lia.
          - right. exists (l1 ++ pre), rxp. auto. }
        specialize (IH v cur qls qt lA lN lR (S (length (filter nonoptp l1))) (cs ++ [cur]) (ys ++ [unpl rxp]) Hst Rd Hc1 Hyc).
        fold lc in IH. rewrite filter_unpl in IH. rewrite El in IH. rewrite filter_app in IH. rewrite Efl in IH. rewrite map_app in IH. cbn [map] in IH. exact IH.
    - rewrite Hsf. cbn [nth_error option_map].
      exists v, cs, lA, lN, lR. split; [reflexivity|]. split; [exact Hst|]. split; [exact Rd|]. fold lc.
      split; [rewrite filter_unpl, El, filter_app, Hsf; reflexivity|]. split; [|exact Hy].
      intros s2 _ _. reflexivity.
  Qed.

  Theorem walk_skip_deletes_exactly : forall v it qls qt lA lN lR,
    objst v -> reading (pp_packet v) qls qt lA lN lR -> it_offset it = None -> it_section it = sec ->
    let l := filter nonoptp (map unpl (sec_list sec lA lN lR)) in
    exists v' cs lA' lN' lR' ys,
      cwalk_s ((ndel D l + 1) * (length l + 1)) v it [] = Some (v', cs) /\ objst v' /\ reading (pp_packet v') qls qt lA' lN' lR' /\
      filter nonoptp (map unpl (sec_list sec lA' lN' lR')) = filter (keep D) l /\ other_sections_kept sec lA lN lR lA' lN' lR' /\
      Forall2 (yielded sec) cs ys /\ (forall y, In y (filter (keep D) l) -> In y ys) /\ (forall y, In y ys -> In y l).
  Proof.
    intros v it qls qt lA lN lR Hd Rd Eoff Es l.
    destruct (awalk_terminates D l) as [rr Haw]. destruct rr as [l' ys].
    assert (Hc0 : Cur_s it (sec_list sec lA lN lR) 0) by (exists [], (sec_list sec lA lN lR); split; [reflexivity|]; split; [reflexivity|]; left; repeat split; assumption).
    pose proof (walk_refines_skip ((ndel D l + 1) * (length l + 1)) v it qls qt lA lN lR 0 [] [] Hd Rd Hc0 ltac:(constructor)) as Hr.
    fold l in Hr. rewrite Haw in Hr. destruct Hr as (v' & cs' & lA' & lN' & lR' & Hw & Hd' & Rd' & El' & Hk & Hy).
    destruct (awalk_exact D _ l l' ys Haw) as (Hl' & Hsurv).
    destruct (awalk_yields_from_section D _ l 0 [] l' ys Haw) as (zs & Ezs & Hzs). cbn [app] in Ezs. subst zs.
    exists v', cs', lA', lN', lR', ys. rewrite <- Hl'. repeat (split; [assumption|]). first [exact Hzs|split; [exact Hsurv|exact Hzs]].
  Qed.
End RefineSkip.
