(** * [DNSSector::parse] is total on every byte string (C01).

    No panic site of the model is reachable: every read is inside the buffer, every [usize]
    subtraction is non-negative, the option counter cannot overflow, no loop runs out of
    fuel.  Each record that is parsed successfully moves the cursor at least 11 bytes forward
    (used for the linear bound of C18). *)

From DV Require Import Model.Base Model.NameCheck Model.Parser Proofs.Hoare Proofs.NameCheckTotal.
From Coq Require Import ZifyBool ZifyNat ZifyN.

Section P.
  Variable p : bytes.
  Hypothesis Hbytes : bytes_ok p.

  Definition pinv (s : pstate) : Prop := ps_off s <= length p.

  Lemma remaining_len_spec s : pinv s ->
    hoare (remaining_len p s) (fun r => r = length p - ps_off s).
  Proof. unfold pinv, remaining_len, usub. intros H. split_if; cbn; lia. Qed.

  Lemma ensure_remaining_len_spec s n : pinv s ->
    hoare (ensure_remaining_len p s n) (fun _ => ps_off s + n <= length p).
  Proof.
    intros H. unfold ensure_remaining_len.
    eapply hoare_bind; [apply remaining_len_spec; exact H|].
    intros r ->. unfold pinv in H. split_if; cbn [hoare]; [exact I|lia].
  Qed.

  Lemma set_offset_spec s o :
    hoare (set_offset p s o) (fun s' => s' = ps_set_off s o /\ o < length p).
  Proof. unfold set_offset. split_if; cbn; [exact I|]. split; [reflexivity|lia]. Qed.

  Lemma increment_offset_spec s n : pinv s ->
    hoare (increment_offset p s n)
          (fun s' => s' = ps_set_off s (ps_off s + n) /\ ps_off s + n <= length p).
  Proof.
    intros H. unfold increment_offset.
    eapply hoare_bind; [apply ensure_remaining_len_spec; exact H|].
    intros ? Hle. cbv beta in Hle. cbn [hoare]. split; [reflexivity|lia].
  Qed.

  Lemma u8_load_spec s k : pinv s ->
    hoare (u8_load p s k) (fun v => (v < 256)%N /\ ps_off s + k + 1 <= length p).
  Proof.
    intros H. unfold u8_load.
    eapply hoare_bind; [apply ensure_remaining_len_spec; exact H|].
    intros ? Hle. cbv beta in Hle. unfold pinv in H. apply byte_at_hoare; [lia|].
    intros b Hb. split; [eapply bytes_ok_nth; eauto | lia].
  Qed.

  Lemma be16_load_spec s k : pinv s ->
    hoare (be16_load p s k) (fun v => (v < 65536)%N /\ ps_off s + k + 2 <= length p).
  Proof.
    intros H. unfold be16_load.
    eapply hoare_bind; [apply ensure_remaining_len_spec; exact H|].
    intros ? Hle. cbv beta in Hle. eapply hoare_weaken; [apply be16_at_hoare; [lia|exact Hbytes]|].
    cbv beta. intros v Hv. split; [exact Hv|lia].
  Qed.

  Lemma ps_rr_rdlen_spec s : pinv s ->
    hoare (ps_rr_rdlen p s) (fun v => (N.of_nat v < 65536)%N /\ ps_off s + 10 <= length p).
  Proof.
    intros H. unfold ps_rr_rdlen.
    eapply hoare_bind; [apply be16_load_spec; exact H|].
    intros v [Hv Hl]. unfold DNS_RR_RDLEN_OFFSET in *. cbn [hoare]. lia.
  Qed.

  Lemma usub_spec a b site : b <= a -> hoare (usub a b site) (fun d => d = a - b).
  Proof. intros H. unfold usub. split_if; cbn [hoare]; [reflexivity|lia]. Qed.

  Lemma ps_skip_name_spec s :
    hoarec (ps_skip_name_c p s)
           (fun s' => exists e, s' = ps_set_off s e /\ ps_off s < e /\ e < length p).
  Proof.
    unfold ps_skip_name_c.
    eapply hoarec_bind; [apply hoarec_callc, check_compressed_name_spec|].
    intros e He. apply hoarec_lift.
    eapply hoare_weaken; [apply set_offset_spec|].
    cbv beta. intros s' [-> Hl]. exists e. auto.
  Qed.

  Lemma ensure_in_class_spec s : pinv s -> nopanic (ensure_in_class p s).
  Proof.
    intros H. unfold ensure_in_class, nopanic, ps_rr_class.
    eapply hoare_bind; [apply be16_load_spec; exact H|].
    intros c _. split_if; exact I.
  Qed.

  Lemma parse_question_spec s : pinv s ->
    hoarec (parse_question_c p s) (fun s' => pinv s' /\ ps_off s + 5 <= ps_off s').
  Proof.
    intros H. unfold parse_question_c. apply hoarec_tick.
    eapply hoarec_bind; [apply ps_skip_name_spec|].
    intros s1 (e & -> & Hlt & Hle).
    assert (H1 : pinv (ps_set_off s e)) by (unfold pinv; cbn; lia).
    eapply hoarec_bind; [apply hoarec_lift, ensure_in_class_spec; exact H1|]. intros _ _.
    eapply hoarec_bind; [apply hoarec_lift, ensure_in_class_spec; exact H1|]. intros _ _.
    apply hoarec_lift.
    eapply hoare_weaken; [apply increment_offset_spec; exact H1|].
    cbv beta. intros s' [-> Hl]. unfold pinv, DNS_RR_QUESTION_HEADER_SIZE in *.
    cbn [ps_off ps_set_off] in *. lia.
  Qed.

  (** *** The EDNS option loop *)

  Definition opt_inv (st e : nat) (s : pstate) : Prop :=
    ps_edns_end s = Some e /\ st <= ps_off s /\ ps_off s <= e /\ e <= length p /\
    (N.of_nat (e - st) <= 65535)%N /\ (4 * N.to_nat (ps_edns_count s) <= ps_off s - st).

  Lemma opt_step_ok st e s : opt_inv st e s ->
    match opt_step p s with
    | Done r => hoare r (fun s' => ps_off s' = e)
    | Continue s' => opt_inv st e s' /\ e - ps_off s' < e - ps_off s
    end.
  Proof.
    intros (He & Hst & Hoe & Hel & H64 & Hc).
    unfold opt_step, edns_remaining_len. rewrite He. unfold usub.
    split_if; [|lia]. split_if; [cbn; lia|].
    unfold edns_skip_rr, edns_rr_rdlen, edns_be16_load, edns_ensure_remaining_len,
      edns_remaining_len. rewrite He. unfold usub. split_if; [|lia].
    cbn [bind]. unfold DNS_EDNS_RR_RDLEN_OFFSET.
    split_if; [exact I|]. cbn [bind].
    unfold byte_at.
    destruct (nth_error p (ps_off s + 2)) as [hi|] eqn:Hhi.
    2:{ apply nth_error_None in Hhi. lia. }
    cbn [bind].
    destruct (nth_error p (ps_off s + 2 + 1)) as [lo|] eqn:Hlo.
    2:{ apply nth_error_None in Hlo. lia. }
    cbn [bind]. unfold edns_increment_offset, edns_ensure_remaining_len, edns_remaining_len.
    rewrite He. unfold usub. split_if; [|lia]. cbn [bind].
    unfold DNS_EDNS_RR_HEADER_SIZE. split_if; [exact I|]. cbn [bind].
    cbn [ps_edns_count ps_set_off ps_off ps_edns_end ps_edns_start].
    split_if; [exfalso; lia|].
    unfold opt_inv. cbn [ps_edns_count ps_set_off ps_off ps_edns_end ps_edns_start].
    repeat split; try assumption; lia.
  Qed.

  Lemma opt_loop_spec st e s : opt_inv st e s ->
    hoarec (opt_loop_c p s) (fun s' => ps_off s' = e).
  Proof.
    intros H. unfold opt_loop_c. apply hoarec_callc.
    apply run_loop_hoare with (Inv := opt_inv st e) (measure := fun s => e - ps_off s).
    - intros s0. apply opt_step_ok.
    - exact H.
    - destruct H as (_ & _ & _ & Hel & _). lia.
  Qed.

  Lemma parse_opt_spec s : pinv s ->
    hoarec (parse_opt_c p s) (fun s' => pinv s' /\ ps_off s + 10 <= ps_off s').
  Proof.
    intros H. unfold parse_opt_c. destruct (ps_edns_end s); [exact I|].
    eapply hoarec_bind; [apply hoarec_lift, u8_load_spec; exact H|]. intros rc _.
    eapply hoarec_bind; [apply hoarec_lift, u8_load_spec; exact H|]. intros ver _.
    eapply hoarec_bind; [apply hoarec_lift, be16_load_spec; exact H|]. intros mp _.
    eapply hoarec_bind; [apply hoarec_lift, be16_load_spec; exact H|]. intros xf _.
    eapply hoarec_bind; [apply hoarec_lift, be16_load_spec; exact H|]. intros el [Hel _].
    eapply hoarec_bind; [apply hoarec_lift, increment_offset_spec; exact H|].
    intros s1 [-> Hl1]. unfold DNS_OPT_RR_HEADER_SIZE in *.
    assert (H1 : pinv (ps_set_off s (ps_off s + 10))) by (unfold pinv; cbn; lia).
    eapply hoarec_bind; [apply hoarec_lift, ensure_remaining_len_spec; exact H1|].
    intros ? Hl2. cbv beta in Hl2. cbn [ps_off ps_set_off] in *.
    eapply hoarec_weaken.
    - apply opt_loop_spec with (st := ps_off s + 10) (e := ps_off s + 10 + N.to_nat el).
      unfold opt_inv. cbn [ps_edns_count ps_off ps_edns_end]. repeat split; try reflexivity; lia.
    - cbv beta. intros s' Hs'. unfold pinv. lia.
  Qed.

  (** *** One record *)

  Lemma parse_rr_rdata_spec s rr_type rdlen : pinv s -> (N.of_nat rdlen < 65536)%N ->
    hoarec (parse_rr_rdata_c p s rr_type rdlen)
           (fun s' => pinv s' /\ ps_off s + 10 <= ps_off s').
  Proof.
    intros H1 Hrd. unfold parse_rr_rdata_c. unfold DNS_RR_HEADER_SIZE.
    (* NS / CNAME / PTR *)
    split_if.
    { split_if; [exact I|].
      eapply hoarec_bind; [apply hoarec_lift, increment_offset_spec; exact H1|].
      intros s2 [-> Hl2]. cbn [ps_off ps_set_off] in *.
      eapply hoarec_bind; [apply hoarec_callc, check_compressed_name_spec|].
      intros f Hf. cbv beta in Hf.
      eapply hoarec_bind; [apply hoarec_lift|].
      { apply usub_spec. lia. }
      intros d ->. split_if; [exact I|].
      apply hoarec_lift. eapply hoare_weaken; [apply increment_offset_spec; unfold pinv; cbn; lia|].
      cbv beta. intros s' [-> Hl]. unfold pinv. cbn [ps_off ps_set_off] in *. lia. }
    (* MX *)
    split_if.
    { split_if; [exact I|].
      eapply hoarec_bind; [apply hoarec_lift, increment_offset_spec; exact H1|].
      intros s2 [-> Hl2]. cbn [ps_off ps_set_off] in *.
      eapply hoarec_bind; [apply hoarec_callc, check_compressed_name_spec|].
      intros f Hf. cbv beta in Hf.
      eapply hoarec_bind; [apply hoarec_lift|].
      { apply usub_spec. lia. }
      intros d ->. split_if; [exact I|].
      apply hoarec_lift. eapply hoare_weaken; [apply increment_offset_spec; unfold pinv; cbn; lia|].
      cbv beta. intros s' [-> Hl]. unfold pinv. cbn [ps_off ps_set_off] in *. lia. }
    (* SOA *)
    split_if.
    { split_if; [exact I|].
      eapply hoarec_bind; [apply hoarec_lift, increment_offset_spec; exact H1|].
      intros s2 [-> Hl2]. cbn [ps_off ps_set_off] in *.
      eapply hoarec_bind; [apply hoarec_callc, check_compressed_name_spec|].
      intros f1 Hf1. cbv beta in Hf1.
      eapply hoarec_bind; [apply hoarec_callc, check_compressed_name_spec|].
      intros f2 Hf2. cbv beta in Hf2.
      eapply hoarec_bind; [apply hoarec_lift|].
      { apply usub_spec. lia. }
      intros d ->.
      eapply hoarec_bind; [apply hoarec_lift|].
      { apply usub_spec. lia. }
      intros d' ->. split_if; [exact I|].
      apply hoarec_lift. eapply hoare_weaken; [apply increment_offset_spec; unfold pinv; cbn; lia|].
      cbv beta. intros s' [-> Hl]. unfold pinv. cbn [ps_off ps_set_off] in *. lia. }
    (* DNAME *)
    split_if.
    { split_if; [exact I|].
      eapply hoarec_bind; [apply hoarec_lift, increment_offset_spec; exact H1|].
      intros s2 [-> Hl2]. cbn [ps_off ps_set_off] in *.
      eapply hoarec_bind; [apply hoarec_callc, check_uncompressed_name_spec|].
      intros f Hf. cbv beta in Hf.
      eapply hoarec_bind; [apply hoarec_lift|].
      { apply usub_spec. lia. }
      intros d ->. split_if; [exact I|].
      apply hoarec_lift. eapply hoare_weaken; [apply increment_offset_spec; unfold pinv; cbn; lia|].
      cbv beta. intros s' [-> Hl]. unfold pinv. cbn [ps_off ps_set_off] in *. lia. }
    (* A *)
    split_if.
    { split_if; [exact I|].
      apply hoarec_lift. eapply hoare_weaken; [apply increment_offset_spec; exact H1|].
      cbv beta. intros s' [-> Hl]. unfold pinv. cbn [ps_off ps_set_off] in *. lia. }
    (* AAAA *)
    split_if.
    { split_if; [exact I|].
      apply hoarec_lift. eapply hoare_weaken; [apply increment_offset_spec; exact H1|].
      cbv beta. intros s' [-> Hl]. unfold pinv. cbn [ps_off ps_set_off] in *. lia. }
    (* anything else *)
    apply hoarec_lift. eapply hoare_weaken; [apply increment_offset_spec; exact H1|].
    cbv beta. intros s' [-> Hl]. unfold pinv. cbn [ps_off ps_set_off] in *. lia.
  Qed.

  Lemma parse_rr_spec s sec : pinv s ->
    hoarec (parse_rr_c p s sec) (fun s' => pinv s' /\ ps_off s + 11 <= ps_off s').
  Proof.
    intros H. unfold parse_rr_c. apply hoarec_tick.
    eapply hoarec_bind; [apply ps_skip_name_spec|].
    intros s1 (e & -> & Hlt & Hle).
    assert (H1 : pinv (ps_set_off s e)) by (unfold pinv; cbn; lia).
    eapply hoarec_bind; [apply hoarec_lift; unfold ps_rr_type; apply be16_load_spec; exact H1|].
    intros rr_type _.
    eapply hoarec_bind; [apply hoarec_lift, ps_rr_rdlen_spec; exact H1|].
    intros rdlen [Hrd _].
    split_if.
    { split_if; [exact I|].
      eapply hoarec_bind; [apply hoarec_lift|].
      { cbn [ps_off ps_set_off]. apply usub_spec. lia. }
      intros d ->. split_if; [exact I|].
      eapply hoarec_weaken; [apply parse_opt_spec; exact H1|].
      cbv beta. cbn [ps_off ps_set_off]. intros s' [Hp Ho]. split; [exact Hp|lia]. }
    eapply hoarec_weaken; [apply parse_rr_rdata_spec; assumption|].
    cbv beta. cbn [ps_off ps_set_off]. intros s' [Hp Ho]. split; [exact Hp|lia].
  Qed.

  Lemma parse_rrs_spec sec : forall count s, pinv s ->
    hoarec (parse_rrs_c p s sec count) (fun s' => pinv s' /\ ps_off s + 11 * count <= ps_off s').
  Proof.
    induction count as [|count IH]; intros s H; cbn [parse_rrs_c].
    - apply hoarec_lift. cbn. split; [exact H|lia].
    - eapply hoarec_bind; [apply parse_rr_spec; exact H|].
      intros s1 [H1 Hp]. eapply hoarec_weaken; [apply IH; exact H1|].
      cbv beta. intros s' [H' Hp']. split; [exact H'|lia].
  Qed.

  Lemma hdr_be16_nopanic off site : 12 <= length p -> off + 1 < 12 ->
    hoare (be16_at p off site) (fun v => (v < 65536)%N).
  Proof. intros Hl Ho. apply be16_at_hoare; [lia|exact Hbytes]. Qed.

  Theorem parse_c_spec : hoarec (parse_c p) (fun v => pp_packet v = p).
  Proof.
    unfold parse_c, DNS_HEADER_SIZE, DNS_QUESTION_OFFSET.
    split_if; [exact I|].
    assert (Hlen : 12 <= length p) by lia.
    eapply hoarec_bind; [apply hoarec_lift; unfold hdr_flags_word, DNS_FLAGS_OFFSET; apply hdr_be16_nopanic; lia|].
    intros w _.
    eapply hoarec_bind; [apply hoarec_lift; unfold hdr_qdcount; apply hdr_be16_nopanic; lia|].
    intros qd _.
    split_if; [exact I|]. split_if; [exact I|].
    eapply hoarec_bind; [apply hoarec_lift, set_offset_spec|].
    intros s0 [-> Hl0].
    assert (H0 : pinv (ps_set_off ps_init 12)) by (unfold pinv; cbn; lia).
    eapply hoarec_bind; [apply parse_question_spec; exact H0|].
    intros s1 [H1 _].
    eapply hoarec_bind; [apply hoarec_lift; unfold hdr_ancount; apply hdr_be16_nopanic; lia|].
    intros an _. split_if; [exact I|].
    eapply hoarec_bind; [apply parse_rrs_spec; exact H1|].
    intros s2 [H2 _].
    eapply hoarec_bind; [apply hoarec_lift; unfold hdr_nscount; apply hdr_be16_nopanic; lia|].
    intros ns _. split_if; [exact I|].
    eapply hoarec_bind; [apply parse_rrs_spec; exact H2|].
    intros s3 [H3 _].
    eapply hoarec_bind; [apply hoarec_lift; unfold hdr_arcount; apply hdr_be16_nopanic; lia|].
    intros ar _.
    eapply hoarec_bind; [apply parse_rrs_spec; exact H3|].
    intros s4 [H4 _].
    eapply hoarec_bind; [apply hoarec_lift, remaining_len_spec; exact H4|].
    intros r _. split_if; [exact I|].
    apply hoarec_lift. cbn. reflexivity.
  Qed.
End P.

(** Parsing any byte string returns [Ok] or [Err], never panics, never runs out of fuel; and a
    parsed packet still holds exactly the input bytes. *)
Theorem parse_total : forall p, bytes_ok p -> nopanic (parse p).
Proof. intros p H. eapply hoare_nopanic. apply (parse_c_spec p H). Qed.

Theorem parse_keeps_bytes : forall p v, bytes_ok p -> parse p = Ok v -> pp_packet v = p.
Proof.
  intros p v H E. pose proof (parse_c_spec p H) as Hs.
  unfold hoarec, hoare in Hs. unfold parse in E. rewrite E in Hs. exact Hs.
Qed.

(** ** Cursor primitives: any sequence of [set_offset n | increment_offset n | rr_rdlen |
    edns_rr_rdlen] on a fresh [DNSSector], for any buffer and any arguments, never panics and
    keeps [offset <= len]. *)

Definition cinv (p : bytes) (s : pstate) : Prop := ps_off s <= length p /\ ps_edns_end s = None.

Lemma cursor_apply_spec p s op : bytes_ok p -> cinv p s ->
  hoare (cursor_apply p s op) (fun r => cinv p (fst r)).
Proof.
  intros Hb [Hi He]. destruct op as [n|n| |]; unfold cursor_apply.
  - pose proof (set_offset_spec p s n) as H.
    destruct (set_offset p s n); cbn in *; [|split; assumption|exact H].
    destruct H as [-> Hl]. split; cbn; [lia|exact He].
  - pose proof (increment_offset_spec p s n Hi) as H.
    destruct (increment_offset p s n); cbn in *; [|split; assumption|exact H].
    destruct H as [-> Hl]. split; cbn; [lia|exact He].
  - pose proof (ps_rr_rdlen_spec p Hb s Hi) as H.
    destruct (ps_rr_rdlen p s); cbn in *; [split; assumption|split; assumption|exact H].
  - unfold edns_rr_rdlen, edns_be16_load, edns_ensure_remaining_len, edns_remaining_len.
    rewrite He. cbn. split; assumption.
Qed.

Theorem cursor_total : forall p ops s, bytes_ok p -> cinv p s ->
  hoare (cursor_run p s ops) (fun r => ps_off (fst r) <= length p).
Proof.
  intros p ops. induction ops as [|op ops IH]; intros s Hb Hi; cbn [cursor_run].
  - cbn. apply Hi.
  - eapply hoare_bind; [apply cursor_apply_spec; assumption|].
    intros [s' o] Hs'. cbn [fst] in Hs'.
    eapply hoare_bind; [apply IH; assumption|].
    intros [s'' os] Hs''. cbn in *. exact Hs''.
Qed.

Theorem cursor_total_fresh : forall p ops, bytes_ok p ->
  hoare (cursor_run p ps_init ops) (fun r => ps_off (fst r) <= length p).
Proof.
  intros p ops Hb. apply cursor_total; [exact Hb|]. split; cbn; [lia|reflexivity].
Qed.
