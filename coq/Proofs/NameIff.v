(** * The validating name walker accepts exactly the names of the declarative policy (C02, names).

    [check_compressed_name p off = Ok e  <->  cname p off e]  and
    [check_uncompressed_name p off = Ok e  <->  plain_name p off e]. *)

From DV Require Import Model.Base Model.NameCheck Spec.NameSpec Proofs.Hoare Proofs.NameCheckTotal.
From Coq Require Import ZifyBool ZifyNat ZifyN.

Lemma label_ok_iff l : existsb bad_label_char l = false <-> forallb label_char_ok l = true.
Proof.
  induction l as [|c l IH]; cbn; [tauto|].
  unfold bad_label_char, label_char_ok in *. split; intros H.
  - apply orb_false_iff in H. destruct H as [Hc Hl]. apply IH in Hl. rewrite Hl. lia.
  - apply andb_true_iff in H. destruct H as [Hc Hl]. apply IH in Hl. rewrite Hl. lia.
Qed.

Lemma slice_eq p a b site : a <= b -> b <= length p -> slice p a b site = Ok (firstn (b - a) (skipn a p)).
Proof. intros H1 H2. unfold slice. destruct ((a <=? b) && (b <=? length p)) eqn:E; [reflexivity|lia]. Qed.

Lemma small_not_ptr len : (len <= 63)%N -> (N.land len 192 =? 192)%N = false.
Proof.
  intros Hl. apply N.eqb_neq. intros Hc.
  assert (H6 : N.testbit (N.land len 192) 6 = true) by (rewrite Hc; reflexivity).
  rewrite N.land_spec in H6.
  assert (N.testbit len 6 = false).
  { destruct len as [|q]; [reflexivity|]. apply N.bits_above_log2. apply N.log2_lt_pow2; [lia|]. cbn. lia. }
  rewrite H in H6. discriminate.
Qed.

Section S.
  Variable p : bytes.

  Definition result_of (s : cn_state) (e : nat) : nat :=
    match cn_final s with Some f => f | None => e end.

  (** ** Soundness *)
  Lemma cn_sound : forall fuel s r,
    run_loop (cn_step p) fuel s = Ok r -> cn_nlen s <= 255 ->
    exists ls e, name_at p (cn_off s) (cn_barrier s) (cn_lowest s) (cn_refs s) (255 - cn_nlen s) ls e /\
                 r = result_of s e.
  Proof.
    induction fuel as [|fuel IH]; intros s r Hr Hn; cbn [run_loop] in Hr; [discriminate|].
    unfold cn_step in Hr.
    destruct (cn_barrier s <=? cn_off s) eqn:E1; [discriminate|].
    destruct (nth_error p (cn_off s)) as [len|] eqn:Elen; [|discriminate].
    destruct (N.land len 192 =? 192)%N eqn:Eptr.
    - destruct (cn_refs s =? 0) eqn:E2; [discriminate|].
      destruct (length p <? cn_off s) eqn:E3; [discriminate|].
      destruct (length p - cn_off s <? 2) eqn:E4; [discriminate|].
      destruct (nth_error p (cn_off s + 1)) as [lo|] eqn:Elo; [|discriminate].
      fold (ptr_target len lo) in Hr.
      destruct ((ptr_target len lo =? cn_off s) || (cn_lowest s <=? ptr_target len lo)) eqn:E5; [discriminate|].
      destruct (nth_error p (ptr_target len lo)) as [rb|] eqn:Erb; [|discriminate].
      destruct (negb (N.land rb 192 =? 192)%N && (rb <? 1)%N) eqn:E6; [discriminate|].
      apply IH in Hr; [|cbn [cn_nlen]; exact Hn].
      cbn [cn_off cn_barrier cn_lowest cn_refs cn_nlen] in Hr. destruct Hr as (ls & e' & Hna & Hres).
      exists ls, (cn_off s + 2). split.
      + destruct (cn_refs s) as [|h] eqn:Eh; [discriminate|].
        replace (S h - 1) with h in Hna by lia.
        eapply NPtr with (tb := rb); eauto; try lia.
        intros ->. cbn in E6. discriminate.
      + unfold result_of in *. cbn [cn_final] in Hres. destruct (cn_final s); cbn [opt_or] in Hres; exact Hres.
    - destruct (63 <? len)%N eqn:E2; [discriminate|].
      destruct (length p <? cn_off s) eqn:E3; [discriminate|].
      destruct (length p - cn_off s <=? N.to_nat len) eqn:E4; [discriminate|].
      unfold DNS_MAX_HOSTNAME_LEN in Hr.
      destruct (255 <? cn_nlen s + N.to_nat len + 1) eqn:E5; [discriminate|].
      rewrite slice_eq in Hr by lia.
      replace (cn_off s + N.to_nat len + 1 - (cn_off s + 1)) with (N.to_nat len) in Hr by lia.
      destruct (existsb bad_label_char (firstn (N.to_nat len) (skipn (cn_off s + 1) p))) eqn:E6; [discriminate|].
      apply label_ok_iff in E6.
      destruct (N.to_nat len =? 0) eqn:E7.
      + assert (len = 0%N) by lia. subst len. inversion Hr; subst r.
        exists [], (cn_off s + 1). split; [apply NRoot; [lia|exact Elen|lia]|].
        unfold result_of. destruct (cn_final s); [reflexivity|lia].
      + apply IH in Hr; [|cbn [cn_nlen]; lia].
        cbn [cn_off cn_barrier cn_lowest cn_refs cn_nlen cn_final] in Hr. destruct Hr as (ls & e & Hna & Hres).
        exists (firstn (N.to_nat len) (skipn (cn_off s + 1) p) :: ls), e. split; [|exact Hres].
        eapply NLabel; eauto; try lia.
        replace (255 - cn_nlen s - (N.to_nat len + 1)) with (255 - (cn_nlen s + N.to_nat len + 1)) by lia.
        exact Hna.
  Qed.

  (** ** Completeness *)
  Lemma cn_complete : forall off bar low hops budget ls e,
    name_at p off bar low hops budget ls e ->
    forall s fuel, cn_off s = off -> cn_barrier s = bar -> cn_lowest s = low -> cn_refs s = hops ->
      255 - cn_nlen s = budget -> cn_nlen s <= 255 -> low <= off -> bar <= length p ->
      cn_measure s < fuel ->
      run_loop (cn_step p) fuel s = Ok (result_of s e).
  Proof.
    induction 1 as [off bar low hops budget Hlt Hz Hb
                   |off bar low hops budget len ls e Hlt Hlen Hl1 Hl63 Hfit Hok Hbud Hrest IH
                   |off bar low hops budget hi lo tb ls e' Hlt Hhi Hptr Hlo Ht Htb Hnz Hrest IH];
      intros s fuel Eo Eb El Er Ebud Hn Hlo' Hbar Hfuel;
      (destruct fuel as [|fuel]; [lia|]); cbn [run_loop]; unfold cn_step; rewrite Eo, Eb.
    - destruct (bar <=? off) eqn:E1; [lia|]. rewrite Hz.
      replace (N.land 0 192 =? 192)%N with false by reflexivity.
      replace (63 <? 0)%N with false by reflexivity.
      destruct (length p <? off) eqn:E3; [lia|].
      assert (off < length p) by (apply nth_error_Some; congruence).
      destruct (length p - off <=? N.to_nat 0) eqn:E4; [lia|].
      unfold DNS_MAX_HOSTNAME_LEN. destruct (255 <? cn_nlen s + N.to_nat 0 + 1) eqn:E5; [lia|].
      rewrite slice_eq by lia. replace (off + N.to_nat 0 + 1 - (off + 1)) with 0 by lia. cbn [firstn existsb].
      replace (N.to_nat 0 =? 0) with true by reflexivity.
      unfold result_of. destruct (cn_final s); f_equal; lia.
    - destruct (bar <=? off) eqn:E1; [lia|]. rewrite Hlen.
      assert (Hnp : (N.land len 192 =? 192)%N = false) by (apply small_not_ptr; exact Hl63).
      rewrite Hnp. destruct (63 <? len)%N eqn:E2; [lia|].
      destruct (length p <? off) eqn:E3; [lia|].
      destruct (length p - off <=? N.to_nat len) eqn:E4; [lia|].
      unfold DNS_MAX_HOSTNAME_LEN. destruct (255 <? cn_nlen s + N.to_nat len + 1) eqn:E5; [lia|].
      rewrite slice_eq by lia. replace (off + N.to_nat len + 1 - (off + 1)) with (N.to_nat len) by lia.
      apply label_ok_iff in Hok. rewrite Hok.
      destruct (N.to_nat len =? 0) eqn:E7; [lia|].
      match goal with |- run_loop _ _ ?s1 = _ => set (s1' := s1) end.
      replace (result_of s e) with (result_of s1' e) by (unfold result_of, s1'; reflexivity).
      apply IH; unfold s1'; cbn [cn_off cn_barrier cn_lowest cn_refs cn_nlen]; try lia; try assumption.
      unfold cn_measure in *. cbn [cn_refs cn_nlen]. lia.
    - destruct (bar <=? off) eqn:E1; [lia|]. rewrite Hhi.
      apply N.eqb_eq in Hptr. rewrite Hptr.
      rewrite Er. destruct (S hops =? 0) eqn:E2; [lia|].
      assert (off + 1 < length p) by (apply nth_error_Some; congruence).
      destruct (length p <? off) eqn:E3; [lia|].
      destruct (length p - off <? 2) eqn:E4; [lia|].
      rewrite Hlo. fold (ptr_target hi lo). rewrite El.
      destruct ((ptr_target hi lo =? off) || (low <=? ptr_target hi lo)) eqn:E5; [lia|].
      rewrite Htb.
      destruct (negb (N.land tb 192 =? 192)%N && (tb <? 1)%N) eqn:E6.
      { exfalso. apply andb_true_iff in E6. destruct E6 as [_ E6]. lia. }
      match goal with |- run_loop _ _ ?s1 = _ => set (s1' := s1) end.
      assert (Hres : result_of s (off + 2) = result_of s1' e').
      { unfold result_of, s1'. cbn [cn_final]. destruct (cn_final s); reflexivity. }
      rewrite Hres.
      apply IH; unfold s1'; cbn [cn_off cn_barrier cn_lowest cn_refs cn_nlen]; try lia; try reflexivity.
      unfold cn_measure in *. cbn [cn_refs cn_nlen]. lia.
  Qed.
End S.

Theorem check_compressed_name_iff : forall p off e,
  check_compressed_name p off = Ok e <-> cname p off e.
Proof.
  intros p off e. unfold check_compressed_name, cname. split.
  - intros H. destruct (length p <=? off) eqn:E1; [discriminate|].
    destruct (length p - off <? 1) eqn:E2; [discriminate|].
    destruct (cn_sound p cn_fuel (cn_init p off) e H) as (ls & e' & Hna & Hr); [cbn; lia|].
    unfold cn_init in *. cbn [cn_off cn_barrier cn_lowest cn_refs cn_nlen] in Hna.
    unfold result_of in Hr. cbn [cn_final] in Hr. subst e'. exists ls. split; [lia|exact Hna].
  - intros (ls & Hlt & H). destruct (length p <=? off) eqn:E1; [lia|].
    destruct (length p - off <? 1) eqn:E2; [lia|].
    pose proof (cn_complete p off (length p) off 16 255 ls e H (cn_init p off) cn_fuel) as Hc.
    unfold cn_init in Hc at 1 2 3 4 5 6 7. cbn [cn_off cn_barrier cn_lowest cn_refs cn_nlen] in Hc.
    specialize (Hc eq_refl eq_refl eq_refl eq_refl eq_refl ltac:(lia) ltac:(lia) ltac:(lia)).
    rewrite Hc; [reflexivity|].
    unfold cn_measure, cn_init, cn_fuel. cbn [cn_refs cn_nlen]. unfold DNS_MAX_HOSTNAME_INDIRECTIONS. lia.
Qed.

(** ** The pointer-free walker *)

Lemma un_sound p : forall fuel s r,
  run_loop (un_step p) fuel s = Ok r -> un_nlen s <= 255 ->
  plain_name_at p (un_off s) (255 - un_nlen s) r.
Proof.
  induction fuel as [|fuel IH]; intros s r Hr Hn; cbn [run_loop] in Hr; [discriminate|].
  unfold un_step in Hr.
  destruct (length p <=? un_off s) eqn:E1; [discriminate|].
  destruct (nth_error p (un_off s)) as [len|] eqn:Elen; [|discriminate].
  destruct (N.land len 192 =? 192)%N eqn:Eptr; [discriminate|].
  destruct (63 <? len)%N eqn:E2; [discriminate|].
  destruct (length p - un_off s <=? N.to_nat len) eqn:E4; [discriminate|].
  unfold DNS_MAX_HOSTNAME_LEN in Hr.
  destruct (255 <? un_nlen s + N.to_nat len + 1) eqn:E5; [discriminate|].
  destruct (N.to_nat len =? 0) eqn:E7.
  - assert (len = 0%N) by lia. subst len.
    assert (r = un_off s + 1) by (inversion Hr; lia). subst r. apply PRoot; [exact Elen|lia].
  - apply IH in Hr; [|cbn [un_nlen]; lia]. cbn [un_off un_nlen] in Hr.
    eapply PLabel; eauto; try lia.
    replace (255 - un_nlen s - (N.to_nat len + 1)) with (255 - (un_nlen s + N.to_nat len + 1)) by lia. exact Hr.
Qed.

Lemma un_complete p : forall off budget e, plain_name_at p off budget e ->
  forall s fuel, un_off s = off -> 255 - un_nlen s = budget -> un_nlen s <= 255 -> un_measure s < fuel ->
  run_loop (un_step p) fuel s = Ok e.
Proof.
  induction 1 as [off budget Hz Hb|off budget len e Hlen Hl1 Hl63 Hfit Hbud Hrest IH];
    intros s fuel Eo Ebud Hn Hfuel; (destruct fuel as [|fuel]; [lia|]); cbn [run_loop]; unfold un_step; rewrite Eo.
  - assert (off < length p) by (apply nth_error_Some; congruence).
    destruct (length p <=? off) eqn:E1; [lia|]. rewrite Hz.
    replace (N.land 0 192 =? 192)%N with false by reflexivity. replace (63 <? 0)%N with false by reflexivity.
    destruct (length p - off <=? N.to_nat 0) eqn:E4; [lia|].
    unfold DNS_MAX_HOSTNAME_LEN. destruct (255 <? un_nlen s + N.to_nat 0 + 1) eqn:E5; [lia|].
    replace (N.to_nat 0 =? 0) with true by reflexivity. f_equal. lia.
  - assert (off < length p) by (apply nth_error_Some; congruence).
    destruct (length p <=? off) eqn:E1; [lia|]. rewrite Hlen.
    assert (Hnp : (N.land len 192 =? 192)%N = false) by (apply small_not_ptr; exact Hl63).
    rewrite Hnp. destruct (63 <? len)%N eqn:E2; [lia|].
    destruct (length p - off <=? N.to_nat len) eqn:E4; [lia|].
    unfold DNS_MAX_HOSTNAME_LEN. destruct (255 <? un_nlen s + N.to_nat len + 1) eqn:E5; [lia|].
    destruct (N.to_nat len =? 0) eqn:E7; [lia|].
    apply IH; cbn [un_off un_nlen]; try lia. unfold un_measure in *. cbn [un_nlen]. lia.
Qed.

Theorem check_uncompressed_name_iff : forall p off e,
  check_uncompressed_name p off = Ok e <-> plain_name p off e.
Proof.
  intros p off e. unfold check_uncompressed_name, plain_name. split.
  - intros H. destruct (length p <=? off) eqn:E1; [discriminate|].
    destruct (length p - off <? 1) eqn:E2; [discriminate|]. split; [lia|].
    apply un_sound in H; [exact H|cbn; lia].
  - intros [Hlt H]. destruct (length p <=? off) eqn:E1; [lia|].
    destruct (length p - off <? 1) eqn:E2; [lia|].
    eapply un_complete; eauto; cbn [un_off un_nlen]; try lia.
    unfold un_measure, un_fuel. cbn [un_nlen]. lia.
Qed.
