(** * The question getters return the declaratively decoded question (C04).

    For every accepted packet the four question getters of parsed_packet.rs:395-459, on either
    side of the cache, return the labels that the name policy reads at offset 12 - as pointer-free
    wire bytes, as wire bytes without the root, as lower-cased dotted text - together with the two
    big-endian 16-bit words that follow the name. The decoding is a function of the bytes
    ([name_at_fun]), so "the labels" is well defined. *)

From DV Require Import Model.Base Model.NameCheck Model.Parser Model.Header Model.Readers
  Spec.NameSpec Spec.PacketSpec Spec.RecordSpec Proofs.ListLemmas Proofs.Hoare Proofs.NameIff Proofs.ParserInv
  Proofs.ParseSound Proofs.ReadersLabels.
From Coq Require Import ZifyBool ZifyNat ZifyN.

(** ** The declarative decoding is deterministic *)
Lemma name_at_fun p : forall off bar low hops budget ls e,
  name_at p off bar low hops budget ls e ->
  forall bar' low' hops' budget' ls' e', name_at p off bar' low' hops' budget' ls' e' -> ls = ls' /\ e = e'.
Proof.
  induction 1 as [off bar low hops budget Hlt Hz Hb
                 |off bar low hops budget len ls e Hlt Hlen Hl1 Hl63 Hfit Hok Hbud Hrest IH
                 |off bar low hops budget hi lo tb ls e' Hlt Hhi Hptr Hlo Ht Htb Hnz Hrest IH];
    intros bar' low' hops' budget' ls' e2 H2; inversion H2; subst.
  - split; reflexivity.
  - exfalso. match goal with H : nth_error p off = Some ?l, H1 : (1 <= ?l)%N |- _ => rewrite Hz in H; inversion H; subst; lia end.
  - exfalso. match goal with H : nth_error p off = Some ?h, H1 : N.land ?h 192 = 192%N |- _ => rewrite Hz in H; inversion H; subst; cbn in H1; discriminate end.
  - exfalso. match goal with H : nth_error p off = Some 0%N |- _ => rewrite Hlen in H; inversion H; subst; lia end.
  - match goal with H : nth_error p off = Some ?l |- _ => rewrite Hlen in H; inversion H; subst end.
    match goal with H : name_at p _ _ _ _ _ _ _ |- _ => apply IH in H; destruct H as [-> ->] end. split; reflexivity.
  - exfalso. match goal with H : nth_error p off = Some ?h, H1 : N.land ?h 192 = 192%N |- _ =>
      rewrite Hlen in H; inversion H; subst; pose proof (small_not_ptr _ Hl63) as Hs; rewrite H1 in Hs; discriminate end.
  - exfalso. match goal with H : nth_error p off = Some 0%N |- _ => rewrite Hhi in H; inversion H; subst; cbn in Hptr; discriminate end.
  - exfalso. match goal with H : nth_error p off = Some ?l, H63 : (?l <= 63)%N |- _ =>
      rewrite Hhi in H; inversion H; subst; pose proof (small_not_ptr _ H63) as Hs; rewrite Hptr in Hs; discriminate end.
  - match goal with H : nth_error p off = Some ?h |- _ => rewrite Hhi in H; inversion H; subst end.
    match goal with H : nth_error p (off + 1) = Some ?l |- _ => rewrite Hlo in H; inversion H; subst end.
    match goal with H : name_at p _ _ _ _ _ _ _ |- _ => apply IH in H; destruct H as [-> _] end. split; reflexivity.
Qed.

Lemma name_at_end_gt p off bar low hops budget ls e : name_at p off bar low hops budget ls e -> off < e.
Proof. induction 1; lia. Qed.

Theorem cname_l_fun p off ls e ls' e' : cname_l p off ls e -> cname_l p off ls' e' -> ls = ls' /\ e = e'.
Proof. intros [_ H] [_ H']. eapply name_at_fun; eassumption. Qed.

(** ** raw_name_len on a possibly compressed tail: the end of the first segment *)
Lemma rl_first_segment p off : forall o bar low hops budget ls e,
  name_at p o bar low hops budget ls e -> off <= o ->
  forall fuel, length p - o < fuel ->
  run_loop (rl_step (skipn off p)) fuel (o - off) = Ok (e - off).
Proof.
  induction 1 as [o bar low hops budget Hlt Hz Hb
                 |o bar low hops budget len ls e Hlt Hlen Hl1 Hl63 Hfit Hok Hbud Hrest IH
                 |o bar low hops budget hi lo tb ls e' Hlt Hhi Hptr Hlo Ht Htb Hnz Hrest IH];
    intros Hle fuel Hf; (destruct fuel as [|fuel]; [lia|]); cbn [run_loop]; unfold rl_step at 1;
    rewrite nth_error_skipn; replace (off + (o - off)) with o by lia.
  - rewrite Hz. cbn. f_equal. lia.
  - rewrite Hlen. destruct (len =? 0)%N eqn:E0; [lia|]. rewrite (small_not_ptr len Hl63).
    replace (o - off + N.to_nat len + 1) with (o + N.to_nat len + 1 - off) by lia.
    apply IH; lia.
  - rewrite Hhi. destruct (hi =? 0)%N eqn:E0. { assert (hi = 0%N) by lia. subst hi. cbn in Hptr. discriminate. }
    apply N.eqb_eq in Hptr. rewrite Hptr. f_equal. lia.
Qed.

(** ** The pointer-free wire form of a label list is itself a policy name with those labels *)
Lemma wire_is_name : forall ls, Forall label_ok ls -> forall pre post bar low hops budget,
  length (wire_of_labels ls) <= budget -> length pre + length (wire_of_labels ls) <= bar ->
  name_at (pre ++ wire_of_labels ls ++ post) (length pre) bar low hops budget ls (length pre + length (wire_of_labels ls)).
Proof.
  induction 1 as [|l ls Hl Hls IH]; intros pre post bar low hops budget Hb Hbar.
  - cbn [wire_of_labels labels_flat flat_map app length] in *. apply NRoot; [lia| |lia].
    rewrite nth_error_app2 by lia. rewrite Nat.sub_diag. reflexivity.
  - destruct Hl as (Hne & Hlen & Hok). rewrite wire_of_labels_cons in *. cbn [length] in *. rewrite app_length in *.
    assert (Hnth : nth_error (pre ++ (N.of_nat (length l) :: l ++ wire_of_labels ls) ++ post) (length pre) = Some (N.of_nat (length l))).
    { rewrite nth_error_app2 by lia. rewrite Nat.sub_diag. reflexivity. }
    assert (Hlab : firstn (N.to_nat (N.of_nat (length l)))
              (skipn (length pre + 1) (pre ++ (N.of_nat (length l) :: l ++ wire_of_labels ls) ++ post)) = l).
    { rewrite Nat2N.id. replace (length pre + 1) with (length (pre ++ [N.of_nat (length l)])) by (rewrite app_length; cbn; lia).
      replace (pre ++ (N.of_nat (length l) :: l ++ wire_of_labels ls) ++ post)
        with ((pre ++ [N.of_nat (length l)]) ++ l ++ (wire_of_labels ls ++ post)).
      2:{ rewrite <- !app_assoc. cbn [app]. rewrite <- app_assoc. reflexivity. }
      rewrite skipn_app, skipn_all, Nat.sub_diag. cbn [app skipn].
      rewrite firstn_app, firstn_all, Nat.sub_diag. cbn [firstn]. apply app_nil_r. }
    set (P := pre ++ (N.of_nat (length l) :: l ++ wire_of_labels ls) ++ post) in *.
    replace (l :: ls) with (firstn (N.to_nat (N.of_nat (length l))) (skipn (length pre + 1) P) :: ls) by (rewrite Hlab; reflexivity).
    eapply NLabel.
    + lia.
    + exact Hnth.
    + destruct l; [congruence|cbn [length]; lia].
    + lia.
    + rewrite Nat2N.id. unfold P. rewrite !app_length. cbn [length]. rewrite app_length. lia.
    + rewrite Hlab. exact Hok.
    + rewrite Nat2N.id. lia.
    + rewrite Nat2N.id.
      specialize (IH (pre ++ N.of_nat (length l) :: l) post bar low hops (budget - (length l + 1))).
      rewrite app_length in IH. cbn [length] in IH.
      replace (length pre + length l + 1) with (length pre + S (length l)) by lia.
      replace (length pre + S (length l + length (wire_of_labels ls))) with (length pre + S (length l) + length (wire_of_labels ls)) by lia.
      replace P with ((pre ++ N.of_nat (length l) :: l) ++ wire_of_labels ls ++ post).
      2:{ unfold P. rewrite <- !app_assoc. cbn [app]. rewrite <- app_assoc. reflexivity. }
      apply IH; lia.
Qed.

Theorem wire_cname_l ls : Forall label_ok ls -> length (wire_of_labels ls) <= 255 ->
  cname_l (wire_of_labels ls) 0 ls (length (wire_of_labels ls)).
Proof.
  intros H Hl. pose proof (wire_is_name ls H [] [] (length (wire_of_labels ls)) 0 16 255 Hl) as E.
  cbn [app length] in E. rewrite app_nil_r in E. split; [|apply E; lia].
  unfold wire_of_labels. rewrite app_length. cbn. lia.
Qed.

Lemma bytes_ok_wire ls : Forall label_ok ls -> Forall (fun l => bytes_ok l) ls -> bytes_ok (wire_of_labels ls).
Proof.
  intros H Hb. unfold wire_of_labels, labels_flat, bytes_ok. apply Forall_app. split; [|repeat constructor].
  induction H as [|l ls Hl Hls IH]; [constructor|]. inversion Hb; subst. cbn [flat_map].
  apply Forall_app. split; [|apply IH; assumption]. constructor; [|assumption].
  destruct Hl as (_ & Hlen & _). lia.
Qed.

Lemma Forall_firstn {A} (P : A -> Prop) (l : list A) : forall n, Forall P l -> Forall P (firstn n l).
Proof. induction l as [|a l IH]; intros [|n] H; cbn; try constructor; inversion H; subst; auto. Qed.

Lemma Forall_skipn {A} (P : A -> Prop) (l : list A) : forall n, Forall P l -> Forall P (skipn n l).
Proof. induction l as [|a l IH]; intros [|n] H; cbn; auto. inversion H; subst; auto. Qed.

Lemma name_at_labels_bytes p off bar low hops budget ls e : bytes_ok p ->
  name_at p off bar low hops budget ls e -> Forall (fun l => bytes_ok l) ls.
Proof.
  intros Hb. induction 1 as [| off bar low hops budget len ls e Hlt Hlen Hl1 Hl63 Hfit Hok Hbud Hrest IH |]; [constructor| |assumption].
  constructor; [|exact IH]. unfold bytes_ok in *. apply Forall_firstn, Forall_skipn. exact Hb.
Qed.

(** ** The getters *)
Record question_of (p : bytes) (ls : list bytes) (t c : N) : Prop := {
  qo_name : exists qe, cname_l p 12 ls qe /\ u16_at p qe t /\ u16_at p (qe + 2) c /\ qe + 4 <= length p
}.

Lemma type_class_at_ok p qe t c : u16_at p qe t -> u16_at p (qe + 2) c -> qe + 4 <= length p ->
  type_class_at p qe = Ok (t, c).
Proof.
  intros Ht Hc Hl. unfold type_class_at, slice_from, DNS_RR_TYPE_OFFSET, DNS_RR_CLASS_OFFSET.
  destruct (qe <=? length p) eqn:E; [|lia]. cbn [bind].
  apply (be16_at_u16 _ _ 502%N) in Ht. apply (be16_at_u16 _ _ 503%N) in Hc.
  replace (qe + 0) with qe by lia. rewrite Ht. cbn [bind]. rewrite Hc. reflexivity.
Qed.

Theorem question_exists : forall p v, bytes_ok p -> parse p = Ok v ->
  exists ls t, question_of p ls t CLASS_IN.
Proof.
  intros p v Hb Hp. pose proof (parse_sound p v Hb Hp) as Hwf.
  destruct Hwf as (w & an & ns & ar & qe & qclass & e1 & s1 & e2 & s2 & s3 & _ & _ & _ & _ & _ & Hqn & Hq4 & Hqc & -> & _).
  destruct Hqn as (ls & Hcl).
  assert (Ht : exists t, u16_at p qe t).
  { destruct (nth_error p qe) as [hi|] eqn:E1; [|apply nth_error_None in E1; lia].
    destruct (nth_error p (qe + 1)) as [lo|] eqn:E2; [|apply nth_error_None in E2; lia].
    exists (hi * 256 + lo)%N, hi, lo. auto. }
  destruct Ht as (t & Ht). exists ls, t. constructor. exists qe. auto.
Qed.

Theorem question_of_fun p ls t c ls' t' c' :
  question_of p ls t c -> question_of p ls' t' c' -> ls = ls' /\ t = t' /\ c = c'.
Proof.
  intros [(qe & Hn & Ht & Hc & _)] [(qe' & Hn' & Ht' & Hc' & _)].
  destruct (cname_l_fun _ _ _ _ _ _ Hn Hn') as [-> ->].
  destruct Ht as (a & b & Ha & Hb & ->), Ht' as (a' & b' & Ha' & Hb' & ->).
  destruct Hc as (x & y & Hx & Hy & ->), Hc' as (x' & y' & Hx' & Hy' & ->).
  rewrite Ha in Ha'. rewrite Hb in Hb'. rewrite Hx in Hx'. rewrite Hy in Hy'.
  inversion Ha'; inversion Hb'; inversion Hx'; inversion Hy'; subst. auto.
Qed.

Section Getters.
  Variables (p : bytes) (v : ppacket) (ls : list bytes) (t c : N).
  Hypothesis Hb : bytes_ok p.
  Hypothesis Hv : pp_packet v = p.
  Hypothesis Hoq : pp_offset_question v = Some 12.
  Hypothesis Hq : question_of p ls t c.

  Let wire := wire_of_labels ls.

  Lemma labels_ok_q : Forall label_ok ls /\ length wire <= 255.
  Proof.
    destruct Hq as [(qe & [_ Hn] & _)]. split; [eapply name_at_labels_ok; exact Hn|eapply wire_len_le; exact Hn].
  Qed.

  (** uncached object: [question_raw0] decodes, fills the cache, and returns the wire name *)
  Theorem question_raw0_uncached : pp_cached v = None ->
    pp_question_raw0 v = Ok (pp_with_cached v (Some (wire, t, c)), Some (wire, t, c)).
  Proof.
    intros Hc. destruct Hq as [(qe & Hn & Ht & Hcl & Hl)].
    unfold pp_question_raw0. rewrite Hc, Hoq, Hv.
    rewrite (copy_uncompressed_name_labels p Hb 12 ls qe [] Hn). cbn [bind app].
    rewrite (type_class_at_ok p qe t c Ht Hcl Hl). reflexivity.
  Qed.

  (** cached object (any later call): the cache is returned as is *)
  Theorem question_raw0_cached : pp_cached v = Some (wire, t, c) ->
    pp_question_raw0 v = Ok (v, Some (wire, t, c)).
  Proof. intros Hc. unfold pp_question_raw0. rewrite Hc. reflexivity. Qed.

  Lemma wire_without_root : firstn (length wire - 1) wire = labels_flat ls.
  Proof.
    unfold wire, wire_of_labels. rewrite app_length. cbn [length].
    replace (length (labels_flat ls) + 1 - 1) with (length (labels_flat ls) + 0) by lia.
    rewrite firstn_app_2. cbn [firstn]. apply app_nil_r.
  Qed.

  Theorem question_raw_uncached : pp_cached v = None ->
    pp_question_raw v = Ok (pp_with_cached v (Some (wire, t, c)), Some (labels_flat ls, t, c)).
  Proof.
    intros Hc. unfold pp_question_raw. rewrite (question_raw0_uncached Hc). cbn [bind].
    unfold usub. assert (1 <= length wire) by (unfold wire, wire_of_labels; rewrite app_length; cbn; lia).
    destruct (1 <=? length wire) eqn:E; [|lia]. cbn [bind]. rewrite wire_without_root. reflexivity.
  Qed.

  Theorem question_raw_cached : pp_cached v = Some (wire, t, c) ->
    pp_question_raw v = Ok (v, Some (labels_flat ls, t, c)).
  Proof.
    intros Hc. unfold pp_question_raw. rewrite (question_raw0_cached Hc). cbn [bind].
    unfold usub. assert (1 <= length wire) by (unfold wire, wire_of_labels; rewrite app_length; cbn; lia).
    destruct (1 <=? length wire) eqn:E; [|lia]. cbn [bind]. rewrite wire_without_root. reflexivity.
  Qed.

  (** text form, not through the cache *)
  Theorem question_uncached : pp_cached v = None ->
    pp_question v = Ok (Some (ascii_lowercase (dotted ls), t, c)).
  Proof.
    intros Hc. destruct Hq as [(qe & Hn & Ht & Hcl & Hl)].
    unfold pp_question. rewrite Hc, Hoq, Hv.
    rewrite (raw_name_to_str_dotted p 12 ls qe Hb Hn). cbn [bind].
    assert (H12 : 12 < length p) by (destruct Hn; lia).
    unfold slice_from. destruct (12 <=? length p) eqn:E; [|lia]. cbn [bind].
    unfold raw_name_len. destruct Hn as [_ Hna].
    pose proof (rl_first_segment p 12 _ _ _ _ _ _ _ Hna (le_n 12) (length (skipn 12 p) + 1)) as Hr.
    rewrite Nat.sub_diag in Hr. rewrite Hr by (rewrite skipn_length; lia). cbn [bind].
    assert (Hqe : 12 <= qe) by (apply name_at_end_gt in Hna; lia).
    replace (12 + (qe - 12)) with qe by lia.
    rewrite (type_class_at_ok p qe t c Ht Hcl Hl). reflexivity.
  Qed.

  (** text form, through the cache *)
  Theorem question_cached : pp_cached v = Some (wire, t, c) ->
    pp_question v = Ok (Some (ascii_lowercase (dotted ls), t, c)).
  Proof.
    intros Hc. unfold pp_question. rewrite Hc.
    destruct labels_ok_q as [Hok Hlen].
    assert (Hbw : bytes_ok wire).
    { apply bytes_ok_wire; [exact Hok|]. destruct Hq as [(qe & [_ Hn] & _)]. eapply name_at_labels_bytes; eauto. }
    rewrite (raw_name_to_str_dotted wire 0 ls (length wire) Hbw (wire_cname_l ls Hok Hlen)). reflexivity.
  Qed.

  Theorem qtype_qclass_uncached : pp_cached v = None -> pp_qtype_qclass v = Ok (Some (t, c)).
  Proof.
    intros Hc. destruct Hq as [(qe & Hn & Ht & Hcl & Hl)].
    unfold pp_qtype_qclass. rewrite Hc, Hoq, Hv.
    assert (H12 : 12 < length p) by (destruct Hn; lia).
    unfold slice_from. destruct (12 <=? length p) eqn:E; [|lia]. cbn [bind].
    unfold raw_name_len. destruct Hn as [_ Hna].
    pose proof (rl_first_segment p 12 _ _ _ _ _ _ _ Hna (le_n 12) (length (skipn 12 p) + 1)) as Hr.
    rewrite Nat.sub_diag in Hr. rewrite Hr by (rewrite skipn_length; lia). cbn [bind].
    assert (Hqe : 12 <= qe) by (apply name_at_end_gt in Hna; lia).
    replace (12 + (qe - 12)) with qe by lia.
    rewrite (type_class_at_ok p qe t c Ht Hcl Hl). reflexivity.
  Qed.

  Theorem qtype_qclass_cached : pp_cached v = Some (wire, t, c) -> pp_qtype_qclass v = Ok (Some (t, c)).
  Proof. intros Hc. unfold pp_qtype_qclass. rewrite Hc. reflexivity. Qed.
End Getters.

(** ** Packaged for a freshly parsed packet *)
Theorem parsed_question_getters : forall p v, bytes_ok p -> parse p = Ok v ->
  exists ls t, question_of p ls t CLASS_IN /\
    let wire := wire_of_labels ls in
    let v' := pp_with_cached v (Some (wire, t, CLASS_IN)) in
    pp_question_raw0 v = Ok (v', Some (wire, t, CLASS_IN)) /\
    pp_question_raw v = Ok (v', Some (labels_flat ls, t, CLASS_IN)) /\
    pp_question v = Ok (Some (ascii_lowercase (dotted ls), t, CLASS_IN)) /\
    pp_qtype_qclass v = Ok (Some (t, CLASS_IN)) /\
    pp_question_raw0 v' = Ok (v', Some (wire, t, CLASS_IN)) /\
    pp_question_raw v' = Ok (v', Some (labels_flat ls, t, CLASS_IN)) /\
    pp_question v' = Ok (Some (ascii_lowercase (dotted ls), t, CLASS_IN)) /\
    pp_qtype_qclass v' = Ok (Some (t, CLASS_IN)).
Proof.
  intros p v Hb Hp. destruct (question_exists p v Hb Hp) as (ls & t & Hq).
  destruct (parse_shape p v Hb Hp) as (sq & san & sns & sar & an & ns & ar & F).
  exists ls, t. split; [exact Hq|]. cbv zeta.
  pose proof (pf_packet _ _ _ _ _ _ _ _ _ F) as Hv. pose proof (pf_oq _ _ _ _ _ _ _ _ _ F) as Hoq.
  pose proof (pf_cached _ _ _ _ _ _ _ _ _ F) as Hc.
  set (v' := pp_with_cached v (Some (wire_of_labels ls, t, CLASS_IN))).
  assert (Hv' : pp_packet v' = p) by exact Hv.
  assert (Hoq' : pp_offset_question v' = Some 12) by exact Hoq.
  assert (Hc' : pp_cached v' = Some (wire_of_labels ls, t, CLASS_IN)) by reflexivity.
  split; [apply (question_raw0_uncached p v ls t CLASS_IN Hb Hv Hoq Hq Hc)|].
  split; [apply (question_raw_uncached p v ls t CLASS_IN Hb Hv Hoq Hq Hc)|].
  split; [apply (question_uncached p v ls t CLASS_IN Hb Hv Hoq Hq Hc)|].
  split; [apply (qtype_qclass_uncached p v ls t CLASS_IN Hv Hoq Hq Hc)|].
  split; [apply (question_raw0_cached v' ls t CLASS_IN Hc')|].
  split; [apply (question_raw_cached v' ls t CLASS_IN Hc')|].
  split; [apply (question_cached p v' ls t CLASS_IN Hb Hq Hc')|].
  apply (qtype_qclass_cached v' ls t CLASS_IN Hc').
Qed.
