(** * The EDNS summary of an accepted packet, and the option cursor (C03, C04).

    The parser records, for the OPT record it met: where its options start and end, how many there
    are, and the fixed fields it carries in place of class and TTL (advertised payload size,
    extended rcode, version, flags). [esum p] states what those fields must be in terms of the
    bytes; it is established by [parse_opt], preserved by everything else the parser does, and so
    holds of the object [parse] returns. The option cursor then yields exactly the options that
    tile the OPT data. *)

From DV Require Import Model.Base Model.NameCheck Model.Parser Model.Header Model.Readers Model.Uncompress
  Spec.NameSpec Spec.PacketSpec Spec.RecordSpec Proofs.ListLemmas Proofs.Hoare Proofs.ParserTotal
  Proofs.NameIff Proofs.ParserInv Proofs.ParseSound Proofs.ReadersAgree Proofs.UncompressFrame.
From Coq Require Import ZifyBool ZifyNat ZifyN.

(** ** "If it returns Ok then" for the cost monad *)
Definition okc {A} (m : resc A) (Q : A -> Prop) : Prop :=
  match fst m with Ok a => Q a | _ => True end.

Lemma okc_bind {A B} (m : resc A) (f : A -> resc B) (P : A -> Prop) (Q : B -> Prop) :
  okc m P -> (forall a, P a -> okc (f a) Q) -> okc (bindc m f) Q.
Proof.
  unfold okc, bindc. destruct (fst m) as [a| |]; cbn [fst]; auto. intros Hp Hf. apply Hf. exact Hp.
Qed.

Lemma okc_bind_any {A B} (m : resc A) (f : A -> resc B) (Q : B -> Prop) :
  (forall a, fst m = Ok a -> okc (f a) Q) -> okc (bindc m f) Q.
Proof. intros H. apply okc_bind with (P := fun a => fst m = Ok a); [unfold okc; destruct (fst m); auto|exact H]. Qed.

Lemma okc_tick {A} (m : resc A) Q : okc m Q -> okc (tick m) Q.
Proof. unfold okc, tick. cbn [fst]. auto. Qed.

Lemma okc_lift {A} (r : res A) (Q : A -> Prop) : (forall a, r = Ok a -> Q a) -> okc (lift r) Q.
Proof. unfold okc, lift. cbn [fst]. destruct r; auto. Qed.

Lemma okc_weaken {A} (m : resc A) (P Q : A -> Prop) : okc m P -> (forall a, P a -> Q a) -> okc m Q.
Proof. unfold okc. destruct (fst m); auto. Qed.

(** ** The EDNS part of the parser state *)
Definition edns_of (s : pstate) :=
  (ps_edns_start s, ps_edns_end s, ps_edns_count s, ps_ext_rcode s, ps_edns_version s, ps_ext_flags s, ps_max_payload s).

Lemma edns_of_set_off s o : edns_of (ps_set_off s o) = edns_of s.
Proof. reflexivity. Qed.

Lemma increment_offset_ok p s n s' : increment_offset p s n = Ok s' ->
  s' = ps_set_off s (ps_off s + n) /\ ps_off s + n <= length p.
Proof.
  unfold increment_offset, ensure_remaining_len, remaining_len, usub.
  destruct (ps_off s <=? length p) eqn:E; cbn [bind]; [|discriminate].
  destruct (length p - ps_off s <? n) eqn:E2; cbn [bind]; [discriminate|]. intros H; inversion H. split; [reflexivity|lia].
Qed.

Lemma set_offset_ok p s o s' : set_offset p s o = Ok s' -> s' = ps_set_off s o.
Proof. unfold set_offset. destruct (length p <=? o); [discriminate|]. intros H; inversion H; reflexivity. Qed.

Definition same_e (s s' : pstate) : Prop := edns_of s' = edns_of s.

Lemma okc_incr p s0 s n : same_e s0 s -> okc (lift (increment_offset p s n)) (same_e s0).
Proof.
  intros H. apply okc_lift. intros s' Hs. apply increment_offset_ok in Hs. destruct Hs as [-> _].
  unfold same_e in *. rewrite edns_of_set_off. exact H.
Qed.

(** the non-OPT arms only move the cursor *)
Lemma rdata_frames p s t rdlen : okc (parse_rr_rdata_c p s t rdlen) (same_e s).
Proof.
  unfold parse_rr_rdata_c.
  assert (H0 : same_e s s) by reflexivity.
  repeat match goal with
  | |- okc (if ?c then _ else _) _ => destruct c
  | |- okc (lift (Err _)) _ => exact I
  | |- okc (bindc (lift (increment_offset _ ?s1 _)) _) _ =>
      eapply okc_bind; [apply (okc_incr p s s1); assumption|]; intros ? ?
  | |- okc (bindc _ _) _ => apply okc_bind_any; intros ? ?
  | |- okc (lift (increment_offset _ ?s1 _)) _ => apply (okc_incr p s s1); assumption
  end.
Qed.

(** ** What the summary must be *)
Inductive opts_read (p : bytes) : nat -> nat -> list (N * bytes) -> Prop :=
| ORnil : forall a, opts_read p a a []
| ORcons : forall a b code len l,
    a + 4 <= b -> u16_at p a code -> u16_at p (a + 2) len -> a + 4 + N.to_nat len <= b ->
    opts_read p (a + 4 + N.to_nat len) b l ->
    opts_read p a b ((code, firstn (N.to_nat len) (skipn (a + 4) p)) :: l).

Definition esum (p : bytes) (s : pstate) : Prop :=
  match ps_edns_start s with
  | None => ps_edns_end s = None /\ ps_edns_count s = 0%N /\ ps_ext_rcode s = None /\
            ps_edns_version s = None /\ ps_ext_flags s = None /\ ps_max_payload s = 512%N
  | Some st =>
    exists e l, ps_edns_end s = Some e /\ 10 <= st /\ e <= length p /\ opts_read p st e l /\
      ps_edns_count s = N.of_nat (length l) /\
      u16_at p (st - 8) (ps_max_payload s) /\
      (exists rc, nth_error p (st - 6) = Some rc /\ ps_ext_rcode s = Some rc) /\
      (exists ver, nth_error p (st - 5) = Some ver /\ ps_edns_version s = Some ver) /\
      (exists xf, u16_at p (st - 4) xf /\ ps_ext_flags s = Some xf) /\
      u16_at p (st - 2) (N.of_nat (e - st))
  end.

Lemma esum_same p s s' : same_e s s' -> esum p s -> esum p s'.
Proof.
  unfold same_e, edns_of, esum. intros H. inversion H as [[H1 H2 H3 H4 H5 H6 H7]].
  rewrite H1, H2, H3, H4, H5, H6, H7. auto.
Qed.

(** ** The option loop counts what it tiles *)
Section Loop.
  Variable p : bytes.
  Hypothesis Hbytes : bytes_ok p.

  Lemma opt_step_fields s s1 : opt_step p s = Continue s1 ->
    ps_edns_start s1 = ps_edns_start s /\ ps_edns_end s1 = ps_edns_end s /\
    ps_edns_count s1 = (ps_edns_count s + 1)%N /\ ps_ext_rcode s1 = ps_ext_rcode s /\
    ps_edns_version s1 = ps_edns_version s /\ ps_ext_flags s1 = ps_ext_flags s /\
    ps_max_payload s1 = ps_max_payload s.
  Proof.
    unfold opt_step. destruct (edns_remaining_len s) as [r| |]; try discriminate.
    destruct (r =? 0); [discriminate|].
    destruct (edns_skip_rr p s) as [s'| |] eqn:E; try discriminate.
    destruct (65535 <=? ps_edns_count s')%N; [discriminate|]. intros H; inversion H; subst s1. cbn.
    unfold edns_skip_rr in E. destruct (edns_rr_rdlen p s) as [l| |]; cbn [bind] in E; try discriminate.
    unfold edns_increment_offset in E. destruct (edns_ensure_remaining_len s (DNS_EDNS_RR_HEADER_SIZE + l)); cbn [bind] in E; try discriminate.
    inversion E; subst s'. cbn. repeat split; reflexivity.
  Qed.

  Lemma opt_loop_sum : forall fuel st e s s', opt_inv p st e s ->
    run_loop (opt_step p) fuel s = Ok s' ->
    exists l, opts_read p (ps_off s) e l /\ ps_edns_count s' = (ps_edns_count s + N.of_nat (length l))%N /\
      ps_edns_start s' = ps_edns_start s /\ ps_edns_end s' = ps_edns_end s /\ ps_ext_rcode s' = ps_ext_rcode s /\
      ps_edns_version s' = ps_edns_version s /\ ps_ext_flags s' = ps_ext_flags s /\
      ps_max_payload s' = ps_max_payload s /\ ps_off s' = e.
  Proof.
    induction fuel as [|fuel IH]; intros st e s s' Hinv Hr; cbn [run_loop] in Hr; [discriminate|].
    destruct (opt_step_cases p st e s Hinv) as [[Hs Ho]|[[er Hs]|(s1 & len & Hs & Hinv1 & H4 & Hu & Ho1 & Hle)]]; rewrite Hs in Hr.
    - inversion Hr; subst s'. exists []. rewrite Ho. cbn [length N.of_nat]. rewrite N.add_0_r.
      repeat split; try reflexivity. constructor.
    - discriminate.
    - destruct (IH st e s1 s' Hinv1 Hr) as (l & Hl & Hc & A1 & A2 & A3 & A4 & A5 & A6 & A7).
      destruct (opt_step_fields s s1 Hs) as (B1 & B2 & B3 & B4 & B5 & B6 & B7).
      destruct Hinv as (He & Hst & Hoe & Hel & H64 & Hcnt).
      destruct (nth_error p (ps_off s)) as [c1|] eqn:E1; [|apply nth_error_None in E1; lia].
      destruct (nth_error p (ps_off s + 1)) as [c2|] eqn:E2; [|apply nth_error_None in E2; lia].
      exists (((c1 * 256 + c2)%N, firstn (N.to_nat len) (skipn (ps_off s + 4) p)) :: l).
      split.
      { eapply ORcons; [lia|exists c1, c2; auto|exact Hu|lia|]. rewrite <- Ho1. exact Hl. }
      cbn [length]. rewrite Hc, B3. split; [lia|]. repeat split; congruence.
  Qed.
End Loop.

(** ** parse_opt establishes the summary; everything else keeps it *)
Lemma ensure_remaining_ok p s n : ensure_remaining_len p s n = Ok tt -> ps_off s + n <= length p.
Proof.
  unfold ensure_remaining_len, remaining_len, usub. destruct (ps_off s <=? length p) eqn:E; cbn [bind]; [|discriminate].
  destruct (length p - ps_off s <? n) eqn:E2; [discriminate|]. intros _. lia.
Qed.

Lemma u8_load_ok p s k v : u8_load p s k = Ok v -> nth_error p (ps_off s + k) = Some v.
Proof.
  unfold u8_load. destruct (ensure_remaining_len p s (k + 1)) as [[]| |]; cbn [bind]; try discriminate.
  unfold byte_at. destruct (nth_error p (ps_off s + k)); [intros H; inversion H; reflexivity|discriminate].
Qed.

Lemma be16_load_ok p s k v : be16_load p s k = Ok v -> u16_at p (ps_off s + k) v.
Proof.
  unfold be16_load. destruct (ensure_remaining_len p s (k + 2)) as [[]| |]; cbn [bind]; try discriminate.
  apply be16_at_u16.
Qed.

Lemma u16_lt' p off v : bytes_ok p -> u16_at p off v -> (v < 65536)%N.
Proof.
  intros Hb (a & b & Ha & Hbb & ->). pose proof (bytes_ok_nth _ _ _ Hb Ha). pose proof (bytes_ok_nth _ _ _ Hb Hbb). lia.
Qed.

Section Establish.
  Variable p : bytes.
  Hypothesis Hbytes : bytes_ok p.

  Lemma parse_opt_esum s : okc (parse_opt_c p s) (fun s' => esum p s' /\ ps_edns_start s' = Some (ps_off s + 10)).
  Proof.
    unfold parse_opt_c. destruct (ps_edns_end s) eqn:Eend; [exact I|].
    apply okc_bind_any; intros rc Hrc. cbn [fst lift] in Hrc. apply u8_load_ok in Hrc.
    apply okc_bind_any; intros ver Hver. cbn [fst lift] in Hver. apply u8_load_ok in Hver.
    apply okc_bind_any; intros mp Hmp. cbn [fst lift] in Hmp. apply be16_load_ok in Hmp.
    apply okc_bind_any; intros xf Hxf. cbn [fst lift] in Hxf. apply be16_load_ok in Hxf.
    apply okc_bind_any; intros el Hel. cbn [fst lift] in Hel. apply be16_load_ok in Hel.
    apply okc_bind_any; intros s1 Hs1. cbn [fst lift] in Hs1. apply increment_offset_ok in Hs1. destruct Hs1 as [-> Hl1].
    apply okc_bind_any; intros [] Hens. cbn [fst lift] in Hens. apply ensure_remaining_ok in Hens.
    unfold DNS_OPT_RR_EXT_RCODE_OFFSET, DNS_OPT_RR_EDNS_VERSION_OFFSET, DNS_OPT_RR_MAX_PAYLOAD_OFFSET,
      DNS_OPT_RR_EDNS_EXT_FLAGS_OFFSET, DNS_OPT_RR_RDLEN_OFFSET, DNS_OPT_RR_HEADER_SIZE in *.
    cbn [ps_off ps_set_off] in *.
    pose proof (u16_lt' _ _ _ Hbytes Hel) as Hellt.
    match goal with |- okc (opt_loop_c p ?s2) _ => set (s2' := s2) end.
    assert (Hinv : opt_inv p (ps_off s + 10) (ps_off s + 10 + N.to_nat el) s2').
    { unfold opt_inv, s2'. cbn [ps_edns_count ps_off ps_edns_end]. repeat split; try reflexivity; lia. }
    unfold okc, opt_loop_c, callc. cbn [fst].
    destruct (run_loop (opt_step p) (length p + 1) s2') as [s'| |] eqn:Er; [|exact I|exact I].
    destruct (opt_loop_sum p _ _ _ _ _ Hinv Er) as (l & Hl & Hc & A1 & A2 & A3 & A4 & A5 & A6 & A7).
    unfold s2' in *. cbn [ps_off ps_edns_start ps_edns_end ps_edns_count ps_ext_rcode ps_edns_version ps_ext_flags ps_max_payload] in *.
    split; [|exact A1]. unfold esum. rewrite A1. exists (ps_off s + 10 + N.to_nat el), l.
    split; [exact A2|]. split; [lia|]. split; [lia|]. split; [exact Hl|]. split; [rewrite Hc; lia|].
    replace (ps_off s + 10 - 8) with (ps_off s + 2) by lia. replace (ps_off s + 10 - 6) with (ps_off s + 4) by lia.
    replace (ps_off s + 10 - 5) with (ps_off s + 5) by lia. replace (ps_off s + 10 - 4) with (ps_off s + 6) by lia.
    replace (ps_off s + 10 - 2) with (ps_off s + 8) by lia.
    split; [rewrite A6; exact Hmp|]. split; [exists rc; rewrite A3; auto|]. split; [exists ver; rewrite A4; auto|].
    split; [exists xf; rewrite A5; auto|].
    replace (ps_off s + 10 + N.to_nat el - (ps_off s + 10)) with (N.to_nat el) by lia. rewrite N2Nat.id. exact Hel.
  Qed.

  Lemma skip_name_frames s : okc (ps_skip_name_c p s) (same_e s).
  Proof.
    unfold ps_skip_name_c. apply okc_bind_any; intros o _. apply okc_lift. intros s' H.
    apply set_offset_ok in H. subst s'. reflexivity.
  Qed.

  Lemma parse_rr_esum s sec : esum p s -> okc (parse_rr_c p s sec) (esum p).
  Proof.
    intros He. unfold parse_rr_c. apply okc_tick.
    eapply okc_bind; [apply skip_name_frames|]. intros s1 H1.
    apply okc_bind_any; intros t _. apply okc_bind_any; intros rl _.
    destruct (t =? TYPE_OPT)%N.
    - destruct (negb (section_eqb sec SAdditional)); [exact I|].
      apply okc_bind_any; intros d _. destruct (negb (d =? 1)); [exact I|]. eapply okc_weaken; [apply parse_opt_esum|]. intros ? [H _]; exact H.
    - eapply okc_weaken; [apply rdata_frames|]. intros s' H'. eapply esum_same; [exact H'|]. eapply esum_same; eauto.
  Qed.

  Lemma parse_rrs_esum sec : forall n s, esum p s -> okc (parse_rrs_c p s sec n) (esum p).
  Proof.
    induction n as [|n IH]; intros s He; cbn [parse_rrs_c].
    - apply okc_lift. intros a H; inversion H; subst. exact He.
    - eapply okc_bind; [apply parse_rr_esum; exact He|]. intros s1 H1. apply IH. exact H1.
  Qed.

  Lemma parse_question_frames s : okc (parse_question_c p s) (same_e s).
  Proof.
    unfold parse_question_c. apply okc_tick.
    eapply okc_bind; [apply skip_name_frames|]. intros s1 H1.
    apply okc_bind_any; intros ? _. apply okc_bind_any; intros ? _.
    eapply okc_weaken; [apply (okc_incr p s s1); exact H1|]. auto.
  Qed.
End Establish.

(** ** The object [parse] returns *)
Definition esum_v (p : bytes) (v : ppacket) : Prop :=
  match pp_offset_edns v with
  | None => pp_edns_count v = 0%N /\ pp_ext_rcode v = None /\ pp_edns_version v = None /\
            pp_ext_flags v = None /\ pp_max_payload v = 512%N
  | Some st =>
    exists e l, 10 <= st /\ e <= length p /\ opts_read p st e l /\ pp_edns_count v = N.of_nat (length l) /\
      u16_at p (st - 8) (pp_max_payload v) /\
      (exists rc, nth_error p (st - 6) = Some rc /\ pp_ext_rcode v = Some rc) /\
      (exists ver, nth_error p (st - 5) = Some ver /\ pp_edns_version v = Some ver) /\
      (exists xf, u16_at p (st - 4) xf /\ pp_ext_flags v = Some xf) /\
      u16_at p (st - 2) (N.of_nat (e - st))
  end.

Theorem parse_esum : forall p v, bytes_ok p -> parse p = Ok v -> esum_v p v.
Proof.
  intros p v Hb. unfold parse.
  assert (H : okc (parse_c p) (esum_v p)); [|unfold okc in H; intros E; rewrite E in H; exact H].
  unfold parse_c. destruct (length p <? DNS_HEADER_SIZE); [exact I|].
  apply okc_bind_any; intros w _. apply okc_bind_any; intros qd _.
  destruct (qd =? 0)%N; [exact I|]. destruct (1 <? qd)%N; [exact I|].
  apply okc_bind_any; intros s0 Hs0. cbn [fst lift] in Hs0. apply set_offset_ok in Hs0. subst s0.
  assert (E0 : esum p (ps_set_off ps_init DNS_QUESTION_OFFSET)) by (unfold esum; cbn; repeat split; reflexivity).
  eapply okc_bind; [apply parse_question_frames|]. intros s1 H1.
  assert (E1 : esum p s1) by (eapply esum_same; eauto).
  apply okc_bind_any; intros an _. destruct (negb (word_is_response w) && (0 <? an)%N); [exact I|].
  eapply okc_bind; [apply (parse_rrs_esum p Hb SAnswer _ s1 E1)|]. intros s2 E2.
  apply okc_bind_any; intros ns _. destruct (negb (word_is_response w) && (0 <? ns)%N); [exact I|].
  eapply okc_bind; [apply (parse_rrs_esum p Hb SNameServers _ s2 E2)|]. intros s3 E3.
  apply okc_bind_any; intros ar _.
  eapply okc_bind; [apply (parse_rrs_esum p Hb SAdditional _ s3 E3)|]. intros s4 E4.
  apply okc_bind_any; intros r _. destruct (0 <? r); [exact I|].
  apply okc_lift. intros v' Hv; inversion Hv; subst v'. unfold esum_v. cbn [pp_offset_edns pp_edns_count pp_ext_rcode pp_edns_version pp_ext_flags pp_max_payload].
  unfold esum in E4. destruct (ps_edns_start s4) as [st|].
  - destruct E4 as (e & l & _ & A & B & C & D & E & F & G & H & I). exists e, l. repeat split; assumption.
  - destruct E4 as (_ & A & B & C & D & E). repeat split; assumption.
Qed.

(** ** The option cursor *)
Definition collect_opt (v : ppacket) (acc : list (N * bytes)) (it : rrit) : res (list (N * bytes)) :=
  o <- unwrap (it_offset it) 811 ;;
  let p := pp_packet v in
  code <- be16_at p o 812 ;;
  len <- be16_at p (o + 2) 813 ;;
  data <- slice p (o + 4) (o + 4 + N.to_nat len) 814 ;;
  Ok (acc ++ [(code, data)]).

Definition walk_opts (v : ppacket) : res (list (N * bytes)) :=
  first <- e_next v (it_new SEdns) ;;
  walk_fold (walk_fuel (pp_packet v)) (e_next v) (collect_opt v) first [].

Lemma opts_read_cons_inv p a b code data l : opts_read p a b ((code, data) :: l) ->
  exists len, a + 4 <= b /\ u16_at p a code /\ u16_at p (a + 2) len /\ a + 4 + N.to_nat len <= b /\
              data = firstn (N.to_nat len) (skipn (a + 4) p) /\ opts_read p (a + 4 + N.to_nat len) b l.
Proof. intros H. inversion H; subst. eexists. repeat split; eauto. Qed.

Lemma opts_read_span p : forall a b l, opts_read p a b l -> a + 4 * length l <= b.
Proof. induction 1; cbn [length]; lia. Qed.

Section Cursor.
  Variables (p : bytes) (v : ppacket).
  Hypothesis Hpk : pp_packet v = p.

  Lemma e_step : forall a b code len l, opts_read p a b ((code, firstn (N.to_nat len) (skipn (a + 4) p)) :: l) -> True.
  Proof. auto. Qed.

  Lemma walk_opts_from : forall a b l, opts_read p a b l -> b <= length p ->
    forall fuel it acc code0 data0 o0, length l < fuel ->
      it_offset it = Some o0 -> it_offset_next it = a -> it_rrs_left it = N.of_nat (length l) ->
      collect_opt v acc it = Ok (acc ++ [(code0, data0)]) ->
      walk_fold fuel (e_next v) (collect_opt v) (Some it) acc = Ok (acc ++ (code0, data0) :: l).
  Proof.
    induction 1 as [a|a b code len l H4 Hc Hl Hfit Hrest IH]; intros Hb fuel it acc code0 data0 o0 Hfuel Hoff Hnext Hleft Hcol;
      (destruct fuel as [|fuel]; [cbn in Hfuel; lia|]); cbn [walk_fold]; rewrite Hcol; cbn [bind].
    - unfold e_next. rewrite Hoff. cbn [bind]. rewrite Hleft. cbn [length N.of_nat N.eqb bind]. rewrite walk_fold_None. reflexivity.
    - unfold e_next at 1. rewrite Hoff. cbn [bind]. rewrite Hleft.
      replace (N.of_nat (length ((code, firstn (N.to_nat len) (skipn (a + 4) p)) :: l)) =? 0)%N with false by (cbn [length]; lia).
      rewrite Hpk, Hnext. unfold edns_skip_rr_raw, DNS_EDNS_RR_RDLEN_OFFSET, DNS_EDNS_RR_HEADER_SIZE.
      rewrite (proj2 (be16_at_u16 p (a + 2) 405%N len) Hl). cbn [bind].
      match goal with |- context [(?x =? 0)%N] => destruct (x =? 0)%N eqn:E0; [cbn [length] in E0; lia|] end. cbn [bind].
      match goal with |- context [walk_fold fuel _ _ (Some ?it1) _] => set (it' := it1) end.
      rewrite (IH Hb fuel it' (acc ++ [(code0, data0)]) code (firstn (N.to_nat len) (skipn (a + 4) p)) a);
        try reflexivity.
      + rewrite <- app_assoc. reflexivity.
      + cbn [length] in Hfuel. lia.
      + unfold it'. cbn [it_rrs_left length]. lia.
      + unfold collect_opt, it'. cbn [it_offset unwrap bind]. rewrite Hpk.
        rewrite (proj2 (be16_at_u16 p a 812%N code) Hc). cbn [bind].
        rewrite (proj2 (be16_at_u16 p (a + 2) 813%N len) Hl). cbn [bind].
        rewrite slice_eq by lia. replace (a + 4 + N.to_nat len - (a + 4)) with (N.to_nat len) by lia. reflexivity.
  Qed.
End Cursor.

Theorem walk_opts_spec : forall p v, bytes_ok p -> parse p = Ok v ->
  match pp_offset_edns v with
  | None => walk_opts v = Ok []
  | Some st => exists e l, opts_read p st e l /\ e <= length p /\ pp_edns_count v = N.of_nat (length l) /\
                           walk_opts v = Ok l
  end.
Proof.
  intros p v Hb Hp. pose proof (parse_esum p v Hb Hp) as He. unfold esum_v in He.
  destruct (parse_shape p v Hb Hp) as (sq & san & sns & sar & an & ns & ar & F).
  pose proof (pf_packet _ _ _ _ _ _ _ _ _ F) as Hpk.
  destruct (pp_offset_edns v) as [st|] eqn:Est.
  - destruct He as (e & l & H10 & Hle & Hl & Hc & _). exists e, l. split; [exact Hl|]. split; [exact Hle|]. split; [exact Hc|].
    unfold walk_opts, e_next at 1. cbn [it_new it_offset bind]. rewrite Hc.
    destruct l as [|[code data] l].
    + cbn [length N.of_nat N.eqb bind]. rewrite walk_fold_None. reflexivity.
    + replace (N.of_nat (length ((code, data) :: l)) =? 0)%N with false by (cbn [length]; lia).
      rewrite Est. cbn [unwrap bind]. replace (N.of_nat (length ((code, data) :: l)) =? 0)%N with false by (cbn [length]; lia).
      destruct (opts_read_cons_inv _ _ _ _ _ _ Hl) as (len & H4 & Hcd & Hln & Hfit & Hdata & Hrest). rewrite Hdata in *.
      rewrite Hpk. unfold edns_skip_rr_raw, DNS_EDNS_RR_RDLEN_OFFSET, DNS_EDNS_RR_HEADER_SIZE.
      rewrite (proj2 (be16_at_u16 p (st + 2) 405%N len) Hln). cbn [bind].
      match goal with |- context [walk_fold _ _ _ (Some ?it1) _] => set (it' := it1) end.
      pose proof (opts_read_span _ _ _ _ Hrest) as Hsp.
      rewrite (walk_opts_from p v Hpk _ _ _ Hrest Hle (walk_fuel p) it' [] code (firstn (N.to_nat len) (skipn (st + 4) p)) st);
        try reflexivity.
      * unfold walk_fuel. lia.
      * unfold it'. cbn [it_rrs_left length]. lia.
      * unfold collect_opt, it'. cbn [it_offset unwrap bind app]. rewrite Hpk.
        rewrite (proj2 (be16_at_u16 p st 812%N code) Hcd). cbn [bind].
        rewrite (proj2 (be16_at_u16 p (st + 2) 813%N len) Hln). cbn [bind].
        rewrite slice_eq by lia. replace (st + 4 + N.to_nat len - (st + 4)) with (N.to_nat len) by lia. reflexivity.
  - destruct He as (Hc & _). unfold walk_opts, e_next. cbn [it_new it_offset bind]. rewrite Hc. cbn [N.eqb bind].
    rewrite walk_fold_None. reflexivity.
Qed.
