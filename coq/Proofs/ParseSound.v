(** * Soundness of the parser with respect to the declarative policy (C02, =>):
    every packet [DNSSector::parse] accepts is well-formed ([wf_packet]). *)

From DV Require Import Model.Base Model.NameCheck Model.Parser Spec.NameSpec Spec.PacketSpec
  Proofs.Hoare Proofs.NameCheckTotal Proofs.NameIff Proofs.ParserTotal Proofs.ParserInv.
From Coq Require Import ZifyBool ZifyNat ZifyN.

Lemma be16_at_u16 p off site v : be16_at p off site = Ok v <-> u16_at p off v.
Proof.
  unfold be16_at, byte_at, u16_at. split.
  - destruct (nth_error p off) as [hi|]; cbn [bind]; [|discriminate].
    destruct (nth_error p (off + 1)) as [lo|]; cbn [bind]; [|discriminate].
    intros H; inversion H; subst. eauto.
  - intros (hi & lo & H1 & H2 & ->). rewrite H1, H2. reflexivity.
Qed.

Definition seen_of (s : pstate) : bool := match ps_edns_end s with Some _ => true | None => false end.

Section Snd.
  Variable p : bytes.
  Hypothesis Hbytes : bytes_ok p.

  (** One step of the option loop, characterised. *)
  Lemma opt_step_cases st e s : opt_inv p st e s ->
    (opt_step p s = Done (Ok s) /\ ps_off s = e) \/
    (exists er, opt_step p s = Done (Err er)) \/
    (exists s1 len, opt_step p s = Continue s1 /\ opt_inv p st e s1 /\
       ps_off s + 4 <= e /\ u16_at p (ps_off s + 2) len /\
       ps_off s1 = ps_off s + 4 + N.to_nat len /\ ps_off s1 <= e).
  Proof.
    intros Hinv. pose proof (opt_step_ok p st e s Hinv) as Hok.
    destruct Hinv as (He & Hst & Hoe & Hel & H64 & Hc).
    unfold opt_step, edns_remaining_len in *. rewrite He in *. unfold usub in *.
    destruct (ps_off s <=? e) eqn:E0; [|cbn in Hok; contradiction].
    destruct (e - ps_off s =? 0) eqn:E1.
    { left. split; [reflexivity|lia]. }
    unfold edns_skip_rr, edns_rr_rdlen, edns_be16_load, edns_ensure_remaining_len, edns_remaining_len in *.
    rewrite He in *. unfold usub in *. rewrite E0 in *. cbn [bind] in *.
    unfold DNS_EDNS_RR_RDLEN_OFFSET in *.
    destruct (e - ps_off s <? 2 + 2) eqn:E2; cbn [bind] in *.
    { right. left. eauto. }
    unfold byte_at in *.
    destruct (nth_error p (ps_off s + 2)) as [hi|] eqn:Hhi; cbn [bind] in *; [|contradiction].
    destruct (nth_error p (ps_off s + 2 + 1)) as [lo|] eqn:Hlo; cbn [bind] in *; [|contradiction].
    unfold edns_increment_offset, edns_ensure_remaining_len, edns_remaining_len in *.
    rewrite He in *. unfold usub in *. rewrite E0 in *. cbn [bind] in *.
    unfold DNS_EDNS_RR_HEADER_SIZE in *.
    destruct (e - ps_off s <? 4 + N.to_nat (hi * 256 + lo)) eqn:E3; cbn [bind] in *.
    { right. left. eauto. }
    cbn [ps_edns_count ps_set_off ps_off ps_edns_end ps_edns_start] in *.
    destruct (65535 <=? ps_edns_count s)%N eqn:E4; [cbn in Hok; contradiction|].
    right. right. destruct Hok as [Hinv' _].
    eexists. exists (hi * 256 + lo)%N. split; [reflexivity|]. split; [exact Hinv'|].
    cbn [ps_off]. repeat split; try lia.
    exists hi, lo. auto.
  Qed.

  Lemma opt_loop_tile : forall fuel st e s s', opt_inv p st e s ->
    run_loop (opt_step p) fuel s = Ok s' ->
    exists n, opts_tile p (ps_off s) e n /\ ps_off s' = e /\ ps_edns_end s' = Some e.
  Proof.
    induction fuel as [|fuel IH]; intros st e s s' Hinv Hr; cbn [run_loop] in Hr; [discriminate|].
    destruct (opt_step_cases st e s Hinv) as [[Hs Ho]|[[er Hs]|(s1 & len & Hs & Hinv1 & H4 & Hu & Ho1 & Hle)]]; rewrite Hs in Hr.
    - inversion Hr; subst s'. exists 0. rewrite Ho. split; [constructor|]. split; [reflexivity|apply Hinv].
    - discriminate.
    - destruct (IH st e s1 s' Hinv1 Hr) as (n & Ht & Ho' & He').
      exists (S n). split; [|auto].
      eapply OTcons; eauto; try lia. rewrite <- Ho1. exact Ht.
  Qed.

  Lemma parse_opt_sound s : pinv p s -> ps_off s + 10 <= length p ->
    hoarec (parse_opt_c p s)
           (fun s' => exists w n, u16_at p (ps_off s + 8) w /\ ps_edns_end s = None /\
                                  ps_off s' = ps_off s + 10 + N.to_nat w /\ ps_off s' <= length p /\
                                  opts_tile p (ps_off s + 10) (ps_off s') n /\ seen_of s' = true).
  Proof.
    intros H Hl. unfold parse_opt_c. destruct (ps_edns_end s) eqn:Eend; [exact I|].
    eapply hoarec_bind; [apply hoarec_lift, u8_load_spec; assumption|]. intros rc _.
    eapply hoarec_bind; [apply hoarec_lift, u8_load_spec; assumption|]. intros ver _.
    eapply hoarec_bind; [apply hoarec_lift, be16_load_spec; assumption|]. intros mp _.
    eapply hoarec_bind; [apply hoarec_lift, be16_load_spec; assumption|]. intros xf _.
    eapply hoarec_bind; [apply hoarec_lift, be16_load_eq; assumption|].
    intros el (Hel & Hlt & _). unfold DNS_OPT_RR_RDLEN_OFFSET in Hel.
    eapply hoarec_bind; [apply hoarec_lift, increment_offset_spec; exact H|].
    intros s1 [-> Hl1]. unfold DNS_OPT_RR_HEADER_SIZE in *.
    assert (H1 : pinv p (ps_set_off s (ps_off s + 10))) by (unfold pinv; cbn; lia).
    eapply hoarec_bind; [apply hoarec_lift, ensure_remaining_len_spec; exact H1|].
    intros ? Hl2. cbv beta in Hl2. cbn [ps_off ps_set_off] in *.
    match goal with |- hoarec (opt_loop_c p ?s2) _ => set (s2' := s2) end.
    assert (Hinv : opt_inv p (ps_off s + 10) (ps_off s + 10 + N.to_nat el) s2').
    { unfold opt_inv, s2'. cbn [ps_edns_count ps_off ps_edns_end]. repeat split; try reflexivity; lia. }
    pose proof (opt_loop_spec p _ _ _ Hinv) as Hsp.
    unfold hoarec, hoare, opt_loop_c, callc in *. cbn [fst] in *.
    destruct (run_loop (opt_step p) (length p + 1) s2') as [s'| |] eqn:Er; [|exact I|exact Hsp].
    destruct (opt_loop_tile _ _ _ _ _ Hinv Er) as (n & Ht & Ho & He).
    exists el, n. apply be16_at_u16 in Hel.
    repeat split; auto; try lia.
    - unfold s2' in Ht. cbn [ps_off] in Ht. rewrite Ho. exact Ht.
    - unfold seen_of. rewrite He. reflexivity.
  Qed.

  (** The non-OPT arms. *)
  Lemma parse_rr_rdata_sound s t rdlen : pinv p s -> (N.of_nat rdlen < 65536)%N ->
    (t =? TYPE_OPT)%N = false ->
    hoarec (parse_rr_rdata_c p s t rdlen)
           (fun s' => ps_off s' = ps_off s + 10 + rdlen /\ ps_off s' <= length p /\
                      ps_edns_end s' = ps_edns_end s /\ rdata_wf p t (ps_off s + 10) rdlen).
  Proof.
    intros H1 Hrd Hnopt. unfold parse_rr_rdata_c, rdata_wf, is_name_type, DNS_RR_HEADER_SIZE.
    destruct ((t =? TYPE_NS)%N || (t =? TYPE_CNAME)%N || (t =? TYPE_PTR)%N) eqn:Ename.
    { split_if; [exact I|].
      eapply hoarec_bind; [apply hoarec_lift, increment_offset_spec; exact H1|].
      intros s2 [-> Hl2]. cbn [ps_off ps_set_off] in *.
      pose proof (check_compressed_name_spec p (ps_off s + 10)) as Hsp.
      unfold check_compressed_name_c. eapply hoarec_bind with (Q := fun f => check_compressed_name p (ps_off s + 10) = Ok f /\ ps_off s + 10 < f).
      { unfold hoarec, callc. cbn [fst]. destruct (check_compressed_name p (ps_off s + 10)); cbn in *; auto. }
      intros f [Hf Hgt].
      eapply hoarec_bind; [apply hoarec_lift; apply usub_spec; lia|].
      intros d ->. split_if; [exact I|].
      apply hoarec_lift. eapply hoare_weaken; [apply increment_offset_spec; unfold pinv; cbn; lia|].
      cbv beta. intros s' [-> Hl]. cbn [ps_off ps_set_off ps_edns_end] in *.
      apply check_compressed_name_iff in Hf.
      split; [lia|]. split; [lia|]. split; [reflexivity|]. split; [lia|].
      replace (ps_off s + 10 + rdlen) with f by lia. exact Hf. }
    destruct (t =? TYPE_MX)%N eqn:Emx.
    { split_if; [exact I|].
      eapply hoarec_bind; [apply hoarec_lift, increment_offset_spec; exact H1|].
      intros s2 [-> Hl2]. cbn [ps_off ps_set_off] in *.
      unfold check_compressed_name_c. eapply hoarec_bind with (Q := fun f => check_compressed_name p (ps_off s + 10 + 2) = Ok f /\ ps_off s + 10 + 2 < f).
      { pose proof (check_compressed_name_spec p (ps_off s + 10 + 2)) as Hsp.
        unfold hoarec, callc. cbn [fst]. destruct (check_compressed_name p (ps_off s + 10 + 2)); cbn in *; auto. }
      intros f [Hf Hgt].
      eapply hoarec_bind; [apply hoarec_lift; apply usub_spec; lia|].
      intros d ->. split_if; [exact I|].
      apply hoarec_lift. eapply hoare_weaken; [apply increment_offset_spec; unfold pinv; cbn; lia|].
      cbv beta. intros s' [-> Hl]. cbn [ps_off ps_set_off ps_edns_end] in *.
      apply check_compressed_name_iff in Hf.
      split; [lia|]. split; [lia|]. split; [reflexivity|]. split; [lia|].
      replace (ps_off s + 10 + rdlen) with f by lia. exact Hf. }
    destruct (t =? TYPE_SOA)%N eqn:Esoa.
    { split_if; [exact I|].
      eapply hoarec_bind; [apply hoarec_lift, increment_offset_spec; exact H1|].
      intros s2 [-> Hl2]. cbn [ps_off ps_set_off] in *.
      unfold check_compressed_name_c. eapply hoarec_bind with (Q := fun f => check_compressed_name p (ps_off s + 10) = Ok f /\ ps_off s + 10 < f).
      { pose proof (check_compressed_name_spec p (ps_off s + 10)) as Hsp.
        unfold hoarec, callc. cbn [fst]. destruct (check_compressed_name p (ps_off s + 10)); cbn in *; auto. }
      intros f1 [Hf1 Hgt1].
      eapply hoarec_bind with (Q := fun f => check_compressed_name p f1 = Ok f /\ f1 < f).
      { pose proof (check_compressed_name_spec p f1) as Hsp.
        unfold hoarec, callc. cbn [fst]. destruct (check_compressed_name p f1); cbn in *; auto. }
      intros f2 [Hf2 Hgt2].
      eapply hoarec_bind; [apply hoarec_lift; apply usub_spec; lia|].
      intros d ->.
      eapply hoarec_bind; [apply hoarec_lift; apply usub_spec; lia|].
      intros d' ->. split_if; [exact I|].
      apply hoarec_lift. eapply hoare_weaken; [apply increment_offset_spec; unfold pinv; cbn; lia|].
      cbv beta. intros s' [-> Hl]. cbn [ps_off ps_set_off ps_edns_end] in *.
      apply check_compressed_name_iff in Hf1. apply check_compressed_name_iff in Hf2.
      split; [lia|]. split; [lia|]. split; [reflexivity|]. split; [lia|].
      exists f1. split; [exact Hf1|]. replace (ps_off s + 10 + rdlen - 20) with f2 by lia. exact Hf2. }
    destruct (t =? TYPE_DNAME)%N eqn:Edn.
    { split_if; [exact I|].
      eapply hoarec_bind; [apply hoarec_lift, increment_offset_spec; exact H1|].
      intros s2 [-> Hl2]. cbn [ps_off ps_set_off] in *.
      unfold check_uncompressed_name_c. eapply hoarec_bind with (Q := fun f => check_uncompressed_name p (ps_off s + 10) = Ok f /\ ps_off s + 10 < f).
      { pose proof (check_uncompressed_name_spec p (ps_off s + 10)) as Hsp.
        unfold hoarec, callc. cbn [fst]. destruct (check_uncompressed_name p (ps_off s + 10)); cbn in *; auto. }
      intros f [Hf Hgt].
      eapply hoarec_bind; [apply hoarec_lift; apply usub_spec; lia|].
      intros d ->. split_if; [exact I|].
      apply hoarec_lift. eapply hoare_weaken; [apply increment_offset_spec; unfold pinv; cbn; lia|].
      cbv beta. intros s' [-> Hl]. cbn [ps_off ps_set_off ps_edns_end] in *.
      apply check_uncompressed_name_iff in Hf.
      split; [lia|]. split; [lia|]. split; [reflexivity|]. split; [lia|].
      replace (ps_off s + 10 + rdlen) with f by lia. exact Hf. }
    destruct (t =? TYPE_A)%N eqn:Ea.
    { split_if; [exact I|].
      apply hoarec_lift. eapply hoare_weaken; [apply increment_offset_spec; exact H1|].
      cbv beta. intros s' [-> Hl]. cbn [ps_off ps_set_off ps_edns_end] in *. repeat split; lia. }
    destruct (t =? TYPE_AAAA)%N eqn:Eaaaa.
    { split_if; [exact I|].
      apply hoarec_lift. eapply hoare_weaken; [apply increment_offset_spec; exact H1|].
      cbv beta. intros s' [-> Hl]. cbn [ps_off ps_set_off ps_edns_end] in *. repeat split; lia. }
    apply hoarec_lift. eapply hoare_weaken; [apply increment_offset_spec; exact H1|].
    cbv beta. intros s' [-> Hl]. cbn [ps_off ps_set_off ps_edns_end] in *. repeat split; try lia.
  Qed.

  Theorem parse_rr_sound s sec : pinv p s ->
    hoarec (parse_rr_c p s sec)
           (fun s' => rr_wf p sec (seen_of s) (ps_off s) (ps_off s') (seen_of s') /\ pinv p s').
  Proof.
    intros H. unfold parse_rr_c. apply hoarec_tick.
    eapply hoarec_bind; [apply ps_skip_name_eq|].
    intros s1 (e & -> & Hcn & Hlt & Hle).
    assert (H1 : pinv p (ps_set_off s e)) by (unfold pinv; cbn; lia).
    eapply hoarec_bind.
    { apply hoarec_lift. unfold ps_rr_type. apply be16_load_eq; assumption. }
    intros t (Ht & _ & _). cbn [ps_off ps_set_off] in Ht. unfold DNS_RR_TYPE_OFFSET in Ht.
    rewrite Nat.add_0_r in Ht. apply be16_at_u16 in Ht.
    eapply hoarec_bind.
    { apply hoarec_lift. unfold ps_rr_rdlen.
      eapply hoare_bind; [apply be16_load_eq; assumption|].
      intros w Hw. apply hoare_ret with (Q := fun v => exists w, v = N.to_nat w /\
        u16_at p (e + 8) w /\ (w < 65536)%N /\ e + 10 <= length p).
      exists w. cbn [ps_off ps_set_off] in Hw. unfold DNS_RR_RDLEN_OFFSET in Hw.
      destruct Hw as (Ha & Hb & Hc). apply be16_at_u16 in Ha. repeat split; auto. lia. }
    intros rdlen (w & -> & Hw & Hwlt & Hel).
    apply check_compressed_name_iff in Hcn.
    destruct (t =? TYPE_OPT)%N eqn:Eopt.
    { split_if; [exact I|].
      eapply hoarec_bind; [apply hoarec_lift; cbn [ps_off ps_set_off]; apply usub_spec; lia|].
      intros d ->. split_if; [exact I|].
      eapply hoarec_weaken; [apply parse_opt_sound; [exact H1|cbn; lia]|].
      cbv beta. cbn [ps_off ps_set_off ps_edns_end]. intros s' (w' & n & Hw' & Hend & Ho & Hl & Ht' & Hseen).
      assert (w' = w).
      { destruct Hw as (h1 & l1 & A1 & A2 & ->). destruct Hw' as (h2 & l2 & B1 & B2 & ->). congruence. }
      subst w'. split; [|unfold pinv; lia].
      exists e, t, w. rewrite Eopt.
      split; [exact Hcn|]. split; [lia|]. split; [exact Ht|]. split; [exact Hw|]. split; [lia|]. split; [lia|].
      split; [destruct sec; cbn in *; try discriminate; reflexivity|]. split; [lia|].
      split; [unfold seen_of; rewrite Hend; reflexivity|]. split; [exact Hseen|]. exists n. exact Ht'. }
    eapply hoarec_weaken; [apply parse_rr_rdata_sound; [exact H1|lia|exact Eopt]|].
    cbv beta. cbn [ps_off ps_set_off ps_edns_end]. intros s' (Ho & Hl & Hend & Hrd).
    split; [|unfold pinv; lia].
    exists e, t, w. rewrite Eopt.
    split; [exact Hcn|]. split; [lia|]. split; [exact Ht|]. split; [exact Hw|]. split; [lia|]. split; [lia|].
    split; [unfold seen_of; rewrite Hend; reflexivity|exact Hrd].
  Qed.

  Lemma parse_rrs_sound sec : forall count s, pinv p s ->
    hoarec (parse_rrs_c p s sec count)
           (fun s' => rrs_wf p sec (seen_of s) (ps_off s) count (ps_off s') (seen_of s') /\ pinv p s').
  Proof.
    induction count as [|count IH]; intros s H; cbn [parse_rrs_c].
    - apply hoarec_lift. cbn. split; [constructor|exact H].
    - eapply hoarec_bind; [apply parse_rr_sound; exact H|].
      intros s1 [Hrr H1]. eapply hoarec_weaken; [apply IH; exact H1|].
      cbv beta. intros s' [Hc H']. split; [econstructor; eauto|exact H'].
  Qed.
End Snd.

Lemma parse_question_sound p s : bytes_ok p -> pinv p s ->
  hoarec (parse_question_c p s)
         (fun s' => exists qe, cname p (ps_off s) qe /\ qe + 4 <= length p /\ u16_at p (qe + 2) CLASS_IN /\
                               ps_off s' = qe + 4 /\ ps_edns_end s' = ps_edns_end s).
Proof.
  intros Hb H. unfold parse_question_c. apply hoarec_tick.
  eapply hoarec_bind; [apply ps_skip_name_eq|].
  intros s1 (e & -> & Hcn & Hlt & Hle).
  assert (H1 : pinv p (ps_set_off s e)) by (unfold pinv; cbn; lia).
  assert (Hcls : hoare (ensure_in_class p (ps_set_off s e)) (fun _ => u16_at p (e + 2) CLASS_IN /\ e + 4 <= length p)).
  { unfold ensure_in_class, ps_rr_class.
    eapply hoare_bind; [apply be16_load_eq; assumption|].
    intros c (Hc & _ & Hl). cbn [ps_off ps_set_off] in *. unfold DNS_RR_CLASS_OFFSET in *.
    destruct (c =? CLASS_IN)%N eqn:E; [|exact I]. cbn. apply N.eqb_eq in E. subst c.
    apply be16_at_u16 in Hc. split; [exact Hc|lia]. }
  eapply hoarec_bind; [apply hoarec_lift; exact Hcls|]. intros ? [Hc Hl4].
  eapply hoarec_bind; [apply hoarec_lift; exact Hcls|]. intros ? _.
  apply hoarec_lift. eapply hoare_weaken; [apply increment_offset_spec; exact H1|].
  cbv beta. intros s' [-> Hl]. cbn [ps_off ps_set_off ps_edns_end] in *. unfold DNS_RR_QUESTION_HEADER_SIZE.
  exists e. apply check_compressed_name_iff in Hcn.
  split; [exact Hcn|]. split; [lia|]. split; [exact Hc|]. split; [lia|reflexivity].
Qed.

Theorem parse_sound : forall p v, bytes_ok p -> parse p = Ok v -> wf_packet p.
Proof.
  intros p v Hb. unfold parse, parse_c, DNS_HEADER_SIZE, DNS_QUESTION_OFFSET.
  split_if; [discriminate|].
  intros H. apply bindc_ok in H. destruct H as (w & Hw & H). cbn [fst lift] in Hw.
  apply bindc_ok in H. destruct H as (qd & Hqd & H). cbn [fst lift] in Hqd.
  destruct (qd =? 0)%N eqn:Eq0; [discriminate|].
  destruct (1 <? qd)%N eqn:Eq1; [discriminate|].
  assert (qd = 1%N) by lia. subst qd.
  apply bindc_ok in H. destruct H as (s0 & Hs0 & H). cbn [fst lift] in Hs0.
  pose proof (set_offset_spec p ps_init 12) as Ho. rewrite Hs0 in Ho. cbn in Ho. destruct Ho as [-> Hl12].
  assert (H0 : pinv p (ps_set_off ps_init 12)) by (unfold pinv; cbn; lia).
  apply bindc_ok in H. destruct H as (s1 & Hs1 & H).
  pose proof (parse_question_sound p _ Hb H0) as Hq. unfold hoarec in Hq. rewrite Hs1 in Hq. cbn [hoare] in Hq.
  destruct Hq as (qe & Hqn & Hq4 & Hqc & Hqo & Hqe). cbn [ps_off ps_set_off ps_edns_end ps_init] in *.
  assert (H1 : pinv p s1) by (unfold pinv; lia).
  apply bindc_ok in H. destruct H as (an & Han & H). cbn [fst lift] in Han.
  destruct (negb (word_is_response w) && (0 <? an)%N) eqn:Ean; [discriminate|].
  apply bindc_ok in H. destruct H as (s2 & Hs2 & H).
  pose proof (parse_rrs_sound p Hb SAnswer (N.to_nat an) s1 H1) as Hc2. unfold hoarec in Hc2.
  rewrite Hs2 in Hc2. cbn [hoare] in Hc2. destruct Hc2 as [Hc2 H2].
  apply bindc_ok in H. destruct H as (ns & Hns & H). cbn [fst lift] in Hns.
  destruct (negb (word_is_response w) && (0 <? ns)%N) eqn:Ens; [discriminate|].
  apply bindc_ok in H. destruct H as (s3 & Hs3 & H).
  pose proof (parse_rrs_sound p Hb SNameServers (N.to_nat ns) s2 H2) as Hc3. unfold hoarec in Hc3.
  rewrite Hs3 in Hc3. cbn [hoare] in Hc3. destruct Hc3 as [Hc3 H3].
  apply bindc_ok in H. destruct H as (ar & Har & H). cbn [fst lift] in Har.
  apply bindc_ok in H. destruct H as (s4 & Hs4 & H).
  pose proof (parse_rrs_sound p Hb SAdditional (N.to_nat ar) s3 H3) as Hc4. unfold hoarec in Hc4.
  rewrite Hs4 in Hc4. cbn [hoare] in Hc4. destruct Hc4 as [Hc4 H4].
  apply bindc_ok in H. destruct H as (r & Hr & H). cbn [fst lift] in Hr.
  pose proof (remaining_len_spec p s4 H4) as Hrl. rewrite Hr in Hrl. cbn in Hrl.
  destruct (0 <? r) eqn:Er; [discriminate|].
  unfold pinv in H4. assert (Hend : ps_off s4 = length p) by lia.
  assert (Hs1seen : seen_of s1 = false) by (unfold seen_of; rewrite Hqe; reflexivity).
  rewrite Hs1seen, Hqo in Hc2. rewrite Hend in Hc4.
  unfold hdr_flags_word, hdr_qdcount, hdr_ancount, hdr_nscount, hdr_arcount, DNS_FLAGS_OFFSET in *.
  apply be16_at_u16 in Hw, Hqd, Han, Hns, Har.
  exists w, an, ns, ar, qe, CLASS_IN, (ps_off s2), (seen_of s2), (ps_off s3), (seen_of s3), (seen_of s4).
  repeat split; auto.
  - unfold word_is_response in *. destruct (N.land w 32768 =? 32768)%N eqn:E; [lia|]. cbn [negb andb] in Ean. lia.
  - unfold word_is_response in *. destruct (N.land w 32768 =? 32768)%N eqn:E; [lia|]. cbn [negb andb] in Ens. lia.
Qed.
