(** * Walking a section yields the declaratively decoded records, field by field (C03).

    For every accepted packet and each record section, the cursor walk that includes OPT visits
    exactly the records that lie back to back in that section ([records_at], Spec/RecordSpec.v), in
    order, and on each of them the accessors return the offset, the owner name (raw and as
    lower-cased dotted text), type, class, TTL, data length and data that the declarative reading
    gives. No Panic site is reached. *)

From DV Require Import Model.Base Model.NameCheck Model.Parser Model.Header Model.Readers Model.Uncompress
  Spec.NameSpec Spec.PacketSpec Spec.RecordSpec Proofs.ListLemmas Proofs.Hoare Proofs.NameCheckTotal
  Proofs.ParserTotal Proofs.NameIff Proofs.ParserInv Proofs.ParseSound Proofs.ReadersAgree
  Proofs.ReadersLabels Proofs.QuestionSpec.
From Coq Require Import ZifyBool ZifyNat ZifyN.

(** ** What one visit observes *)
Definition collect_view (v : ppacket) (acc : list view) (it : rrit) : res (list view) :=
  off <- unwrap (it_offset it) 901 ;;
  raw <- it_copy_raw_name v it ;;
  txt <- it_name v it ;;
  t <- it_rr_type v it ;;
  c <- it_rr_class v it ;;
  ttl <- it_rr_ttl v it ;;
  rl <- it_rr_rdlen v it ;;
  rd <- it_rr_rd v it ;;
  Ok (acc ++ [(off, raw, txt, t, c, ttl, rl, rd)]).

Definition walk_views (v : ppacket) (sec : section) : res (list view) :=
  first <- r_next_including_opt v (it_new sec) ;;
  walk_fold (walk_fuel (pp_packet v)) (r_next_including_opt v) (collect_view v) first [].

(** ** Accepted packets, with the object's section offsets exposed *)
Theorem parse_view : forall p v, bytes_ok p -> parse p = Ok v ->
  exists an ns ar qe e1 s1 e2 s2 s3,
    pp_packet v = p /\ cname p 12 qe /\ qe + 4 <= length p /\
    hdr_ancount p = Ok an /\ hdr_nscount p = Ok ns /\ hdr_arcount p = Ok ar /\
    (an < 65536)%N /\ (ns < 65536)%N /\ (ar < 65536)%N /\
    rrs_wf p SAnswer false (qe + 4) (N.to_nat an) e1 s1 /\
    rrs_wf p SNameServers s1 e1 (N.to_nat ns) e2 s2 /\
    rrs_wf p SAdditional s2 e2 (N.to_nat ar) (length p) s3 /\
    pp_offset_answers v = (if (0 <? an)%N then Some (qe + 4) else None) /\
    pp_offset_nameservers v = (if (0 <? ns)%N then Some e1 else None) /\
    pp_offset_additional v = (if (0 <? ar)%N then Some e2 else None).
Proof.
  intros p v Hb. unfold parse, parse_c, DNS_HEADER_SIZE, DNS_QUESTION_OFFSET.
  split_if; [discriminate|].
  intros H. apply bindc_ok in H. destruct H as (w & Hw & H). cbn [fst lift] in Hw.
  apply bindc_ok in H. destruct H as (qd & Hqd & H). cbn [fst lift] in Hqd.
  destruct (qd =? 0)%N eqn:Eq0; [discriminate|].
  destruct (1 <? qd)%N eqn:Eq1; [discriminate|].
  assert (qd = 1%N) by lia. subst qd.
  apply bindc_ok in H. destruct H as (s0 & Hs0 & H). cbn [fst lift] in Hs0.
  pose proof (set_offset_spec p ps_init 12) as Ho. rewrite Hs0 in Ho. cbn in Ho. destruct Ho as [-> Hl12].
  assert (H0 : pinv p (ps_set_off ps_init 12)) by (unfold pinv; cbn; lia).
  apply bindc_ok in H. destruct H as (s1 & Hs1 & H).
  pose proof (parse_question_sound p _ Hb H0) as Hq. unfold hoarec in Hq. rewrite Hs1 in Hq. cbn [hoare] in Hq.
  destruct Hq as (qe & Hqn & Hq4 & Hqc & Hqo & Hqe). cbn [ps_off ps_set_off ps_edns_end ps_init] in *.
  assert (H1 : pinv p s1) by (unfold pinv; lia).
  apply bindc_ok in H. destruct H as (an & Han & H). cbn [fst lift] in Han.
  destruct (negb (word_is_response w) && (0 <? an)%N) eqn:Ean; [discriminate|].
  apply bindc_ok in H. destruct H as (s2 & Hs2 & H).
  pose proof (parse_rrs_sound p Hb SAnswer (N.to_nat an) s1 H1) as Hc2. unfold hoarec in Hc2.
  rewrite Hs2 in Hc2. cbn [hoare] in Hc2. destruct Hc2 as [Hc2 H2].
  apply bindc_ok in H. destruct H as (ns & Hns & H). cbn [fst lift] in Hns.
  destruct (negb (word_is_response w) && (0 <? ns)%N) eqn:Ens; [discriminate|].
  apply bindc_ok in H. destruct H as (s3 & Hs3 & H).
  pose proof (parse_rrs_sound p Hb SNameServers (N.to_nat ns) s2 H2) as Hc3. unfold hoarec in Hc3.
  rewrite Hs3 in Hc3. cbn [hoare] in Hc3. destruct Hc3 as [Hc3 H3].
  apply bindc_ok in H. destruct H as (ar & Har & H). cbn [fst lift] in Har.
  apply bindc_ok in H. destruct H as (s4 & Hs4 & H).
  pose proof (parse_rrs_sound p Hb SAdditional (N.to_nat ar) s3 H3) as Hc4. unfold hoarec in Hc4.
  rewrite Hs4 in Hc4. cbn [hoare] in Hc4. destruct Hc4 as [Hc4 H4].
  apply bindc_ok in H. destruct H as (r & Hr & H). cbn [fst lift] in Hr.
  pose proof (remaining_len_spec p s4 H4) as Hrl. rewrite Hr in Hrl. cbn in Hrl.
  destruct (0 <? r) eqn:Er; [discriminate|].
  unfold pinv in H4. assert (Hend : ps_off s4 = length p) by lia.
  assert (Hs1seen : seen_of s1 = false) by (unfold seen_of; rewrite Hqe; reflexivity).
  rewrite Hs1seen, Hqo in Hc2. rewrite Hend in Hc4.
  cbn [fst lift] in H. inversion H; subst v; clear H.
  assert (Hh : forall off site c, off + 1 < 12 -> be16_at p off site = Ok c -> (c < 65536)%N).
  { intros off site c Hoff Hc. pose proof (be16_at_hoare p off site ltac:(lia) Hb) as Hx.
    rewrite Hc in Hx. exact Hx. }
  exists an, ns, ar, qe, (ps_off s2), (seen_of s2), (ps_off s3), (seen_of s3), (seen_of s4).
  cbn [pp_packet pp_offset_answers pp_offset_nameservers pp_offset_additional].
  rewrite Hqo.
  split; [reflexivity|]. split; [exact Hqn|]. split; [exact Hq4|].
  split; [exact Han|]. split; [exact Hns|]. split; [exact Har|].
  split; [eapply (Hh 6 233%N); [lia|exact Han]|].
  split; [eapply (Hh 8 234%N); [lia|exact Hns]|].
  split; [eapply (Hh 10 235%N); [lia|exact Har]|].
  split; [exact Hc2|]. split; [exact Hc3|]. split; [exact Hc4|].
  split; [reflexivity|]. split; reflexivity.
Qed.

(** ** One record of the policy is a declaratively readable record *)
Lemma u16_exists p off : off + 2 <= length p -> exists v, u16_at p off v.
Proof.
  intros H. destruct (nth_error p off) as [a|] eqn:Ea; [|apply nth_error_None in Ea; lia].
  destruct (nth_error p (off + 1)) as [b|] eqn:Eb; [|apply nth_error_None in Eb; lia].
  exists (a * 256 + b)%N, a, b. auto.
Qed.

Lemma u32_exists p off : off + 4 <= length p -> exists v, u32_at p off v.
Proof.
  intros H. destruct (nth_error p off) as [a|] eqn:Ea; [|apply nth_error_None in Ea; lia].
  destruct (nth_error p (off + 1)) as [b|] eqn:Eb; [|apply nth_error_None in Eb; lia].
  destruct (nth_error p (off + 2)) as [c|] eqn:Ec; [|apply nth_error_None in Ec; lia].
  destruct (nth_error p (off + 3)) as [d|] eqn:Ed; [|apply nth_error_None in Ed; lia].
  exists (((a * 256 + b) * 256 + c) * 256 + d)%N, a, b, c, d. auto.
Qed.

Lemma rr_wf_record p sec seen off off' seen' : rr_wf p sec seen off off' seen' ->
  exists r, rv_off r = off /\ record_at p r off'.
Proof.
  intros (ne & t & rdlen & (ls & Hcn) & Hne & Ht & Hrl & Ho & Hl & Hrest).
  destruct (u16_exists p (ne + 2) ltac:(lia)) as (c & Hc).
  destruct (u32_exists p (ne + 4) ltac:(lia)) as (ttl & Httl).
  exists {| rv_off := off; rv_labels := ls; rv_name_end := ne; rv_type := t; rv_class := c; rv_ttl := ttl;
            rv_rdlen := N.to_nat rdlen |}.
  cbn [rv_off]. split; [reflexivity|]. unfold record_at. cbn [rv_off rv_labels rv_name_end rv_type rv_class rv_ttl rv_rdlen].
  rewrite N2Nat.id.
  split; [exact Hcn|]. split; [exact Ht|]. split; [exact Hc|]. split; [exact Httl|]. split; [exact Hrl|].
  split; [exact Ho|]. split; [exact Hl|]. split.
  - intros E. rewrite E in Hrest. replace (TYPE_A =? TYPE_OPT)%N with false in Hrest by reflexivity.
    destruct Hrest as [_ Hrd]. unfold rdata_wf in Hrd. cbn in Hrd. exact Hrd.
  - intros E. rewrite E in Hrest. replace (TYPE_AAAA =? TYPE_OPT)%N with false in Hrest by reflexivity.
    destruct Hrest as [_ Hrd]. unfold rdata_wf in Hrd. cbn in Hrd. exact Hrd.
Qed.

Lemma be32_at_u32 p off site v : u32_at p off v -> be32_at p off site = Ok v.
Proof.
  intros (a & b & c & d & Ha & Hb & Hc & Hd & ->). unfold be32_at, byte_at. rewrite Ha, Hb, Hc, Hd. reflexivity.
Qed.

Lemma rrs_wf_0_inv p sec seen off off' seen' : rrs_wf p sec seen off 0 off' seen' -> off' = off.
Proof. intros H. inversion H. reflexivity. Qed.

Lemma rrs_wf_S_inv p sec seen off n off' seen' : rrs_wf p sec seen off (S n) off' seen' ->
  exists off1 seen1, rr_wf p sec seen off off1 seen1 /\ rrs_wf p sec seen1 off1 n off' seen'.
Proof. intros H. inversion H. eauto. Qed.

(** ** The accessors on a cursor positioned on a record *)
Section Acc.
  Variables (p : bytes) (v : ppacket).
  Hypothesis Hb : bytes_ok p.
  Hypothesis Hpk : pp_packet v = p.

  Lemma collect_view_ok r off' it acc :
    record_at p r off' -> it_offset it = Some (rv_off r) -> it_name_end it = rv_name_end r ->
    collect_view v acc it = Ok (acc ++ [view_of p r]).
  Proof.
    intros (Hcn & Ht & Hc & Httl & Hrl & Ho & Hl & HA & HAAAA) Hoff Hne.
    assert (Hlt : rv_off r < rv_name_end r) by (destruct Hcn as [_ Hna]; eapply name_at_end_gt; exact Hna).
    unfold collect_view. rewrite Hoff. cbn [unwrap bind].
    unfold it_copy_raw_name. rewrite Hoff, Hne, Hpk. cbn [unwrap bind].
    destruct (rv_name_end r <=? rv_off r) eqn:E; [lia|].
    rewrite (copy_uncompressed_name_labels p Hb _ _ _ [] Hcn). cbn [bind app].
    unfold it_name. rewrite Hoff, Hne, Hpk. cbn [unwrap bind]. rewrite E.
    rewrite (raw_name_to_str_dotted p _ _ _ Hb Hcn). cbn [bind].
    assert (Hrd16 : forall k site x, u16_at p (rv_name_end r + k) x -> it_rd16 v it k site = Ok x).
    { intros k site x Hx. unfold it_rd16. rewrite Hoff, Hne, Hpk. cbn [unwrap bind].
      unfold slice_from. destruct (rv_name_end r <=? length p) eqn:E2; [|lia]. cbn [bind].
      apply be16_at_u16. exact Hx. }
    unfold it_rr_type, it_rr_class, it_rr_rdlen, DNS_RR_TYPE_OFFSET, DNS_RR_CLASS_OFFSET, DNS_RR_RDLEN_OFFSET.
    rewrite (Hrd16 0 463%N (rv_type r)) by (rewrite Nat.add_0_r; exact Ht). cbn [bind].
    rewrite (Hrd16 2 464%N (rv_class r) Hc). cbn [bind].
    unfold it_rr_ttl. rewrite Hoff, Hne, Hpk. cbn [unwrap bind].
    unfold slice_from at 1. destruct (rv_name_end r <=? length p) eqn:E2; [|lia]. cbn [bind].
    unfold DNS_RR_TTL_OFFSET. rewrite (be32_at_u32 _ _ 466%N _ Httl). cbn [bind].
    rewrite (Hrd16 8 465%N _ Hrl). cbn [bind]. rewrite Nat2N.id.
    (* the data *)
    assert (Hdata : forall site n, rv_name_end r + 10 + n <= length p ->
              slice (skipn (rv_name_end r) p) 10 (10 + n) site = Ok (firstn n (skipn (rv_name_end r + 10) p))).
    { intros site n Hn. rewrite slice_eq; [|lia|rewrite skipn_length; lia].
      replace (10 + n - 10) with n by lia. rewrite skipn_skipn. reflexivity. }
    unfold it_rr_rd, it_rr_ip, it_rr_type, DNS_RR_TYPE_OFFSET, DNS_RR_HEADER_SIZE.
    rewrite (Hrd16 0 463%N (rv_type r)) by (rewrite Nat.add_0_r; exact Ht). cbn [bind].
    rewrite Hne, Hpk. unfold slice_from. rewrite E2. cbn [bind].
    unfold view_of, rdata_of.
    destruct (rv_type r =? TYPE_A)%N eqn:EA.
    - apply N.eqb_eq in EA. specialize (HA EA). rewrite skipn_length.
      destruct (length p - rv_name_end r <? 10 + 4) eqn:E4; [lia|].
      rewrite Hdata by lia. rewrite HA. cbn [orb]. reflexivity.
    - destruct (rv_type r =? TYPE_AAAA)%N eqn:EAAAA.
      + apply N.eqb_eq in EAAAA. specialize (HAAAA EAAAA). rewrite skipn_length.
        destruct (length p - rv_name_end r <? 10 + 16) eqn:E4; [lia|].
        rewrite Hdata by lia. rewrite HAAAA. cbn [orb]. reflexivity.
      + cbn [orb]. unfold it_rr_rdlen, DNS_RR_RDLEN_OFFSET.
        rewrite (Hrd16 8 465%N _ Hrl). cbn [bind]. rewrite Nat2N.id.
        rewrite Hdata by lia. reflexivity.
  Qed.

  (** The step of the cursor from one record to the next one of the policy. *)
  Lemma next_on_record r off' it n :
    record_at p r off' ->
    it_offset it <> None -> it_offset_next it = rv_off r -> it_rrs_left it = N.of_nat (S n) ->
    r_next_including_opt v it =
      Ok (Some {| it_section := it_section it; it_offset := Some (rv_off r); it_offset_next := off';
                  it_name_end := rv_name_end r; it_rrs_left := N.of_nat n |}).
  Proof.
    intros (Hcn & Ht & Hc & Httl & Hrl & Ho & Hl & _) Hlive Hnext Hleft.
    assert (Hne : rv_name_end r < length p) by lia.
    unfold r_next_including_opt. destruct (it_offset it) as [o|] eqn:Eo; [|congruence]. cbn [bind].
    rewrite Hleft. replace (N.of_nat (S n) =? 0)%N with false by lia.
    rewrite Hpk, Hnext.
    assert (Hck : check_compressed_name p (rv_off r) = Ok (rv_name_end r)).
    { apply check_compressed_name_iff. exists (rv_labels r). exact Hcn. }
    rewrite (skip_name_agrees p _ _ Hck Hne). cbn [bind].
    unfold skip_rdata, rri_rdlen, DNS_RR_RDLEN_OFFSET, DNS_RR_HEADER_SIZE.
    apply (be16_at_u16 _ _ 404%N) in Hrl. rewrite Hrl. cbn [bind]. rewrite Nat2N.id.
    f_equal. f_equal. f_equal; lia.
  Qed.

  (** The first step of a fresh cursor. *)
  Lemma first_on_record r off' sec count n :
    record_at p r off' -> count = N.of_nat (S n) ->
    (match sec with
     | SAnswer => hdr_ancount p = Ok count /\ pp_offset_answers v = Some (rv_off r)
     | SNameServers => hdr_nscount p = Ok count /\ pp_offset_nameservers v = Some (rv_off r)
     | SAdditional => hdr_arcount p = Ok count /\ pp_offset_additional v = Some (rv_off r)
     | _ => False
     end) ->
    r_next_including_opt v (it_new sec) =
      Ok (Some {| it_section := sec; it_offset := Some (rv_off r); it_offset_next := off';
                  it_name_end := rv_name_end r; it_rrs_left := N.of_nat n |}).
  Proof.
    intros (Hcn & Ht & Hc & Httl & Hrl & Ho & Hl & _) Hcount Hsec.
    assert (Hne : rv_name_end r < length p) by lia.
    unfold r_next_including_opt. cbn [it_new it_offset it_section it_rrs_left it_offset_next]. rewrite Hpk.
    assert (Hz : (count =? 0)%N = false) by lia.
    assert (Hck : check_compressed_name p (rv_off r) = Ok (rv_name_end r)).
    { apply check_compressed_name_iff. exists (rv_labels r). exact Hcn. }
    apply (be16_at_u16 _ _ 404%N) in Hrl.
    destruct sec; try contradiction; destruct Hsec as [Hh Hoff]; rewrite Hh; cbn [bind]; rewrite Hz, Hoff; cbn [unwrap bind];
      rewrite Hz; rewrite (skip_name_agrees p _ _ Hck Hne); cbn [bind];
      unfold skip_rdata, rri_rdlen, DNS_RR_RDLEN_OFFSET, DNS_RR_HEADER_SIZE; rewrite Hrl; cbn [bind]; rewrite Nat2N.id;
      (f_equal; f_equal; f_equal; lia).
  Qed.

  Lemma rr_wf_span sec seen off off' seen' : rr_wf p sec seen off off' seen' -> off + 11 <= off' /\ off' <= length p.
  Proof.
    intros (ne & t & rdlen & (ls & [_ Hna]) & Hne & Ht & Hrl & Ho & Hl & _).
    apply name_at_end_gt in Hna. lia.
  Qed.

  Lemma rrs_wf_span sec : forall seen off n off' seen', rrs_wf p sec seen off n off' seen' -> off + 11 * n <= off'.
  Proof.
    induction 1 as [|seen off off1 seen1 n off' seen' Hrr Hrest IH]; [lia|].
    apply rr_wf_span in Hrr. lia.
  Qed.

  Lemma walk_views_rrs sec : forall seen off n off' seen',
    rrs_wf p sec seen off n off' seen' ->
    forall fuel it acc r0, n < fuel ->
      record_at p r0 off -> it_offset it = Some (rv_off r0) -> it_name_end it = rv_name_end r0 ->
      it_offset_next it = off -> it_rrs_left it = N.of_nat n ->
      exists l, records_at p off l off' /\ length l = n /\
        walk_fold fuel (r_next_including_opt v) (collect_view v) (Some it) acc =
        Ok (acc ++ view_of p r0 :: map (view_of p) l).
  Proof.
    induction 1 as [seen off|seen off off1 seen1 n off' seen' Hrr Hrest IH];
      intros fuel it acc r0 Hfuel Hr0 Hoff Hne Hnext Hleft; (destruct fuel as [|fuel]; [lia|]); cbn [walk_fold].
    - rewrite (collect_view_ok r0 off it acc Hr0 Hoff Hne). cbn [bind].
      unfold r_next_including_opt. rewrite Hoff. cbn [bind]. rewrite Hleft. cbn [N.of_nat N.eqb bind].
      rewrite walk_fold_None. exists []. split; [constructor|]. split; reflexivity.
    - rewrite (collect_view_ok r0 off it acc Hr0 Hoff Hne). cbn [bind].
      destruct (rr_wf_record p sec seen off off1 seen1 Hrr) as (r & Hro & Hr).
      rewrite (next_on_record r off1 it n Hr) by (try congruence; assumption). cbn [bind].
      match goal with |- context [walk_fold fuel _ _ (Some ?it1) _] => set (it' := it1) end.
      destruct (IH fuel it' (acc ++ [view_of p r0]) r ltac:(lia) Hr) as (l & Hl & Hlen & Hw);
        try reflexivity.
      exists (r :: l). split; [rewrite <- Hro; econstructor; eauto|]. split; [cbn; lia|].
      rewrite Hw. rewrite <- app_assoc. reflexivity.
  Qed.

  (** One section of an accepted packet. *)
  Lemma walk_views_section sec seen off count off' seen' :
    rrs_wf p sec seen off (N.to_nat count) off' seen' -> off' <= length p ->
    (match sec with
     | SAnswer => hdr_ancount p = Ok count /\ pp_offset_answers v = (if (0 <? count)%N then Some off else None)
     | SNameServers => hdr_nscount p = Ok count /\ pp_offset_nameservers v = (if (0 <? count)%N then Some off else None)
     | SAdditional => hdr_arcount p = Ok count /\ pp_offset_additional v = (if (0 <? count)%N then Some off else None)
     | _ => False
     end) ->
    exists l, records_at p off l off' /\ length l = N.to_nat count /\ walk_views v sec = Ok (map (view_of p) l).
  Proof.
    intros Hrrs Hend Hsec. unfold walk_views.
    pose proof (rrs_wf_span _ _ _ _ _ _ Hrrs) as Hspan.
    destruct (N.to_nat count) as [|n] eqn:En.
    - assert (Hc0 : count = 0%N) by lia. rewrite Hc0 in *. apply rrs_wf_0_inv in Hrrs. rewrite Hrrs.
      unfold r_next_including_opt. cbn [it_new it_offset it_section bind]. rewrite Hpk.
      exists []. split; [constructor|]. split; [reflexivity|].
      destruct sec; try contradiction; destruct Hsec as [Hh _]; rewrite Hh; cbn [bind N.eqb]; rewrite walk_fold_None; reflexivity.
    - destruct (rrs_wf_S_inv _ _ _ _ _ _ _ Hrrs) as (off1 & seen1 & Hrr & Hrest).
      destruct (rr_wf_record p sec seen off off1 seen1 Hrr) as (r & Hro & Hr).
      assert (Hpos : (0 <? count)%N = true) by lia. rewrite Hpos in Hsec.
      rewrite (first_on_record r off1 sec count n Hr) by (try lia; rewrite Hro; exact Hsec). cbn [bind].
      match goal with |- context [walk_fold _ _ _ (Some ?it1) _] => set (it' := it1) end.
      pose proof (rrs_wf_span _ _ _ _ _ _ Hrest) as Hspan'.
      destruct (walk_views_rrs sec _ _ _ _ _ Hrest (walk_fuel (pp_packet v)) it' [] r) as (l & Hl & Hlen & Hw);
        try reflexivity; try exact Hr.
      { rewrite Hpk. unfold walk_fuel. lia. }
      exists (r :: l). split; [rewrite <- Hro; econstructor; eauto|]. split; [cbn; lia|exact Hw].
  Qed.
End Acc.

(** ** The whole object *)
Theorem walk_views_spec : forall p v, bytes_ok p -> parse p = Ok v ->
  exists an ns ar qe e1 e2 la ln lr,
    hdr_ancount p = Ok an /\ hdr_nscount p = Ok ns /\ hdr_arcount p = Ok ar /\ cname p 12 qe /\
    records_at p (qe + 4) la e1 /\ length la = N.to_nat an /\ walk_views v SAnswer = Ok (map (view_of p) la) /\
    records_at p e1 ln e2 /\ length ln = N.to_nat ns /\ walk_views v SNameServers = Ok (map (view_of p) ln) /\
    records_at p e2 lr (length p) /\ length lr = N.to_nat ar /\ walk_views v SAdditional = Ok (map (view_of p) lr).
Proof.
  intros p v Hb Hp.
  destruct (parse_view p v Hb Hp) as (an & ns & ar & qe & e1 & s1 & e2 & s2 & s3 & Hpk & Hqn & Hq4 & Han & Hns & Har &
                                      Hlan & Hlns & Hlar & Hc1 & Hc2 & Hc3 & Hoan & Hons & Hoar).
  pose proof (rrs_wf_span p _ _ _ _ _ _ Hc3) as Hs3.
  pose proof (rrs_wf_span p _ _ _ _ _ _ Hc2) as Hs2.
  destruct (walk_views_section p v Hb Hpk SAnswer _ _ _ _ _ Hc1 ltac:(lia) (conj Han Hoan)) as (la & Hla & Hlla & Hwa).
  destruct (walk_views_section p v Hb Hpk SNameServers _ _ _ _ _ Hc2 ltac:(lia) (conj Hns Hons)) as (ln & Hln & Hlln & Hwn).
  destruct (walk_views_section p v Hb Hpk SAdditional _ _ _ _ _ Hc3 ltac:(lia) (conj Har Hoar)) as (lr & Hlr & Hllr & Hwr).
  exists an, ns, ar, qe, e1, e2, la, ln, lr. repeat split; assumption.
Qed.

(** ** The declarative reading is a function of the bytes *)
Lemma u16_at_fun p off a b : u16_at p off a -> u16_at p off b -> a = b.
Proof. intros (h & l & H1 & H2 & ->) (h' & l' & H1' & H2' & ->). congruence. Qed.

Lemma u32_at_fun p off a b : u32_at p off a -> u32_at p off b -> a = b.
Proof.
  intros (x1 & x2 & x3 & x4 & A1 & A2 & A3 & A4 & ->) (y1 & y2 & y3 & y4 & B1 & B2 & B3 & B4 & ->). congruence.
Qed.

Lemma record_at_fun p r r' e e' : record_at p r e -> record_at p r' e' -> rv_off r = rv_off r' -> r = r' /\ e = e'.
Proof.
  intros (Hcn & Ht & Hc & Httl & Hrl & Ho & _) (Hcn' & Ht' & Hc' & Httl' & Hrl' & Ho' & _) Hoff.
  destruct r as [o ls ne t c ttl rl], r' as [o' ls' ne' t' c' ttl' rl']. cbn [rv_off rv_labels rv_name_end rv_type rv_class rv_ttl rv_rdlen] in *.
  rewrite <- Hoff in Hcn'. destruct (cname_l_fun _ _ _ _ _ _ Hcn Hcn') as [E1 E2].
  rewrite <- E2 in *. rewrite (u16_at_fun _ _ _ _ Ht Ht'), (u16_at_fun _ _ _ _ Hc Hc'), (u32_at_fun _ _ _ _ Httl Httl').
  pose proof (u16_at_fun _ _ _ _ Hrl Hrl') as E3. apply Nat2N.inj in E3.
  rewrite E1, E3, Hoff. split; [reflexivity|]. rewrite Ho, Ho', E3. reflexivity.
Qed.

Theorem records_at_fun p : forall off l e, records_at p off l e ->
  forall l' e', records_at p off l' e' -> length l = length l' -> l = l' /\ e = e'.
Proof.
  induction 1 as [off|r off1 l e Hr Hrest IH]; intros l' e' H' Hlen.
  - destruct l'; [|discriminate]. inversion H'. split; reflexivity.
  - destruct l' as [|r' l']; [discriminate|]. inversion H' as [|r2 off2 l2 e2 Hr' Hrest' Hoff E2 E3].
    rewrite E2 in *.
    destruct (record_at_fun p r r' off1 off2 Hr Hr' (eq_sym Hoff)) as [Er Eo].
    rewrite <- Eo in Hrest'. destruct (IH _ _ Hrest' ltac:(cbn in Hlen; lia)) as [El Ee].
    rewrite Er, El. split; [reflexivity|exact Ee].
Qed.
