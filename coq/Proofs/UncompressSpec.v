(** * Decompression writes the canonical pointer-free encoding (C05).

    For every accepted packet, [uncompress] returns the 12 header bytes, the question and every
    record of the declarative reading re-encoded without compression pointers ([plain_record],
    Spec/PlainSpec.v), in order, with data lengths recomputed. *)

From DV Require Import Model.Base Model.NameCheck Model.Parser Model.Header Model.Readers Model.Uncompress
  Spec.NameSpec Spec.PacketSpec Spec.RecordSpec Spec.PlainSpec Proofs.ListLemmas Proofs.Hoare
  Proofs.HeaderBits Proofs.NameIff Proofs.ParserInv Proofs.ParseSound Proofs.ReadersAgree
  Proofs.ReadersLabels Proofs.QuestionSpec Proofs.WalkValues Proofs.SetTtl Proofs.WalkSkip Proofs.UncompressFrame.
From Coq Require Import ZArith ZifyBool ZifyNat ZifyN.
Ltac Zify.zify_post_hook ::= Z.div_mod_to_equations.

(** ** Bytes *)
Lemma firstn2_skipn (p : bytes) off a b : nth_error p off = Some a -> nth_error p (off + 1) = Some b ->
  firstn 2 (skipn off p) = [a; b].
Proof.
  intros Ha Hb. rewrite (firstn_S_skipn p off a 1 Ha). rewrite (firstn_S_skipn p (off + 1) b 0 Hb). reflexivity.
Qed.

Lemma be16_of_u16 p off v : bytes_ok p -> u16_at p off v -> firstn 2 (skipn off p) = be16_bytes v.
Proof.
  intros Hb (a & b & Ha & Hbb & ->). rewrite (firstn2_skipn p off a b Ha Hbb).
  pose proof (bytes_ok_nth _ _ _ Hb Ha). pose proof (bytes_ok_nth _ _ _ Hb Hbb).
  unfold be16_bytes. f_equal; [lia|]. f_equal. lia.
Qed.

Lemma be32_of_u32 p off v : bytes_ok p -> u32_at p off v -> firstn 4 (skipn off p) = be32_bytes v.
Proof.
  intros Hb (a & b & c & d & Ha & Hbb & Hc & Hd & ->).
  rewrite (firstn_S_skipn p off a 3 Ha). rewrite (firstn_S_skipn p (off + 1) b 2 Hbb).
  replace (off + 1 + 1) with (off + 2) by lia. rewrite (firstn_S_skipn p (off + 2) c 1 Hc).
  replace (off + 2 + 1) with (off + 3) by lia. rewrite (firstn_S_skipn p (off + 3) d 0 Hd). cbn [firstn].
  pose proof (bytes_ok_nth _ _ _ Hb Ha). pose proof (bytes_ok_nth _ _ _ Hb Hbb).
  pose proof (bytes_ok_nth _ _ _ Hb Hc). pose proof (bytes_ok_nth _ _ _ Hb Hd).
  unfold be32_bytes. repeat (f_equal; try lia).
Qed.

Lemma firstn_split_at {A} (l : list A) a b : firstn (a + b) l = firstn a l ++ firstn b (skipn a l).
Proof. rewrite (firstn_skipn_split l a (a + b)) by lia. replace (a + b - a) with b by lia. reflexivity. Qed.

(** the ten fixed bytes of a record, from its declarative reading *)
Lemma fixed8 p r e : bytes_ok p -> record_at p r e ->
  firstn 8 (skipn (rv_name_end r) p) = be16_bytes (rv_type r) ++ be16_bytes (rv_class r) ++ be32_bytes (rv_ttl r).
Proof.
  intros Hb (_ & Ht & Hc & Httl & _).
  change 8 with (2 + (2 + 4)). rewrite firstn_split_at, skipn_skipn, firstn_split_at, skipn_skipn.
  rewrite (be16_of_u16 p _ _ Hb Ht). replace (rv_name_end r + 2 + 2) with (rv_name_end r + 4) by lia.
  rewrite (be16_of_u16 p _ _ Hb Hc), (be32_of_u32 p _ _ Hb Httl). reflexivity.
Qed.

Lemma fixed10 p r e : bytes_ok p -> record_at p r e ->
  firstn 10 (skipn (rv_name_end r) p) =
  (be16_bytes (rv_type r) ++ be16_bytes (rv_class r) ++ be32_bytes (rv_ttl r)) ++ be16_bytes (N.of_nat (rv_rdlen r)).
Proof.
  intros Hb Hr. pose proof Hr as (_ & _ & _ & _ & Hrl & _).
  change 10 with (8 + 2). rewrite firstn_split_at, skipn_skipn. rewrite (fixed8 p r e Hb Hr).
  rewrite (be16_of_u16 p _ _ Hb Hrl). reflexivity.
Qed.

Lemma take_rdata_ok p ne n site : ne + n <= length p -> take_rdata p ne n site = Ok (firstn n (skipn ne p)).
Proof.
  intros H. unfold take_rdata, slice_from. destruct (ne <=? length p) eqn:E; [|lia]. cbn [bind].
  rewrite slice_eq; [|lia|rewrite skipn_length; lia]. rewrite Nat.sub_0_r. reflexivity.
Qed.

Lemma write_at_mid (a b c w : bytes) site : length w = length b ->
  write_at (a ++ b ++ c) (length a) w site = Ok (a ++ w ++ c).
Proof.
  intros H. unfold write_at. rewrite !app_length. destruct (length a + length w <=? length a + (length b + length c)) eqn:E; [|lia].
  f_equal. rewrite firstn_app, firstn_all, Nat.sub_diag. cbn [firstn]. rewrite app_nil_r. f_equal. f_equal.
  rewrite skipn_app. rewrite skipn_all2 by lia. cbn [app].
  replace (length a + length w - length a) with (length b) by lia.
  rewrite skipn_app, skipn_all, Nat.sub_diag. reflexivity.
Qed.

Lemma be16_bytes_length v : length (be16_bytes v) = 2.
Proof. reflexivity. Qed.

(** rewriting the data length of a record whose ten fixed bytes have just been appended *)
Lemma patch_rdlen out h8 old rest n site : length h8 = 8 -> length old = 2 -> (N.of_nat n < 65536)%N ->
  patch_u16 (out ++ (h8 ++ old) ++ rest) (length out + 8) n site = Ok (out ++ h8 ++ be16_bytes (N.of_nat n) ++ rest).
Proof.
  intros H8 H2 Hn. unfold patch_u16.
  replace (N.of_nat n mod 65536)%N with (N.of_nat n) by lia.
  replace (out ++ (h8 ++ old) ++ rest) with ((out ++ h8) ++ old ++ rest) by (rewrite <- !app_assoc; reflexivity).
  replace (length out + 8) with (length (out ++ h8)) by (rewrite app_length; lia).
  rewrite write_at_mid by (rewrite be16_bytes_length; lia). rewrite <- !app_assoc. reflexivity.
Qed.

Lemma wire_length_le p off ls e : cname_l p off ls e -> length (wire_of_labels ls) <= 255.
Proof. intros [_ H]. eapply wire_len_le; exact H. Qed.

(** ** One record *)
Section One.
  Variable p : bytes.
  Hypothesis Hb : bytes_ok p.

  Lemma uncompress_rdata_spec out r e x :
    record_at p r e -> rdata_at p r x ->
    uncompress_rdata out p (rv_name_end r) (Some (rv_type r)) (Some (rv_rdlen r)) =
    Ok (out ++ (be16_bytes (rv_type r) ++ be16_bytes (rv_class r) ++ be32_bytes (rv_ttl r)) ++
        be16_bytes (N.of_nat (length (plain_rdata x))) ++ plain_rdata x).
  Proof.
    intros Hr Hx. pose proof (record_at_end _ _ _ Hr) as (He & Hlt & Hle). unfold rv_end in He.
    pose proof (fixed10 p r e Hb Hr) as H10. pose proof (fixed8 p r e Hb Hr) as H8.
    set (h8 := be16_bytes (rv_type r) ++ be16_bytes (rv_class r) ++ be32_bytes (rv_ttl r)) in *.
    assert (Hl8 : length h8 = 8) by reflexivity.
    unfold uncompress_rdata, DNS_RR_HEADER_SIZE, DNS_RR_RDLEN_OFFSET.
    destruct x as [ls|pref ls|ls1 ls2 tail|b]; cbn [rdata_at plain_rdata] in *.
    - destruct Hx as (Hnt & Hcn). change (Uncompress.is_name_type (rv_type r)) with (PacketSpec.is_name_type (rv_type r)). rewrite Hnt.
      rewrite take_rdata_ok by lia. cbn [bind]. rewrite H10.
      rewrite (copy_uncompressed_name_labels p Hb _ ls _ _ Hcn). cbn [bind].
      rewrite <- app_assoc. apply patch_rdlen; [exact Hl8|reflexivity|]. pose proof (wire_length_le _ _ _ _ Hcn). lia.
    - destruct Hx as (Hnt & Hmx & Hl2 & Hpref & Hcn). change (Uncompress.is_name_type (rv_type r)) with (PacketSpec.is_name_type (rv_type r)). rewrite Hnt.
      assert (E1 : (rv_type r =? TYPE_MX)%N = true) by (rewrite Hmx; reflexivity). rewrite E1.
      rewrite take_rdata_ok by lia. cbn [bind].
      change (10 + 2) with (10 + 2). rewrite (firstn_split_at _ 10 2), skipn_skipn, H10, <- Hpref.
      rewrite (copy_uncompressed_name_labels p Hb _ ls _ _ Hcn). cbn [bind].
      pose proof (wire_length_le _ _ _ _ Hcn).
      assert (Hlp : length pref = 2) by (rewrite Hpref; apply firstn_skipn_length; lia).
      replace ((out ++ (h8 ++ be16_bytes (N.of_nat (rv_rdlen r))) ++ pref) ++ wire_of_labels ls)
        with (out ++ (h8 ++ be16_bytes (N.of_nat (rv_rdlen r))) ++ (pref ++ wire_of_labels ls)) by (rewrite <- !app_assoc; reflexivity).
      rewrite patch_rdlen; [|exact Hl8|reflexivity|lia]. rewrite app_length, Hlp. reflexivity.
    - destruct Hx as (Hnt & Hsoa & Hl21 & m & Hcn1 & Hcn2 & Htail). change (Uncompress.is_name_type (rv_type r)) with (PacketSpec.is_name_type (rv_type r)). rewrite Hnt.
      assert (E1 : (rv_type r =? TYPE_MX)%N = false) by (rewrite Hsoa; reflexivity).
      assert (E2 : (rv_type r =? TYPE_SOA)%N = true) by (rewrite Hsoa; reflexivity). rewrite E1, E2.
      rewrite take_rdata_ok by lia. cbn [bind]. rewrite H10.
      rewrite (copy_uncompressed_name_labels p Hb _ ls1 _ _ Hcn1). cbn [bind].
      rewrite (copy_uncompressed_name_labels p Hb _ ls2 _ _ Hcn2). cbn [bind].
      rewrite slice_eq by lia. replace (rv_name_end r + 10 + rv_rdlen r - 20 + 20 - (rv_name_end r + 10 + rv_rdlen r - 20)) with 20 by lia.
      rewrite <- Htail. cbn [bind].
      pose proof (wire_length_le _ _ _ _ Hcn1). pose proof (wire_length_le _ _ _ _ Hcn2).
      assert (Hlt20 : length tail = 20) by (rewrite Htail; apply firstn_skipn_length; lia).
      replace ((((out ++ h8 ++ be16_bytes (N.of_nat (rv_rdlen r))) ++ wire_of_labels ls1) ++ wire_of_labels ls2) ++ tail)
        with (out ++ (h8 ++ be16_bytes (N.of_nat (rv_rdlen r))) ++ (wire_of_labels ls1 ++ wire_of_labels ls2 ++ tail)) by (rewrite <- !app_assoc; reflexivity).
      rewrite patch_rdlen; [|exact Hl8|reflexivity|lia]. rewrite !app_length, Hlt20.
      replace (length (wire_of_labels ls1) + length (wire_of_labels ls2) + 20) with (length (wire_of_labels ls1) + (length (wire_of_labels ls2) + 20)) by lia.
      reflexivity.
    - destruct Hx as (Hnt & Hnmx & Hnsoa & ->). change (Uncompress.is_name_type (rv_type r)) with (PacketSpec.is_name_type (rv_type r)). rewrite Hnt.
      destruct (rv_type r =? TYPE_MX)%N eqn:E1; [lia|]. destruct (rv_type r =? TYPE_SOA)%N eqn:E2; [lia|].
      cbn [unwrap bind]. rewrite take_rdata_ok by lia. cbn [bind].
      rewrite firstn_split_at, skipn_skipn, H10. unfold rdata_of. rewrite firstn_skipn_length by lia. rewrite <- !app_assoc. reflexivity.
  Qed.
End One.

(** ** From the policy to fully read records *)
Lemma rr_wf_full p sec seen off off' seen' : rr_wf p sec seen off off' seen' ->
  exists r x, rv_off r = off /\ record_at p r off' /\ rdata_at p r x /\
    (if is_opt r then sec = SAdditional /\ seen = false /\ seen' = true else seen' = seen).
Proof.
  intros (ne & t & rdlen & (ls & Hcn) & Hne & Ht & Hrl & Ho & Hl & Hrest).
  destruct (u16_exists p (ne + 2) ltac:(lia)) as (c & Hc).
  destruct (u32_exists p (ne + 4) ltac:(lia)) as (ttl & Httl).
  set (r := {| rv_off := off; rv_labels := ls; rv_name_end := ne; rv_type := t; rv_class := c; rv_ttl := ttl;
               rv_rdlen := N.to_nat rdlen |}).
  assert (Hr : (t =? TYPE_OPT)%N = false -> rdata_wf p t (ne + 10) (N.to_nat rdlen) -> record_at p r off').
  { intros E Hrd. unfold record_at, r. cbn [rv_off rv_labels rv_name_end rv_type rv_class rv_ttl rv_rdlen]. rewrite N2Nat.id.
    split; [exact Hcn|]. split; [exact Ht|]. split; [exact Hc|]. split; [exact Httl|]. split; [exact Hrl|].
    split; [exact Ho|]. split; [exact Hl|]. split; intros ->; unfold rdata_wf in Hrd; cbn in Hrd; exact Hrd. }
  assert (Hif : forall (A : Prop) (B : Prop), (if (t =? TYPE_OPT)%N then A else B) -> (if is_opt r then A else B)) by (intros A B H; exact H).
  destruct (t =? TYPE_OPT)%N eqn:Eopt.
  - (* OPT: opaque data *)
    exists r, (RdRaw (rdata_of p r)). split; [reflexivity|].
    assert (Et : t = TYPE_OPT) by lia.
    split.
    { unfold record_at, r. cbn [rv_off rv_labels rv_name_end rv_type rv_class rv_ttl rv_rdlen]. rewrite N2Nat.id.
      split; [exact Hcn|]. split; [exact Ht|]. split; [exact Hc|]. split; [exact Httl|]. split; [exact Hrl|].
      split; [exact Ho|]. split; [exact Hl|]. rewrite Et. split; discriminate. }
    split; [cbn [rdata_at]; change (rv_type r) with t; rewrite Et; repeat split; discriminate|].
    apply Hif. destruct Hrest as (A & _ & B & C & _). repeat split; assumption.
  - destruct Hrest as [Hseen Hrd]. specialize (Hr eq_refl Hrd).
    unfold rdata_wf in Hrd.
    destruct (PacketSpec.is_name_type t) eqn:Ent.
    + destruct Hrd as [_ (ls1 & Hc1)]. exists r, (RdName ls1).
      split; [reflexivity|]. split; [exact Hr|]. split; [split; [exact Ent|exact Hc1]|apply Hif; exact Hseen].
    + destruct (t =? TYPE_MX)%N eqn:Emx.
      * destruct Hrd as [H2 (ls1 & Hc1)]. exists r, (RdMx (firstn 2 (skipn (ne + 10) p)) ls1).
        split; [reflexivity|]. split; [exact Hr|]. split; [|apply Hif; exact Hseen].
        cbn [rdata_at]. change (rv_type r) with t. change (rv_rdlen r) with (N.to_nat rdlen). change (rv_name_end r) with ne.
        split; [exact Ent|]. split; [lia|]. split; [exact H2|]. split; [reflexivity|exact Hc1].
      * destruct (t =? TYPE_SOA)%N eqn:Esoa.
        { destruct Hrd as [H21 (m & (ls1 & Hc1) & (ls2 & Hc2))].
          exists r, (RdSoa ls1 ls2 (firstn 20 (skipn (ne + 10 + N.to_nat rdlen - 20) p))).
          split; [reflexivity|]. split; [exact Hr|]. split; [|apply Hif; exact Hseen].
          cbn [rdata_at]. change (rv_type r) with t. change (rv_rdlen r) with (N.to_nat rdlen). change (rv_name_end r) with ne.
          split; [exact Ent|]. split; [lia|]. split; [exact H21|].
          exists m. split; [exact Hc1|]. split; [exact Hc2|reflexivity]. }
        exists r, (RdRaw (rdata_of p r)). split; [reflexivity|]. split; [exact Hr|]. split; [|apply Hif; exact Hseen].
        cbn [rdata_at]. change (rv_type r) with t. split; [exact Ent|]. split; [lia|]. split; [lia|reflexivity].
Qed.

Lemma rrs_wf_full p sec : forall seen off n off' seen', rrs_wf p sec seen off n off' seen' ->
  exists lx, records_at p off (map fst lx) off' /\ length lx = n /\
             Forall (fun rx => rdata_at p (fst rx) (snd rx)) lx /\ opt_ok seen (map fst lx) /\
             (sec <> SAdditional -> forallb non_opt (map fst lx) = true) /\
             seen' = (seen || existsb is_opt (map fst lx)).
Proof.
  induction 1 as [seen off|seen off off1 seen1 n off' seen' Hrr Hrest IH].
  - exists []. cbn. repeat split; try constructor. rewrite orb_false_r. reflexivity.
  - destruct (rr_wf_full _ _ _ _ _ _ Hrr) as (r & x & Hoff & Hr & Hx & Hopt).
    destruct IH as (lx & Hl & Hlen & Hxs & Hok & Hno & Hseen').
    exists ((r, x) :: lx). cbn [map fst]. split; [rewrite <- Hoff; econstructor; eauto|]. split; [cbn; lia|].
    split; [constructor; [exact Hx|exact Hxs]|].
    cbn [opt_ok forallb existsb]. unfold non_opt. destruct (is_opt r).
    + destruct Hopt as (Hs & Hseen & Hseen1). rewrite Hseen1 in Hok, Hseen'. split; [auto|].
      split; [intros Hn; congruence|]. rewrite Hseen', Hseen. reflexivity.
    + rewrite Hopt in Hok, Hseen'. split; [exact Hok|]. split; [intros Hn; cbn; apply Hno; exact Hn|exact Hseen'].
Qed.

(** ** Emitting one record, then a section *)
Definition emit_step (ref : nat) (acc : uacc) (rx : rec_view * rd_view) : uacc :=
  let '(out, no) := acc in
  (out ++ plain_record rx, if rv_off (fst rx) =? ref then Some (length out) else no).

Lemma nonopt_opt_ok l : forallb non_opt l = true -> forall seen, opt_ok seen l.
Proof.
  induction l as [|x l IH]; intros H seen; [exact I|]. cbn [forallb] in H. apply andb_true_iff in H.
  destruct H as [Hx Hl]. cbn [opt_ok]. unfold non_opt in Hx. destruct (is_opt x); [discriminate|]. apply IH. exact Hl.
Qed.

Lemma records_cons_inv p r l off e : records_at p off (r :: l) e ->
  off = rv_off r /\ record_at p r (rv_end r) /\ records_at p (rv_end r) l e.
Proof.
  intros H. inversion H as [|r1 e1 l1 e2 Hr Hrest]; subst.
  pose proof (record_at_end _ _ _ Hr) as (He & _). rewrite <- He. auto.
Qed.

Section Emit.
  Variables (p : bytes) (v : ppacket) (ref : nat).
  Hypothesis Hb : bytes_ok p.
  Hypothesis Hpk : pp_packet v = p.

  Lemma it_rr_rdlen_ok r e it : record_at p r e -> it_offset it = Some (rv_off r) -> it_name_end it = rv_name_end r ->
    it_rr_rdlen v it = Ok (rv_rdlen r).
  Proof.
    intros (Hcn & _ & _ & _ & Hrl & Ho & Hl & _) Hoff Hne.
    unfold it_rr_rdlen, it_rd16, DNS_RR_RDLEN_OFFSET. rewrite Hoff, Hne, Hpk. cbn [unwrap bind].
    unfold slice_from. destruct (rv_name_end r <=? length p) eqn:E; [|lia]. cbn [bind].
    rewrite (proj2 (be16_at_u16 p _ 465%N _) Hrl). cbn [bind]. rewrite Nat2N.id. reflexivity.
  Qed.

  Lemma emit_record_spec acc r x e it :
    record_at p r e -> rdata_at p r x -> it_offset it = Some (rv_off r) -> it_name_end it = rv_name_end r ->
    emit_record v ref false acc it = Ok (emit_step ref acc (r, x)).
  Proof.
    intros Hr Hx Hoff Hne. destruct acc as [out no]. unfold emit_record, emit_step. rewrite Hoff.
    pose proof (record_at_end _ _ _ Hr) as (_ & Hlt & _). pose proof Hr as (Hcn & _).
    unfold it_copy_raw_name. rewrite Hoff, Hne, Hpk. cbn [unwrap bind].
    destruct (rv_name_end r <=? rv_off r) eqn:E; [lia|].
    rewrite (copy_uncompressed_name_labels p Hb _ _ _ [] Hcn). cbn [bind app].
    rewrite (it_rr_type_ok p v Hpk r e it Hr Hoff Hne). cbn [bind].
    rewrite (it_rr_rdlen_ok r e it Hr Hoff Hne). cbn [bind].
    rewrite (uncompress_rdata_spec p Hb (out ++ wire_of_labels (rv_labels r)) r e x Hr Hx). cbn [bind fst].
    unfold plain_record. rewrite <- !app_assoc. reflexivity.
  Qed.

  (** a cursor [next] that, on lists satisfying [P], steps from record to record *)
  Variable next : rrit -> res (option rrit).
  Variable P : list rec_view -> Prop.
  Hypothesis P_tail : forall r l, P (r :: l) -> P l.
  Hypothesis Hnext : forall sec r0 off r l e',
    P (r :: l) -> record_at p r (rv_end r) -> records_at p (rv_end r) l e' -> off = rv_off r ->
    next (it_on sec r0 off (S (length l))) = Ok (Some (it_on sec r (rv_end r) (length l))).
  Hypothesis Hend : forall sec r0 off, next (it_on sec r0 off 0) = Ok None.

  Lemma walk_emit : forall lx off e, records_at p off (map fst lx) e ->
    Forall (fun rx => rdata_at p (fst rx) (snd rx)) lx -> P (map fst lx) ->
    forall fuel sec r0 x0 acc, length lx < fuel -> record_at p r0 off -> rdata_at p r0 x0 ->
    walk_fold fuel next (emit_record v ref false) (Some (it_on sec r0 off (length lx))) acc =
    Ok (fold_left (emit_step ref) ((r0, x0) :: lx) acc).
  Proof.
    induction lx as [|[r x] lx IH]; intros off e Hl Hxs HP fuel sec r0 x0 acc Hfuel Hr0 Hx0;
      (destruct fuel as [|fuel]; [cbn in Hfuel; lia|]); cbn [walk_fold fold_left];
      match goal with |- context [emit_record v ref false acc ?it] => rewrite (emit_record_spec acc r0 x0 off it Hr0 Hx0 eq_refl eq_refl) end; cbn [bind].
    - cbn [length]. rewrite Hend. cbn [bind]. rewrite walk_fold_None. reflexivity.
    - cbn [map fst] in Hl, HP. destruct (records_cons_inv p _ _ _ _ Hl) as (Hoff & Hr & Hl1).
      inversion Hxs as [|? ? Hx Hxs']; subst.
      cbn [length]. rewrite <- (map_length fst lx). rewrite (Hnext sec r0 _ r (map fst lx) e HP Hr Hl1 eq_refl). cbn [bind].
      rewrite map_length.
      rewrite (IH (rv_end r) e Hl1 Hxs' (P_tail _ _ HP) fuel sec r x _ ltac:(cbn [length] in Hfuel; lia) Hr Hx).
      reflexivity.
  Qed.
End Emit.

(** ** The two cursors as instances *)
Section Cursors.
  Variables (p : bytes) (v : ppacket) (ref : nat).
  Hypothesis Hb : bytes_ok p.
  Hypothesis Hpk : pp_packet v = p.

  Lemma incl_next sec r0 off r l e' : True ->
    record_at p r (rv_end r) -> records_at p (rv_end r) l e' -> off = rv_off r ->
    r_next_including_opt v (it_on sec r0 off (S (length l))) = Ok (Some (it_on sec r (rv_end r) (length l))).
  Proof.
    intros _ Hr Hl Hoff.
    rewrite (next_on_record p v Hpk r (rv_end r) (it_on sec r0 off (S (length l))) (length l) Hr); try reflexivity; try exact Hoff.
    cbn. congruence.
  Qed.

  Lemma incl_end sec r0 off : r_next_including_opt v (it_on sec r0 off 0) = Ok None.
  Proof. unfold r_next_including_opt. cbn [it_on it_offset it_rrs_left it_offset_next bind N.of_nat N.eqb]. reflexivity. Qed.

  Lemma skip_next sec r0 off r l e' : forallb non_opt (r :: l) = true ->
    record_at p r (rv_end r) -> records_at p (rv_end r) l e' -> off = rv_off r ->
    r_next v (it_on sec r0 off (S (length l))) = Ok (Some (it_on sec r (rv_end r) (length l))).
  Proof.
    intros Hno Hr Hl Hoff.
    assert (Eo : is_opt r = false).
    { cbn [forallb] in Hno. apply andb_true_iff in Hno. destruct Hno as [Hx _]. unfold non_opt in Hx. destruct (is_opt r); [discriminate|reflexivity]. }
    rewrite (r_next_step p v Hpk sec _ r (rv_end r) l e' false Hr Hl (nonopt_opt_ok _ Hno false)); try reflexivity; try exact Hoff.
    - unfold after_skip. rewrite Eo. reflexivity.
    - rewrite Eo. discriminate.
    - cbn. congruence.
  Qed.

  Lemma skip_end sec r0 off : r_next v (it_on sec r0 off 0) = Ok None.
  Proof. apply r_next_end; cbn; congruence. Qed.

  Definition hdr_sec (sec : section) (count : N) (off : nat) : Prop :=
    match sec with
    | SAnswer => hdr_ancount p = Ok count /\ pp_offset_answers v = (if (0 <? count)%N then Some off else None)
    | SNameServers => hdr_nscount p = Ok count /\ pp_offset_nameservers v = (if (0 <? count)%N then Some off else None)
    | SAdditional => hdr_arcount p = Ok count /\ pp_offset_additional v = (if (0 <? count)%N then Some off else None)
    | _ => False
    end.

  Lemma first_none sec off : hdr_sec sec 0 off -> r_next_including_opt v (it_new sec) = Ok None.
  Proof.
    intros H. unfold r_next_including_opt. cbn [it_new it_offset it_section bind]. rewrite Hpk.
    destruct sec; try contradiction; destruct H as [Hh _]; rewrite Hh; reflexivity.
  Qed.

  (** a whole section through the including cursor *)
  Lemma emit_section_incl sec off lx e count acc :
    records_at p off (map fst lx) e -> e <= length p -> count = N.of_nat (length lx) ->
    Forall (fun rx => rdata_at p (fst rx) (snd rx)) lx -> hdr_sec sec count off ->
    (first <- r_next_including_opt v (it_new sec) ;;
     walk_fold (walk_fuel p) (r_next_including_opt v) (emit_record v ref false) first acc) =
    Ok (fold_left (emit_step ref) lx acc).
  Proof.
    intros Hl Hend Hcount Hxs Hhdr. pose proof (records_at_span _ _ _ _ Hl) as Hspan. rewrite map_length in Hspan.
    destruct lx as [|[r x] lx].
    - cbn [length N.of_nat] in Hcount. rewrite Hcount in Hhdr. rewrite (first_none sec off Hhdr). cbn [bind fold_left].
      rewrite walk_fold_None. reflexivity.
    - cbn [map fst] in Hl. destruct (records_cons_inv p _ _ _ _ Hl) as (Hoff & Hr & Hl1).
      inversion Hxs as [|? ? Hx Hxs']; subst.
      assert (Hpos : (0 <? N.of_nat (length ((r, x) :: lx)))%N = true) by (cbn [length]; lia).
      unfold hdr_sec in Hhdr. rewrite Hpos in Hhdr.
      rewrite (first_on_record p v Hpk r (rv_end r) sec _ (length lx) Hr eq_refl) by exact Hhdr. cbn [bind].
      change {| it_section := sec; it_offset := Some (rv_off r); it_offset_next := rv_end r; it_name_end := rv_name_end r;
                it_rrs_left := N.of_nat (length lx) |} with (it_on sec r (rv_end r) (length lx)).
      apply (walk_emit p v ref Hb Hpk (r_next_including_opt v) (fun _ => True) (fun _ _ _ => I) incl_next incl_end
               lx (rv_end r) e Hl1 Hxs' I); [|exact Hr|exact Hx].
      unfold walk_fuel. cbn [length] in Hspan. lia.
  Qed.

  (** a whole section without OPT through the skipping cursor *)
  Lemma emit_section_skip sec off lx e count acc :
    records_at p off (map fst lx) e -> e <= length p -> count = N.of_nat (length lx) ->
    Forall (fun rx => rdata_at p (fst rx) (snd rx)) lx -> hdr_sec sec count off ->
    forallb non_opt (map fst lx) = true ->
    (first <- r_next v (it_new sec) ;;
     walk_fold (walk_fuel p) (r_next v) (emit_record v ref false) first acc) =
    Ok (fold_left (emit_step ref) lx acc).
  Proof.
    intros Hl Hend Hcount Hxs Hhdr Hno. pose proof (records_at_span _ _ _ _ Hl) as Hspan. rewrite map_length in Hspan.
    unfold r_next at 1.
    destruct lx as [|[r x] lx].
    - cbn [length N.of_nat] in Hcount. rewrite Hcount in Hhdr. rewrite (first_none sec off Hhdr). cbn [bind fold_left].
      rewrite walk_fold_None. reflexivity.
    - cbn [map fst] in Hl, Hno. destruct (records_cons_inv p _ _ _ _ Hl) as (Hoff & Hr & Hl1).
      inversion Hxs as [|? ? Hx Hxs']; subst.
      assert (Hpos : (0 <? N.of_nat (length ((r, x) :: lx)))%N = true) by (cbn [length]; lia).
      unfold hdr_sec in Hhdr. rewrite Hpos in Hhdr.
      rewrite (first_on_record p v Hpk r (rv_end r) sec _ (length lx) Hr eq_refl) by exact Hhdr. cbn [bind].
      change {| it_section := sec; it_offset := Some (rv_off r); it_offset_next := rv_end r; it_name_end := rv_name_end r;
                it_rrs_left := N.of_nat (length lx) |} with (it_on sec r (rv_end r) (length lx)).
      assert (Eo : is_opt r = false).
      { cbn [forallb] in Hno. apply andb_true_iff in Hno. destruct Hno as [Hx' _]. unfold non_opt in Hx'. destruct (is_opt r); [discriminate|reflexivity]. }
      rewrite <- (map_length fst lx).
      rewrite (maybe_skip_spec p v Hpk sec r (rv_end r) (map fst lx) e false Hr Hl1 (nonopt_opt_ok _ Hno false)) by (rewrite Eo; discriminate).
      cbn [bind]. unfold after_skip. rewrite Eo. rewrite map_length.
      assert (Hno1 : forallb non_opt (map fst lx) = true) by (cbn [forallb] in Hno; apply andb_true_iff in Hno; apply Hno).
      assert (Ptail : forall (r' : rec_view) (l' : list rec_view), forallb non_opt (r' :: l') = true -> forallb non_opt l' = true).
      { intros r' l' H'. cbn [forallb] in H'. apply andb_true_iff in H'. apply H'. }
      apply (walk_emit p v ref Hb Hpk (r_next v) (fun l => forallb non_opt l = true) Ptail skip_next skip_end
               lx (rv_end r) e Hl1 Hxs' Hno1); [|exact Hr|exact Hx].
      unfold walk_fuel. cbn [length] in Hspan. lia.
  Qed.
End Cursors.

Lemma fold_emit_fst ref : forall lx out no,
  fst (fold_left (emit_step ref) lx (out, no)) = out ++ concat (map plain_record lx).
Proof.
  induction lx as [|rx lx IH]; intros out no; cbn [fold_left map concat]; [rewrite app_nil_r; reflexivity|].
  change (emit_step ref (out, no) rx) with (out ++ plain_record rx, if rv_off (fst rx) =? ref then Some (length out) else no).
  rewrite IH. rewrite <- app_assoc. reflexivity.
Qed.

Lemma fold_emit_some ref : forall lx out o, exists o', snd (fold_left (emit_step ref) lx (out, Some o)) = Some o'.
Proof.
  induction lx as [|rx lx IH]; intros out o; cbn [fold_left]; [cbn; eauto|].
  change (emit_step ref (out, Some o) rx) with (out ++ plain_record rx, if rv_off (fst rx) =? ref then Some (length out) else Some o).
  destruct (rv_off (fst rx) =? ref); apply IH.
Qed.

(** ** The whole packet *)
Theorem uncompress_spec : forall p v, bytes_ok p -> parse p = Ok v ->
  exists qls qt qe e1 e2 lxa lxn lxr,
    question_of p qls qt CLASS_IN /\ cname_l p 12 qls qe /\
    records_at p (qe + 4) (map fst lxa) e1 /\ records_at p e1 (map fst lxn) e2 /\
    records_at p e2 (map fst lxr) (length p) /\
    Forall (fun rx => rdata_at p (fst rx) (snd rx)) (lxa ++ lxn ++ lxr) /\
    hdr_ancount p = Ok (N.of_nat (length lxa)) /\ hdr_nscount p = Ok (N.of_nat (length lxn)) /\
    hdr_arcount p = Ok (N.of_nat (length lxr)) /\
    uncompress p = Ok (firstn 12 p ++ plain_question qls qt CLASS_IN ++ concat (map plain_record (lxa ++ lxn ++ lxr))).
Proof.
  intros p v Hb Hp.
  destruct (parse_view p v Hb Hp) as (an & ns & ar & qe & e1 & s1 & e2 & s2 & s3 & Hpk & Hqn & Hq4 & Han & Hns & Har &
                                      Hlan & Hlns & Hlar & Hc1 & Hc2 & Hc3 & Hoan & Hons & Hoar).
  destruct (rrs_wf_full p _ _ _ _ _ _ Hc1) as (lxa & Hla & Hlla & Hxa & _ & Hnoa & _).
  destruct (rrs_wf_full p _ _ _ _ _ _ Hc2) as (lxn & Hln & Hlln & Hxn & _ & Hnon & _).
  destruct (rrs_wf_full p _ _ _ _ _ _ Hc3) as (lxr & Hlr & Hllr & Hxr & _ & _ & _).
  specialize (Hnoa ltac:(discriminate)). specialize (Hnon ltac:(discriminate)).
  pose proof (records_at_span _ _ _ _ Hlr) as Hsp3. pose proof (records_at_span _ _ _ _ Hln) as Hsp2.
  destruct (question_cursor_spec p v Hb Hp) as (qls & qe' & qt & qc & itq & Hcn & Hqt & Hqc & Hq0 & Hqoff & Hqne & Hqraw & _ & _ & _ & Hqend).
  destruct Hqn as (qls' & Hcn').
  destruct (cname_l_fun _ _ _ _ _ _ Hcn Hcn') as [<- ->].
  assert (Hqcls : qc = CLASS_IN).
  { destruct (question_exists p v Hb Hp) as (l0 & t0 & [(q0 & Hc0 & Ht0 & Hcl0 & _)]).
    destruct (cname_l_fun _ _ _ _ _ _ Hcn Hc0) as [_ <-]. eapply u16_at_fun; eauto. }
  subst qc.
  exists qls, qt, qe, e1, e2, lxa, lxn, lxr.
  split; [constructor; exists qe; auto|]. split; [exact Hcn|]. split; [exact Hla|]. split; [exact Hln|]. split; [exact Hlr|].
  split; [apply Forall_app; split; [exact Hxa|apply Forall_app; split; assumption]|].
  split; [rewrite Hlla, N2Nat.id; exact Han|]. split; [rewrite Hlln, N2Nat.id; exact Hns|]. split; [rewrite Hllr, N2Nat.id; exact Har|].
  assert (H12 : 12 < length p) by (destruct Hcn; lia).
  unfold uncompress, uncompress_with_previous_offset, DNS_HEADER_SIZE.
  destruct (length p <? 12) eqn:E12; [lia|]. rewrite Hp. cbn [bind]. rewrite Hq0. cbn [bind].
  (* the question *)
  assert (Hfuel : exists f, walk_fuel p = S f) by (unfold walk_fuel; exists (length p + 1); lia).
  destruct Hfuel as (f & Hf). rewrite Hf at 1. cbn [walk_fold].
  unfold emit_record at 1. rewrite Hqoff. replace (12 =? 12) with true by reflexivity.
  rewrite Hqraw. cbn [bind unwrap]. rewrite Hqne, Hpk.
  unfold uncompress_rdata, DNS_RR_QUESTION_HEADER_SIZE. rewrite take_rdata_ok by lia. cbn [bind].
  rewrite Hqend. cbn [bind]. rewrite walk_fold_None. cbn [bind].
  assert (Hq4b : firstn 4 (skipn qe p) = be16_bytes qt ++ be16_bytes CLASS_IN).
  { change 4 with (2 + 2). rewrite firstn_split_at, skipn_skipn.
    rewrite (be16_of_u16 p _ _ Hb Hqt), (be16_of_u16 p _ _ Hb Hqc). reflexivity. }
  rewrite Hq4b. rewrite firstn_length. replace (Init.Nat.min 12 (length p)) with 12 by lia.
  (* the three sections *)
  assert (Hca : an = N.of_nat (length lxa)) by lia. assert (Hcn2 : ns = N.of_nat (length lxn)) by lia.
  assert (Hcr : ar = N.of_nat (length lxr)) by lia.
  match goal with |- context [walk_fold _ (r_next v) _ _ ?acc] =>
    pose proof (emit_section_skip p v 12 Hb Hpk SAnswer (qe + 4) lxa e1 an acc Hla ltac:(lia) Hca Hxa (conj Han Hoan) Hnoa) as HA end.
  apply bind_ok in HA. destruct HA as (fa & Hfa & Hwa). rewrite Hfa. cbn [bind]. rewrite Hwa. cbn [bind].
  match goal with |- context [walk_fold _ (r_next v) _ _ ?acc] =>
    pose proof (emit_section_skip p v 12 Hb Hpk SNameServers e1 lxn e2 ns acc Hln ltac:(lia) Hcn2 Hxn (conj Hns Hons) Hnon) as HN end.
  apply bind_ok in HN. destruct HN as (fn & Hfn & Hwn). rewrite Hfn. cbn [bind]. rewrite Hwn. cbn [bind].
  match goal with |- context [walk_fold _ (r_next_including_opt v) _ _ ?acc] =>
    pose proof (emit_section_incl p v 12 Hb Hpk SAdditional e2 lxr (length p) ar acc Hlr (le_n _) Hcr Hxr (conj Har Hoar)) as HR end.
  apply bind_ok in HR. destruct HR as (fr & Hfr & Hwr). rewrite Hfr. cbn [bind]. rewrite Hwr. cbn [bind].
  rewrite <- (fold_left_app (emit_step 12) lxa lxn), <- (fold_left_app (emit_step 12) (lxa ++ lxn) lxr), <- app_assoc.
  match goal with |- context [match ?T with pair _ _ => _ end] =>
    match T with fold_left (emit_step 12) ?l (?o, _) =>
      remember T as res eqn:Er;
      assert (Hfst : fst res = o ++ concat (map plain_record l)) by (rewrite Er; apply fold_emit_fst);
      assert (Hsnd : exists o', snd res = Some o') by (rewrite Er; apply fold_emit_some) end end.
  clear Er. destruct Hsnd as (o' & Hsnd). destruct res as [out no]. cbn [fst snd] in Hfst, Hsnd. cbv beta iota. rewrite Hsnd, Hfst.
  destruct (12 =? length p) eqn:E; cbn [unwrap bind]; unfold plain_question; rewrite <- !app_assoc; reflexivity.
Qed.

(** ** Translation of record boundaries ([uncompress_with_previous_offset]) *)
Lemma fold_emit_snd_none ref : forall lx out no,
  Forall (fun rx => rv_off (fst rx) <> ref) lx -> snd (fold_left (emit_step ref) lx (out, no)) = no.
Proof.
  induction lx as [|rx lx IH]; intros out no H; cbn [fold_left]; [reflexivity|].
  inversion H as [|? ? Hne Hrest]; subst.
  change (emit_step ref (out, no) rx) with (out ++ plain_record rx, if rv_off (fst rx) =? ref then Some (length out) else no).
  destruct (rv_off (fst rx) =? ref) eqn:E; [apply Nat.eqb_eq in E; contradiction|]. apply IH. exact Hrest.
Qed.

Lemma fold_emit_snd_hit ref : forall l1 rx l2 out no,
  Forall (fun rx => rv_off (fst rx) <> ref) l1 -> rv_off (fst rx) = ref -> Forall (fun rx => rv_off (fst rx) <> ref) l2 ->
  snd (fold_left (emit_step ref) (l1 ++ rx :: l2) (out, no)) = Some (length (out ++ concat (map plain_record l1))).
Proof.
  induction l1 as [|r1 l1 IH]; intros rx l2 out no H1 Hrx H2; cbn [app fold_left map concat].
  - change (emit_step ref (out, no) rx) with (out ++ plain_record rx, if rv_off (fst rx) =? ref then Some (length out) else no).
    rewrite Hrx, Nat.eqb_refl. rewrite fold_emit_snd_none by exact H2. rewrite app_nil_r. reflexivity.
  - inversion H1 as [|? ? Hne Hrest]; subst.
    change (emit_step (rv_off (fst rx)) (out, no) r1) with
      (out ++ plain_record r1, if rv_off (fst r1) =? rv_off (fst rx) then Some (length out) else no).
    rewrite (IH rx l2 _ _ Hrest eq_refl H2). rewrite <- app_assoc. reflexivity.
Qed.

Lemma records_at_app p : forall l1 off m, records_at p off l1 m -> forall l2 e, records_at p m l2 e -> records_at p off (l1 ++ l2) e.
Proof.
  induction 1 as [off|r off1 l1 m Hr Hrest IH]; intros l2 e H2; cbn [app]; [exact H2|]. econstructor; eauto.
Qed.

Lemma records_at_offsets p : forall off l e, records_at p off l e ->
  Forall (fun r => off <= rv_off r /\ rv_end r <= e) l.
Proof.
  induction 1 as [off|r off1 l e Hr Hrest IH]; [constructor|].
  pose proof (record_at_end _ _ _ Hr) as (He & Hlt & _). pose proof (records_at_span _ _ _ _ Hrest) as Hsp.
  constructor; [unfold rv_end in *; lia|].
  eapply Forall_impl; [|exact IH]. intros r' [A B]. unfold rv_end in *. lia.
Qed.

Lemma records_at_split p : forall l1 r l2 off e, records_at p off (l1 ++ r :: l2) e ->
  Forall (fun r' => rv_off r' <> rv_off r) l1 /\ Forall (fun r' => rv_off r' <> rv_off r) l2 /\ off <= rv_off r.
Proof.
  induction l1 as [|r1 l1 IH]; intros r l2 off e H; cbn [app] in H.
  - destruct (records_cons_inv p _ _ _ _ H) as (Hoff & Hr & Hl2).
    split; [constructor|]. split; [|lia].
    pose proof (record_at_end _ _ _ Hr) as (_ & Hlt & _).
    eapply Forall_impl; [|apply (records_at_offsets _ _ _ _ Hl2)]. intros r' [A _]. unfold rv_end in *. lia.
  - destruct (records_cons_inv p _ _ _ _ H) as (Hoff & Hr1 & Hrest).
    destruct (IH r l2 _ e Hrest) as (A & B & C).
    pose proof (record_at_end _ _ _ Hr1) as (_ & Hlt & _).
    unfold rv_end in *. split; [constructor; [lia|exact A]|]. split; [exact B|lia].
Qed.

Theorem uncompress_at_spec : forall p v, bytes_ok p -> parse p = Ok v ->
  exists qls qt qe e1 e2 lxa lxn lxr,
    question_of p qls qt CLASS_IN /\ cname_l p 12 qls qe /\
    records_at p (qe + 4) (map fst lxa) e1 /\ records_at p e1 (map fst lxn) e2 /\
    records_at p e2 (map fst lxr) (length p) /\
    Forall (fun rx => rdata_at p (fst rx) (snd rx)) (lxa ++ lxn ++ lxr) /\
    hdr_ancount p = Ok (N.of_nat (length lxa)) /\ hdr_nscount p = Ok (N.of_nat (length lxn)) /\
    hdr_arcount p = Ok (N.of_nat (length lxr)) /\
    let q0 := firstn 12 p ++ plain_question qls qt CLASS_IN in
    let lx := lxa ++ lxn ++ lxr in
    let q := q0 ++ concat (map plain_record lx) in
    (* the question, the end of the packet, and every record boundary are translated *)
    uncompress_with_previous_offset p 12 = Ok (q, 12) /\
    uncompress_with_previous_offset p (length p) = Ok (q, length q) /\
    forall l1 rx l2, lx = l1 ++ rx :: l2 ->
      uncompress_with_previous_offset p (rv_off (fst rx)) = Ok (q, length (q0 ++ concat (map plain_record l1))).
Proof.
  intros p v Hb Hp.
  destruct (parse_view p v Hb Hp) as (an & ns & ar & qe & e1 & s1 & e2 & s2 & s3 & Hpk & Hqn & Hq4 & Han & Hns & Har &
                                      Hlan & Hlns & Hlar & Hc1 & Hc2 & Hc3 & Hoan & Hons & Hoar).
  destruct (rrs_wf_full p _ _ _ _ _ _ Hc1) as (lxa & Hla & Hlla & Hxa & _ & Hnoa & _).
  destruct (rrs_wf_full p _ _ _ _ _ _ Hc2) as (lxn & Hln & Hlln & Hxn & _ & Hnon & _).
  destruct (rrs_wf_full p _ _ _ _ _ _ Hc3) as (lxr & Hlr & Hllr & Hxr & _ & _ & _).
  specialize (Hnoa ltac:(discriminate)). specialize (Hnon ltac:(discriminate)).
  pose proof (records_at_span _ _ _ _ Hlr) as Hsp3. pose proof (records_at_span _ _ _ _ Hln) as Hsp2.
  destruct (question_cursor_spec p v Hb Hp) as (qls & qe' & qt & qc & itq & Hcn & Hqt & Hqc & Hq0 & Hqoff & Hqne & Hqraw & _ & _ & _ & Hqend).
  destruct Hqn as (qls' & Hcn').
  destruct (cname_l_fun _ _ _ _ _ _ Hcn Hcn') as [<- ->].
  assert (Hqcls : qc = CLASS_IN).
  { destruct (question_exists p v Hb Hp) as (l0 & t0 & [(q0 & Hc0 & Ht0 & Hcl0 & _)]).
    destruct (cname_l_fun _ _ _ _ _ _ Hcn Hc0) as [_ <-]. eapply u16_at_fun; eauto. }
  subst qc.
  exists qls, qt, qe, e1, e2, lxa, lxn, lxr.
  split; [constructor; exists qe; auto|]. split; [exact Hcn|]. split; [exact Hla|]. split; [exact Hln|]. split; [exact Hlr|].
  split; [apply Forall_app; split; [exact Hxa|apply Forall_app; split; assumption]|].
  split; [rewrite Hlla, N2Nat.id; exact Han|]. split; [rewrite Hlln, N2Nat.id; exact Hns|]. split; [rewrite Hllr, N2Nat.id; exact Har|].
  assert (H12 : 12 < length p) by (destruct Hcn; lia).
  cbv zeta.
  (* the whole chain of records *)
  assert (Hall : records_at p (qe + 4) (map fst (lxa ++ lxn ++ lxr)) (length p)).
  { rewrite !map_app. eapply records_at_app; [exact Hla|]. eapply records_at_app; [exact Hln|exact Hlr]. }
  assert (Hqlt : 12 < qe) by (destruct Hcn as [_ Hna]; apply name_at_end_gt in Hna; exact Hna).
  assert (Hoffs : Forall (fun r => qe + 4 <= rv_off r /\ rv_end r <= length p) (map fst (lxa ++ lxn ++ lxr))) by (eapply records_at_offsets; exact Hall).
  (* the computation, for any reference offset *)
  assert (Hgen : forall ref,
            uncompress_with_previous_offset p ref =
            (let acc := fold_left (emit_step ref) (lxa ++ lxn ++ lxr)
                                  (firstn 12 p ++ plain_question qls qt CLASS_IN, if 12 =? ref then Some 12 else None) in
             o <- unwrap (if ref =? length p then Some (length (fst acc)) else snd acc) 522 ;; Ok (fst acc, o))).
  { intros ref. unfold uncompress_with_previous_offset, DNS_HEADER_SIZE.
    destruct (length p <? 12) eqn:E12; [lia|]. rewrite Hp. cbn [bind]. rewrite Hq0. cbn [bind].
    assert (Hfuel : exists f, walk_fuel p = S f) by (unfold walk_fuel; exists (length p + 1); lia).
    destruct Hfuel as (f & Hf). rewrite Hf at 1. cbn [walk_fold].
    unfold emit_record at 1. rewrite Hqoff.
    rewrite Hqraw. cbn [bind unwrap]. rewrite Hqne, Hpk.
    unfold uncompress_rdata, DNS_RR_QUESTION_HEADER_SIZE. rewrite take_rdata_ok by lia. cbn [bind].
    rewrite Hqend. cbn [bind]. rewrite walk_fold_None. cbn [bind].
    assert (Hq4b : firstn 4 (skipn qe p) = be16_bytes qt ++ be16_bytes CLASS_IN).
    { change 4 with (2 + 2). rewrite firstn_split_at, skipn_skipn.
      rewrite (be16_of_u16 p _ _ Hb Hqt), (be16_of_u16 p _ _ Hb Hqc). reflexivity. }
    rewrite Hq4b. rewrite firstn_length. replace (Init.Nat.min 12 (length p)) with 12 by lia.
    assert (Hca : an = N.of_nat (length lxa)) by lia. assert (Hcn2 : ns = N.of_nat (length lxn)) by lia.
    assert (Hcr : ar = N.of_nat (length lxr)) by lia.
    match goal with |- context [walk_fold _ (r_next v) _ _ ?acc] =>
      pose proof (emit_section_skip p v ref Hb Hpk SAnswer (qe + 4) lxa e1 an acc Hla ltac:(lia) Hca Hxa (conj Han Hoan) Hnoa) as HA end.
    apply bind_ok in HA. destruct HA as (fa & Hfa & Hwa). rewrite Hfa. cbn [bind]. rewrite Hwa. cbn [bind].
    match goal with |- context [walk_fold _ (r_next v) _ _ ?acc] =>
      pose proof (emit_section_skip p v ref Hb Hpk SNameServers e1 lxn e2 ns acc Hln ltac:(lia) Hcn2 Hxn (conj Hns Hons) Hnon) as HN end.
    apply bind_ok in HN. destruct HN as (fn & Hfn & Hwn). rewrite Hfn. cbn [bind]. rewrite Hwn. cbn [bind].
    match goal with |- context [walk_fold _ (r_next_including_opt v) _ _ ?acc] =>
      pose proof (emit_section_incl p v ref Hb Hpk SAdditional e2 lxr (length p) ar acc Hlr (le_n _) Hcr Hxr (conj Har Hoar)) as HR end.
    apply bind_ok in HR. destruct HR as (fr & Hfr & Hwr). rewrite Hfr. cbn [bind]. rewrite Hwr. cbn [bind].
    rewrite <- (fold_left_app (emit_step ref) lxa lxn), <- (fold_left_app (emit_step ref) (lxa ++ lxn) lxr), <- app_assoc.
    unfold plain_question. rewrite <- !app_assoc.
    match goal with |- context [match ?T with pair _ _ => _ end] => destruct T as [out no] eqn:Efold end.
    match goal with |- context [fst ?X] => replace X with (out, no) by (symmetry; exact Efold) end.
    cbn [fst snd]. reflexivity. }
  assert (Hfst : forall ref no, fst (fold_left (emit_step ref) (lxa ++ lxn ++ lxr) (firstn 12 p ++ plain_question qls qt CLASS_IN, no)) =
                               (firstn 12 p ++ plain_question qls qt CLASS_IN) ++ concat (map plain_record (lxa ++ lxn ++ lxr))).
  { intros. apply fold_emit_fst. }
  assert (Hne12 : Forall (fun rx : rec_view * rd_view => rv_off (fst rx) <> 12) (lxa ++ lxn ++ lxr)).
  { rewrite Forall_forall. intros rx Hin. rewrite Forall_forall in Hoffs. specialize (Hoffs (fst rx) (in_map fst _ _ Hin)). lia. }
  split; [|split].
  - rewrite Hgen. cbv zeta. rewrite Hfst. rewrite fold_emit_snd_none by exact Hne12.
    replace (12 =? 12) with true by reflexivity. destruct (12 =? length p) eqn:E; [apply Nat.eqb_eq in E; lia|]. reflexivity.
  - rewrite Hgen. cbv zeta. rewrite Hfst. rewrite Nat.eqb_refl. reflexivity.
  - intros l1 rx l2 Hlx. rewrite Hgen. cbv zeta. rewrite Hfst.
    rewrite Hlx in Hall. rewrite map_app in Hall. cbn [map] in Hall.
    destruct (records_at_split p _ _ _ _ _ Hall) as (A & B & C).
    assert (Hrx : rv_off (fst rx) <> length p /\ rv_off (fst rx) <> 12).
    { rewrite Hlx in Hoffs. rewrite Forall_forall in Hoffs. specialize (Hoffs (fst rx)).
      assert (Hin : In (fst rx) (map fst (l1 ++ rx :: l2))) by (apply in_map, in_or_app; right; left; reflexivity).
      specialize (Hoffs Hin). destruct (records_at_nth p _ _ _ Hall (length (map fst l1)) (fst rx)) as (_ & _ & (e' & Hre)).
      { rewrite nth_error_app2 by lia. rewrite Nat.sub_diag. reflexivity. }
      pose proof (record_at_end _ _ _ Hre) as (_ & Hlt & _). unfold rv_end in *. lia. }
    destruct (rv_off (fst rx) =? length p) eqn:E; [apply Nat.eqb_eq in E; lia|].
    rewrite Hlx. rewrite fold_emit_snd_hit; [reflexivity| |reflexivity|].
    + rewrite Forall_forall in *. intros y Hy. apply (A (fst y)). apply in_map. exact Hy.
    + rewrite Forall_forall in *. intros y Hy. apply (B (fst y)). apply in_map. exact Hy.
Qed.
