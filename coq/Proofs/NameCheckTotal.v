(** * The two validating name walkers are total (C01) and cheap (C18).

    For every byte string and every offset: no panic, no out-of-bounds read, the fuel is
    never exhausted, the result (when [Ok]) lies strictly after the start offset, and the
    number of loop iterations is at most 272 / 256. *)

From DV Require Import Model.Base Model.NameCheck Proofs.Hoare.
From Coq Require Import ZifyBool ZifyNat ZifyN.

Ltac split_if :=
  match goal with
  | |- context [if ?c then _ else _] => destruct c eqn:?
  end.

Section CN.
  Variable p : bytes.
  Variable start : nat.

  Definition cn_inv (s : cn_state) : Prop :=
    cn_barrier s <= length p /\ cn_lowest s <= length p /\ cn_nlen s <= 255 /\
    match cn_final s with Some f => start < f | None => start <= cn_off s end.

  Definition cn_measure (s : cn_state) : nat := cn_refs s + (255 - cn_nlen s).

  Lemma cn_step_ok : forall s, cn_inv s ->
    match cn_step p s with
    | Done r => hoare r (fun e => start < e)
    | Continue s' => cn_inv s' /\ cn_measure s' < cn_measure s
    end.
  Proof.
    intros s (Hb & Hl & Hn & Hf). unfold cn_step.
    split_if; [exact I|].
    destruct (nth_error p (cn_off s)) as [len|] eqn:Hlen.
    2:{ apply nth_error_None in Hlen. cbn. lia. }
    split_if.
    - (* pointer *)
      split_if; [exact I|]. split_if; [cbn; lia|]. split_if; [exact I|].
      destruct (nth_error p (cn_off s + 1)) as [lo|] eqn:Hlo.
      2:{ apply nth_error_None in Hlo. cbn. lia. }
      split_if; [exact I|].
      match goal with |- context [nth_error p ?r] => destruct (nth_error p r) as [rb|] eqn:Hrb end.
      2:{ apply nth_error_None in Hrb. cbn. lia. }
      split_if; [exact I|].
      unfold cn_inv, cn_measure; cbn [cn_barrier cn_lowest cn_nlen cn_final cn_off cn_refs].
      repeat split; try lia.
      destruct (cn_final s); cbn [opt_or]; lia.
    - (* label *)
      split_if; [exact I|]. split_if; [cbn; lia|]. split_if; [exact I|].
      unfold DNS_MAX_HOSTNAME_LEN in *.
      split_if; [exact I|].
      unfold slice. split_if; [|cbn; lia].
      split_if; [exact I|].
      split_if.
      + cbn [hoare]. destruct (cn_final s); lia.
      + unfold cn_inv, cn_measure; cbn [cn_barrier cn_lowest cn_nlen cn_final cn_off cn_refs].
        repeat split; try lia.
        destruct (cn_final s); lia.
  Qed.
End CN.

Theorem check_compressed_name_spec : forall p off,
  hoare (check_compressed_name p off) (fun e => off < e).
Proof.
  intros p off. unfold check_compressed_name.
  split_if; [exact I|]. split_if; [exact I|].
  apply run_loop_hoare with (Inv := cn_inv p off) (measure := cn_measure).
  - apply cn_step_ok.
  - unfold cn_inv, cn_init; cbn [cn_barrier cn_lowest cn_nlen cn_final cn_off]. lia.
  - unfold cn_measure, cn_init, cn_fuel, DNS_MAX_HOSTNAME_INDIRECTIONS; cbn [cn_refs cn_nlen]. lia.
Qed.

Theorem check_compressed_name_total : forall p off, nopanic (check_compressed_name p off).
Proof. intros; eapply hoare_nopanic, check_compressed_name_spec. Qed.

Theorem cn_cost_bound : forall p off, cn_cost p off <= 272.
Proof.
  intros p off. unfold cn_cost.
  split_if; [lia|]. split_if; [lia|].
  pose proof (loop_count_le (cn_step p) (cn_inv p off) (fun e => off < e) cn_measure
                (cn_step_ok p off) cn_fuel (cn_init p off)) as H.
  assert (Hi : cn_inv p off (cn_init p off)) by (unfold cn_inv, cn_init; cbn [cn_barrier cn_lowest cn_nlen cn_final cn_off]; lia).
  specialize (H Hi).
  unfold cn_measure in H. change (cn_refs (cn_init p off)) with 16 in H.
  change (cn_nlen (cn_init p off)) with 0 in H. lia.
Qed.

(** ** check_uncompressed_name *)

Section UN.
  Variable p : bytes.
  Variable start : nat.

  Definition un_inv (s : un_state) : Prop := un_nlen s <= 255 /\ start <= un_off s.
  Definition un_measure (s : un_state) : nat := 255 - un_nlen s.

  Lemma un_step_ok : forall s, un_inv s ->
    match un_step p s with
    | Done r => hoare r (fun e => start < e)
    | Continue s' => un_inv s' /\ un_measure s' < un_measure s
    end.
  Proof.
    intros s (Hn & Hs). unfold un_step.
    split_if; [exact I|].
    destruct (nth_error p (un_off s)) as [len|] eqn:Hlen.
    2:{ apply nth_error_None in Hlen. cbn. lia. }
    split_if; [exact I|]. split_if; [exact I|]. split_if; [exact I|].
    unfold DNS_MAX_HOSTNAME_LEN in *.
    split_if; [exact I|].
    split_if.
    - cbn [hoare]. lia.
    - unfold un_inv, un_measure; cbn [un_nlen un_off]. lia.
  Qed.
End UN.

Theorem check_uncompressed_name_spec : forall p off,
  hoare (check_uncompressed_name p off) (fun e => off < e).
Proof.
  intros p off. unfold check_uncompressed_name.
  split_if; [exact I|]. split_if; [exact I|].
  apply run_loop_hoare with (Inv := un_inv off) (measure := un_measure).
  - apply un_step_ok.
  - unfold un_inv; cbn [un_nlen un_off]. lia.
  - unfold un_measure, un_fuel; cbn [un_nlen]. lia.
Qed.

Theorem check_uncompressed_name_total : forall p off, nopanic (check_uncompressed_name p off).
Proof. intros; eapply hoare_nopanic, check_uncompressed_name_spec. Qed.

Theorem un_cost_bound : forall p off, un_cost p off <= 256.
Proof.
  intros p off. unfold un_cost.
  split_if; [lia|]. split_if; [lia|].
  pose proof (loop_count_le (un_step p) (un_inv off) (fun e => off < e) un_measure
                (un_step_ok p off) un_fuel {| un_off := off; un_nlen := 0 |}) as H.
  assert (Hi : un_inv off {| un_off := off; un_nlen := 0 |}) by (unfold un_inv; cbn [un_nlen un_off]; lia).
  specialize (H Hi). unfold un_measure in H; cbn [un_nlen] in H. lia.
Qed.
