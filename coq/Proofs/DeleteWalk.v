(** * Deleting while iterating: the abstract machine (C11).

    A section is a list of records; [D] chooses the records to delete.  The walk yields the record
    under the cursor; if it is chosen it is removed and - because a tombstoned cursor restarts from
    the section start with the current count (response_iterator.rs:94-115) - the walk starts over
    from position 0; otherwise the cursor advances.  The concrete cursor code is tied to this
    machine by the correspondence (gen/hist.py computes its expectations with exactly this machine). *)

From Coq Require Import List Arith Bool Lia.
Import ListNotations.

Section AW.
  Context {A : Type}.
  Variable D : A -> bool.

  Fixpoint remove_nth (i : nat) (l : list A) : list A :=
    match l, i with
    | [], _ => []
    | _ :: t, O => t
    | h :: t, S i' => h :: remove_nth i' t
    end.

  (** (final section, yielded records) or [None] when the fuel runs out *)
  Fixpoint awalk (fuel : nat) (l : list A) (i : nat) (ys : list A) : option (list A * list A) :=
    match fuel with
    | O => None
    | S f =>
      match nth_error l i with
      | None => Some (l, ys)
      | Some x =>
        if D x then awalk f (remove_nth i l) 0 (ys ++ [x])
        else awalk f l (S i) (ys ++ [x])
      end
    end.

  Definition keep (x : A) : bool := negb (D x).
  Definition ndel (l : list A) : nat := length (filter D l).

  Lemma remove_nth_length i : forall l x, nth_error l i = Some x -> length (remove_nth i l) = length l - 1.
  Proof.
    induction i as [|i IH]; intros [|h t] x H; cbn in *; try discriminate; [lia|].
    rewrite (IH t x H). destruct t; cbn in *; [destruct i; discriminate|lia].
  Qed.

  Lemma remove_nth_filter_keep i : forall l x, nth_error l i = Some x -> D x = true ->
    filter keep (remove_nth i l) = filter keep l.
  Proof.
    induction i as [|i IH]; intros [|h t] x H Hd; cbn in *; try discriminate.
    - inversion H; subst. unfold keep at 2. rewrite Hd. reflexivity.
    - rewrite (IH t x H Hd). reflexivity.
  Qed.

  Lemma remove_nth_ndel i : forall l x, nth_error l i = Some x -> D x = true ->
    ndel (remove_nth i l) = ndel l - 1 /\ 1 <= ndel l.
  Proof.
    unfold ndel. induction i as [|i IH]; intros [|h t] x H Hd; cbn in *; try discriminate.
    - inversion H; subst. rewrite Hd. cbn. lia.
    - destruct (IH t x H Hd) as [E L]. destruct (D h); cbn; lia.
  Qed.

  (** ** Termination: (|D ∩ section| + 1) * (n + 1) yields always suffice. *)
  Lemma awalk_terminates_gen : forall fuel l i ys,
    (length l - i) + 1 + ndel l * (length l + 1) <= fuel ->
    exists r, awalk fuel l i ys = Some r.
  Proof.
    induction fuel as [|fuel IH]; intros l i ys Hf; [lia|].
    cbn [awalk]. destruct (nth_error l i) as [x|] eqn:E; [|eauto].
    assert (Hi : i < length l) by (apply nth_error_Some; congruence).
    destruct (D x) eqn:Hd.
    - apply IH. destruct (remove_nth_ndel i l x E Hd) as [En Ln].
      rewrite En, (remove_nth_length i l x E). nia.
    - apply IH. nia.
  Qed.

  Theorem awalk_terminates : forall l,
    exists r, awalk ((ndel l + 1) * (length l + 1)) l 0 [] = Some r.
  Proof. intros l. apply awalk_terminates_gen. nia. Qed.

  (** ** Exactness *)
  Lemma firstn_S_nth (l : list A) i x : nth_error l i = Some x -> firstn (S i) l = firstn i l ++ [x].
  Proof.
    revert l. induction i as [|i IH]; intros [|h t] H; cbn in *; try discriminate.
    - inversion H; reflexivity.
    - rewrite (IH t H). reflexivity.
  Qed.

  Lemma awalk_exact_gen : forall fuel l i ys l' ys',
    forallb keep (firstn i l) = true ->
    awalk fuel l i ys = Some (l', ys') ->
    l' = filter keep l /\ (forall x, In x l' -> In x ys' \/ In x (firstn i l)) /\
    (exists zs, ys' = ys ++ zs).
  Proof.
    induction fuel as [|fuel IH]; intros l i ys l' ys' Hk H; cbn [awalk] in H; [discriminate|].
    destruct (nth_error l i) as [x|] eqn:E.
    - destruct (D x) eqn:Hd.
      + destruct (IH (remove_nth i l) 0 _ _ _ eq_refl H) as (Hl & Hy & zs & Hz).
        rewrite (remove_nth_filter_keep i l x E Hd) in Hl.
        split; [exact Hl|]. split.
        * intros y Hy'. destruct (Hy y Hy') as [Hin|Hin]; [left; exact Hin|cbn in Hin; contradiction].
        * exists ([x] ++ zs). rewrite Hz, <- app_assoc. reflexivity.
      + assert (Hk' : forallb keep (firstn (S i) l) = true).
        { rewrite (firstn_S_nth l i x E), forallb_app, Hk. cbn. unfold keep. rewrite Hd. reflexivity. }
        destruct (IH _ _ _ _ _ Hk' H) as (Hl & Hy & zs & Hz).
        split; [exact Hl|]. split.
        * intros y Hy'. destruct (Hy y Hy') as [Hin|Hin]; [left; exact Hin|].
          rewrite (firstn_S_nth l i x E) in Hin. apply in_app_or in Hin. destruct Hin as [Hin|[->|[]]].
          -- right. exact Hin.
          -- left. rewrite Hz. apply in_or_app. left. apply in_or_app. right. left. reflexivity.
        * exists ([x] ++ zs). rewrite Hz, <- app_assoc. reflexivity.
    - inversion H; subst. apply nth_error_None in E.
      rewrite firstn_all2 in Hk by lia.
      split.
      + symmetry. clear - Hk. induction l' as [|h t IH]; cbn in *; [reflexivity|].
        apply andb_true_iff in Hk. destruct Hk as [Hh Ht]. rewrite Hh. f_equal. apply IH, Ht.
      + split; [|exists []; rewrite app_nil_r; reflexivity].
        intros x Hx. right. rewrite firstn_all2 by lia. exact Hx.
  Qed.

  (** The section ends up holding exactly the survivors, in their original order, and every
      survivor has been yielded at least once. *)
  Theorem awalk_exact : forall fuel l l' ys,
    awalk fuel l 0 [] = Some (l', ys) ->
    l' = filter keep l /\ (forall x, In x l' -> In x ys).
  Proof.
    intros fuel l l' ys H. destruct (awalk_exact_gen fuel l 0 [] l' ys eq_refl H) as (Hl & Hy & _).
    split; [exact Hl|]. intros x Hx. destruct (Hy x Hx) as [Hin|Hin]; [exact Hin|cbn in Hin; contradiction].
  Qed.

  (** A chosen record is removed when it is yielded: whatever is yielded afterwards comes from a
      section that no longer contains it (stated on positions: the walk only ever yields elements
      of its current section). *)
  Lemma awalk_yields_from_section : forall fuel l i ys l' ys',
    awalk fuel l i ys = Some (l', ys') ->
    exists zs, ys' = ys ++ zs /\ forall z, In z zs -> In z l.
  Proof.
    induction fuel as [|fuel IH]; intros l i ys l' ys' H; cbn [awalk] in H; [discriminate|].
    destruct (nth_error l i) as [x|] eqn:E.
    - assert (Hx : In x l) by (eapply nth_error_In; eauto).
      destruct (D x) eqn:Hd.
      + destruct (IH _ _ _ _ _ H) as (zs & Hz & Hin).
        exists ([x] ++ zs). split; [rewrite Hz, <- app_assoc; reflexivity|].
        intros z [->|Hz']; [exact Hx|].
        specialize (Hin z Hz'). clear - Hin.
        revert i Hin. induction l as [|h t IHl]; intros i Hin; cbn in *; [destruct i; contradiction|].
        destruct i; [right; exact Hin|]. destruct Hin as [->|Hin]; [left; reflexivity|right; eapply IHl; eauto].
      + destruct (IH _ _ _ _ _ H) as (zs & Hz & Hin).
        exists ([x] ++ zs). split; [rewrite Hz, <- app_assoc; reflexivity|].
        intros z [->|Hz']; [exact Hx|apply Hin, Hz'].
    - inversion H; subst. exists []. split; [rewrite app_nil_r; reflexivity|intros z []].
  Qed.
End AW.
