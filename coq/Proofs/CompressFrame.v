(** * Compression keeps the 12-byte header; shape of [replace_raw] results (parts of C06 / C07). *)
From DV Require Import Model.Base Model.NameCheck Model.Parser Model.Header Model.Readers Model.Uncompress
  Model.Mutate Model.Compress Model.Renamer Proofs.ListLemmas Proofs.Hoare Proofs.HeaderBits Proofs.UncompressFrame.
From Coq Require Import ZifyBool ZifyNat ZifyN.

Lemma cc_step_appends out0 p fo s :
  (exists sfx, cc_out s = out0 ++ sfx) ->
  match cc_step p fo s with
  | Done r => okpost r (fun r => exists sfx, fst r = out0 ++ sfx)
  | Continue s' => exists sfx, cc_out s' = out0 ++ sfx
  end.
Proof.
  intros (sfx & Hs). unfold cc_step.
  destruct (nth_error p (cc_off s)) as [len|]; [|exact I].
  destruct (N.land len 192 =? 192)%N; [exact I|].
  destruct (slice p (cc_off s) fo 723) as [suffix| |]; [|exact I|exact I].
  destruct (sd_insert (cc_dict s) suffix (length (cc_out s))) as [[d' [r|]]| |]; try exact I.
  - cbn [okpost fst]. rewrite Hs, <- app_assoc. eauto.
  - destruct (slice p (cc_off s) (cc_off s + 1 + N.to_nat len) 724) as [lab| |]; try exact I.
    destruct (N.to_nat len =? 0); cbn [okpost fst cc_out]; rewrite Hs, <- app_assoc; eauto.
Qed.

Lemma copy_compressed_name_appends d out p off out' d' l f :
  copy_compressed_name d out p off = Ok (out', d', l, f) -> exists sfx, out' = out ++ sfx.
Proof.
  unfold copy_compressed_name. intros H.
  apply bind_ok in H. destruct H as (ulen & _ & H).
  apply bind_ok in H. destruct H as ([o1 d1] & Hr & H). inversion H; subst.
  apply (run_loop_okpost (cc_step p (off + ulen)) (fun s => exists sfx, cc_out s = out ++ sfx)
           (fun r => exists sfx, fst r = out ++ sfx) (cc_step_appends out p (off + ulen))) in Hr.
  - exact Hr.
  - exists []. cbn [cc_out]. rewrite app_nil_r. reflexivity.
Qed.

Section F.
  Variable p : bytes.

  Lemma compress_rdata_kept d out q ne t l out' d' :
    hdr_kept p out -> compress_rdata d out q ne t l = Ok (out', d') -> hdr_kept p out'.
  Proof.
    intros Hk H. unfold compress_rdata in H.
    destruct t as [t|].
    2:{ apply bind_ok in H. destruct H as (h & _ & H). inversion H; subst. apply hdr_kept_app, Hk. }
    destruct (is_name_type t).
    { apply bind_ok in H. destruct H as (h & _ & H).
      apply bind_ok in H. destruct H as ([[[o1 d1] n1] f1] & Hc & H).
      apply bind_ok in H. destruct H as (o2 & Hp & H). inversion H; subst.
      destruct (copy_compressed_name_appends _ _ _ _ _ _ _ _ Hc) as (sfx & ->).
      eapply hdr_kept_patch; [| |exact Hp]; [|destruct Hk; lia].
      apply hdr_kept_app, hdr_kept_app, Hk. }
    destruct (t =? TYPE_MX)%N.
    { apply bind_ok in H. destruct H as (h & _ & H).
      apply bind_ok in H. destruct H as ([[[o1 d1] n1] f1] & Hc & H).
      apply bind_ok in H. destruct H as (o2 & Hp & H). inversion H; subst.
      destruct (copy_compressed_name_appends _ _ _ _ _ _ _ _ Hc) as (sfx & ->).
      eapply hdr_kept_patch; [| |exact Hp]; [|destruct Hk; lia].
      apply hdr_kept_app, hdr_kept_app, Hk. }
    destruct (t =? TYPE_SOA)%N.
    { apply bind_ok in H. destruct H as (h & _ & H).
      apply bind_ok in H. destruct H as ([[[o1 d1] n1] f1] & Hc1 & H).
      apply bind_ok in H. destruct H as ([[[o2 d2] n2] f2] & Hc2 & H).
      apply bind_ok in H. destruct H as (tail & _ & H).
      apply bind_ok in H. destruct H as (o3 & Hp & H). inversion H; subst.
      destruct (copy_compressed_name_appends _ _ _ _ _ _ _ _ Hc1) as (sfx1 & ->).
      destruct (copy_compressed_name_appends _ _ _ _ _ _ _ _ Hc2) as (sfx2 & ->).
      eapply hdr_kept_patch; [| |exact Hp]; [|destruct Hk; lia].
      apply hdr_kept_app, hdr_kept_app, hdr_kept_app, hdr_kept_app, Hk. }
    apply bind_ok in H. destruct H as (l' & _ & H).
    apply bind_ok in H. destruct H as (h & _ & H). inversion H; subst. apply hdr_kept_app, Hk.
  Qed.

  Lemma compress_record_kept v q acc it acc' :
    hdr_kept p (fst acc) -> compress_record v q acc it = Ok acc' -> hdr_kept p (fst acc').
  Proof.
    destruct acc as [out d]. cbn [fst]. intros Hk H. unfold compress_record in H.
    apply bind_ok in H. destruct H as (off & _ & H).
    apply bind_ok in H. destruct H as ([[[o1 d1] n1] f1] & Hc & H).
    destruct (copy_compressed_name_appends _ _ _ _ _ _ _ _ Hc) as (sfx & ->).
    destruct q.
    - destruct acc' as [o' d']. cbn [fst]. eapply compress_rdata_kept; [|exact H]. apply hdr_kept_app, Hk.
    - apply bind_ok in H. destruct H as (t & _ & H).
      apply bind_ok in H. destruct H as (l & _ & H).
      destruct acc' as [o' d']. cbn [fst]. eapply compress_rdata_kept; [|exact H]. apply hdr_kept_app, Hk.
  Qed.
End F.

Theorem compress_keeps_header : forall p out,
  compress p = Ok out -> firstn 12 out = firstn 12 p /\ 12 <= length out.
Proof.
  intros p out H. unfold compress, DNS_HEADER_SIZE in H.
  destruct (length p <? 12) eqn:El; [discriminate|].
  apply bind_ok in H. destruct H as (v & _ & H).
  assert (K0 : hdr_kept p (fst (firstn 12 p, sd_new))).
  { cbn [fst]. split; [apply firstn_firstn|rewrite firstn_length; lia]. }
  apply bind_ok in H. destruct H as (q0 & _ & H).
  apply bind_ok in H. destruct H as (a1 & Hw1 & H).
  apply (walk_fold_inv (fun a => hdr_kept p (fst a))) in Hw1; [|intros; eapply compress_record_kept; eauto|exact K0].
  apply bind_ok in H. destruct H as (a0 & _ & H).
  apply bind_ok in H. destruct H as (a2 & Hw2 & H).
  apply (walk_fold_inv (fun a => hdr_kept p (fst a))) in Hw2; [|intros; eapply compress_record_kept; eauto|exact Hw1].
  apply bind_ok in H. destruct H as (n0 & _ & H).
  apply bind_ok in H. destruct H as (a3 & Hw3 & H).
  apply (walk_fold_inv (fun a => hdr_kept p (fst a))) in Hw3; [|intros; eapply compress_record_kept; eauto|exact Hw2].
  apply bind_ok in H. destruct H as (d0 & _ & H).
  apply bind_ok in H. destruct H as (a4 & Hw4 & H).
  apply (walk_fold_inv (fun a => hdr_kept p (fst a))) in Hw4; [|intros; eapply compress_record_kept; eauto|exact Hw3].
  inversion H; subst. exact Hw4.
Qed.

(** Whatever [replace_raw] returns as a replacement is the name with its last
    [length source] bytes replaced by the target, and it fits in 255 bytes. *)
Theorem replace_raw_shape : forall name target source sfx r,
  replace_raw name target source sfx = Ok (Some r) ->
  length source <= length name /\
  r = firstn (length name - length source) name ++ target /\
  length name - length source + length target <= 255 /\
  (sfx = false -> length name = length source).
Proof.
  intros name target source sfx r H. unfold replace_raw in H.
  destruct ((length name <? length source) || (negb sfx && negb (length name =? length source))) eqn:E1; [discriminate|].
  destruct ((length source =? 0) || (length target =? 0)); [discriminate|].
  apply bind_ok in H. destruct H as (s0 & _ & H).
  apply bind_ok in H. destruct H as (t0 & _ & H).
  destruct ((s0 =? 0)%N || (t0 =? 0)%N); [discriminate|].
  apply bind_ok in H. destruct H as (i & _ & H).
  destruct (length name <=? i); [discriminate|].
  apply bind_ok in H. destruct H as (b & _ & H).
  destruct ((b =? 0)%N && (0 <? length name)); [discriminate|].
  destruct (negb (i =? length name - length source)); [discriminate|].
  apply bind_ok in H. destruct H as (ok & _ & H).
  destruct (negb ok); [discriminate|].
  unfold DNS_MAX_HOSTNAME_LEN in H.
  destruct (255 <? length name - length source + length target) eqn:E2; [discriminate|].
  inversion H; subst. repeat split; try lia.
Qed.
