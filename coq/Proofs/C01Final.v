(** User-facing forms of the C01 / C18 theorems (no [hoare] vocabulary in the statements). *)
From DV Require Import Model.Base Model.NameCheck Model.Parser
  Proofs.Hoare Proofs.NameCheckTotal Proofs.ParserTotal Proofs.ParserCost.

Lemma res_cases {A} (m : res A) : nopanic m -> (exists a, m = Ok a) \/ (exists e, m = Err e).
Proof. apply nopanic_cases. Qed.

Lemma parse_total_full : forall p, bytes_ok p ->
  (exists v, parse p = Ok v /\ pp_packet v = p) \/ (exists e, parse p = Err e).
Proof.
  intros p Hb. destruct (res_cases _ (parse_total p Hb)) as [[v Hv]|[e He]].
  - left. exists v. split; [exact Hv|]. eapply parse_keeps_bytes; eauto.
  - right. eauto.
Qed.

Lemma check_compressed_name_total_full : forall p off,
  (exists e, check_compressed_name p off = Ok e /\ off < e) \/
  (exists e, check_compressed_name p off = Err e).
Proof.
  intros p off. pose proof (check_compressed_name_spec p off) as H.
  destruct (check_compressed_name p off) as [e|e|s]; cbn in H; [left|right|destruct H]; eauto.
Qed.

Lemma check_uncompressed_name_total_full : forall p off,
  (exists e, check_uncompressed_name p off = Ok e /\ off < e) \/
  (exists e, check_uncompressed_name p off = Err e).
Proof.
  intros p off. pose proof (check_uncompressed_name_spec p off) as H.
  destruct (check_uncompressed_name p off) as [e|e|s]; cbn in H; [left|right|destruct H]; eauto.
Qed.

Lemma cursor_run_never_err : forall p ops s e, cursor_run p s ops <> Err e.
Proof.
  intros p ops. induction ops as [|op ops IH]; intros s e; cbn [cursor_run]; [discriminate|].
  destruct (cursor_apply p s op) as [[s' o]|e'|x] eqn:E; cbn [bind].
  - specialize (IH s').
    destruct (cursor_run p s' ops) as [[s'' os]|e2|x]; cbn [bind]; try discriminate.
    intros H; inversion H; subst. exact (IH e eq_refl).
  - exfalso. destruct op; cbn in E;
      repeat match type of E with context [match ?x with _ => _ end] => destruct x end;
      discriminate.
  - discriminate.
Qed.

Lemma cursor_total_full : forall p ops, bytes_ok p ->
  exists s outs, cursor_run p ps_init ops = Ok (s, outs) /\ ps_off s <= length p.
Proof.
  intros p ops Hb. pose proof (cursor_total_fresh p ops Hb) as H.
  destruct (cursor_run p ps_init ops) as [[s outs]|e|x] eqn:E; cbn in H.
  - eauto.
  - exfalso. eapply cursor_run_never_err; eauto.
  - destruct H.
Qed.
