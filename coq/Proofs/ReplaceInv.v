(** * Replacing one record of a decompressed object by another one of the same length (C08, C09).

    [replace_record_dinv]: in a state satisfying [dinv], if the bytes of a non-OPT record are replaced by the
    pointer-free encoding of another non-OPT record of the same length that is well-formed wherever the old one
    was, the state still satisfies [dinv] and reads as before with that record replaced.  [set_ip_keeps_dinv]:
    the address setter is such a replacement (the data of an A / AAAA record may be any 4 / 16 bytes). *)

From DV Require Import Model.Base Model.NameCheck Model.Parser Model.Header Model.Readers Model.Uncompress Model.Mutate
  Spec.NameSpec Spec.PacketSpec Spec.RecordSpec Spec.PlainSpec Proofs.ListLemmas Proofs.Hoare Proofs.ParserInv Proofs.ParseSound
  Proofs.ParseComplete Proofs.NameIff Proofs.ReadersLabels Proofs.HeaderBits Proofs.QuestionSpec Proofs.WalkValues Proofs.SetTtl Proofs.WalkSkip
  Proofs.UncompressSpec Proofs.PlainWf Proofs.InsertLemmas Proofs.EdnsFacts Proofs.EdnsPos Proofs.EdnsPlain Proofs.InsertSpec Proofs.HeaderInv
  Proofs.Chain Proofs.SetTtlInv Proofs.CompressSize Proofs.DeleteInv Proofs.SetNameInv.
From Coq Require Import ZifyBool ZifyNat ZifyN.

Lemma chain_replace sec a rx rx' b s s' : chain sec s (a ++ rx :: b) s' ->
  (forall t t', rec_ctx sec t t' rx -> rec_ctx sec t t' rx') -> chain sec s (a ++ rx' :: b) s'.
Proof.
  intros H Hrep. destruct (chain_split sec a rx b s s' H) as (s1 & s2 & A & B & C).
  eapply chain_app; [exact A|]. econstructor; [apply Hrep; exact B|exact C].
Qed.

Lemma opt_rel_replace a rx rx' b : is_opt (fst rx) = false -> is_opt (fst rx') = false -> length (plain_record rx') = length (plain_record rx) ->
  opt_rel (a ++ rx' :: b) = opt_rel (a ++ rx :: b).
Proof. intros H1 H2 HL. rewrite (opt_rel_at a rx b H1), (opt_rel_at a rx' b H2), HL. reflexivity. Qed.

Lemma cat_replace a rx rx' b : length (plain_record rx') = length (plain_record rx) -> length (cat (a ++ rx' :: b)) = length (cat (a ++ rx :: b)).
Proof. intros HL. rewrite !cat_app, !cat_cons, !app_length, HL. reflexivity. Qed.

Theorem replace_record_dinv : forall v qls qt lA lN lR r x rx' q',
  dinv v -> reading (pp_packet v) qls qt lA lN lR -> In (r, x) (lA ++ lN ++ lR) -> is_opt r = false -> is_opt (fst rx') = false ->
  (forall sec t t', rec_ctx sec t t' (r, x) -> rec_ctx sec t t' rx' /\ length (plain_record rx') = length (plain_record (r, x))) ->
  (forall pre post, pp_packet v = pre ++ plain_record (r, x) ++ post -> length pre = rv_off r -> q' = pre ++ plain_record rx' ++ post) ->
  bytes_ok q' ->
  dinv (pp_with_packet v q') /\
  exists lA' lN' lR' L1 L2, reading q' qls qt lA' lN' lR' /\
    length lA' = length lA /\ length lN' = length lN /\ length lR' = length lR /\
    lA ++ lN ++ lR = L1 ++ (r, x) :: L2 /\ lA' ++ lN' ++ lR' = L1 ++ (rv_at (fst rx') (snd rx') (rv_off r), snd rx') :: L2.
Proof.
  intros v qls qt lA lN lR r x rx' q' Hd Rd Hin Hno Hno' Hrep2 Hq' Hbq'.
  assert (Hrep : forall sec t t', rec_ctx sec t t' (r, x) -> rec_ctx sec t t' rx') by (intros sec t t' Hc; exact (proj1 (Hrep2 sec t t' Hc))).
  pose proof Hd as [Hmc Hb Hfix (f & Hf & Hsv)]. set (q := pp_packet v) in *.
  destruct (plain_parts_of q f Hb Hf Hfix) as (w & qls0 & qt0 & A & Nn & R & s1 & s2 & s3 & P).
  destruct (parts_build_wf q w qls0 qt0 A Nn R s1 s2 s3 Hb P) as (Lq & Rq).
  destruct (reading_fun _ _ _ _ _ _ _ _ _ _ _ Rq Rd) as (-> & -> & <- & <- & <-).
  destruct (parts_chains q f w qls qt A Nn R s1 s2 s3 Hb Hf P) as (t1 & t2 & t3 & CA & CN & CR).
  set (o1 := 12 + length (wire_of_labels qls) + 4) in *. set (o2 := o1 + length (cat A)) in *. set (o3 := o2 + length (cat Nn)) in *.
  pose proof (pp_eq _ _ _ _ _ _ _ _ _ _ P) as Peq. pose proof (pp_len _ _ _ _ _ _ _ _ _ _ P) as P12.
  set (H := firstn 12 q) in *. set (Qb := plain_question qls qt CLASS_IN) in *.
  assert (HH : length H = 12) by (unfold H; rewrite firstn_length; lia).
  assert (LQb : length Qb = length (wire_of_labels qls) + 4) by (unfold Qb, plain_question; rewrite !app_length; cbn [length be16_bytes]; lia).
  assert (Hrep0 : forall r0 o, r = rv_at r0 x o -> forall sec t t', rec_ctx sec t t' (r0, x) -> rec_ctx sec t t' rx').
  { intros r0 o Er sec t t' Hc. apply Hrep. rewrite Er. apply (proj2 (rec_ctx_placed sec t t' (r0, x) o)). exact Hc. }
  assert (Hpl : forall r0 o, r = rv_at r0 x o -> plain_record (r, x) = plain_record (r0, x)) by (intros r0 o ->; reflexivity).
  apply in_app_or in Hin. destruct Hin as [Hin|Hin]; [|apply in_app_or in Hin; destruct Hin as [Hin|Hin]].
  - destruct (in_place_split A o1 r x Hin) as (A1 & r0 & A2 & EA & Er).
    assert (Hno0 : is_opt (fst (r0, x)) = false) by (rewrite Er in Hno; exact Hno).
    assert (HL : length (plain_record rx') = length (plain_record (r, x))).
    { rewrite EA in CA. destruct (chain_split _ _ _ _ _ _ CA) as (u1 & u2 & _ & B & _).
      apply (proj2 (Hrep2 SAnswer u1 u2 ltac:(rewrite Er; apply (proj2 (rec_ctx_placed SAnswer u1 u2 (r0, x) _)); exact B))). }
    rewrite (Hpl r0 _ Er) in HL, Hq'.
    assert (Eq' : q' = build H qls qt (A1 ++ rx' :: A2) Nn R).
    { rewrite (Hq' (H ++ Qb ++ cat A1) (cat A2 ++ cat Nn ++ cat R)).
      - unfold build. fold Qb. rewrite cat_app, cat_cons, <- !app_assoc. reflexivity.
      - rewrite Peq at 1. unfold build. fold Qb H. rewrite EA, cat_app, cat_cons, <- !app_assoc. reflexivity.
      - rewrite Er, !app_length, HH, LQb. unfold o1. cbn [rv_at rv_off]. lia. }
    destruct (rebuild_keeps_dinv v f w qls qt A Nn R s1 s2 s3 (A1 ++ rx' :: A2) Nn R t1 t2 t3 q' Hmc Hb Hf Hsv P Eq' Hbq')
      as (Hd' & Rd'); try assumption; try reflexivity.
    + rewrite EA in CA. exact (chain_replace _ _ _ _ _ _ _ CA (Hrep0 r0 _ Er SAnswer)).
    + rewrite EA, !app_length. reflexivity.
    + rewrite EA. apply cat_replace. exact HL.
    + split; [exact Hd'|]. rewrite (cat_replace A1 (r0, x) rx' A2 HL), <- EA in Rd'. fold o1 o2 o3 in Rd'.
      eexists _, _, _, (place o1 A1), (place (o1 + length (cat A1) + length (plain_record (r0, x))) A2 ++ place o2 Nn ++ place o3 R).
      split; [exact Rd'|]. rewrite !place_length, EA, !app_length. cbn [length]. split; [reflexivity|]. split; [reflexivity|]. split; [reflexivity|].
      rewrite !place_split, HL, Er, <- !app_assoc. cbn [fst snd app rv_at rv_off]. split; reflexivity.
  - destruct (in_place_split Nn o2 r x Hin) as (N1 & r0 & N2 & EN & Er).
    assert (Hno0 : is_opt (fst (r0, x)) = false) by (rewrite Er in Hno; exact Hno).
    assert (HL : length (plain_record rx') = length (plain_record (r, x))).
    { rewrite EN in CN. destruct (chain_split _ _ _ _ _ _ CN) as (u1 & u2 & _ & B & _).
      apply (proj2 (Hrep2 SNameServers u1 u2 ltac:(rewrite Er; apply (proj2 (rec_ctx_placed SNameServers u1 u2 (r0, x) _)); exact B))). }
    rewrite (Hpl r0 _ Er) in HL, Hq'.
    assert (Eq' : q' = build H qls qt A (N1 ++ rx' :: N2) R).
    { rewrite (Hq' (H ++ Qb ++ cat A ++ cat N1) (cat N2 ++ cat R)).
      - unfold build. fold Qb. rewrite cat_app, cat_cons, <- !app_assoc. reflexivity.
      - rewrite Peq at 1. unfold build. fold Qb H. rewrite EN, cat_app, cat_cons, <- !app_assoc. reflexivity.
      - rewrite Er, !app_length, HH, LQb. unfold o2, o1. cbn [rv_at rv_off]. lia. }
    destruct (rebuild_keeps_dinv v f w qls qt A Nn R s1 s2 s3 A (N1 ++ rx' :: N2) R t1 t2 t3 q' Hmc Hb Hf Hsv P Eq' Hbq')
      as (Hd' & Rd'); try assumption; try reflexivity.
    + rewrite EN in CN. exact (chain_replace _ _ _ _ _ _ _ CN (Hrep0 r0 _ Er SNameServers)).
    + rewrite EN, !app_length. reflexivity.
    + rewrite EN. apply cat_replace. exact HL.
    + split; [exact Hd'|]. rewrite (cat_replace N1 (r0, x) rx' N2 HL), <- EN in Rd'. fold o1 o2 o3 in Rd'.
      eexists _, _, _, (place o1 A ++ place o2 N1), (place (o2 + length (cat N1) + length (plain_record (r0, x))) N2 ++ place o3 R).
      split; [exact Rd'|]. rewrite !place_length, EN, !app_length. cbn [length]. split; [reflexivity|]. split; [reflexivity|]. split; [reflexivity|].
      rewrite !place_split, HL, Er, <- !app_assoc. cbn [fst snd app rv_at rv_off]. split; reflexivity.
  - destruct (in_place_split R o3 r x Hin) as (R1 & r0 & R2 & ER & Er).
    assert (Hno0 : is_opt (fst (r0, x)) = false) by (rewrite Er in Hno; exact Hno).
    assert (HL : length (plain_record rx') = length (plain_record (r, x))).
    { rewrite ER in CR. destruct (chain_split _ _ _ _ _ _ CR) as (u1 & u2 & _ & B & _).
      apply (proj2 (Hrep2 SAdditional u1 u2 ltac:(rewrite Er; apply (proj2 (rec_ctx_placed SAdditional u1 u2 (r0, x) _)); exact B))). }
    rewrite (Hpl r0 _ Er) in HL, Hq'.
    assert (Eq' : q' = build H qls qt A Nn (R1 ++ rx' :: R2)).
    { rewrite (Hq' (H ++ Qb ++ cat A ++ cat Nn ++ cat R1) (cat R2)).
      - unfold build. fold Qb. rewrite cat_app, cat_cons, <- !app_assoc. reflexivity.
      - rewrite Peq at 1. unfold build. fold Qb H. rewrite ER, cat_app, cat_cons, <- !app_assoc. reflexivity.
      - rewrite Er, !app_length, HH, LQb. unfold o3, o2, o1. cbn [rv_at rv_off]. lia. }
    destruct (rebuild_keeps_dinv v f w qls qt A Nn R s1 s2 s3 A Nn (R1 ++ rx' :: R2) t1 t2 t3 q' Hmc Hb Hf Hsv P Eq' Hbq')
      as (Hd' & Rd'); try assumption; try reflexivity.
    + rewrite ER in CR. exact (chain_replace _ _ _ _ _ _ _ CR (Hrep0 r0 _ Er SAdditional)).
    + rewrite ER, !app_length. reflexivity.
    + rewrite ER. apply (opt_rel_replace R1 (r0, x) rx' R2 Hno0 Hno' HL).
    + split; [exact Hd'|]. fold o1 o2 o3 in Rd'.
      eexists _, _, _, (place o1 A ++ place o2 Nn ++ place o3 R1), (place (o3 + length (cat R1) + length (plain_record (r0, x))) R2).
      split; [exact Rd'|]. rewrite !place_length, ER, !app_length. cbn [length]. split; [reflexivity|]. split; [reflexivity|]. split; [reflexivity|].
      rewrite !place_split, HL, Er, <- !app_assoc. cbn [fst snd app rv_at rv_off]. split; reflexivity.
Qed.

(** ** The address setter *)
Definition with_ip (rx : rec_view * rd_view) (ip : bytes) : rec_view * rd_view := (fst rx, RdRaw ip).

Definition ip_type_len (t : N) (n : nat) : Prop := (t = TYPE_A /\ n = 4) \/ (t = TYPE_AAAA /\ n = 16).

Lemma ip_rec_ctx sec s s' rx ip : rec_ctx sec s s' rx -> ip_type_len (rv_type (fst rx)) (length ip) -> bytes_ok ip ->
  rec_ctx sec s s' (with_ip rx ip) /\ length (plain_record (with_ip rx ip)) = length (plain_record rx) /\ exists b, snd rx = RdRaw b.
Proof.
  destruct rx as [r x]. unfold with_ip. cbn [fst snd]. intros [Hb Hctx] Hty Hbip.
  destruct (Hctx [] []) as (W & R0 & X0). cbn [app length Nat.add fst snd] in W, R0, X0. rewrite app_nil_r in W, R0, X0.
  set (z0 := plain_record (r, x)) in *.
  pose proof R0 as (Hcn & Ht & Hc & Httl & Hrl & _ & _ & HA & HAAAA). cbn [rv_at rv_off rv_labels rv_name_end rv_type rv_class rv_ttl rv_rdlen] in *.
  assert (Hlok : Forall label_ok (rv_labels r)) by (destruct Hcn as [_ Hna]; eapply name_at_labels_ok; exact Hna).
  pose proof (wire_length_le _ _ _ _ Hcn) as Hwl. pose proof (bytes_ok_wire_of _ _ _ _ Hb Hcn) as Hbw.
  pose proof (u16_lt _ _ _ Hb Ht) as Htlt. pose proof (u16_lt _ _ _ Hb Hc) as Hclt. pose proof (u32_lt _ _ _ Hb Httl) as Httllt.
  assert (Hnt : PacketSpec.is_name_type (rv_type r) = false) by (destruct Hty as [[-> _]|[-> _]]; reflexivity).
  assert (Hnmx : rv_type r <> TYPE_MX) by (destruct Hty as [[-> _]|[-> _]]; discriminate).
  assert (Hnsoa : rv_type r <> TYPE_SOA) by (destruct Hty as [[-> _]|[-> _]]; discriminate).
  assert (Hnopt : (rv_type r =? TYPE_OPT)%N = false) by (destruct Hty as [[-> _]|[-> _]]; reflexivity).
  assert (Hs : s' = s).
  { destruct W as (ne & t & rdlen & (ls & Hcn') & _ & Ht' & _ & _ & _ & Hrest).
    destruct (cname_l_fun _ _ _ _ _ _ Hcn' Hcn) as [_ Ene]. rewrite Ene in Ht'. rewrite (u16_at_fun _ _ _ _ Ht' Ht), Hnopt in Hrest. apply Hrest. }
  (* the data of such a record is opaque *)
  assert (Hx : exists b, x = RdRaw b).
  { destruct x as [ls1|pref ls1|ls1 ls2 tail|b]; cbn [rdata_at] in X0; cbn [rv_at rv_type] in X0; [| | |eauto].
    - destruct X0 as (E & _). rewrite Hnt in E. discriminate.
    - destruct X0 as (_ & E & _). contradiction.
    - destruct X0 as (_ & E & _). contradiction. }
  destruct Hx as (b & ->). cbn [plain_rdata] in *.
  assert (Lb : length b = length ip).
  { destruct Hty as [[E1 E2]|[E1 E2]]; rewrite E2; [exact (HA E1)|exact (HAAAA E1)]. }
  split; [|split; [unfold z0, plain_record; cbn [plain_rdata]; rewrite !app_length; cbn [length be16_bytes]; lia|eauto]].
  change (plain_record (r, RdRaw ip)) with (rec_bytes (rv_labels r) (rv_type r) (rv_class r) (rv_ttl r) ip).
  assert (Hiplt : (N.of_nat (length ip) < 65536)%N) by (destruct Hty as [[_ ->]|[_ ->]]; lia).
  split.
  { unfold rec_bytes. repeat (apply bytes_ok_app; [first [apply bytes_ok_be16|apply bytes_ok_be32|exact Hbw]|]). exact Hbip. }
  intros pre post.
  destruct (plain_fixed (rv_labels r) (rv_type r) (rv_class r) (rv_ttl r) ip pre post Hlok Hwl Htlt Hclt Httllt Hiplt)
    as (Fcn & Ft & Fc & Fttl & Frl & Fe & Fle & Fq & FH).
  set (q := pre ++ rec_bytes (rv_labels r) (rv_type r) (rv_class r) (rv_ttl r) ip ++ post) in *.
  set (o := length pre) in *. set (ne := o + length (wire_of_labels (rv_labels r))) in *.
  cbv zeta. cbn [fst snd]. subst s'.
  change (plain_record (r, RdRaw ip)) with (rec_bytes (rv_labels r) (rv_type r) (rv_class r) (rv_ttl r) ip). fold q o.
  split; [|split].
  - exists ne, (rv_type r), (N.of_nat (length ip)).
    split; [exists (rv_labels r); exact Fcn|]. split; [lia|]. split; [exact Ft|]. split; [exact Frl|].
    rewrite Nat2N.id. split; [lia|]. split; [lia|]. rewrite Hnopt. split; [reflexivity|].
    unfold rdata_wf. rewrite Hnt. destruct Hty as [[-> ->]|[-> ->]]; reflexivity.
  - unfold record_at. cbn [rv_at rv_off rv_labels rv_name_end rv_type rv_class rv_ttl rv_rdlen plain_rdata]. fold ne.
    split; [exact Fcn|]. split; [exact Ft|]. split; [exact Fc|]. split; [exact Fttl|]. split; [exact Frl|].
    split; [lia|]. split; [lia|]. destruct Hty as [[-> ->]|[-> ->]]; split; intros E; try reflexivity; discriminate.
  - cbn [rdata_at rv_at rv_type]. split; [exact Hnt|]. split; [exact Hnmx|]. split; [exact Hnsoa|].
    unfold rdata_of. cbn [rv_at rv_name_end rv_rdlen plain_rdata]. fold ne. rewrite Fq, <- FH. symmetry. apply firstn_skipn_mid.
Qed.

Lemma write_ip_bytes pre r b ip post site : length ip = length b ->
  write_at (pre ++ plain_record (r, RdRaw b) ++ post) (length pre + length (wire_of_labels (rv_labels r)) + 10) ip site =
  Ok (pre ++ plain_record (r, RdRaw ip) ++ post).
Proof.
  intros HL. unfold plain_record. cbn [plain_rdata]. rewrite HL.
  set (W := wire_of_labels (rv_labels r)). set (F := be16_bytes (rv_type r) ++ be16_bytes (rv_class r) ++ be32_bytes (rv_ttl r) ++ be16_bytes (N.of_nat (length b))).
  replace (pre ++ (W ++ be16_bytes (rv_type r) ++ be16_bytes (rv_class r) ++ be32_bytes (rv_ttl r) ++ be16_bytes (N.of_nat (length b)) ++ b) ++ post)
    with ((pre ++ W ++ F) ++ b ++ post) by (unfold F; rewrite <- !app_assoc; reflexivity).
  replace (length pre + length W + 10) with (length (pre ++ W ++ F)) by (unfold F; rewrite !app_length; cbn [length be16_bytes be32_bytes]; lia).
  rewrite write_at_mid by exact HL. f_equal. unfold F. rewrite <- !app_assoc. reflexivity.
Qed.

Theorem set_ip_keeps_dinv : forall v it ip s' qls qt lA lN lR r x,
  dinv v -> bytes_ok ip -> reading (pp_packet v) qls qt lA lN lR -> In (r, x) (lA ++ lN ++ lR) ->
  it_offset it = Some (rv_off r) -> it_name_end it = rv_name_end r ->
  m_set_ip ip (v, it) = (s', Ok tt) ->
  dinv (fst s') /\ snd s' = it /\ ip_type_len (rv_type r) (length ip) /\
  exists lA' lN' lR' L1 L2, reading (pp_packet (fst s')) qls qt lA' lN' lR' /\
    length lA' = length lA /\ length lN' = length lN /\ length lR' = length lR /\
    lA ++ lN ++ lR = L1 ++ (r, x) :: L2 /\ lA' ++ lN' ++ lR' = L1 ++ (rv_at r (RdRaw ip) (rv_off r), RdRaw ip) :: L2.
Proof.
  intros v it ip s' qls qt lA lN lR r x Hd Hbip Rd Hin Eoff Ene Hrun.
  pose proof (di_bytes _ Hd) as Hb. set (q := pp_packet v) in *.
  destruct (reading_record_in _ _ _ _ _ _ Rd r x Hin) as (Hx & e & Hrec).
  unfold m_set_ip, cbind, getv, getit, clift, putv in Hrun. cbn [fst snd] in Hrun. fold q in Hrun.
  rewrite (it_rr_type_ok q v eq_refl r e it Hrec Eoff Ene) in Hrun. unfold slice_from in Hrun. rewrite Ene in Hrun.
  pose proof Hrec as (_ & _ & _ & _ & _ & He & Hle & HA & HAAAA).
  replace (rv_name_end r <=? length q) with true in Hrun by lia.
  unfold DNS_RR_HEADER_SIZE in Hrun.
  assert (Hty : (ip_type_len (rv_type r) (length ip) /\ exists q', write_at q (rv_name_end r + 10) ip 693 = Ok q' /\ s' = (pp_with_packet v q', it)) \/
                (ip_type_len (rv_type r) (length ip) /\ exists q', write_at q (rv_name_end r + 10) ip 695 = Ok q' /\ s' = (pp_with_packet v q', it))).
  { destruct (rv_type r =? TYPE_A)%N eqn:EA.
    - left. apply N.eqb_eq in EA. destruct (length ip =? 4) eqn:E4; cbn [negb] in Hrun; [|inversion Hrun].
      destruct (length (skipn (rv_name_end r) q) <? 10 + 4); [inversion Hrun|].
      destruct (write_at q (rv_name_end r + 10) ip 693) as [q'| |] eqn:Ew; inversion Hrun. split; [left; split; [exact EA|lia]|eauto].
    - destruct (rv_type r =? TYPE_AAAA)%N eqn:EA4; [|inversion Hrun].
      right. apply N.eqb_eq in EA4. destruct (length ip =? 16) eqn:E4; cbn [negb] in Hrun; [|inversion Hrun].
      destruct (length (skipn (rv_name_end r) q) <? 10 + 16); [inversion Hrun|].
      destruct (write_at q (rv_name_end r + 10) ip 695) as [q'| |] eqn:Ew; inversion Hrun. split; [right; split; [exact EA4|lia]|eauto]. }
  assert (Hty' : ip_type_len (rv_type r) (length ip) /\ exists q' site, write_at q (rv_name_end r + 10) ip site = Ok q' /\ s' = (pp_with_packet v q', it))
    by (destruct Hty as [(T & q' & Ew & Es)|(T & q' & Ew & Es)]; split; eauto).
  clear Hty. destruct Hty' as (Hty & q' & site & Ew & ->). cbn [fst snd].
  assert (Hno : is_opt r = false) by (unfold is_opt; destruct Hty as [[-> _]|[-> _]]; reflexivity).
  assert (Hbq' : bytes_ok q') by (eapply bytes_ok_write_at; [exact Hb|exact Hbip|exact Ew]).
  destruct (replace_record_dinv v qls qt lA lN lR r x (r, RdRaw ip) q' Hd Rd Hin Hno Hno) as (Hd' & lA' & lN' & lR' & L1 & L2 & Hrest); [| |exact Hbq'|].
  - intros sec t t' Hc. destruct (ip_rec_ctx sec t t' (r, x) ip Hc Hty Hbip) as (C & L & _). split; [exact C|exact L].
  - intros pre post Eqq Hpre. fold q in Eqq.
    assert (Hxb : exists b, x = RdRaw b /\ length ip = length b).
    { destruct x as [ls1|pref ls1|ls1 ls2 tail|b]; cbn [rdata_at] in Hx.
      - destruct Hx as (E & _). destruct Hty as [[T _]|[T _]]; rewrite T in E; discriminate.
      - destruct Hx as (_ & E & _). destruct Hty as [[T _]|[T _]]; rewrite T in E; discriminate.
      - destruct Hx as (_ & E & _). destruct Hty as [[T _]|[T _]]; rewrite T in E; discriminate.
      - exists b. split; [reflexivity|]. destruct Hx as (_ & _ & _ & ->). unfold rdata_of. rewrite firstn_skipn_length by lia.
        destruct Hty as [[T L]|[T L]]; rewrite L; symmetry; [exact (HA T)|exact (HAAAA T)]. }
    destruct Hxb as (b & -> & HLb).
    assert (Ene2 : rv_name_end r = length pre + length (wire_of_labels (rv_labels r))).
    { destruct Hrec as (Hcn & _). rewrite Eqq, <- Hpre in Hcn. unfold plain_record in Hcn. rewrite <- !app_assoc in Hcn.
      pose proof (located_end _ _ _ _ Hcn) as Hle2. apply Hle2.
      - rewrite !app_length. lia.
      - apply firstn_skipn_mid. }
    rewrite Eqq, Ene2, (write_ip_bytes pre r b ip post site HLb) in Ew. injection Ew as <-. reflexivity.
  - split; [exact Hd'|]. split; [reflexivity|]. split; [exact Hty|]. exists lA', lN', lR', L1, L2. exact Hrest.
Qed.

(** the address setter never has a [Panic] outcome on the cursor of a record of the reading; an error changes nothing *)
Theorem set_ip_outcome : forall v it ip qls qt lA lN lR r x,
  dinv v -> reading (pp_packet v) qls qt lA lN lR -> In (r, x) (lA ++ lN ++ lR) ->
  it_offset it = Some (rv_off r) -> it_name_end it = rv_name_end r ->
  (exists s', m_set_ip ip (v, it) = (s', Ok tt)) \/ (exists e, m_set_ip ip (v, it) = ((v, it), Err e)).
Proof.
  intros v it ip qls qt lA lN lR r x Hd Rd Hin Eoff Ene. set (q := pp_packet v) in *.
  destruct (reading_record_in _ _ _ _ _ _ Rd r x Hin) as (_ & e & Hrec).
  pose proof Hrec as (_ & _ & _ & _ & _ & He & Hle & HA & HAAAA).
  unfold m_set_ip, cbind, getv, getit, clift, putv. cbn [fst snd]. fold q.
  rewrite (it_rr_type_ok q v eq_refl r e it Hrec Eoff Ene). unfold slice_from. rewrite Ene.
  replace (rv_name_end r <=? length q) with true by lia. unfold DNS_RR_HEADER_SIZE.
  destruct (rv_type r =? TYPE_A)%N eqn:EA.
  - apply N.eqb_eq in EA. specialize (HA EA). destruct (length ip =? 4) eqn:E4; cbn [negb]; [|right; eauto].
    replace (length (skipn (rv_name_end r) q) <? 10 + 4) with false by (rewrite skipn_length; lia).
    unfold write_at. replace (rv_name_end r + 10 + length ip <=? length q) with true by lia. left. eauto.
  - destruct (rv_type r =? TYPE_AAAA)%N eqn:EA4; [|right; eauto].
    apply N.eqb_eq in EA4. specialize (HAAAA EA4). destruct (length ip =? 16) eqn:E4; cbn [negb]; [|right; eauto].
    replace (length (skipn (rv_name_end r) q) <? 10 + 16) with false by (rewrite skipn_length; lia).
    unfold write_at. replace (rv_name_end r + 10 + length ip <=? length q) with true by lia. left. eauto.
Qed.
