(** * Failing whole-packet operations change nothing (C10): the whole-packet rename and recompute build the new packet aside
    and store it only after it has been parsed again, so an error - from the renamer, from the decompression or from the
    parser - leaves object and cursor exactly as they were, whatever the object and the arguments. *)
From DV Require Import Model.Base Model.Parser Model.Header Model.Readers Model.Uncompress Model.Mutate Model.Compress Model.Renamer.

Theorem failed_rename_changes_nothing : forall target source sfx st st' e,
  m_rename target source sfx st = (st', Err e) -> st' = st.
Proof.
  intros target source sfx [v it] st' e H. unfold m_rename, cbind, getv, clift, putv in H. cbn [fst snd] in H.
  destruct (renamer_rename v target source sfx) as [r| |]; [|inversion H; reflexivity|discriminate].
  destruct (parse r) as [f| |]; [|inversion H; reflexivity|discriminate].
  destruct (negb (edns_summary_same v f)); discriminate.
Qed.

Theorem failed_recompute_changes_nothing : forall st st' e, m_recompute st = (st', Err e) -> st' = st.
Proof.
  intros [v it] st' e H. unfold m_recompute, cbind, getv, clift, putv, cret in H. cbn [fst snd] in H.
  destruct (negb (pp_maybe_compressed v)); [discriminate|].
  destruct (uncompress (pp_packet v)) as [u| |]; [|inversion H; reflexivity|discriminate].
  destruct (parse u) as [f| |]; [|inversion H; reflexivity|discriminate].
  destruct (negb (edns_summary_same v f)); discriminate.
Qed.
