(** * Sections of a pointer-free accepted packet, record by record.

    [rec_ctx sec s s' rx]: the pointer-free encoding of [rx] is a well-formed record of section [sec]
    wherever it is placed, taking the "OPT seen" flag from [s] to [s'].  [chain sec s l s']: the
    records of [l] one after the other.  The sections of every accepted packet are chains
    ([chain_of_wf]); chains are closed under concatenation, splitting, removal of a non-OPT
    record and replacement of a record by another one with the same flag behaviour; a chain gives
    the whole-section context [sec_ctx] that [build_wf] consumes. *)

From DV Require Import Model.Base Model.NameCheck Model.Parser Model.Header Model.Readers Model.Uncompress Model.Mutate
  Spec.NameSpec Spec.PacketSpec Spec.RecordSpec Spec.PlainSpec Proofs.ListLemmas Proofs.Hoare Proofs.ParserInv Proofs.ParseSound
  Proofs.ParseComplete Proofs.QuestionSpec Proofs.WalkValues Proofs.SetTtl Proofs.WalkSkip Proofs.UncompressSpec Proofs.PlainWf
  Proofs.InsertLemmas Proofs.EdnsFacts Proofs.EdnsPos Proofs.EdnsPlain Proofs.InsertSpec.
From Coq Require Import ZifyBool ZifyNat ZifyN.

Definition rec_ctx (sec : section) (s s' : bool) (rx : rec_view * rd_view) : Prop :=
  bytes_ok (plain_record rx) /\
  forall pre post,
    let q := pre ++ plain_record rx ++ post in
    let e := length pre + length (plain_record rx) in
    rr_wf q sec s (length pre) e s' /\ record_at q (rv_at (fst rx) (snd rx) (length pre)) e /\
    rdata_at q (rv_at (fst rx) (snd rx) (length pre)) (snd rx).

Inductive chain (sec : section) : bool -> list (rec_view * rd_view) -> bool -> Prop :=
| CHnil : forall s, chain sec s [] s
| CHcons : forall s s1 s2 rx l, rec_ctx sec s s1 rx -> chain sec s1 l s2 -> chain sec s (rx :: l) s2.

Lemma plain_rr_ok_ctx rx sec s : plain_rr_ok rx -> rec_ctx sec s s rx.
Proof. intros (_ & Hb & Hctx). split; [exact Hb|]. intros pre post. apply Hctx. Qed.

Lemma chain_of_wf p sec : bytes_ok p -> forall s off n off' s', rrs_wf p sec s off n off' s' ->
  exists lx, records_at p off (map fst lx) off' /\ length lx = n /\ Forall (rd_ok p) lx /\ chain sec s lx s'.
Proof.
  intros Hb. induction 1 as [seen off|seen off off1 seen1 n off' seen' Hrr Hrest IH].
  - exists []. repeat split; constructor.
  - destruct (rr_plain p Hb _ _ _ _ _ Hrr) as (r & x & Hoff & Hr & Hx & _ & Hbr & Hctx).
    destruct IH as (lx & Hl & Hlen & Hxs & Hch).
    exists ((r, x) :: lx). cbn [map fst]. split; [rewrite <- Hoff; econstructor; eauto|]. split; [cbn [length]; lia|].
    split; [constructor; [exact Hx|exact Hxs]|]. econstructor; [|exact Hch]. split; [exact Hbr|]. intros pre post. apply Hctx.
Qed.

Lemma chain_sec_ctx sec : forall l s s', chain sec s l s' -> sec_ctx sec s s' l.
Proof.
  induction 1 as [s|s s1 s2 rx l [Hb Hctx] Hch IH].
  - constructor; [|constructor]. intros pre post. cbv zeta. cbn [cat map concat length place app]. rewrite Nat.add_0_r. repeat split; constructor.
  - destruct IH as [Hc Hbl]. constructor; [|rewrite cat_cons; apply bytes_ok_app; assumption].
    intros pre post. cbv zeta. rewrite cat_cons.
    destruct (Hctx pre (cat l ++ post)) as (W1 & R1 & X1).
    destruct (Hc (pre ++ plain_record rx) post) as (W2 & R2 & X2).
    assert (Eq : (pre ++ plain_record rx) ++ cat l ++ post = pre ++ (plain_record rx ++ cat l) ++ post) by (rewrite <- !app_assoc; reflexivity).
    assert (Eq1 : pre ++ plain_record rx ++ cat l ++ post = pre ++ (plain_record rx ++ cat l) ++ post) by (rewrite <- !app_assoc; reflexivity).
    rewrite Eq in W2, R2, X2. rewrite Eq1 in W1, R1, X1. rewrite app_length in W2, R2, X2.
    rewrite (app_length (plain_record rx)).
    replace (length pre + (length (plain_record rx) + length (cat l))) with (length pre + length (plain_record rx) + length (cat l)) by lia.
    cbn [length place map fst snd].
    split; [econstructor; [exact W1|exact W2]|].
    split; [change (length pre) with (rv_off (rv_at (fst rx) (snd rx) (length pre))) at 1; econstructor; [exact R1|exact R2]|].
    constructor; [exact X1|exact X2].
Qed.

Lemma chain_app sec : forall a s s1, chain sec s a s1 -> forall b s2, chain sec s1 b s2 -> chain sec s (a ++ b) s2.
Proof. induction 1 as [s|s s1 s2 rx l Hr Hch IH]; intros b s3 Hb; cbn [app]; [exact Hb|]. econstructor; [exact Hr|apply IH; exact Hb]. Qed.

Lemma chain_split sec : forall a rx b s s', chain sec s (a ++ rx :: b) s' ->
  exists s1 s2, chain sec s a s1 /\ rec_ctx sec s1 s2 rx /\ chain sec s2 b s'.
Proof.
  induction a as [|y a IH]; intros rx b s s' H; cbn [app] in H.
  - inversion H as [|? s1 ? ? ? Hr Hch]; subst. exists s, s1. split; [constructor|]. auto.
  - inversion H as [|? s1 ? ? ? Hr Hch]; subst. destruct (IH rx b s1 s' Hch) as (t1 & t2 & A & B & C).
    exists t1, t2. split; [econstructor; eauto|]. auto.
Qed.

(** a non-OPT record does not look at the flag, nor at the section *)
Lemma rec_ctx_nonopt sec s s' rx : rec_ctx sec s s' rx -> is_opt (fst rx) = false -> s' = s /\ forall sec2 t, rec_ctx sec2 t t rx.
Proof.
  intros [Hb Hctx] Hno.
  assert (Hs : s' = s).
  { destruct (Hctx [] []) as (W & R' & _). cbn [app length] in W, R'.
    destruct W as (ne & t & rdlen & (ls & Hcn) & _ & Ht & _ & _ & _ & Hrest). destruct R' as (Hcn' & Ht' & _).
    cbn [rv_at rv_off rv_name_end rv_labels rv_type] in Hcn', Ht'.
    destruct (cname_l_fun _ _ _ _ _ _ Hcn Hcn') as [_ Ene]. rewrite <- Ene in Ht'. pose proof (u16_at_fun _ _ _ _ Ht Ht') as Et.
    unfold is_opt in Hno. rewrite <- Et in Hno. rewrite Hno in Hrest. apply Hrest. }
  split; [exact Hs|]. intros sec2 t. split; [exact Hb|]. intros pre post. cbv zeta.
  destruct (Hctx pre post) as (W & R' & X'). split; [|split; assumption].
  eapply rr_wf_nonopt_any; [exact W|exact R'|reflexivity|exact Hno].
Qed.

(** removing a non-OPT record from a chain *)
Lemma chain_remove sec a rx b s s' : chain sec s (a ++ rx :: b) s' -> is_opt (fst rx) = false -> chain sec s (a ++ b) s'.
Proof.
  intros H Hno. destruct (chain_split sec a rx b s s' H) as (s1 & s2 & A & B & C).
  destruct (rec_ctx_nonopt _ _ _ _ B Hno) as [-> _]. eapply chain_app; eassumption.
Qed.

(** placement does not matter *)
Lemma rec_ctx_placed sec s s' rx o : rec_ctx sec s s' (rv_at (fst rx) (snd rx) o, snd rx) <-> rec_ctx sec s s' rx.
Proof. destruct rx as [r x]. unfold rec_ctx. cbn [fst snd]. change (plain_record (rv_at r x o, x)) with (plain_record (r, x)). tauto. Qed.

Lemma chain_placed sec : forall l o s s', chain sec s (place o l) s' <-> chain sec s l s'.
Proof.
  induction l as [|rx l IH]; intros o s s'; cbn [place].
  - split; intros H; inversion H; constructor.
  - split; intros H; inversion H as [|? s1 ? ? ? Hr Hch]; subst.
    + econstructor; [apply (proj1 (rec_ctx_placed sec s s1 rx o)); exact Hr|apply (proj1 (IH (o + length (plain_record rx)) s1 s')); exact Hch].
    + econstructor; [apply (proj2 (rec_ctx_placed sec s s1 rx o)); exact Hr|apply (proj2 (IH (o + length (plain_record rx)) s1 s')); exact Hch].
Qed.

(** the three sections of an accepted fixed point of decompression as chains over the same lists *)
Lemma parts_chains q f w qls qt A Nn R s1 s2 s3 : bytes_ok q -> parse q = Ok f -> plain_parts q w qls qt A Nn R s1 s2 s3 ->
  exists t1 t2 t3, chain SAnswer false A t1 /\ chain SNameServers t1 Nn t2 /\ chain SAdditional t2 R t3.
Proof.
  intros Hb Hf P. destruct (parts_build_wf q w qls qt A Nn R s1 s2 s3 Hb P) as (Lq & [(qe0 & f1 & f2 & Hcn0 & _ & _ & _ & Ra & Rn & Rr) Hx Han0 Hns0 Har0]).
  destruct (parse_sound q f Hb Hf) as (w' & an & ns & ar & qe & qclass & e1 & t1 & e2 & t2 & t3 & _ & _ & Han & Hns & Har & (qls0 & Hqn) & _ & _ & _ & _ & Hc1 & Hc2 & Hc3).
  destruct (cname_l_fun _ _ _ _ _ _ Hcn0 Hqn) as [_ <-].
  apply be16_at_u16 in Han0. apply be16_at_u16 in Hns0. apply be16_at_u16 in Har0. rewrite !place_length in *.
  pose proof (u16_at_fun _ _ _ _ Han Han0) as ->. pose proof (u16_at_fun _ _ _ _ Hns Hns0) as ->. pose proof (u16_at_fun _ _ _ _ Har Har0) as ->.
  apply Forall_app in Hx. destruct Hx as [Hxa Hx]. apply Forall_app in Hx. destruct Hx as [Hxn Hxr].
  destruct (chain_of_wf q SAnswer Hb _ _ _ _ _ Hc1) as (La & Hla & Hlla & Hxla & Cha).
  destruct (readings_fun q _ _ _ Hla Hxla _ _ Ra Hxa ltac:(rewrite place_length; lia)) as [-> <-].
  destruct (chain_of_wf q SNameServers Hb _ _ _ _ _ Hc2) as (Ln & Hln & Hlln & Hxln & Chn).
  destruct (readings_fun q _ _ _ Hln Hxln _ _ Rn Hxn ltac:(rewrite place_length; lia)) as [-> <-].
  destruct (chain_of_wf q SAdditional Hb _ _ _ _ _ Hc3) as (Lr & Hlr & Hllr & Hxlr & Chr).
  destruct (readings_fun q _ _ _ Hlr Hxlr _ _ Rr Hxr ltac:(rewrite place_length; lia)) as [-> _].
  exists t1, t2, t3. split; [eapply chain_placed; exact Cha|]. split; [eapply chain_placed; exact Chn|eapply chain_placed; exact Chr].
Qed.

(** ** Changing the TTL of a record *)
Lemma record_at_fun p r r' e e' : record_at p r e -> record_at p r' e' -> rv_off r = rv_off r' -> r = r' /\ e = e'.
Proof.
  intros H H' Hoff.
  assert (L : records_at p (rv_off r) [r] e) by (econstructor; [exact H|constructor]).
  assert (L' : records_at p (rv_off r) [r'] e') by (rewrite Hoff; econstructor; [exact H'|constructor]).
  destruct (records_at_fun p _ _ _ L _ _ L' eq_refl) as [E1 E2]. inversion E1. auto.
Qed.

Lemma rec_ctx_ttl sec s s' rx t' : rec_ctx sec s s' rx -> (t' < 4294967296)%N -> rec_ctx sec s s' (rv_with_ttl (fst rx) t', snd rx).
Proof.
  destruct rx as [r x]. cbn [fst snd]. intros [Hb Hctx] Ht.
  destruct (Hctx [] []) as (W & R0 & X0). cbn [app length Nat.add fst snd] in W, R0, X0. rewrite app_nil_r in W, R0, X0.
  set (z0 := plain_record (r, x)) in *.
  destruct (rr_plain_ttl z0 Hb sec s 0 (length z0) s' W) as (r0 & x0 & Hoff0 & Hr0 & Hx0 & Hgen).
  destruct (record_at_fun z0 _ _ _ _ Hr0 R0 ltac:(rewrite Hoff0; reflexivity)) as [-> _].
  pose proof (rdata_at_fun _ _ _ _ Hx0 X0) as ->.
  destruct (Hgen t' Ht) as (Hb' & Hctx').
  change (plain_record (rv_with_ttl (rv_at r x 0) t', x)) with (plain_record (rv_with_ttl r t', x)) in Hb', Hctx'.
  split; [exact Hb'|]. intros pre post. cbv zeta. cbn [fst snd]. exact (Hctx' pre post).
Qed.

Lemma chain_set_ttl sec a rx b s s' t' : chain sec s (a ++ rx :: b) s' -> (t' < 4294967296)%N ->
  chain sec s (a ++ (rv_with_ttl (fst rx) t', snd rx) :: b) s'.
Proof.
  intros H Ht. destruct (chain_split sec a rx b s s' H) as (s1 & s2 & A & B & C).
  eapply chain_app; [exact A|]. econstructor; [apply rec_ctx_ttl; eassumption|exact C].
Qed.
