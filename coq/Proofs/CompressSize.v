(** * Compression of an accepted pointer-free packet succeeds and does not grow it (C06).

    [fixed_point_plain]: an accepted packet that decompression leaves unchanged is, record by
    record, its own pointer-free encoding ([plain_at]).  On such a packet every step of
    [compress] succeeds (no error, no Panic outcome of the model: slices in range, dictionary
    assertions, patch positions) and the output produced so far is never longer than the input
    consumed so far ([compress_never_grows]). *)

From DV Require Import Model.Base Model.NameCheck Model.Parser Model.Header Model.Readers Model.Uncompress Model.Mutate
  Model.Compress Spec.NameSpec Spec.PacketSpec Spec.RecordSpec Spec.PlainSpec Proofs.ListLemmas Proofs.Hoare
  Proofs.NameCheckTotal Proofs.ParserTotal Proofs.NameIff Proofs.ParserInv Proofs.ParseSound Proofs.ReadersAgree
  Proofs.ReadersLabels Proofs.QuestionSpec Proofs.WalkValues Proofs.SetTtl Proofs.WalkSkip Proofs.UncompressFrame
  Proofs.UncompressSpec Proofs.PlainWf Proofs.RenameSpec Proofs.CompressName.
From Coq Require Import ZifyBool ZifyNat ZifyN.

(** ** small tools *)
Lemma labels_lab ls : Forall label_ok ls -> Forall lab ls.
Proof.
  intros H. eapply Forall_impl; [|exact H]. intros l (Hne & Hlen & _). unfold lab. destruct l; [congruence|cbn [length] in *; lia].
Qed.

Lemma cname_l_lab p off ls e : cname_l p off ls e -> Forall lab ls /\ length (wire_of_labels ls) <= 255.
Proof.
  intros H. split; [|eapply wire_length_le; exact H]. destruct H as [_ Hna]. apply labels_lab. eapply name_at_labels_ok; exact Hna.
Qed.

Lemma app_eq_len {A} : forall (x1 y1 x2 y2 : list A), x1 ++ y1 = x2 ++ y2 -> length x1 = length x2 -> x1 = x2 /\ y1 = y2.
Proof.
  induction x1 as [|a x1 IH]; intros y1 x2 y2 H Hl; destruct x2 as [|b x2]; try discriminate; [auto|].
  cbn [app] in H. inversion H; subst. destruct (IH y1 x2 y2 ltac:(assumption) ltac:(cbn in Hl; lia)) as [-> ->]. auto.
Qed.

Lemma seg_split (p : bytes) o a b X Y : o + a + b <= length p -> firstn (a + b) (skipn o p) = X ++ Y -> length X = a ->
  firstn a (skipn o p) = X /\ firstn b (skipn (o + a) p) = Y.
Proof.
  intros Hl H HX. rewrite firstn_split_at, skipn_skipn in H. replace (a + o) with (o + a) in H by lia.
  apply app_eq_len in H; [exact H|]. rewrite firstn_length, skipn_length. lia.
Qed.

Lemma ccn_at p off ls d out : Forall lab ls -> length (wire_of_labels ls) <= 255 -> sd_wf d ->
  off + length (wire_of_labels ls) <= length p ->
  firstn (length (wire_of_labels ls)) (skipn off p) = wire_of_labels ls ->
  exists enc d', copy_compressed_name d out p off = Ok (out ++ enc, d', length enc, off + length (wire_of_labels ls)) /\
                 length enc <= length (wire_of_labels ls) /\ sd_wf d'.
Proof.
  intros Hl Hlen Hwf Hfit Hseg.
  set (A := firstn off p). set (B := skipn (off + length (wire_of_labels ls)) p).
  assert (E : p = A ++ wire_of_labels ls ++ B).
  { unfold A, B. rewrite <- (firstn_skipn off p) at 1. f_equal.
    rewrite <- (firstn_skipn (length (wire_of_labels ls)) (skipn off p)) at 1. rewrite Hseg. f_equal.
    rewrite skipn_skipn. f_equal; lia. }
  assert (LA : length A = off) by (unfold A; rewrite firstn_length; lia).
  destruct (copy_compressed_name_plain ls A B d out Hl Hlen Hwf) as (enc & d' & Hc & k & tail & _ & _ & _ & Hle & Hwf' & _).
  rewrite <- E, LA in Hc. exists enc, d'. auto.
Qed.

Lemma patch_len out at_ n site : at_ + 2 <= length out -> exists out', patch_u16 out at_ n site = Ok out' /\ length out' = length out.
Proof.
  intros H. unfold patch_u16, write_at. rewrite be16_bytes_length. destruct (at_ + 2 <=? length out) eqn:E; [|lia].
  eexists. split; [reflexivity|]. rewrite !app_length, firstn_length, skipn_length, be16_bytes_length. lia.
Qed.

(** ** the data of one record *)
Section Rec.
  Variable p : bytes.
  Hypothesis Hb : bytes_ok p.

  Lemma compress_rdata_len r e x d out : record_at p r e -> rdata_at p r x -> plain_at p r x -> sd_wf d ->
    exists out' d', compress_rdata d out p (rv_name_end r) (Some (rv_type r)) (Some (rv_rdlen r)) = Ok (out', d') /\
                    length out' <= length out + 10 + rv_rdlen r /\ sd_wf d'.
  Proof.
    intros Hr Hx (_ & _ & Hrl & Hrd) Hwf.
    pose proof (record_at_end _ _ _ Hr) as (He & _ & Hle). unfold rv_end in He.
    unfold compress_rdata, DNS_RR_HEADER_SIZE, DNS_RR_RDLEN_OFFSET.
    destruct x as [ls|pref ls|l1 l2 tail|b]; cbn [rdata_at plain_rdata] in Hx, Hrl, Hrd.
    - (* one name *)
      destruct Hx as (Hnt & Hcn). change (PacketSpec.is_name_type (rv_type r)) with (Uncompress.is_name_type (rv_type r)) in Hnt. rewrite Hnt.
      rewrite take_rdata_ok by lia. cbn [bind].
      destruct (cname_l_lab _ _ _ _ Hcn) as [Hlab Hl255].
      destruct (ccn_at p (rv_name_end r + 10) ls d (out ++ firstn 10 (skipn (rv_name_end r) p)) Hlab Hl255 Hwf ltac:(lia) ltac:(rewrite <- Hrl; exact Hrd))
        as (enc & d' & Hc & Hlen & Hwf').
      rewrite Hc. cbn [bind].
      destruct (patch_len ((out ++ firstn 10 (skipn (rv_name_end r) p)) ++ enc) (length out + 8) (length enc) 733) as (o2 & Hp2 & Hl2).
      { rewrite !app_length, firstn_length, skipn_length. lia. }
      rewrite Hp2. cbn [bind]. exists o2, d'. split; [reflexivity|]. split; [|exact Hwf'].
      rewrite Hl2, !app_length, firstn_length, skipn_length. lia.
    - (* MX *)
      destruct Hx as (Hnt & Hmx & H2 & Hpref & Hcn). change (PacketSpec.is_name_type (rv_type r)) with (Uncompress.is_name_type (rv_type r)) in Hnt.
      assert (Emx : (rv_type r =? TYPE_MX)%N = true) by (rewrite Hmx; reflexivity). rewrite Hnt, Emx.
      rewrite take_rdata_ok by lia. cbn [bind].
      destruct (cname_l_lab _ _ _ _ Hcn) as [Hlab Hl255].
      assert (Lpref : length pref = 2) by (rewrite Hpref, firstn_length, skipn_length; lia).
      rewrite app_length, Lpref in Hrl.
      destruct (seg_split p (rv_name_end r + 10) 2 (length (wire_of_labels ls)) pref (wire_of_labels ls) ltac:(lia) ltac:(rewrite <- Hrl; exact Hrd) Lpref) as [_ Hseg].
      destruct (ccn_at p (rv_name_end r + 10 + 2) ls d (out ++ firstn (10 + 2) (skipn (rv_name_end r) p)) Hlab Hl255 Hwf ltac:(lia) Hseg)
        as (enc & d' & Hc & Hlen & Hwf').
      rewrite Hc. cbn [bind].
      destruct (patch_len ((out ++ firstn (10 + 2) (skipn (rv_name_end r) p)) ++ enc) (length out + 8) (2 + length enc) 735) as (o2 & Hp2 & Hl2).
      { rewrite !app_length, firstn_length, skipn_length. lia. }
      rewrite Hp2. cbn [bind]. exists o2, d'. split; [reflexivity|]. split; [|exact Hwf'].
      rewrite Hl2, !app_length, firstn_length, skipn_length. lia.
    - (* SOA *)
      destruct Hx as (Hnt & Hsoa & H21 & m & Hc1 & Hc2 & Htail). change (PacketSpec.is_name_type (rv_type r)) with (Uncompress.is_name_type (rv_type r)) in Hnt.
      assert (Emx : (rv_type r =? TYPE_MX)%N = false) by (rewrite Hsoa; reflexivity).
      assert (Esoa : (rv_type r =? TYPE_SOA)%N = true) by (rewrite Hsoa; reflexivity). rewrite Hnt, Emx, Esoa.
      rewrite take_rdata_ok by lia. cbn [bind].
      destruct (cname_l_lab _ _ _ _ Hc1) as [Hlab1 Hl1]. destruct (cname_l_lab _ _ _ _ Hc2) as [Hlab2 Hl2].
      assert (Ltail : length tail = 20) by (rewrite Htail, firstn_length, skipn_length; lia).
      rewrite !app_length, Ltail in Hrl.
      destruct (seg_split p (rv_name_end r + 10) (length (wire_of_labels l1)) (length (wire_of_labels l2) + 20) (wire_of_labels l1) (wire_of_labels l2 ++ tail)
                          ltac:(lia) ltac:(rewrite <- Hrl; exact Hrd) eq_refl) as [Hs1 Hs23].
      destruct (seg_split p (rv_name_end r + 10 + length (wire_of_labels l1)) (length (wire_of_labels l2)) 20 (wire_of_labels l2) tail
                          ltac:(lia) Hs23 eq_refl) as [Hs2 _].
      destruct (ccn_at p (rv_name_end r + 10) l1 d (out ++ firstn 10 (skipn (rv_name_end r) p)) Hlab1 Hl1 Hwf ltac:(lia) Hs1)
        as (enc1 & d1 & Hcc1 & Hlen1 & Hwf1).
      rewrite Hcc1. cbn [bind].
      destruct (ccn_at p (rv_name_end r + 10 + length (wire_of_labels l1)) l2 d1 ((out ++ firstn 10 (skipn (rv_name_end r) p)) ++ enc1) Hlab2 Hl2 Hwf1 ltac:(lia) Hs2)
        as (enc2 & d2 & Hcc2 & Hlen2 & Hwf2).
      rewrite Hcc2. cbn [bind].
      unfold slice.
      match goal with |- context [(?a <=? ?b) && (?b <=? length p)] => destruct ((a <=? b) && (b <=? length p)) eqn:Esl; [|lia] end.
      cbn [bind].
      match goal with |- context [patch_u16 ?o ?a ?n ?s] => destruct (patch_len o a n s) as (o3 & Hp3 & Hl3) end.
      { rewrite !app_length, firstn_length, skipn_length. lia. }
      rewrite Hp3. cbn [bind]. exists o3, d2. split; [reflexivity|]. split; [|exact Hwf2].
      rewrite Hl3, !app_length, !firstn_length, !skipn_length. lia.
    - (* opaque data *)
      destruct Hx as (Hnt & Hnmx & Hnsoa & _). change (PacketSpec.is_name_type (rv_type r)) with (Uncompress.is_name_type (rv_type r)) in Hnt.
      rewrite Hnt. destruct (rv_type r =? TYPE_MX)%N eqn:E1; [lia|]. destruct (rv_type r =? TYPE_SOA)%N eqn:E2; [lia|].
      cbn [unwrap bind]. rewrite take_rdata_ok by lia. cbn [bind].
      exists (out ++ firstn (10 + rv_rdlen r) (skipn (rv_name_end r) p)), d. split; [reflexivity|]. split; [|exact Hwf].
      rewrite app_length, firstn_length, skipn_length. lia.
  Qed.

  Variable v : ppacket.
  Hypothesis Hpk : pp_packet v = p.

  Definition size_inv (off : nat) (acc : bytes * sdict) : Prop := length (fst acc) <= off /\ sd_wf (snd acc).
  Definition good (r : rec_view) : Prop := exists x, rdata_at p r x /\ plain_at p r x.

  Lemma compress_record_len acc r sec left : record_at p r (rv_end r) -> good r -> size_inv (rv_off r) acc ->
    exists acc', compress_record v false acc (it_on sec r (rv_end r) left) = Ok acc' /\ size_inv (rv_end r) acc'.
  Proof.
    intros Hr (x & Hx & Hpl) [Hlen Hwf]. destruct acc as [out d]. cbn [fst snd] in Hlen, Hwf.
    pose proof Hpl as (Hne & Hseg & _ & _). pose proof Hr as (Hcn & _).
    pose proof (record_at_end _ _ _ Hr) as (_ & _ & Hle). unfold rv_end in *.
    destruct (cname_l_lab _ _ _ _ Hcn) as [Hlab Hl255].
    unfold compress_record. cbn [it_on it_offset unwrap bind]. rewrite Hpk.
    destruct (ccn_at p (rv_off r) (rv_labels r) d out Hlab Hl255 Hwf ltac:(lia) Hseg) as (enc & d1 & Hc & Hlenc & Hwf1).
    rewrite Hc. cbn [bind].
    match goal with |- context [it_rr_type v ?it] => rewrite (it_rr_type_ok p v Hpk r _ it Hr eq_refl eq_refl) end. cbn [bind].
    match goal with |- context [it_rr_rdlen v ?it] => rewrite (it_rr_rdlen_ok p v Hpk r _ it Hr eq_refl eq_refl) end. cbn [bind it_on it_name_end].
    destruct (compress_rdata_len r _ x d1 (out ++ enc) Hr Hx Hpl Hwf1) as (out' & d' & Hcr & Hl' & Hwf').
    rewrite Hcr. exists (out', d'). split; [reflexivity|]. split; [|exact Hwf']. cbn [fst]. rewrite app_length in Hl'. lia.
  Qed.

  (** ** a whole section, through either cursor *)
  Section Walk.
    Variable next : rrit -> res (option rrit).
    Variable P : list rec_view -> Prop.
    Hypothesis P_tail : forall r l, P (r :: l) -> P l.
    Hypothesis Hnext : forall sec r0 off r l e',
      P (r :: l) -> record_at p r (rv_end r) -> records_at p (rv_end r) l e' -> off = rv_off r ->
      next (it_on sec r0 off (S (length l))) = Ok (Some (it_on sec r (rv_end r) (length l))).
    Hypothesis Hend : forall sec r0 off, next (it_on sec r0 off 0) = Ok None.

    Lemma walk_size : forall l off e, records_at p off l e -> Forall good l -> P l ->
      forall fuel sec r0 acc, length l < fuel -> record_at p r0 off -> good r0 -> size_inv (rv_off r0) acc ->
      exists acc', walk_fold fuel next (compress_record v false) (Some (it_on sec r0 off (length l))) acc = Ok acc' /\ size_inv e acc'.
    Proof.
      induction l as [|r l IH]; intros off e Hl Hg HP fuel sec r0 acc Hfuel Hr0 Hg0 Hinv;
        (destruct fuel as [|fuel]; [cbn in Hfuel; lia|]); cbn [walk_fold];
        pose proof (record_at_end _ _ _ Hr0) as (Eoff & _); rewrite Eoff in Hr0 |- *.
      - destruct (compress_record_len acc r0 sec (length (@nil rec_view)) Hr0 Hg0 Hinv) as (acc1 & Hc1 & Hinv1).
        rewrite Hc1. cbn [bind length]. rewrite Hend. cbn [bind]. rewrite walk_fold_None.
        exists acc1. split; [reflexivity|]. assert (Ee : e = off) by (inversion Hl; reflexivity). rewrite Ee, Eoff. exact Hinv1.
      - destruct (compress_record_len acc r0 sec (length (r :: l)) Hr0 Hg0 Hinv) as (acc1 & Hc1 & Hinv1).
        rewrite Hc1. cbn [bind]. rewrite Eoff in Hl. destruct (records_cons_inv p _ _ _ _ Hl) as (Hoff & Hr & Hl1).
        cbn [length]. rewrite (Hnext sec r0 _ r l e HP Hr Hl1 Hoff). cbn [bind].
        apply (IH (rv_end r) e Hl1 (Forall_inv_tail Hg) (P_tail _ _ HP) fuel sec r acc1 ltac:(cbn in Hfuel; lia) Hr (Forall_inv Hg)).
        rewrite <- Hoff. exact Hinv1.
    Qed.
  End Walk.

  Lemma section_incl_size sec off l e count acc :
    records_at p off l e -> e <= length p -> count = N.of_nat (length l) -> Forall good l -> hdr_sec p v sec count off ->
    size_inv off acc ->
    exists acc', (first <- r_next_including_opt v (it_new sec) ;;
                  walk_fold (walk_fuel p) (r_next_including_opt v) (compress_record v false) first acc) = Ok acc' /\ size_inv e acc'.
  Proof.
    intros Hl Hend Hcount Hg Hhdr Hinv. pose proof (records_at_span _ _ _ _ Hl) as Hspan.
    destruct l as [|r l].
    - cbn [length N.of_nat] in Hcount. rewrite Hcount in Hhdr. rewrite (first_none p v Hpk sec off Hhdr). cbn [bind]. rewrite walk_fold_None.
      exists acc. split; [reflexivity|]. inversion Hl; subst. exact Hinv.
    - destruct (records_cons_inv p _ _ _ _ Hl) as (Hoff & Hr & Hl1).
      assert (Hpos : (0 <? N.of_nat (length (r :: l)))%N = true) by (cbn [length]; lia).
      unfold hdr_sec in Hhdr. rewrite Hcount, Hpos, Hoff in Hhdr.
      rewrite (first_on_record p v Hpk r (rv_end r) sec _ (length l) Hr eq_refl) by exact Hhdr. cbn [bind].
      change {| it_section := sec; it_offset := Some (rv_off r); it_offset_next := rv_end r; it_name_end := rv_name_end r;
                it_rrs_left := N.of_nat (length l) |} with (it_on sec r (rv_end r) (length l)).
      apply (walk_size (r_next_including_opt v) (fun _ => True) (fun _ _ _ => I) (incl_next p v Hpk) (incl_end v)
               l (rv_end r) e Hl1 (Forall_inv_tail Hg) I); [|exact Hr|exact (Forall_inv Hg)|rewrite <- Hoff; exact Hinv].
      unfold walk_fuel. cbn [length] in Hspan. lia.
  Qed.

  Lemma section_skip_size sec off l e count acc :
    records_at p off l e -> e <= length p -> count = N.of_nat (length l) -> Forall good l -> hdr_sec p v sec count off ->
    forallb non_opt l = true -> size_inv off acc ->
    exists acc', (first <- r_next v (it_new sec) ;;
                  walk_fold (walk_fuel p) (r_next v) (compress_record v false) first acc) = Ok acc' /\ size_inv e acc'.
  Proof.
    intros Hl Hend Hcount Hg Hhdr Hno Hinv. pose proof (records_at_span _ _ _ _ Hl) as Hspan.
    unfold r_next at 1.
    destruct l as [|r l].
    - cbn [length N.of_nat] in Hcount. rewrite Hcount in Hhdr. rewrite (first_none p v Hpk sec off Hhdr). cbn [bind]. rewrite walk_fold_None.
      exists acc. split; [reflexivity|]. inversion Hl; subst. exact Hinv.
    - destruct (records_cons_inv p _ _ _ _ Hl) as (Hoff & Hr & Hl1).
      assert (Hpos : (0 <? N.of_nat (length (r :: l)))%N = true) by (cbn [length]; lia).
      unfold hdr_sec in Hhdr. rewrite Hcount, Hpos, Hoff in Hhdr.
      rewrite (first_on_record p v Hpk r (rv_end r) sec _ (length l) Hr eq_refl) by exact Hhdr. cbn [bind].
      change {| it_section := sec; it_offset := Some (rv_off r); it_offset_next := rv_end r; it_name_end := rv_name_end r;
                it_rrs_left := N.of_nat (length l) |} with (it_on sec r (rv_end r) (length l)).
      assert (Eo : is_opt r = false).
      { cbn [forallb] in Hno. apply andb_true_iff in Hno. destruct Hno as [Hx' _]. unfold non_opt in Hx'. destruct (is_opt r); [discriminate|reflexivity]. }
      rewrite (maybe_skip_spec p v Hpk sec r (rv_end r) l e false Hr Hl1 (nonopt_opt_ok _ Hno false)) by (rewrite Eo; discriminate).
      cbn [bind]. unfold after_skip. rewrite Eo.
      assert (Hno1 : forallb non_opt l = true) by (cbn [forallb] in Hno; apply andb_true_iff in Hno; apply Hno).
      assert (Ptail : forall (r' : rec_view) (l' : list rec_view), forallb non_opt (r' :: l') = true -> forallb non_opt l' = true).
      { intros r' l' H'. cbn [forallb] in H'. apply andb_true_iff in H'. apply H'. }
      apply (walk_size (r_next v) (fun l => forallb non_opt l = true) Ptail (skip_next p v Hpk) (skip_end v)
               l (rv_end r) e Hl1 (Forall_inv_tail Hg) Hno1); [|exact Hr|exact (Forall_inv Hg)|rewrite <- Hoff; exact Hinv].
      unfold walk_fuel. cbn [length] in Hspan. lia.
  Qed.
End Rec.

(** ** A packet that decompression leaves unchanged is its own pointer-free encoding *)
Lemma located_split (p : bytes) off (W : bytes) : off + length W <= length p -> firstn (length W) (skipn off p) = W ->
  p = firstn off p ++ W ++ skipn (off + length W) p /\ length (firstn off p) = off.
Proof.
  intros Hfit Hseg. split; [|rewrite firstn_length; lia].
  rewrite <- (firstn_skipn off p) at 1. f_equal.
  rewrite <- (firstn_skipn (length W) (skipn off p)) at 1. rewrite Hseg. f_equal. rewrite skipn_skipn. f_equal; lia.
Qed.

Lemma located_end p off ls e : cname_l p off ls e -> off + length (wire_of_labels ls) <= length p ->
  firstn (length (wire_of_labels ls)) (skipn off p) = wire_of_labels ls -> e = off + length (wire_of_labels ls).
Proof.
  intros Hcn Hfit Hseg. destruct (located_split p off _ Hfit Hseg) as [E LA].
  assert (Hok : Forall label_ok ls) by (destruct Hcn as [_ Hna]; eapply name_at_labels_ok; exact Hna).
  pose proof (cname_l_mid ls (firstn off p) (skipn (off + length (wire_of_labels ls)) p) Hok (wire_length_le _ _ _ _ Hcn)) as Hm.
  rewrite <- E, LA in Hm. destruct (cname_l_fun _ _ _ _ _ _ Hcn Hm) as [_ ->]. reflexivity.
Qed.

Lemma fixed_point_plain p v : bytes_ok p -> parse p = Ok v -> uncompress p = Ok p ->
  exists qls qt lxa lxn lxr,
    reading p qls qt lxa lxn lxr /\ Forall (fun rx => plain_at p (fst rx) (snd rx)) (lxa ++ lxn ++ lxr) /\
    12 + length (wire_of_labels qls) <= length p /\
    firstn (length (wire_of_labels qls)) (skipn 12 p) = wire_of_labels qls.
Proof.
  intros Hb Hp Hu.
  destruct (uncompress_reading p v Hb Hp) as (qls1 & qt1 & la1 & ln1 & lr1 & R1 & Hu1).
  assert (Ep : p = plain_packet_of p qls1 qt1 la1 ln1 lr1) by congruence. clear Hu1.
  destruct (plain_packet p Hb (parse_sound p v Hb Hp)) as (qls & qt & lxa & lxn & lxr & R2 & Hrest).
  destruct (reading_fun _ _ _ _ _ _ _ _ _ _ _ R1 R2) as (-> & -> & -> & -> & ->).
  cbv zeta in Hrest. rewrite <- Ep in Hrest.
  destruct Hrest as (_ & _ & lxa' & lxn' & lxr' & R2' & _ & _ & _ & _ & P & _).
  exists qls, qt, lxa', lxn', lxr'. split; [exact R2'|]. split; [exact P|].
  assert (H12 : 12 <= length p) by (destruct R2 as [(qe & _ & _ & Hc & _) _ _ _ _]; destruct Hc; lia).
  assert (L12 : length (firstn 12 p) = 12) by (rewrite firstn_length; lia).
  assert (Ep' : p = firstn 12 p ++ wire_of_labels qls ++
                    (be16_bytes qt ++ be16_bytes CLASS_IN) ++ concat (map plain_record (lxa ++ lxn ++ lxr))).
  { rewrite Ep at 1. unfold plain_packet_of, plain_question. rewrite <- !app_assoc. reflexivity. }
  split.
  - rewrite Ep'. rewrite !app_length, L12. lia.
  - pose proof (firstn_skipn_mid (firstn 12 p) (wire_of_labels qls)
                  ((be16_bytes qt ++ be16_bytes CLASS_IN) ++ concat (map plain_record (lxa ++ lxn ++ lxr)))) as H.
    rewrite <- Ep', L12 in H. exact H.
Qed.

Lemma good_of_reading p lx : Forall (rd_ok p) lx -> Forall (fun rx => plain_at p (fst rx) (snd rx)) lx -> Forall (good p) (map fst lx).
Proof.
  induction lx as [|[r x] lx IH]; intros H1 H2; cbn [map]; [constructor|].
  constructor; [exists x; split; [exact (Forall_inv H1)|exact (Forall_inv H2)]|apply IH; [exact (Forall_inv_tail H1)|exact (Forall_inv_tail H2)]].
Qed.

Theorem compress_never_grows : forall p v, bytes_ok p -> parse p = Ok v -> uncompress p = Ok p ->
  exists out, compress p = Ok out /\ length out <= length p.
Proof.
  intros p v Hb Hp Hu.
  destruct (fixed_point_plain p v Hb Hp Hu) as (qls & qt & lxa & lxn & lxr & R & P & Hqfit & Hqseg).
  destruct (parse_view p v Hb Hp) as (an & ns & ar & qe & e1 & s1 & e2 & s2 & s3 & Hpk & Hqn & Hq4 & Han & Hns & Har &
                                      Hlan & Hlns & Hlar & Hc1 & Hc2 & Hc3 & Hoan & Hons & Hoar).
  destruct (rrs_wf_full p _ _ _ _ _ _ Hc1) as (La & Hla & Hlla & _ & _ & Hnoa & _).
  destruct (rrs_wf_full p _ _ _ _ _ _ Hc2) as (Ln & Hln & Hlln & _ & _ & Hnon & _).
  specialize (Hnoa ltac:(discriminate)). specialize (Hnon ltac:(discriminate)).
  destruct R as [(qe' & e1' & e2' & Hcn & _ & _ & _ & Ra & Rn & Rr) Hx Han' Hns' Har'].
  destruct Hqn as (qls' & Hcn'). destruct (cname_l_fun _ _ _ _ _ _ Hcn Hcn') as [<- ->].
  rewrite Han in Han'. rewrite Hns in Hns'. rewrite Har in Har'. inversion Han'; inversion Hns'; inversion Har'; subst an ns ar.
  destruct (records_at_fun p _ _ _ Hla _ _ Ra ltac:(rewrite !map_length in *; lia)) as [Ela <-].
  destruct (records_at_fun p _ _ _ Hln _ _ Rn ltac:(rewrite !map_length in *; lia)) as [Eln <-].
  rewrite Ela in Hnoa. rewrite Eln in Hnon.
  apply Forall_app in Hx. destruct Hx as [Hxa Hx]. apply Forall_app in Hx. destruct Hx as [Hxn Hxr].
  apply Forall_app in P. destruct P as [Pa P]. apply Forall_app in P. destruct P as [Pn Pr].
  pose proof (good_of_reading p _ Hxa Pa) as Ga. pose proof (good_of_reading p _ Hxn Pn) as Gn. pose proof (good_of_reading p _ Hxr Pr) as Gr.
  pose proof (located_end p 12 qls qe Hcn Hqfit Hqseg) as Eqe.
  destruct (question_cursor_spec p v Hb Hp) as (qls0 & qe0 & qt0 & qc0 & itq & Hcn0 & _ & _ & Hq0 & Hqoff & Hqne & _ & _ & _ & _ & Hqend).
  destruct (cname_l_fun _ _ _ _ _ _ Hcn Hcn0) as [<- <-].
  assert (H12 : 12 < length p) by (destruct Hcn; lia).
  destruct (cname_l_lab _ _ _ _ Hcn) as [Hlabq Hlq].
  destruct (ccn_at p 12 qls sd_new (firstn 12 p) Hlabq Hlq ltac:(unfold sd_wf; cbn; lia) Hqfit Hqseg) as (encq & dq & Hcq & Hlencq & Hwfq).
  pose (acc0 := ((firstn 12 p ++ encq) ++ firstn 4 (skipn qe p), dq)).
  assert (I0 : size_inv (qe + 4) acc0).
  { unfold size_inv, acc0. cbn [fst snd]. split; [|exact Hwfq]. rewrite !app_length, !firstn_length, skipn_length. lia. }
  pose proof (records_at_span _ _ _ _ Rr) as Hsp3. pose proof (records_at_span _ _ _ _ Rn) as Hsp2.
  destruct (section_skip_size p v Hpk SAnswer (qe + 4) (map fst lxa) e1 _ acc0 Ra ltac:(lia) ltac:(rewrite map_length; reflexivity) Ga (conj Han Hoan) Hnoa I0)
    as (acc1 & HA & I1).
  apply bind_ok in HA. destruct HA as (fa & Hfa & Hwa).
  destruct (section_skip_size p v Hpk SNameServers e1 (map fst lxn) e2 _ acc1 Rn ltac:(lia) ltac:(rewrite map_length; reflexivity) Gn (conj Hns Hons) Hnon I1)
    as (acc2 & HN & I2).
  apply bind_ok in HN. destruct HN as (fn & Hfn & Hwn).
  destruct (section_incl_size p v Hpk SAdditional e2 (map fst lxr) (length p) _ acc2 Rr (le_n _) ltac:(rewrite map_length; reflexivity) Gr (conj Har Hoar) I2)
    as (acc3 & HR & I3).
  apply bind_ok in HR. destruct HR as (fr & Hfr & Hwr).
  exists (fst acc3). split; [|exact (proj1 I3)].
  unfold compress, DNS_HEADER_SIZE. destruct (length p <? 12) eqn:E12; [lia|]. rewrite Hp. cbn [bind]. rewrite Hq0. cbn [bind].
  (* the question *)
  assert (Hfuel : exists f, walk_fuel p = S f) by (unfold walk_fuel; exists (length p + 1); lia).
  destruct Hfuel as (f & Hf). rewrite Hf at 1. cbn [walk_fold].
  unfold compress_record at 1. rewrite Hqoff. cbn [unwrap bind]. rewrite Hpk.
  rewrite Hcq. cbn [bind]. rewrite Hqne.
  unfold compress_rdata, DNS_RR_QUESTION_HEADER_SIZE. rewrite take_rdata_ok by lia. cbn [bind].
  rewrite Hqend. cbn [bind]. rewrite walk_fold_None. cbn [bind]. fold acc0.
  (* the three sections *)
  rewrite Hfa. cbn [bind]. rewrite Hwa. cbn [bind].
  rewrite Hfn. cbn [bind]. rewrite Hwn. cbn [bind].
  rewrite Hfr. cbn [bind]. rewrite Hwr. cbn [bind]. reflexivity.
Qed.
