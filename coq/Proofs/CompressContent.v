(** * What the compressed packet says (C06): same header, question name byte for byte, and, record by record, the same
    labels up to ASCII case, the same type / class / TTL bytes, a data-length field equal to the length of the data
    that follows, and the same data - names inside it again the same labels up to case.

    The output is read with a reference decoder [dec_in] that follows pointers without any bound on their number
    (each pointer must point strictly backwards, so the decoding is well founded): the parser's own limit of 16
    hops is the known finding chain-depth.  [dec_in out o ls e]: the name written at [o] of [out] has labels [ls]
    and its in-place encoding ends at [e] (after the root byte or after the first pointer). *)

From DV Require Import Model.Base Model.NameCheck Model.Parser Model.Header Model.Readers Model.Uncompress Model.Mutate
  Model.Compress Spec.NameSpec Spec.PacketSpec Spec.RecordSpec Spec.PlainSpec Proofs.ListLemmas Proofs.Hoare
  Proofs.NameCheckTotal Proofs.ParserTotal Proofs.NameIff Proofs.ParserInv Proofs.ParseSound Proofs.ReadersAgree
  Proofs.ReadersLabels Proofs.QuestionSpec Proofs.WalkValues Proofs.SetTtl Proofs.WalkSkip Proofs.UncompressFrame
  Proofs.UncompressSpec Proofs.PlainWf Proofs.RenameSpec Proofs.CompressName Proofs.CompressSize Proofs.DecompressFirst.
From Coq Require Import ZifyBool ZifyNat ZifyN.

(** ** [seg out o X]: the bytes [X] stand at offset [o] of [out] *)
Definition seg (out : bytes) (o : nat) (X : bytes) : Prop := exists A B, out = A ++ X ++ B /\ length A = o.

Lemma seg_app out o X s : seg out o X -> seg (out ++ s) o X.
Proof. intros (A & B & -> & L). exists A, (B ++ s). split; [rewrite <- !app_assoc; reflexivity|exact L]. Qed.

Lemma seg_end out X : seg (out ++ X) (length out) X.
Proof. exists out, []. split; [rewrite app_nil_r; reflexivity|reflexivity]. Qed.

Lemma seg_mid A X B : seg (A ++ X ++ B) (length A) X.
Proof. exists A, B. split; reflexivity. Qed.

Lemma seg_bound out o X : seg out o X -> o + length X <= length out.
Proof. intros (A & B & -> & L). rewrite !app_length. lia. Qed.

Lemma seg_cut out o X Y : seg out o (X ++ Y) -> seg out o X /\ seg out (o + length X) Y.
Proof.
  intros (A & B & -> & L). split.
  - exists A, (Y ++ B). split; [rewrite <- app_assoc; reflexivity|exact L].
  - exists (A ++ X), B. split; [rewrite <- !app_assoc; reflexivity|rewrite app_length; lia].
Qed.

Lemma seg_join out o X Y : seg out o X -> seg out (o + length X) Y -> seg out o (X ++ Y).
Proof.
  intros (A & B & E & L) (A' & B' & E' & L').
  assert (HA : A' = A ++ X).
  { rewrite E in E'. rewrite app_assoc in E'. apply app_eq_len in E'; [symmetry; apply E'|rewrite app_length; lia]. }
  exists A, B'. split; [rewrite E', HA, <- !app_assoc; reflexivity|exact L].
Qed.

Lemma seg_of_firstn (p : bytes) o X : o + length X <= length p -> firstn (length X) (skipn o p) = X -> seg p o X.
Proof. intros Hfit Hs. destruct (located_split p o X Hfit Hs) as [E L]. exists (firstn o p), (skipn (o + length X) p). split; assumption. Qed.

Lemma seg_fun out o X Y : seg out o X -> seg out o Y -> length X = length Y -> X = Y.
Proof.
  intros (A & B & E & L) (A' & B' & E' & L') Hl. rewrite E in E'.
  apply app_eq_len in E'; [|lia]. destruct E' as [_ E']. apply app_eq_len in E'; [apply E'|exact Hl].
Qed.

(** ** the reference decoder *)
Inductive dec_in (out : bytes) : nat -> list bytes -> nat -> Prop :=
| di_root : forall o, seg out o [0%N] -> dec_in out o [] (o + 1)
| di_lab : forall o l ls e, lab l -> seg out o (N.of_nat (length l) :: l) -> dec_in out (o + 1 + length l) ls e -> dec_in out o (l :: ls) e
| di_ptr : forall o t ls e', seg out o (ptr_bytes t) -> t < o -> (N.of_nat t < 16384)%N -> dec_in out t ls e' -> dec_in out o ls (o + 2).

Lemma dec_in_app out s : forall o ls e, dec_in out o ls e -> dec_in (out ++ s) o ls e.
Proof.
  induction 1 as [o H|o l ls e Hl H _ IH|o t ls e' H Ht Ht2 _ IH].
  - apply di_root. apply seg_app. exact H.
  - apply di_lab; [exact Hl|apply seg_app; exact H|exact IH].
  - apply (di_ptr _ o t ls e'); [apply seg_app; exact H|exact Ht|exact Ht2|exact IH].
Qed.

Lemma dec_in_end out : forall o ls e, dec_in out o ls e -> o < e <= length out.
Proof.
  induction 1 as [o H|o l ls e Hl H _ IH|o t ls e' H Ht Ht2 _ IH].
  - apply seg_bound in H. cbn [length] in H. lia.
  - lia.
  - apply seg_bound in H. cbn [length ptr_bytes] in H. lia.
Qed.

Lemma dec_in_eq out o ls e o' e' : dec_in out o ls e -> o = o' -> e = e' -> dec_in out o' ls e'.
Proof. intros H -> ->. exact H. Qed.

(** labels written in full in front of an encoded name *)
Lemma dec_in_prefix : forall pre O tail ls e, Forall lab pre ->
  dec_in (O ++ labels_flat pre ++ tail) (length O + length (labels_flat pre)) ls e ->
  dec_in (O ++ labels_flat pre ++ tail) (length O) (pre ++ ls) e.
Proof.
  induction pre as [|l pre IH]; intros O tail ls e Hl H.
  - cbn [labels_flat flat_map app length] in *. rewrite Nat.add_0_r in H. exact H.
  - rewrite flat_cons in *. change ((l :: pre) ++ ls) with (l :: (pre ++ ls)). apply di_lab; [exact (Forall_inv Hl)| |].
    + exists O, (labels_flat pre ++ tail). split; [cbn [app]; rewrite <- ?app_assoc; reflexivity|reflexivity].
    + assert (E : O ++ (N.of_nat (length l) :: l ++ labels_flat pre) ++ tail = (O ++ N.of_nat (length l) :: l) ++ labels_flat pre ++ tail)
        by (cbn [app]; rewrite <- ?app_assoc; cbn [app]; rewrite <- ?app_assoc; reflexivity).
      rewrite E in *.
      replace (length O + 1 + length l) with (length (O ++ N.of_nat (length l) :: l)) by (rewrite app_length; cbn [length]; lia).
      apply IH; [exact (Forall_inv_tail Hl)|].
      replace (length (O ++ N.of_nat (length l) :: l) + length (labels_flat pre)) with (length O + length (N.of_nat (length l) :: l ++ labels_flat pre));
        [exact H|rewrite !app_length; cbn [length]; rewrite app_length; lia].
Qed.

(** ** case-insensitive equality of label lists *)
Lemma ci_refl ls : ci_labels ls ls.
Proof. induction ls; constructor; [reflexivity|assumption]. Qed.

Lemma ci_trans a b c : ci_labels a b -> ci_labels b c -> ci_labels a c.
Proof.
  intros H; revert c. induction H as [|x y a b Hxy _ IH]; intros c Hc; inversion Hc; subst; constructor; [congruence|apply IH; assumption].
Qed.

Lemma ci_app a b c d : ci_labels a b -> ci_labels c d -> ci_labels (a ++ c) (b ++ d).
Proof. intros H1 H2. apply Forall2_app; assumption. Qed.

(** ** the dictionary describes the output: every remembered (offset, suffix) is a place of the output where a name with
    the suffix's labels, up to case, is written *)
Definition dict_inv (d : sdict) (O : bytes) : Prop :=
  forall o c, In (o, c) (sd_entries d) ->
    exists cl dl e, c = wire_of_labels cl /\ Forall lab cl /\ dec_in O o dl e /\ ci_labels cl dl /\ (N.of_nat o < 16384)%N.

Lemma dict_inv_app d O s : dict_inv d O -> dict_inv d (O ++ s).
Proof.
  intros H o c Hin. destruct (H o c Hin) as (cl & dl & e & E & Hl & Hd & Hc & Ho).
  exists cl, dl, e. repeat split; try assumption. apply dec_in_app. exact Hd.
Qed.

Lemma dict_inv_new O : dict_inv sd_new O.
Proof. intros o c H. destruct H. Qed.

Lemma firstn_firstn_le {A} (l : list A) j k : j <= k -> firstn j (firstn k l) = firstn j l.
Proof. intros H. rewrite firstn_firstn. f_equal. lia. Qed.

Lemma wire_len_skipn_lt ls j k : j < k -> k <= length ls -> length (wire_of_labels (skipn k ls)) < length (wire_of_labels (skipn j ls)).
Proof.
  revert j k. induction ls as [|l ls IH]; intros j k Hjk Hk; [cbn in Hk; lia|].
  destruct k as [|k]; [lia|]. destruct j as [|j].
  - cbn [skipn]. rewrite wire_of_labels_cons. cbn [length]. rewrite app_length.
    pose proof (wire_split ls k) as Hs. lia.
  - cbn [skipn]. apply IH; cbn [length] in Hk; lia.
Qed.

(** ** one name: what [emission] means for the output *)
Lemma emission_decodes d base ls enc d' O : emission d base ls enc d' -> Forall lab ls -> dict_inv d O -> length O = base ->
  exists ls', dec_in (O ++ enc) base ls' (base + length enc) /\ ci_labels ls ls' /\ dict_inv d' (O ++ enc).
Proof.
  intros (k & tail & Eenc & Hk & Htail & _ & _ & Hgrow) Hl Hd Lb. subst base.
  assert (Hlk : Forall lab (firstn k ls)) by (apply Forall_firstn; exact Hl).
  (* the tail decodes *)
  assert (Ht : exists tl, dec_in (O ++ labels_flat (firstn k ls) ++ tail) (length O + length (labels_flat (firstn k ls))) tl
                            (length O + length (labels_flat (firstn k ls)) + length tail) /\ ci_labels (skipn k ls) tl).
  { destruct Htail as [[Ek ->]|(Hlt & o & cand & -> & Hin & Hlen & Heq)].
    - exists []. split; [|rewrite Ek, skipn_all; constructor].
      replace (length O + length (labels_flat (firstn k ls))) with (length (O ++ labels_flat (firstn k ls))) by (rewrite app_length; reflexivity).
      cbn [length]. apply di_root. rewrite app_assoc. apply seg_end.
    - assert (Hold : In (o, cand) (sd_entries d)).
      { destruct (Hgrow o cand Hin) as [H|(j & Hj & Ec & _)]; [exact H|exfalso].
        pose proof (wire_len_skipn_lt ls j k Hj ltac:(lia)) as Hw. rewrite Ec in Hlen. lia. }
      destruct (Hd o cand Hold) as (cl & dl & e & Ec & Hcl & Hdec & Hci & Ho).
      exists dl. split.
      + replace (length O + length (labels_flat (firstn k ls))) with (length (O ++ labels_flat (firstn k ls))) by (rewrite app_length; reflexivity).
        cbn [length ptr_bytes]. apply (di_ptr _ _ o dl e).
        * rewrite app_assoc. apply seg_end.
        * pose proof (dec_in_end _ _ _ _ Hdec). rewrite app_length. lia.
        * exact Ho.
        * rewrite app_assoc. apply dec_in_app. apply dec_in_app. exact Hdec.
      + apply (ci_trans _ cl); [|exact Hci]. rewrite Ec in Heq.
        apply raw_names_eq_labels; [apply Forall_skipn; exact Hl|exact Hcl|exact Heq]. }
  destruct Ht as (tl & Hdt & Hcit).
  exists (firstn k ls ++ tl). rewrite Eenc. split; [|split].
  - replace (length O + length (labels_flat (firstn k ls) ++ tail)) with (length O + length (labels_flat (firstn k ls)) + length tail) by (rewrite app_length; lia).
    apply dec_in_prefix; [exact Hlk|exact Hdt].
  - rewrite <- (firstn_skipn k ls) at 1. apply ci_app; [apply ci_refl|exact Hcit].
  - intros o c Hin. destruct (Hgrow o c Hin) as [Hold|(j & Hj & Ec & Eo & Ho)].
    + apply (dict_inv_app d O _ Hd o c Hold).
    + exists (skipn j ls), (skipn j (firstn k ls) ++ tl), (length O + length (labels_flat (firstn k ls)) + length tail).
      split; [exact Ec|]. split; [apply Forall_skipn; exact Hl|]. split; [|split; [|exact Ho]].
      * assert (Ef : labels_flat (firstn k ls) = labels_flat (firstn j ls) ++ labels_flat (skipn j (firstn k ls))).
        { rewrite <- (firstn_firstn_le ls j k) by lia. unfold labels_flat. rewrite <- flat_map_app, firstn_skipn. reflexivity. }
        rewrite Eo. rewrite Ef in Hdt |- *.
        replace (O ++ (labels_flat (firstn j ls) ++ labels_flat (skipn j (firstn k ls))) ++ tail)
          with ((O ++ labels_flat (firstn j ls)) ++ labels_flat (skipn j (firstn k ls)) ++ tail) in * by (rewrite <- !app_assoc; reflexivity).
        replace (length O + length (labels_flat (firstn j ls))) with (length (O ++ labels_flat (firstn j ls))) by (rewrite app_length; reflexivity).
        apply dec_in_prefix; [apply Forall_skipn; exact Hlk|].
        apply (dec_in_eq _ _ _ _ _ _ Hdt); rewrite ?app_length; lia.
      * assert (Es : skipn j ls = skipn j (firstn k ls) ++ skipn k ls).
        { rewrite <- (firstn_skipn k ls) at 1. rewrite skipn_app. rewrite firstn_length.
          replace (j - Nat.min k (length ls)) with 0 by lia. reflexivity. }
        rewrite Es. apply ci_app; [apply ci_refl|exact Hcit].
Qed.

(** ** names, data and records as the output encodes them *)
Definition name_enc (out : bytes) (o : nat) (ls : list bytes) (e : nat) : Prop := exists ls', dec_in out o ls' e /\ ci_labels ls ls'.

Lemma dec_in_eq_name out o ls e o' e' : name_enc out o ls e -> o = o' -> e = e' -> name_enc out o' ls e'.
Proof. intros H -> ->. exact H. Qed.

Lemma name_enc_app out s o ls e : name_enc out o ls e -> name_enc (out ++ s) o ls e.
Proof. intros (ls' & H & C). exists ls'. split; [apply dec_in_app; exact H|exact C]. Qed.

Definition rdata_enc (out : bytes) (o : nat) (x : rd_view) (e : nat) : Prop :=
  match x with
  | RdName ls => name_enc out o ls e
  | RdMx pref ls => seg out o pref /\ name_enc out (o + length pref) ls e
  | RdSoa l1 l2 tail => exists m m2, name_enc out o l1 m /\ name_enc out m l2 m2 /\ seg out m2 tail /\ e = m2 + length tail
  | RdRaw b => seg out o b /\ e = o + length b
  end.

Lemma rdata_enc_app out s o x e : rdata_enc out o x e -> rdata_enc (out ++ s) o x e.
Proof.
  destruct x as [ls|pref ls|l1 l2 tail|b]; cbn [rdata_enc].
  - apply name_enc_app.
  - intros [H1 H2]. split; [apply seg_app; exact H1|apply name_enc_app; exact H2].
  - intros (m & m2 & H1 & H2 & H3 & E). exists m, m2. split; [apply name_enc_app; exact H1|]. split; [apply name_enc_app; exact H2|]. split; [apply seg_app; exact H3|exact E].
  - intros [H1 E]. split; [apply seg_app; exact H1|exact E].
Qed.

Lemma firstn_plus {A} : forall a b (l : list A), firstn (a + b) l = firstn a l ++ firstn b (skipn a l).
Proof. induction a as [|a IH]; intros b l; [reflexivity|]. destruct l as [|x l]; [cbn; rewrite firstn_nil; reflexivity|]. cbn [Nat.add firstn skipn app]. rewrite IH. reflexivity. Qed.

Lemma hdr_split (p : bytes) o n : firstn (10 + n) (skipn o p) = firstn 8 (skipn o p) ++ firstn 2 (skipn (o + 8) p) ++ firstn n (skipn (o + 10) p).
Proof.
  replace (10 + n) with (8 + (2 + n)) by lia. rewrite firstn_plus. f_equal. rewrite skipn_skipn. replace (8 + o) with (o + 8) by lia.
  rewrite firstn_plus. f_equal. rewrite skipn_skipn. f_equal. f_equal. lia.
Qed.

Lemma hdr10 (p : bytes) o : firstn 10 (skipn o p) = firstn 8 (skipn o p) ++ firstn 2 (skipn (o + 8) p).
Proof. pose proof (hdr_split p o 0) as H. cbn [firstn Nat.add] in H. rewrite app_nil_r in H. exact H. Qed.

Lemma patch_norm out h8 h2 X n site : length h8 = 8 -> length h2 = 2 ->
  patch_u16 (out ++ h8 ++ h2 ++ X) (length out + 8) n site = Ok (out ++ h8 ++ be16_bytes (N.of_nat n mod 65536) ++ X).
Proof.
  intros L8 L2. unfold patch_u16.
  replace (out ++ h8 ++ h2 ++ X) with ((out ++ h8) ++ h2 ++ X) by (rewrite <- app_assoc; reflexivity).
  replace (length out + 8) with (length (out ++ h8)) by (rewrite app_length; lia).
  rewrite write_at_mid by (rewrite be16_bytes_length; lia). rewrite <- app_assoc. reflexivity.
Qed.

Lemma bytes_ok_ptr o : bytes_ok (ptr_bytes o).
Proof.
  unfold bytes_ok, ptr_bytes. cbv zeta. constructor; [|constructor; [apply N.mod_lt; lia|constructor]].
  assert (H : (N.lor ((N.of_nat o / 256) mod 256) 192 < 2 ^ 8)%N); [|exact H].
  destruct (N.eq_dec (N.lor ((N.of_nat o / 256) mod 256) 192) 0) as [->|Hn]; [reflexivity|].
  apply N.log2_lt_pow2; [lia|]. rewrite N.log2_lor. apply N.max_lub_lt; [|reflexivity].
  destruct (N.eq_dec ((N.of_nat o / 256) mod 256) 0) as [->|Hn2]; [reflexivity|].
  apply N.log2_lt_pow2; [lia|]. apply N.mod_lt. lia.
Qed.

Lemma emission_bytes_ok d base ls enc d' : emission d base ls enc d' -> bytes_ok (wire_of_labels ls) -> bytes_ok enc.
Proof.
  intros (k & tail & -> & _ & Htail & _) Hw. apply bytes_ok_app.
  - unfold wire_of_labels in Hw. apply Forall_app in Hw. destruct Hw as [Hw _].
    rewrite <- (firstn_skipn k ls) in Hw. unfold labels_flat in Hw. rewrite flat_map_app in Hw. apply Forall_app in Hw. apply Hw.
  - destruct Htail as [[_ ->]|(_ & o & cand & -> & _)]; [repeat constructor; lia|apply bytes_ok_ptr].
Qed.

Lemma ccn_content p off ls d out : Forall lab ls -> length (wire_of_labels ls) <= 255 -> sd_wf d ->
  off + length (wire_of_labels ls) <= length p -> firstn (length (wire_of_labels ls)) (skipn off p) = wire_of_labels ls ->
  exists enc d', copy_compressed_name d out p off = Ok (out ++ enc, d', length enc, off + length (wire_of_labels ls)) /\
     length enc <= length (wire_of_labels ls) /\ sd_wf d' /\ (bytes_ok p -> bytes_ok enc) /\
     forall O, length O = length out -> dict_inv d O ->
       name_enc (O ++ enc) (length O) ls (length O + length enc) /\ dict_inv d' (O ++ enc).
Proof.
  intros Hl Hlen Hwf Hfit Hseg. destruct (located_split p off _ Hfit Hseg) as [E LA].
  destruct (copy_compressed_name_plain ls (firstn off p) (skipn (off + length (wire_of_labels ls)) p) d out Hl Hlen Hwf) as (enc & d' & Hc & Hem).
  rewrite <- E, LA in Hc. exists enc, d'. split; [exact Hc|].
  pose proof Hem as (k & tail & _ & _ & _ & Hle & Hwf' & _). split; [exact Hle|]. split; [exact Hwf'|].
  split; [intros Hbp; apply (emission_bytes_ok _ _ _ _ _ Hem); rewrite <- Hseg; apply bytes_ok_seg; exact Hbp|].
  intros O LO HdO. destruct (emission_decodes d (length out) ls enc d' O Hem Hl HdO LO) as (ls' & Hdec & Hci & Hd').
  rewrite <- LO in Hdec. split; [exists ls'; split; assumption|exact Hd'].
Qed.

Section Content.
  Variable p : bytes.
  Hypothesis Hb : bytes_ok p.

  (** the data of one record: what is appended ([R]) starts with the record's type / class / TTL bytes, then the length of
      what follows, then the data *)
  Lemma compress_rdata_content r e x d out : record_at p r e -> rdata_at p r x -> plain_at p r x -> sd_wf d -> dict_inv d out ->
    exists R d', compress_rdata d out p (rv_name_end r) (Some (rv_type r)) (Some (rv_rdlen r)) = Ok (out ++ R, d') /\
      sd_wf d' /\ dict_inv d' (out ++ R) /\ bytes_ok R /\ 10 <= length R <= 10 + rv_rdlen r /\
      seg (out ++ R) (length out) (firstn 8 (skipn (rv_name_end r) p)) /\
      seg (out ++ R) (length out + 8) (be16_bytes (N.of_nat (length R - 10))) /\
      rdata_enc (out ++ R) (length out + 10) x (length out + length R).
  Proof.
    intros Hr Hx (_ & _ & Hrl & Hrd) Hwf Hdi.
    pose proof (record_at_end _ _ _ Hr) as (He & _ & Hle). unfold rv_end in He.
    set (ne := rv_name_end r) in *.
    set (h8 := firstn 8 (skipn ne p)). set (h2 := firstn 2 (skipn (ne + 8) p)).
    assert (L8 : length h8 = 8) by (unfold h8; rewrite firstn_length, skipn_length; lia).
    assert (L2 : length h2 = 2) by (unfold h2; rewrite firstn_length, skipn_length; lia).
    assert (S8 : forall W X, seg (out ++ h8 ++ W ++ X) (length out) h8) by (intros W X; apply seg_mid).
    assert (S2 : forall W X, seg (out ++ h8 ++ W ++ X) (length out + 8) W).
    { intros W X. exists (out ++ h8), X. split; [rewrite <- app_assoc; reflexivity|rewrite app_length; lia]. }
    unfold compress_rdata, DNS_RR_HEADER_SIZE, DNS_RR_RDLEN_OFFSET.
    destruct x as [ls|pref ls|l1 l2 tail|b]; cbn [rdata_at plain_rdata] in Hx, Hrl, Hrd.
    - (* one name *)
      destruct Hx as (Hnt & Hcn). change (PacketSpec.is_name_type (rv_type r)) with (Uncompress.is_name_type (rv_type r)) in Hnt. rewrite Hnt.
      rewrite take_rdata_ok by lia. cbn [bind].
      destruct (cname_l_lab _ _ _ _ Hcn) as [Hlab Hl255].
      rewrite hdr10. fold h8 h2.
      destruct (ccn_content p (ne + 10) ls d (out ++ h8 ++ h2) Hlab Hl255 Hwf ltac:(lia) ltac:(rewrite <- Hrl; exact Hrd))
        as (enc & d' & Hc & Hlen & Hwf' & Hbe & HO).
      rewrite Hc. cbn [bind].
      replace ((out ++ h8 ++ h2) ++ enc) with (out ++ h8 ++ h2 ++ enc) by (rewrite <- !app_assoc; reflexivity).
      rewrite patch_norm by assumption. cbn [bind].
      set (W := be16_bytes (N.of_nat (length enc) mod 65536)).
      assert (LW : length W = 2) by apply be16_bytes_length.
      destruct (HO (out ++ h8 ++ W)) as [Hn Hd']; [rewrite !app_length; lia|apply dict_inv_app; exact Hdi|].
      replace ((out ++ h8 ++ W) ++ enc) with (out ++ h8 ++ W ++ enc) in * by (rewrite <- !app_assoc; reflexivity).
      exists (h8 ++ W ++ enc), d'. split; [reflexivity|]. split; [exact Hwf'|]. split; [exact Hd'|].
      split; [repeat apply bytes_ok_app; [apply bytes_ok_seg; exact Hb|apply bytes_ok_be16|exact (Hbe Hb)]|].
      rewrite !app_length, L8, LW. split; [lia|]. split; [apply S8|]. split.
      + replace (8 + (2 + length enc) - 10) with (length enc) by lia.
        replace (be16_bytes (N.of_nat (length enc))) with W; [apply S2|unfold W; f_equal; apply N.mod_small; lia].
      + cbn [rdata_enc]. rewrite !app_length, L8, LW in Hn.
        replace (length out + 10) with (length out + (8 + 2)) by lia.
        replace (length out + (8 + (2 + length enc))) with (length out + (8 + 2) + length enc) by lia. exact Hn.
    - (* MX *)
      destruct Hx as (Hnt & Hmx & H2 & Hpref & Hcn). change (PacketSpec.is_name_type (rv_type r)) with (Uncompress.is_name_type (rv_type r)) in Hnt.
      assert (Emx : (rv_type r =? TYPE_MX)%N = true) by (rewrite Hmx; reflexivity). rewrite Hnt, Emx.
      rewrite take_rdata_ok by lia. cbn [bind].
      destruct (cname_l_lab _ _ _ _ Hcn) as [Hlab Hl255].
      assert (Lpref : length pref = 2) by (rewrite Hpref, firstn_length, skipn_length; lia).
      rewrite app_length, Lpref in Hrl.
      destruct (seg_split p (ne + 10) 2 (length (wire_of_labels ls)) pref (wire_of_labels ls) ltac:(lia) ltac:(rewrite <- Hrl; exact Hrd) Lpref) as [_ Hseg].
      fold ne in Hpref, Hcn. rewrite hdr_split. fold h8 h2. rewrite <- Hpref.
      destruct (ccn_content p (ne + 10 + 2) ls d (out ++ h8 ++ h2 ++ pref) Hlab Hl255 Hwf ltac:(lia) Hseg)
        as (enc & d' & Hc & Hlen & Hwf' & Hbe & HO).
      rewrite Hc. cbn [bind].
      replace ((out ++ h8 ++ h2 ++ pref) ++ enc) with (out ++ h8 ++ h2 ++ pref ++ enc) by (rewrite <- !app_assoc; reflexivity).
      rewrite patch_norm by assumption. cbn [bind].
      set (W := be16_bytes (N.of_nat (2 + length enc) mod 65536)).
      assert (LW : length W = 2) by apply be16_bytes_length.
      destruct (HO (out ++ h8 ++ W ++ pref)) as [Hn Hd']; [rewrite !app_length; lia|apply dict_inv_app; exact Hdi|].
      replace ((out ++ h8 ++ W ++ pref) ++ enc) with (out ++ h8 ++ W ++ pref ++ enc) in * by (rewrite <- !app_assoc; reflexivity).
      exists (h8 ++ W ++ pref ++ enc), d'. split; [reflexivity|]. split; [exact Hwf'|]. split; [exact Hd'|].
      split; [repeat apply bytes_ok_app; [apply bytes_ok_seg; exact Hb|apply bytes_ok_be16|rewrite Hpref; apply bytes_ok_seg; exact Hb|exact (Hbe Hb)]|].
      rewrite !app_length, L8, LW, Lpref. split; [lia|]. split; [apply S8|]. split.
      + replace (8 + (2 + (2 + length enc)) - 10) with (2 + length enc) by lia.
        replace (be16_bytes (N.of_nat (2 + length enc))) with W; [apply S2|unfold W; f_equal; apply N.mod_small; lia].
      + cbn [rdata_enc]. rewrite !app_length, L8, LW, Lpref in Hn. split.
        * exists (out ++ h8 ++ W), enc. split; [rewrite <- !app_assoc; reflexivity|rewrite !app_length; lia].
        * rewrite Lpref. apply (dec_in_eq_name _ _ _ _ _ _ Hn); lia.
    - (* SOA *)
      destruct Hx as (Hnt & Hsoa & H21 & m & Hc1 & Hc2 & Htail). change (PacketSpec.is_name_type (rv_type r)) with (Uncompress.is_name_type (rv_type r)) in Hnt.
      assert (Emx : (rv_type r =? TYPE_MX)%N = false) by (rewrite Hsoa; reflexivity).
      assert (Esoa : (rv_type r =? TYPE_SOA)%N = true) by (rewrite Hsoa; reflexivity). rewrite Hnt, Emx, Esoa.
      rewrite take_rdata_ok by lia. cbn [bind].
      destruct (cname_l_lab _ _ _ _ Hc1) as [Hlab1 Hl1]. destruct (cname_l_lab _ _ _ _ Hc2) as [Hlab2 Hl2].
      assert (Ltail : length tail = 20) by (rewrite Htail, firstn_length, skipn_length; lia).
      rewrite !app_length, Ltail in Hrl.
      destruct (seg_split p (ne + 10) (length (wire_of_labels l1)) (length (wire_of_labels l2) + 20) (wire_of_labels l1) (wire_of_labels l2 ++ tail)
                          ltac:(lia) ltac:(rewrite <- Hrl; exact Hrd) eq_refl) as [Hs1 Hs23].
      destruct (seg_split p (ne + 10 + length (wire_of_labels l1)) (length (wire_of_labels l2)) 20 (wire_of_labels l2) tail
                          ltac:(lia) Hs23 eq_refl) as [Hs2 Hs3].
      rewrite hdr10. fold h8 h2.
      destruct (ccn_content p (ne + 10) l1 d (out ++ h8 ++ h2) Hlab1 Hl1 Hwf ltac:(lia) Hs1) as (enc1 & d1 & Hcc1 & Hlen1 & Hwf1 & Hbe1 & HO1).
      rewrite Hcc1. cbn [bind].
      destruct (ccn_content p (ne + 10 + length (wire_of_labels l1)) l2 d1 ((out ++ h8 ++ h2) ++ enc1) Hlab2 Hl2 Hwf1 ltac:(lia) Hs2)
        as (enc2 & d2 & Hcc2 & Hlen2 & Hwf2 & Hbe2 & HO2).
      rewrite Hcc2. cbn [bind].
      unfold slice.
      match goal with |- context [(?a <=? ?b) && (?b <=? length p)] => destruct ((a <=? b) && (b <=? length p)) eqn:Esl; [|lia] end.
      cbn [bind].
      replace (ne + 10 + length (wire_of_labels l1) + length (wire_of_labels l2) + 20 - (ne + 10 + length (wire_of_labels l1) + length (wire_of_labels l2))) with 20 by lia.
      rewrite Hs3.
      replace ((((out ++ h8 ++ h2) ++ enc1) ++ enc2) ++ tail) with (out ++ h8 ++ h2 ++ enc1 ++ enc2 ++ tail) by (rewrite <- !app_assoc; reflexivity).
      rewrite patch_norm by assumption. cbn [bind].
      set (W := be16_bytes (N.of_nat (length enc1 + length enc2 + 20) mod 65536)).
      assert (LW : length W = 2) by apply be16_bytes_length.
      destruct (HO1 (out ++ h8 ++ W)) as [Hn1 Hd1]; [rewrite !app_length; lia|apply dict_inv_app; exact Hdi|].
      destruct (HO2 ((out ++ h8 ++ W) ++ enc1)) as [Hn2 Hd2]; [rewrite !app_length; lia|exact Hd1|].
      replace (((out ++ h8 ++ W) ++ enc1) ++ enc2) with (out ++ h8 ++ W ++ enc1 ++ enc2) in * by (rewrite <- !app_assoc; reflexivity).
      exists (h8 ++ W ++ enc1 ++ enc2 ++ tail), d2. split; [reflexivity|]. split; [exact Hwf2|].
      split.
      { replace (out ++ h8 ++ W ++ enc1 ++ enc2 ++ tail) with ((out ++ h8 ++ W ++ enc1 ++ enc2) ++ tail) by (rewrite <- !app_assoc; reflexivity).
        apply dict_inv_app. exact Hd2. }
      split; [repeat apply bytes_ok_app; [apply bytes_ok_seg; exact Hb|apply bytes_ok_be16|exact (Hbe1 Hb)|exact (Hbe2 Hb)|rewrite Htail; apply bytes_ok_seg; exact Hb]|].
      rewrite !app_length, L8, LW, Ltail. split; [lia|]. split; [apply S8|]. split.
      + replace (8 + (2 + (length enc1 + (length enc2 + 20))) - 10) with (length enc1 + length enc2 + 20) by lia.
        replace (be16_bytes (N.of_nat (length enc1 + length enc2 + 20))) with W; [apply S2|unfold W; f_equal; apply N.mod_small; lia].
      + cbn [rdata_enc].
        exists (length out + 10 + length enc1), (length out + 10 + length enc1 + length enc2).
        split; [|split; [|split]].
        * replace (out ++ h8 ++ W ++ enc1 ++ enc2 ++ tail) with (((out ++ h8 ++ W) ++ enc1) ++ enc2 ++ tail) by (rewrite <- !app_assoc; reflexivity).
          apply name_enc_app. apply (dec_in_eq_name _ _ _ _ _ _ Hn1); rewrite ?app_length; lia.
        * replace (out ++ h8 ++ W ++ enc1 ++ enc2 ++ tail) with ((out ++ h8 ++ W ++ enc1 ++ enc2) ++ tail) by (rewrite <- !app_assoc; reflexivity).
          apply name_enc_app. apply (dec_in_eq_name _ _ _ _ _ _ Hn2); rewrite ?app_length; lia.
        * exists (out ++ h8 ++ W ++ enc1 ++ enc2), []. split; [rewrite app_nil_r, <- !app_assoc; reflexivity|rewrite !app_length; lia].
        * lia.
    - (* opaque data *)
      destruct Hx as (Hnt & Hnmx & Hnsoa & Eb). change (PacketSpec.is_name_type (rv_type r)) with (Uncompress.is_name_type (rv_type r)) in Hnt.
      rewrite Hnt. destruct (rv_type r =? TYPE_MX)%N eqn:E1; [lia|]. destruct (rv_type r =? TYPE_SOA)%N eqn:E2; [lia|].
      cbn [unwrap bind]. rewrite take_rdata_ok by lia. cbn [bind].
      rewrite hdr_split. fold h8 h2. unfold rdata_of in Eb. fold ne in Eb. rewrite <- Eb.
      assert (Lb : length b = rv_rdlen r) by (rewrite Eb; rewrite firstn_length, skipn_length; lia).
      exists (h8 ++ h2 ++ b), d. split; [reflexivity|]. split; [exact Hwf|]. split; [apply dict_inv_app; exact Hdi|].
      split; [repeat apply bytes_ok_app; [apply bytes_ok_seg; exact Hb|apply bytes_ok_seg; exact Hb|rewrite Eb; apply bytes_ok_seg; exact Hb]|].
      rewrite !app_length, L8, L2. split; [lia|]. split; [apply S8|]. split.
      + replace (8 + (2 + length b) - 10) with (length b) by lia.
        destruct Hr as (_ & _ & _ & _ & Hu & _). rewrite Lb. fold ne in Hu. rewrite <- (be16_of_u16 p (ne + 8) _ Hb Hu). apply S2.
      + cbn [rdata_enc]. split; [|lia].
        exists (out ++ h8 ++ h2), []. split; [rewrite app_nil_r, <- !app_assoc; reflexivity|rewrite !app_length; lia].
  Qed.

  (** ** one record, then a section, then the packet *)
  Variable v : ppacket.
  Hypothesis Hpk : pp_packet v = p.

  Definition rec_enc (out : bytes) (o : nat) (rx : rec_view * rd_view) (e : nat) : Prop :=
    exists ne, name_enc out o (rv_labels (fst rx)) ne /\ seg out ne (firstn 8 (skipn (rv_name_end (fst rx)) p)) /\
      seg out (ne + 8) (be16_bytes (N.of_nat (e - (ne + 10)))) /\ (N.of_nat (e - (ne + 10)) < 65536)%N /\ rdata_enc out (ne + 10) (snd rx) e.

  Fixpoint recs_enc (out : bytes) (o : nat) (l : list (rec_view * rd_view)) (e : nat) : Prop :=
    match l with [] => o = e | rx :: l' => exists m, rec_enc out o rx m /\ recs_enc out m l' e end.

  Lemma rec_enc_app out s o rx e : rec_enc out o rx e -> rec_enc (out ++ s) o rx e.
  Proof.
    intros (ne & H1 & H2 & H3 & H5 & H4). exists ne. split; [apply name_enc_app; exact H1|]. split; [apply seg_app; exact H2|].
    split; [apply seg_app; exact H3|]. split; [exact H5|apply rdata_enc_app; exact H4].
  Qed.

  Lemma recs_enc_app out s : forall l o e, recs_enc out o l e -> recs_enc (out ++ s) o l e.
  Proof.
    induction l as [|rx l IH]; intros o e H; cbn [recs_enc] in *; [exact H|].
    destruct H as (m & H1 & H2). exists m. split; [apply rec_enc_app; exact H1|apply IH; exact H2].
  Qed.

  Lemma recs_enc_snoc out : forall l o m rx e, recs_enc out o l m -> rec_enc out m rx e -> recs_enc out o (l ++ [rx]) e.
  Proof.
    induction l as [|r0 l IH]; intros o m rx e H1 H2; cbn [recs_enc app] in *.
    - subst m. exists e. split; [exact H2|reflexivity].
    - destruct H1 as (m0 & Ha & Hrest). exists m0. split; [exact Ha|apply (IH _ m); assumption].
  Qed.

  Variable Q : bytes.
  Definition cinv (done : list (rec_view * rd_view)) (acc : bytes * sdict) : Prop :=
    sd_wf (snd acc) /\ dict_inv (snd acc) (fst acc) /\ recs_enc (fst acc) (length Q) done (length (fst acc)) /\ bytes_ok (fst acc) /\ exists X, fst acc = Q ++ X.

  Lemma compress_record_content acc r x sec left done : record_at p r (rv_end r) -> rdata_at p r x -> plain_at p r x -> cinv done acc ->
    exists acc', compress_record v false acc (it_on sec r (rv_end r) left) = Ok acc' /\ cinv (done ++ [(r, x)]) acc'.
  Proof.
    intros Hr Hx Hpl (Hwf & Hdi & Hrecs & Hbout & (X & EX)). destruct acc as [out d]. cbn [fst snd] in *.
    pose proof Hpl as (Hne & Hseg & _ & _). pose proof Hr as (Hcn & _).
    pose proof (record_at_end _ _ _ Hr) as (_ & _ & Hle). unfold rv_end in *.
    destruct (cname_l_lab _ _ _ _ Hcn) as [Hlab Hl255].
    unfold compress_record. cbn [it_on it_offset unwrap bind]. rewrite Hpk.
    destruct (ccn_content p (rv_off r) (rv_labels r) d out Hlab Hl255 Hwf ltac:(lia) Hseg) as (enc & d1 & Hc & Hlenc & Hwf1 & Hbe & HO).
    rewrite Hc. cbn [bind].
    match goal with |- context [it_rr_type v ?it] => rewrite (it_rr_type_ok p v Hpk r _ it Hr eq_refl eq_refl) end. cbn [bind].
    match goal with |- context [it_rr_rdlen v ?it] => rewrite (it_rr_rdlen_ok p v Hpk r _ it Hr eq_refl eq_refl) end. cbn [bind it_on it_name_end].
    destruct (HO out eq_refl Hdi) as [Hn Hd1].
    destruct (compress_rdata_content r _ x d1 (out ++ enc) Hr Hx Hpl Hwf1 Hd1) as (R & d' & Hcr & Hwf' & Hd' & HbR & HR10 & Hs8 & Hs2 & Hrd).
    rewrite Hcr. exists ((out ++ enc) ++ R, d'). split; [reflexivity|]. unfold cinv. cbn [fst snd].
    split; [exact Hwf'|]. split; [exact Hd'|]. split; [|split; [repeat apply bytes_ok_app; [exact Hbout|exact (Hbe Hb)|exact HbR]|exists ((X ++ enc) ++ R); rewrite EX, <- !app_assoc; reflexivity]].
    apply (recs_enc_snoc _ done _ (length out)).
    - rewrite <- app_assoc. apply recs_enc_app. exact Hrecs.
    - assert (Hrl16 : (N.of_nat (rv_rdlen r) < 65536)%N) by (destruct Hr as (_ & _ & _ & _ & Hu & _); exact (u16_lt p _ _ Hb Hu)).
      exists (length (out ++ enc)). cbn [fst snd]. split; [|split; [exact Hs8|split; [|split]]].
      + apply name_enc_app. apply (dec_in_eq_name _ _ _ _ _ _ Hn); rewrite ?app_length; lia.
      + replace (length ((out ++ enc) ++ R) - (length (out ++ enc) + 10)) with (length R - 10) by (rewrite (app_length (out ++ enc) R); lia). exact Hs2.
      + rewrite (app_length (out ++ enc) R). lia.
      + rewrite (app_length (out ++ enc) R). exact Hrd.
  Qed.

  Definition plain_rx (rx : rec_view * rd_view) : Prop := plain_at p (fst rx) (snd rx).

  Section Walk.
    Variable next : rrit -> res (option rrit).
    Variable P : list rec_view -> Prop.
    Hypothesis P_tail : forall r l, P (r :: l) -> P l.
    Hypothesis Hnext : forall sec r0 off r l e',
      P (r :: l) -> record_at p r (rv_end r) -> records_at p (rv_end r) l e' -> off = rv_off r ->
      next (it_on sec r0 off (S (length l))) = Ok (Some (it_on sec r (rv_end r) (length l))).
    Hypothesis Hend : forall sec r0 off, next (it_on sec r0 off 0) = Ok None.

    Lemma walk_content : forall lx off e, records_at p off (map fst lx) e -> Forall (rd_ok p) lx -> Forall plain_rx lx -> P (map fst lx) ->
      forall fuel sec r0 x0 done acc, length lx < fuel -> record_at p r0 off -> rdata_at p r0 x0 -> plain_at p r0 x0 -> cinv done acc ->
      exists acc', walk_fold fuel next (compress_record v false) (Some (it_on sec r0 off (length lx))) acc = Ok acc' /\
                   cinv (done ++ (r0, x0) :: lx) acc'.
    Proof.
      induction lx as [|[r x] lx IH]; intros off e Hl Hg Hpl HP fuel sec r0 x0 done acc Hfuel Hr0 Hx0 Hp0 Hinv;
        (destruct fuel as [|fuel]; [cbn in Hfuel; lia|]); cbn [walk_fold];
        pose proof (record_at_end _ _ _ Hr0) as (Eoff & _); rewrite Eoff in Hr0 |- *.
      - destruct (compress_record_content acc r0 x0 sec (length (@nil (rec_view * rd_view))) done Hr0 Hx0 Hp0 Hinv) as (acc1 & Hc1 & Hinv1).
        rewrite Hc1. cbn [bind length]. rewrite Hend. cbn [bind]. rewrite walk_fold_None.
        exists acc1. split; [reflexivity|exact Hinv1].
      - destruct (compress_record_content acc r0 x0 sec (length ((r, x) :: lx)) done Hr0 Hx0 Hp0 Hinv) as (acc1 & Hc1 & Hinv1).
        rewrite Hc1. cbn [bind]. rewrite Eoff in Hl. cbn [map fst] in Hl, HP. destruct (records_cons_inv p _ _ _ _ Hl) as (Hoff & Hr & Hl1).
        cbn [length]. rewrite <- (map_length fst lx). rewrite (Hnext sec r0 _ r (map fst lx) e HP Hr Hl1 Hoff). cbn [bind]. rewrite map_length.
        destruct (IH (rv_end r) e Hl1 (Forall_inv_tail Hg) (Forall_inv_tail Hpl) (P_tail _ _ HP) fuel sec r x (done ++ [(r0, x0)]) acc1 ltac:(cbn in Hfuel; lia) Hr
                     (Forall_inv Hg) (Forall_inv Hpl) Hinv1) as (acc' & Hw & Hinv').
        exists acc'. split; [exact Hw|]. rewrite <- app_assoc in Hinv'. exact Hinv'.
    Qed.
  End Walk.

  Lemma section_incl_content sec off lx e count done acc :
    records_at p off (map fst lx) e -> e <= length p -> count = N.of_nat (length lx) -> Forall (rd_ok p) lx -> Forall plain_rx lx -> hdr_sec p v sec count off ->
    cinv done acc ->
    exists acc', (first <- r_next_including_opt v (it_new sec) ;;
                  walk_fold (walk_fuel p) (r_next_including_opt v) (compress_record v false) first acc) = Ok acc' /\ cinv (done ++ lx) acc'.
  Proof.
    intros Hl Hend Hcount Hg Hpl Hhdr Hinv. pose proof (records_at_span _ _ _ _ Hl) as Hspan. rewrite map_length in Hspan.
    destruct lx as [|[r x] lx].
    - cbn [length N.of_nat] in Hcount. rewrite Hcount in Hhdr. rewrite (first_none p v Hpk sec off Hhdr). cbn [bind]. rewrite walk_fold_None.
      exists acc. split; [reflexivity|]. rewrite app_nil_r. exact Hinv.
    - cbn [map fst] in Hl. destruct (records_cons_inv p _ _ _ _ Hl) as (Hoff & Hr & Hl1).
      assert (Hpos : (0 <? N.of_nat (length ((r, x) :: lx)))%N = true) by (cbn [length]; lia).
      unfold hdr_sec in Hhdr. rewrite Hcount, Hpos, Hoff in Hhdr.
      rewrite (first_on_record p v Hpk r (rv_end r) sec _ (length lx) Hr eq_refl) by exact Hhdr. cbn [bind].
      change {| it_section := sec; it_offset := Some (rv_off r); it_offset_next := rv_end r; it_name_end := rv_name_end r;
                it_rrs_left := N.of_nat (length lx) |} with (it_on sec r (rv_end r) (length lx)).
      apply (walk_content (r_next_including_opt v) (fun _ => True) (fun _ _ _ => I) (incl_next p v Hpk) (incl_end v)
               lx (rv_end r) e Hl1 (Forall_inv_tail Hg) (Forall_inv_tail Hpl) I); [|exact Hr|exact (Forall_inv Hg)|exact (Forall_inv Hpl)|exact Hinv].
      unfold walk_fuel. cbn [length] in Hspan. lia.
  Qed.

  Lemma section_skip_content sec off lx e count done acc :
    records_at p off (map fst lx) e -> e <= length p -> count = N.of_nat (length lx) -> Forall (rd_ok p) lx -> Forall plain_rx lx -> hdr_sec p v sec count off ->
    forallb non_opt (map fst lx) = true -> cinv done acc ->
    exists acc', (first <- r_next v (it_new sec) ;;
                  walk_fold (walk_fuel p) (r_next v) (compress_record v false) first acc) = Ok acc' /\ cinv (done ++ lx) acc'.
  Proof.
    intros Hl Hend Hcount Hg Hpl Hhdr Hno Hinv. pose proof (records_at_span _ _ _ _ Hl) as Hspan. rewrite map_length in Hspan.
    unfold r_next at 1.
    destruct lx as [|[r x] lx].
    - cbn [length N.of_nat] in Hcount. rewrite Hcount in Hhdr. rewrite (first_none p v Hpk sec off Hhdr). cbn [bind]. rewrite walk_fold_None.
      exists acc. split; [reflexivity|]. rewrite app_nil_r. exact Hinv.
    - cbn [map fst] in Hl, Hno. destruct (records_cons_inv p _ _ _ _ Hl) as (Hoff & Hr & Hl1).
      assert (Hpos : (0 <? N.of_nat (length ((r, x) :: lx)))%N = true) by (cbn [length]; lia).
      unfold hdr_sec in Hhdr. rewrite Hcount, Hpos, Hoff in Hhdr.
      rewrite (first_on_record p v Hpk r (rv_end r) sec _ (length lx) Hr eq_refl) by exact Hhdr. cbn [bind].
      change {| it_section := sec; it_offset := Some (rv_off r); it_offset_next := rv_end r; it_name_end := rv_name_end r;
                it_rrs_left := N.of_nat (length lx) |} with (it_on sec r (rv_end r) (length lx)).
      assert (Eo : is_opt r = false).
      { cbn [forallb] in Hno. apply andb_true_iff in Hno. destruct Hno as [Hx' _]. unfold non_opt in Hx'. destruct (is_opt r); [discriminate|reflexivity]. }
      rewrite <- (map_length fst lx).
      rewrite (maybe_skip_spec p v Hpk sec r (rv_end r) (map fst lx) e false Hr Hl1 (nonopt_opt_ok _ Hno false)) by (rewrite Eo; discriminate).
      cbn [bind]. unfold after_skip. rewrite Eo. rewrite map_length.
      assert (Hno1 : forallb non_opt (map fst lx) = true) by (cbn [forallb] in Hno; apply andb_true_iff in Hno; apply Hno).
      assert (Ptail : forall (r' : rec_view) (l' : list rec_view), forallb non_opt (r' :: l') = true -> forallb non_opt l' = true).
      { intros r' l' H'. cbn [forallb] in H'. apply andb_true_iff in H'. apply H'. }
      apply (walk_content (r_next v) (fun l => forallb non_opt l = true) Ptail (skip_next p v Hpk) (skip_end v)
               lx (rv_end r) e Hl1 (Forall_inv_tail Hg) (Forall_inv_tail Hpl) Hno1); [|exact Hr|exact (Forall_inv Hg)|exact (Forall_inv Hpl)|exact Hinv].
      unfold walk_fuel. cbn [length] in Hspan. lia.
  Qed.
End Content.

(** with an empty dictionary a name is written in full *)
Lemma emission_new base ls enc d' : emission sd_new base ls enc d' -> enc = wire_of_labels ls.
Proof.
  intros (k & tail & Eenc & Hk & Htail & _ & _ & Hgrow).
  destruct Htail as [[Ek ->]|(Hlt & o & cand & -> & Hin & Hlen & _)].
  - rewrite Eenc, Ek, firstn_all. reflexivity.
  - exfalso. destruct (Hgrow o cand Hin) as [H|(j & Hj & Ec & _)]; [destruct H|].
    pose proof (wire_len_skipn_lt ls j k Hj ltac:(lia)) as Hw. rewrite Ec in Hlen. lia.
Qed.

Theorem compress_content : forall p v, bytes_ok p -> parse p = Ok v -> uncompress p = Ok p ->
  exists out qls qt lxa lxn lxr X,
    compress p = Ok out /\ bytes_ok out /\ reading p qls qt lxa lxn lxr /\
    out = (firstn 12 p ++ wire_of_labels qls ++ firstn 4 (skipn (12 + length (wire_of_labels qls)) p)) ++ X /\
    recs_enc p out (12 + length (wire_of_labels qls) + 4) (lxa ++ lxn ++ lxr) (length out).
Proof.
  intros p v Hb Hp Hu.
  destruct (fixed_point_plain p v Hb Hp Hu) as (qls & qt & lxa & lxn & lxr & R & P & Hqfit & Hqseg).
  destruct (parse_view p v Hb Hp) as (an & ns & ar & qe & e1 & s1 & e2 & s2 & s3 & Hpk & Hqn & Hq4 & Han & Hns & Har &
                                      Hlan & Hlns & Hlar & Hc1 & Hc2 & Hc3 & Hoan & Hons & Hoar).
  destruct (rrs_wf_full p _ _ _ _ _ _ Hc1) as (La & Hla & Hlla & _ & _ & Hnoa & _).
  destruct (rrs_wf_full p _ _ _ _ _ _ Hc2) as (Ln & Hln & Hlln & _ & _ & Hnon & _).
  specialize (Hnoa ltac:(discriminate)). specialize (Hnon ltac:(discriminate)).
  pose proof R as R0.
  destruct R as [(qe' & e1' & e2' & Hcn & _ & _ & _ & Ra & Rn & Rr) Hx Han' Hns' Har'].
  destruct Hqn as (qls' & Hcn'). destruct (cname_l_fun _ _ _ _ _ _ Hcn Hcn') as [<- ->].
  rewrite Han in Han'. rewrite Hns in Hns'. rewrite Har in Har'. inversion Han'; inversion Hns'; inversion Har'; subst an ns ar.
  destruct (records_at_fun p _ _ _ Hla _ _ Ra ltac:(rewrite !map_length in *; lia)) as [Ela <-].
  destruct (records_at_fun p _ _ _ Hln _ _ Rn ltac:(rewrite !map_length in *; lia)) as [Eln <-].
  rewrite Ela in Hnoa. rewrite Eln in Hnon.
  apply Forall_app in Hx. destruct Hx as [Hxa Hx]. apply Forall_app in Hx. destruct Hx as [Hxn Hxr].
  apply Forall_app in P. destruct P as [Pa P]. apply Forall_app in P. destruct P as [Pn Pr].
  pose proof (located_end p 12 qls qe Hcn Hqfit Hqseg) as Eqe.
  destruct (question_cursor_spec p v Hb Hp) as (qls0 & qe0 & qt0 & qc0 & itq & Hcn0 & _ & _ & Hq0 & Hqoff & Hqne & _ & _ & _ & _ & Hqend).
  destruct (cname_l_fun _ _ _ _ _ _ Hcn Hcn0) as [<- <-].
  assert (H12 : 12 < length p) by (destruct Hcn; lia).
  destruct (cname_l_lab _ _ _ _ Hcn) as [Hlabq Hlq].
  destruct (copy_compressed_name_plain qls (firstn 12 p) (skipn (12 + length (wire_of_labels qls)) p) sd_new (firstn 12 p) Hlabq Hlq
              ltac:(unfold sd_wf; cbn; lia)) as (encq & dq & Hcq & Hem).
  destruct (located_split p 12 _ Hqfit Hqseg) as [Ep L12]. rewrite <- Ep, L12 in Hcq.
  pose proof (emission_new _ _ _ _ Hem) as Eenc. subst encq.
  assert (Hwfq : sd_wf dq) by (destruct Hem as (k & tail & _ & _ & _ & _ & Hwf' & _); exact Hwf').
  destruct (emission_decodes sd_new (length (firstn 12 p)) qls _ dq (firstn 12 p) Hem Hlabq (dict_inv_new _) eq_refl) as (_ & _ & _ & Hdq).
  set (Q := firstn 12 p ++ wire_of_labels qls ++ firstn 4 (skipn qe p)).
  pose (acc0 := ((firstn 12 p ++ wire_of_labels qls) ++ firstn 4 (skipn qe p), dq)).
  assert (EQ : fst acc0 = Q) by (unfold acc0, Q; cbn [fst]; rewrite <- app_assoc; reflexivity).
  assert (I0 : cinv p Q [] acc0).
  { unfold cinv, acc0. cbn [fst snd recs_enc]. split; [exact Hwfq|]. split; [apply dict_inv_app; exact Hdq|].
    split; [unfold Q; rewrite <- app_assoc; reflexivity|].
    split; [apply bytes_ok_app; [apply bytes_ok_app; [apply Forall_firstn; exact Hb|rewrite <- Hqseg; apply bytes_ok_seg; exact Hb]|apply bytes_ok_seg; exact Hb]|].
    exists []; unfold Q; rewrite app_nil_r, <- app_assoc; reflexivity. }
  pose proof (records_at_span _ _ _ _ Rr) as Hsp3. pose proof (records_at_span _ _ _ _ Rn) as Hsp2.
  destruct (section_skip_content p Hb v Hpk Q SAnswer (qe + 4) lxa e1 (N.of_nat (length lxa)) [] acc0 Ra ltac:(lia) eq_refl Hxa Pa (conj Han Hoan) Hnoa I0)
    as (acc1 & HA & I1).
  apply bind_ok in HA. destruct HA as (fa & Hfa & Hwa).
  destruct (section_skip_content p Hb v Hpk Q SNameServers e1 lxn e2 (N.of_nat (length lxn)) _ acc1 Rn ltac:(lia) eq_refl Hxn Pn (conj Hns Hons) Hnon I1)
    as (acc2 & HN & I2).
  apply bind_ok in HN. destruct HN as (fn & Hfn & Hwn).
  destruct (section_incl_content p Hb v Hpk Q SAdditional e2 lxr (length p) (N.of_nat (length lxr)) _ acc2 Rr (le_n _) eq_refl Hxr Pr (conj Har Hoar) I2)
    as (acc3 & HR & I3).
  apply bind_ok in HR. destruct HR as (fr & Hfr & Hwr).
  destruct I3 as (_ & _ & Hrecs & Hbo & (X & EX)). cbn [app] in Hrecs.
  exists (fst acc3), qls, qt, lxa, lxn, lxr, X. split; [|split; [exact Hbo|split; [exact R0|]]].
  - unfold compress, DNS_HEADER_SIZE. destruct (length p <? 12) eqn:E12; [lia|]. rewrite Hp. cbn [bind]. rewrite Hq0. cbn [bind].
    assert (Hfuel : exists f, walk_fuel p = S f) by (unfold walk_fuel; exists (length p + 1); lia).
    destruct Hfuel as (f & Hf). rewrite Hf at 1. cbn [walk_fold].
    unfold compress_record at 1. rewrite Hqoff. cbn [unwrap bind]. rewrite Hpk.
    rewrite Hcq. cbn [bind]. rewrite Hqne.
    unfold compress_rdata, DNS_RR_QUESTION_HEADER_SIZE. rewrite take_rdata_ok by lia. cbn [bind].
    rewrite Hqend. cbn [bind]. rewrite walk_fold_None. cbn [bind]. fold acc0.
    rewrite Hfa. cbn [bind]. rewrite Hwa. cbn [bind].
    rewrite Hfn. cbn [bind]. rewrite Hwn. cbn [bind].
    rewrite Hfr. cbn [bind]. rewrite Hwr. cbn [bind]. reflexivity.
  - rewrite <- Eqe. fold Q. split; [rewrite EX; unfold Q; reflexivity|].
    replace (qe + 4) with (length Q); [rewrite <- app_assoc in Hrecs; exact Hrecs|].
    unfold Q. rewrite !app_length, !firstn_length, skipn_length. lia.
Qed.

(** ** the reference decoder is a function of (output, offset); it reads what the parser's name policy reads *)
Lemma below_in n x : (x < N.of_nat n)%N -> In x (map N.of_nat (seq 0 n)).
Proof. intros H. rewrite <- (N2Nat.id x). apply in_map. apply in_seq. lia. Qed.

Lemma lor_192 x : (x < 64)%N -> N.lor x 192 = (x + 192)%N.
Proof.
  intros H. assert (S : forallb (fun x => N.lor x 192 =? x + 192)%N (map N.of_nat (seq 0 64)) = true) by (vm_compute; reflexivity).
  rewrite forallb_forall in S. specialize (S x (below_in 64 x H)). apply N.eqb_eq in S. exact S.
Qed.

Lemma ptr_hi hi : (hi < 256)%N -> N.land hi 192 = 192%N -> N.lor (N.land hi 63) 192 = hi.
Proof.
  intros H E. assert (S : forallb (fun hi => if (N.land hi 192 =? 192)%N then (N.lor (N.land hi 63) 192 =? hi)%N else true) (map N.of_nat (seq 0 256)) = true)
    by (vm_compute; reflexivity).
  rewrite forallb_forall in S. specialize (S hi (below_in 256 hi H)). rewrite E in S. cbn [N.eqb Pos.eqb] in S. apply N.eqb_eq in S. exact S.
Qed.

Lemma land63_lt hi : (N.land hi 63 < 64)%N.
Proof. change 63%N with (N.ones 6). rewrite N.land_ones. change (2 ^ 6)%N with 64%N. apply N.mod_lt. lia. Qed.

Lemma ptr_bytes_of_target hi lo : (hi < 256)%N -> (lo < 256)%N -> N.land hi 192 = 192%N -> ptr_bytes (ptr_target hi lo) = [hi; lo].
Proof.
  intros Hh Hl E. unfold ptr_bytes, ptr_target. rewrite N2Nat.id. pose proof (land63_lt hi) as H63.
  assert (E1 : ((N.land hi 63 * 256 + lo) / 256 = N.land hi 63)%N) by (rewrite N.div_add_l by lia; rewrite N.div_small by lia; lia).
  assert (E2 : ((N.land hi 63 * 256 + lo) mod 256 = lo)%N) by (rewrite N.add_comm, N.mod_add by lia; apply N.mod_small; lia).
  rewrite E1, E2. rewrite (N.mod_small (N.land hi 63)) by lia. rewrite ptr_hi by assumption. reflexivity.
Qed.

Lemma ptr_bytes_inj t t' : (N.of_nat t < 16384)%N -> (N.of_nat t' < 16384)%N -> ptr_bytes t = ptr_bytes t' -> t = t'.
Proof.
  intros H H' E. unfold ptr_bytes in E. cbv zeta in E. injection E as E1 E2.
  assert (B : (N.of_nat t / 256 < 64)%N) by (apply N.div_lt_upper_bound; lia).
  assert (B' : (N.of_nat t' / 256 < 64)%N) by (apply N.div_lt_upper_bound; lia).
  rewrite (N.mod_small (N.of_nat t / 256)), (N.mod_small (N.of_nat t' / 256)) in E1 by lia.
  rewrite !lor_192 in E1 by assumption.
  pose proof (N.div_mod' (N.of_nat t) 256). pose proof (N.div_mod' (N.of_nat t') 256). lia.
Qed.

Lemma ptr_first_ge t : (N.of_nat t < 16384)%N -> exists b0 b1, ptr_bytes t = [b0; b1] /\ (192 <= b0)%N.
Proof.
  intros H. unfold ptr_bytes. cbv zeta. eexists _, _. split; [reflexivity|].
  assert (B : (N.of_nat t / 256 < 64)%N) by (apply N.div_lt_upper_bound; lia).
  rewrite (N.mod_small (N.of_nat t / 256)) by lia. rewrite lor_192 by assumption. lia.
Qed.

Lemma seg_head out o x X : seg out o (x :: X) -> nth_error out o = Some x.
Proof. intros (A & B & -> & <-). cbn [app]. apply nth_head. Qed.

Lemma dec_in_fun out : forall o ls e, dec_in out o ls e -> forall ls' e', dec_in out o ls' e' -> ls = ls' /\ e = e'.
Proof.
  induction 1 as [o H|o l ls e Hl H _ IH|o t ls e0 H Ht Ht2 _ IH]; intros ls' e' H'.
  - inversion H' as [o' G|o' l' ls0 e0' Hl' G _|o' t' ls0 e0' G Gt Gt2 _]; subst.
    + split; reflexivity.
    + apply seg_head in H. apply seg_head in G. unfold lab in Hl'. rewrite H in G. injection G as G. lia.
    + destruct (ptr_first_ge t' Gt2) as (b0 & b1 & Eb & Hb0). rewrite Eb in G. apply seg_head in H. apply seg_head in G. rewrite H in G. injection G as G. lia.
  - inversion H' as [o' G|o' l' ls0 e0' Hl' G Gd|o' t' ls0 e0' G Gt Gt2 _]; subst.
    + apply seg_head in H. apply seg_head in G. unfold lab in Hl. rewrite H in G. injection G as G. lia.
    + pose proof (seg_head _ _ _ _ H) as N1. pose proof (seg_head _ _ _ _ G) as N2. rewrite N1 in N2. injection N2 as N2.
      assert (Ll : length l = length l') by lia.
      assert (El : N.of_nat (length l) :: l = N.of_nat (length l') :: l') by (apply (seg_fun out o); [exact H|exact G|cbn [length]; lia]).
      injection El as _ El. subst l'. destruct (IH _ _ Gd) as [-> ->]. split; reflexivity.
    + destruct (ptr_first_ge t' Gt2) as (b0 & b1 & Eb & Hb0). rewrite Eb in G. apply seg_head in H. apply seg_head in G. unfold lab in Hl. rewrite H in G. injection G as G. lia.
  - inversion H' as [o' G|o' l' ls0 e0' Hl' G _|o' t' ls0 e0' G Gt Gt2 Gd]; subst.
    + destruct (ptr_first_ge t Ht2) as (b0 & b1 & Eb & Hb0). rewrite Eb in H. apply seg_head in H. apply seg_head in G. rewrite H in G. injection G as G. lia.
    + destruct (ptr_first_ge t Ht2) as (b0 & b1 & Eb & Hb0). rewrite Eb in H. apply seg_head in H. apply seg_head in G. unfold lab in Hl'. rewrite H in G. injection G as G. lia.
    + assert (Et : ptr_bytes t = ptr_bytes t') by (apply (seg_fun out o); [exact H|exact G|reflexivity]).
      apply ptr_bytes_inj in Et; [|assumption|assumption]. subst t'. destruct (IH _ _ Gd) as [-> _]. split; reflexivity.
Qed.

Lemma seg_of_nth (p : bytes) o x : nth_error p o = Some x -> seg p o [x].
Proof.
  intros H. destruct (nth_error_split p o H) as (A & B & E & L). exists A, B. split; [exact E|exact L].
Qed.

Lemma name_at_dec_in p : bytes_ok p -> forall off bar low hops budget ls e, name_at p off bar low hops budget ls e -> low <= off -> dec_in p off ls e.
Proof.
  intros Hb. induction 1 as [off bar low hops budget Hoff Hn Hbud
                            |off bar low hops budget len ls e Hoff Hn H1 H63 Hfit Hch Hbud _ IH
                            |off bar low hops budget hi lo tb ls e' Hoff Hn Hp Hn1 Ht Hnt Htb _ IH]; intros Hlow.
  - apply di_root. apply seg_of_nth. exact Hn.
  - set (l := firstn (N.to_nat len) (skipn (off + 1) p)).
    assert (Ll : length l = N.to_nat len) by (unfold l; rewrite firstn_length, skipn_length; lia).
    apply di_lab.
    + unfold lab. lia.
    + rewrite Ll, N2Nat.id. apply seg_of_firstn; [cbn [length]; lia|].
      cbn [length]. rewrite Ll. change (S (N.to_nat len)) with (1 + N.to_nat len). rewrite firstn_plus.
      rewrite (firstn_S_skipn p off len 0 Hn). cbn [firstn app]. rewrite skipn_skipn. replace (1 + off) with (off + 1) by lia. reflexivity.
    + rewrite Ll. apply (dec_in_eq _ _ _ _ _ _ (IH ltac:(lia))); lia.
  - pose proof (bytes_ok_nth _ _ _ Hb Hn) as Bh. pose proof (bytes_ok_nth _ _ _ Hb Hn1) as Bl.
    apply (di_ptr _ off (ptr_target hi lo) ls e').
    + rewrite ptr_bytes_of_target by assumption. apply seg_of_firstn; [assert (off + 1 < length p) by (apply nth_error_Some; rewrite Hn1; discriminate); cbn [length]; lia|].
      cbn [length]. apply (firstn2_skipn p off hi lo Hn Hn1).
    + lia.
    + unfold ptr_target. rewrite N2Nat.id. pose proof (land63_lt hi). lia.
    + apply IH. lia.
Qed.

(** ** When the parser accepts the output, it reads the same message up to the case of names *)
Definition rd_ci (x x' : rd_view) : Prop :=
  match x, x' with
  | RdName a, RdName b => ci_labels a b
  | RdMx pa a, RdMx pb b => pa = pb /\ ci_labels a b
  | RdSoa a1 a2 ta, RdSoa b1 b2 tb => ci_labels a1 b1 /\ ci_labels a2 b2 /\ ta = tb
  | RdRaw a, RdRaw b => a = b
  | _, _ => False
  end.

Definition ci_rec (rx rx' : rec_view * rd_view) : Prop :=
  ci_labels (rv_labels (fst rx)) (rv_labels (fst rx')) /\ rv_type (fst rx') = rv_type (fst rx) /\
  rv_class (fst rx') = rv_class (fst rx) /\ rv_ttl (fst rx') = rv_ttl (fst rx) /\ rd_ci (snd rx) (snd rx').

Lemma seg_nth out o X i : seg out o X -> i < length X -> nth_error out (o + i) = nth_error X i.
Proof. intros (A & B & -> & <-) H. apply nth_error_mid. exact H. Qed.

Lemma seg_firstn out o X : seg out o X -> firstn (length X) (skipn o out) = X.
Proof. intros (A & B & -> & <-). apply firstn_skipn_mid. Qed.

Lemma nth_firstn_skipn (p : bytes) a n i : i < n -> nth_error (firstn n (skipn a p)) i = nth_error p (a + i).
Proof.
  intros H. rewrite nth_error_firstn by exact H. rewrite nth_error_skipn. reflexivity.
Qed.

Lemma cname_dec_in p off ls e : bytes_ok p -> cname_l p off ls e -> dec_in p off ls e.
Proof. intros Hb [_ H]. apply (name_at_dec_in p Hb _ _ _ _ _ _ _ H). lia. Qed.

(** what [rec_link] needs of the record the encoding was made from: its fixed fields stand in [p], and its data has the shape
    its type demands (this holds for the records of a reading, and also for such records with names replaced) *)
Definition fields_at (p : bytes) (r : rec_view) : Prop :=
  u16_at p (rv_name_end r) (rv_type r) /\ u16_at p (rv_name_end r + 2) (rv_class r) /\ u32_at p (rv_name_end r + 4) (rv_ttl r) /\
  rv_name_end r + 10 <= length p.

Definition rd_shape (r : rec_view) (x : rd_view) : Prop :=
  match x with
  | RdName _ => PacketSpec.is_name_type (rv_type r) = true
  | RdMx pref _ => PacketSpec.is_name_type (rv_type r) = false /\ rv_type r = TYPE_MX /\ length pref = 2
  | RdSoa _ _ tail => PacketSpec.is_name_type (rv_type r) = false /\ rv_type r = TYPE_SOA /\ length tail = 20
  | RdRaw _ => PacketSpec.is_name_type (rv_type r) = false /\ rv_type r <> TYPE_MX /\ rv_type r <> TYPE_SOA
  end.

Lemma fields_of_record p r e : record_at p r e -> fields_at p r.
Proof. intros (_ & Ht & Hc & Httl & _ & He & Hle & _). unfold fields_at. repeat split; try assumption. lia. Qed.

Lemma shape_of_rdata p r e x : record_at p r e -> rdata_at p r x -> rd_shape r x.
Proof.
  intros Hr Hx. pose proof (record_at_end _ _ _ Hr) as (He & _ & Hle). unfold rv_end in He.
  unfold rdata_at in Hx. cbv zeta in Hx. destruct x as [ls|pref ls|l1 l2 tail|b]; cbn [rd_shape].
  - apply Hx.
  - destruct Hx as (H1 & H2 & H3 & -> & _). repeat split; try assumption. rewrite firstn_length, skipn_length. lia.
  - destruct Hx as (H1 & H2 & H3 & m & _ & _ & ->). repeat split; try assumption. rewrite firstn_length, skipn_length. lia.
  - destruct Hx as (H1 & H2 & H3 & _). auto.
Qed.

Section Link.
  Variables p out : bytes.
  Hypothesis Hb : bytes_ok p.
  Hypothesis Hbo : bytes_ok out.

  Lemma name_link o ls e ls' e' : name_enc out o ls e -> cname_l out o ls' e' -> ci_labels ls ls' /\ e = e'.
  Proof.
    intros (l2 & Hd & Hc) Hcn. destruct (dec_in_fun out _ _ _ Hd _ _ (cname_dec_in out o ls' e' Hbo Hcn)) as [-> ->]. split; [exact Hc|reflexivity].
  Qed.

  Lemma rec_link r x r' x' m : fields_at p r -> rd_shape r x -> rec_enc p out (rv_off r') (r, x) m ->
    record_at out r' (rv_end r') -> rdata_at out r' x' -> ci_rec (r, x) (r', x') /\ rv_end r' = m.
  Proof.
    intros (Ht & Hc & Httl & Hle0) Hx (ne & Hname & H8 & Hlen & Hl16 & Hrd) Hr' Hx'. cbn [fst snd] in *.
    destruct Hr' as (Hcn' & Ht' & Hc' & Httl' & Hrl' & _ & Hle' & _).
    destruct (name_link _ _ _ _ _ Hname Hcn') as [Hci Ene]. subst ne.
    set (a := rv_name_end r) in *. set (a' := rv_name_end r') in *.
    assert (Hnth : forall i, i < 8 -> nth_error out (a' + i) = nth_error p (a + i)).
    { intros i Hi. rewrite (seg_nth out a' _ i H8) by (rewrite firstn_length, skipn_length; lia). apply nth_firstn_skipn. exact Hi. }
    assert (Et : rv_type r' = rv_type r).
    { destruct Ht' as (h1 & l1 & A1 & A2 & ->). destruct Ht as (h2 & l2 & B1 & B2 & ->).
      rewrite <- (Nat.add_0_r a') in A1. rewrite <- (Nat.add_0_r a) in B1. rewrite Hnth in A1 by lia. rewrite Hnth in A2 by lia. congruence. }
    assert (Ec : rv_class r' = rv_class r).
    { destruct Hc' as (h1 & l1 & A1 & A2 & ->). destruct Hc as (h2 & l2 & B1 & B2 & ->).
      rewrite <- Nat.add_assoc in A2, B2. rewrite Hnth in A1 by lia. rewrite Hnth in A2 by lia. cbn [Nat.add] in *. congruence. }
    assert (Ettl : rv_ttl r' = rv_ttl r).
    { destruct Httl' as (x1 & x2 & x3 & x4 & A1 & A2 & A3 & A4 & ->). destruct Httl as (y1 & y2 & y3 & y4 & B1 & B2 & B3 & B4 & ->).
      rewrite <- Nat.add_assoc in A2, A3, A4, B2, B3, B4. rewrite Hnth in A1, A2, A3, A4 by lia. cbn [Nat.add] in *. congruence. }
    assert (Erl : rv_rdlen r' = m - (a' + 10)).
    { pose proof (seg_firstn _ _ _ Hlen) as Hf. rewrite be16_bytes_length in Hf.
      rewrite (be16_of_u16 out (a' + 8) _ Hbo Hrl') in Hf.
      pose proof (u16_lt out _ _ Hbo Hrl') as Hlt.
      unfold be16_bytes in Hf. injection Hf as F1 F2.
      assert (N.of_nat (rv_rdlen r') = N.of_nat (m - (a' + 10))); [|lia].
      pose proof (N.div_mod' (N.of_nat (rv_rdlen r')) 256). pose proof (N.div_mod' (N.of_nat (m - (a' + 10))) 256).
      rewrite (N.mod_small (N.of_nat (rv_rdlen r') / 256)) in F1 by (apply N.div_lt_upper_bound; lia).
      rewrite (N.mod_small (N.of_nat (m - (a' + 10)) / 256)) in F1 by (apply N.div_lt_upper_bound; lia). lia. }
    assert (Hm : a' + 10 <= m).
    { destruct x; cbn [rdata_enc] in Hrd.
      - destruct Hrd as (l2 & Hd & _). apply dec_in_end in Hd. lia.
      - destruct Hrd as (_ & l2 & Hd & _). apply dec_in_end in Hd. lia.
      - destruct Hrd as (m1 & m2 & (l2 & Hd1 & _) & (l3 & Hd2 & _) & _ & ->). apply dec_in_end in Hd1. apply dec_in_end in Hd2. lia.
      - destruct Hrd as (_ & ->). lia. }
    assert (Eend : rv_end r' = m) by (unfold rv_end; fold a'; lia).
    split; [|exact Eend]. unfold ci_rec. cbn [fst snd]. split; [exact Hci|]. split; [exact Et|]. split; [exact Ec|]. split; [exact Ettl|].
    (* the data *)
    unfold rdata_at in Hx'. cbv zeta in Hx'. fold a' in Hx'. rewrite Et in Hx'.
    destruct x as [ls|pref ls|l1 l2 tail|b]; destruct x' as [ls'|pref' ls'|l1' l2' tail'|b']; cbn [rd_ci rdata_enc rd_shape] in *;
      try solve [exfalso; clear Hrd; repeat match goal with H : _ /\ _ |- _ => destruct H end; repeat match goal with H : exists _, _ |- _ => destruct H end;
                 first [congruence | match goal with A : ?t = TYPE_MX, B : ?t = TYPE_SOA |- _ => rewrite A in B; discriminate end]].
    - destruct Hx' as (_ & Hcn2). destruct (name_link _ _ _ _ _ Hrd Hcn2) as [H _]. exact H.
    - destruct Hx as (_ & _ & Lp). destruct Hx' as (_ & _ & _ & Ep' & Hcn2). destruct Hrd as (Hs & Hn).
      rewrite Lp in Hn. destruct (name_link _ _ _ _ _ Hn Hcn2) as [H _]. split; [|exact H].
      rewrite Ep'. rewrite <- (seg_firstn _ _ _ Hs) at 1. rewrite Lp. reflexivity.
    - destruct Hx as (_ & _ & Lt). destruct Hx' as (_ & _ & _ & m0' & Hca & Hcb & Etl').
      destruct Hrd as (m1 & m2 & Hn1 & Hn2 & Hs & Em).
      destruct (name_link _ _ _ _ _ Hn1 Hca) as [H1 <-]. destruct (name_link _ _ _ _ _ Hn2 Hcb) as [H2 E2].
      split; [exact H1|]. split; [exact H2|]. rewrite Etl'. rewrite <- (seg_firstn _ _ _ Hs) at 1. rewrite Lt, E2. reflexivity.
    - destruct Hx' as (_ & _ & _ & Eb'). destruct Hrd as (Hs & Em). rewrite Eb'. unfold rdata_of. fold a'. rewrite Erl.
      rewrite <- (seg_firstn _ _ _ Hs) at 1. f_equal. lia.
  Qed.

  Lemma rec_enc_adv o rx m : rec_enc p out o rx m -> o + 11 <= m.
  Proof.
    intros (ne & (l1 & Hd & _) & _ & _ & _ & Hrd). apply dec_in_end in Hd. destruct rx as [r x]; cbn [snd] in Hrd.
    destruct x; cbn [rdata_enc] in Hrd.
    - destruct Hrd as (l2 & Hd2 & _). apply dec_in_end in Hd2. lia.
    - destruct Hrd as (_ & l2 & Hd2 & _). apply dec_in_end in Hd2. lia.
    - destruct Hrd as (m1 & m2 & (l2 & Hd1 & _) & (l3 & Hd2 & _) & _ & ->). apply dec_in_end in Hd1. apply dec_in_end in Hd2. lia.
    - destruct Hrd as (_ & ->). lia.
  Qed.

  Lemma recs_link : forall L o e L', recs_enc p out o L e -> records_at out o (map fst L') e -> Forall (rd_ok out) L' ->
    Forall (fun rx => fields_at p (fst rx) /\ rd_shape (fst rx) (snd rx)) L -> Forall2 ci_rec L L'.
  Proof.
    induction L as [|[r x] L IH]; intros o e L' Henc Hrecs Hrd' Hrp.
    - cbn [recs_enc] in Henc. subst e. destruct L' as [|rx' L']; [constructor|].
      apply records_at_span in Hrecs. cbn [map length] in Hrecs. lia.
    - cbn [recs_enc] in Henc. destruct Henc as (m & Hrec & Hrest).
      destruct L' as [|[r' x'] L'].
      + cbn [map] in Hrecs. inversion Hrecs; subst. apply rec_enc_adv in Hrec.
        assert (m <= e).
        { clear -Hrest. revert m Hrest. induction L as [|rx L IHL]; intros m H; cbn [recs_enc] in H; [lia|].
          destruct H as (m' & H1 & H2). apply rec_enc_adv in H1. apply IHL in H2. lia. }
        lia.
      + cbn [map fst] in Hrecs. destruct (records_cons_inv out _ _ _ _ Hrecs) as (Eo & Hr' & Hrest').
        destruct (Forall_inv Hrp) as (Hf0 & Hs0). cbn [fst snd] in Hf0, Hs0.
        rewrite Eo in Hrec.
        destruct (rec_link r x r' x' m Hf0 Hs0 Hrec Hr' (Forall_inv Hrd')) as [Hci Em].
        constructor; [exact Hci|]. rewrite Em in Hrest'.
        apply (IH m e L' Hrest Hrest' (Forall_inv_tail Hrd') (Forall_inv_tail Hrp)).
  Qed.
End Link.

Lemma Forall2_app_len {T U} (P : T -> U -> Prop) : forall l1 l2 m1 m2, Forall2 P (l1 ++ l2) (m1 ++ m2) -> length l1 = length m1 ->
  Forall2 P l1 m1 /\ Forall2 P l2 m2.
Proof.
  induction l1 as [|x l1 IH]; intros l2 m1 m2 H L; destruct m1 as [|y m1]; cbn [length] in L; try lia; cbn [app] in H.
  - split; [constructor|exact H].
  - inversion H; subst. destruct (IH l2 m1 m2 ltac:(assumption) ltac:(lia)) as [A B]. split; [constructor; assumption|exact B].
Qed.

(** whenever the parser accepts what [compress] returned, that packet reads as the same question and, section by
    section and record by record, the same records up to the case of the names (owner names and names inside the
    data); so does its decompression *)
Theorem compress_same_message : forall p v out v', bytes_ok p -> parse p = Ok v -> uncompress p = Ok p ->
  compress p = Ok out -> parse out = Ok v' ->
  exists qls qt lxa lxn lxr lxa' lxn' lxr',
    reading p qls qt lxa lxn lxr /\ reading out qls qt lxa' lxn' lxr' /\
    Forall2 ci_rec lxa lxa' /\ Forall2 ci_rec lxn lxn' /\ Forall2 ci_rec lxr lxr' /\
    uncompress out = Ok (plain_packet_of out qls qt lxa' lxn' lxr').
Proof.
  intros p v out v' Hb Hp Hu Hc Hp'.
  destruct (compress_content p v Hb Hp Hu) as (out0 & qls & qt & lxa & lxn & lxr & X & Hc0 & Hbo & R & Eout & Hrecs).
  rewrite Hc in Hc0. injection Hc0 as <-.
  destruct (uncompress_reading out v' Hbo Hp') as (qls' & qt' & lxa' & lxn' & lxr' & R' & Hu').
  pose proof R as [(qe & e1 & e2 & Hcn & Hqt & Hqc & Hq4 & Ra & Rn & Rr) Hx Han Hns Har].
  pose proof R' as [(qe' & e1' & e2' & Hcn' & Hqt' & Hqc' & Hq4' & Ra' & Rn' & Rr') Hx' Han' Hns' Har'].
  assert (H12 : 12 <= length p) by (destruct Hcn; lia).
  assert (L12 : length (firstn 12 p) = 12) by (rewrite firstn_length; lia).
  (* the question *)
  assert (Hlok : Forall label_ok qls) by (destruct Hcn as [_ Hna]; eapply name_at_labels_ok; exact Hna).
  pose proof (wire_length_le _ _ _ _ Hcn) as Hl255.
  set (q4 := firstn 4 (skipn (12 + length (wire_of_labels qls)) p)) in *.
  assert (Eout' : out = firstn 12 p ++ wire_of_labels qls ++ (q4 ++ X)) by (rewrite Eout, <- !app_assoc; reflexivity).
  pose proof (cname_l_mid qls (firstn 12 p) (q4 ++ X) Hlok Hl255) as Hm. rewrite <- Eout', L12 in Hm.
  destruct (cname_l_fun _ _ _ _ _ _ Hcn' Hm) as [-> ->].
  (* the input is its own pointer-free encoding: the question name ends where its wire form ends *)
  destruct (fixed_point_plain p v Hb Hp Hu) as (qls2 & qt2 & la2 & ln2 & lr2 & R2 & _ & Hqfit & Hqseg).
  destruct (reading_fun _ _ _ _ _ _ _ _ _ _ _ R R2) as (<- & <- & <- & <- & <-).
  pose proof (located_end p 12 qls qe Hcn Hqfit Hqseg) as Eqe.
  assert (Lq4 : length q4 = 4) by (unfold q4; rewrite firstn_length, skipn_length; lia).
  assert (Sq4 : seg out (12 + length (wire_of_labels qls)) q4).
  { exists (firstn 12 p ++ wire_of_labels qls), X. split; [rewrite Eout, <- !app_assoc; reflexivity|rewrite app_length; lia]. }
  assert (Eqt : qt' = qt).
  { destruct Hqt' as (h1 & l1 & A1 & A2 & ->). destruct Hqt as (h2 & l2 & B1 & B2 & ->).
    rewrite <- (Nat.add_0_r (12 + length (wire_of_labels qls))) in A1. rewrite (seg_nth _ _ _ 0 Sq4) in A1 by lia. rewrite (seg_nth _ _ _ 1 Sq4) in A2 by lia.
    unfold q4 in A1, A2. rewrite nth_firstn_skipn in A1, A2 by lia. rewrite <- Eqe in A1, A2. rewrite Nat.add_0_r in A1. congruence. }
  subst qt'.
  exists qls, qt, lxa, lxn, lxr, lxa', lxn', lxr'. split; [exact R|]. split; [exact R'|].
  (* the records *)
  pose proof (records_at_app _ _ _ _ Ra' _ _ (records_at_app _ _ _ _ Rn' _ _ Rr')) as Rall'. rewrite <- !map_app in Rall'.
  assert (Hrp : Forall (fun rx => fields_at p (fst rx) /\ rd_shape (fst rx) (snd rx)) (lxa ++ lxn ++ lxr)).
  { pose proof (records_at_app _ _ _ _ Ra _ _ (records_at_app _ _ _ _ Rn _ _ Rr)) as Rall. rewrite <- !map_app in Rall.
    clear -Rall Hx. revert Rall Hx. generalize (qe + 4). induction (lxa ++ lxn ++ lxr) as [|rx L IH]; intros o H Hx; [constructor|].
    cbn [map] in H. destruct (records_cons_inv p _ _ _ _ H) as (_ & Hr & Hrest).
    constructor; [split; [exact (fields_of_record _ _ _ Hr)|exact (shape_of_rdata _ _ _ _ Hr (Forall_inv Hx))]|apply (IH _ Hrest (Forall_inv_tail Hx))]. }
  replace (12 + length (wire_of_labels qls) + 4) with (qe + 4) in Hrecs by lia.
  rewrite <- Eqe in Rall'.
  pose proof (recs_link p out Hbo _ _ _ _ Hrecs Rall' Hx' Hrp) as Hall.
  (* the header counts are those of the input *)
  assert (Hh : forall i, i < 12 -> nth_error out i = nth_error p i).
  { intros i Hi. rewrite Eout, <- app_assoc. apply hdr_nth; lia. }
  assert (Hcnt : forall off site, off + 1 < 12 -> be16_at out off site = be16_at p off site).
  { intros off site Ho. unfold be16_at, byte_at. rewrite !Hh by lia. reflexivity. }
  unfold hdr_ancount in Han, Han'. unfold hdr_nscount in Hns, Hns'. unfold hdr_arcount in Har, Har'.
  rewrite Hcnt in Han', Hns', Har' by lia. rewrite Han in Han'. rewrite Hns in Hns'. rewrite Har in Har'.
  injection Han' as La. injection Hns' as Ln. injection Har' as Lr.
  destruct (Forall2_app_len _ _ _ _ _ Hall ltac:(lia)) as [HA Hrest].
  destruct (Forall2_app_len _ _ _ _ _ Hrest ltac:(lia)) as [HN HR].
  split; [exact HA|]. split; [exact HN|]. split; [exact HR|exact Hu'].
Qed.
