(** * The deleting walk on any object the parser or an earlier operation produced (C11).

    [objst v]: [v] satisfies [dinv], or is a freshly parsed packet (compressed or not).  The three steps of
    [WalkInv.v] hold from both kinds of state (the first deletion on a parsed packet decompresses it and lands in
    [dinv]: [DecompressFirst.v]), hence so does the refinement of the abstract machine. *)

From DV Require Import Model.Base Model.NameCheck Model.Parser Model.Header Model.Readers Model.Uncompress Model.Mutate
  Spec.NameSpec Spec.PacketSpec Spec.RecordSpec Spec.PlainSpec Proofs.ListLemmas Proofs.Hoare Proofs.ParserInv Proofs.ParseSound
  Proofs.ParseComplete Proofs.NameIff Proofs.NameCheckTotal Proofs.ReadersAgree Proofs.ReadersLabels Proofs.HeaderBits Proofs.QuestionSpec
  Proofs.WalkValues Proofs.SetTtl Proofs.WalkSkip Proofs.UncompressSpec Proofs.PlainWf Proofs.InsertLemmas Proofs.EdnsFacts Proofs.EdnsPos
  Proofs.EdnsPlain Proofs.InsertSpec Proofs.HeaderInv Proofs.Chain Proofs.SetTtlInv Proofs.DeleteInv Proofs.SetNameInv Proofs.Totality
  Proofs.WalkInv Proofs.CursorHist Proofs.DecompressFirst Proofs.DeleteWalk.
From Coq Require Import ZifyBool ZifyNat ZifyN.

Definition objst (v : ppacket) : Prop := dinv v \/ (bytes_ok (pp_packet v) /\ parse (pp_packet v) = Ok v).

Lemma objst_bytes v : objst v -> bytes_ok (pp_packet v).
Proof. intros [Hd|[Hb _]]; [exact (di_bytes _ Hd)|exact Hb]. Qed.

Lemma first_off_records p a l b : records_at p a (map fst l) b -> first_off l = (if 0 <? length l then Some a else None).
Proof.
  destruct l as [|[r x] l]; cbn [map fst first_off length]; [reflexivity|]. intros H.
  destruct (records_at_cons_inv p a r _ b H) as (-> & _). reflexivity.
Qed.

Lemma objst_offsets v qls qt lA lN lR : objst v -> reading (pp_packet v) qls qt lA lN lR ->
  pp_offset_answers v = first_off lA /\ pp_offset_nameservers v = first_off lN /\ pp_offset_additional v = first_off lR.
Proof.
  intros [Hd|[Hb Hp]] Rd.
  - destruct (dinv_reading_offsets v qls qt lA lN lR Hd Rd) as (_ & A & B & C). auto.
  - destruct (parse_offsets_reading _ v qls qt lA lN lR Hb Hp Rd) as (qe & e1 & e2 & Ra & Rn & Rr & _ & _ & Voa & Von & Vor).
    rewrite Voa, Von, Vor, (first_off_records _ _ _ _ Ra), (first_off_records _ _ _ _ Rn), (first_off_records _ _ _ _ Rr). auto.
Qed.

Theorem next_restart_obj : forall v it qls qt lA lN lR sec, objst v -> reading (pp_packet v) qls qt lA lN lR ->
  it_offset it = None -> it_section it = sec -> sec = SAnswer \/ sec = SNameServers \/ sec = SAdditional ->
  r_next_including_opt v it = Ok (match sec_list sec lA lN lR with [] => None | rx :: l' => Some (cur_on sec (fst rx) (length l')) end).
Proof.
  intros v it qls qt lA lN lR sec Hd Rd Eoff Esec Hsec. set (q := pp_packet v) in *.
  destruct (objst_offsets v qls qt lA lN lR Hd Rd) as (Oa & On & Or).
  destruct (reading_sections q qls qt lA lN lR Rd sec Hsec) as (a & b & Rs & Hcnt).
  unfold r_next_including_opt. rewrite Eoff, Esec. fold q.
  assert (Hstart : (match sec with
                    | SAnswer => c <- hdr_ancount q ;; Ok (c, pp_offset_answers v)
                    | SNameServers => c <- hdr_nscount q ;; Ok (c, pp_offset_nameservers v)
                    | SAdditional => c <- hdr_arcount q ;; Ok (c, pp_offset_additional v)
                    | _ => Panic 451
                    end) = Ok (N.of_nat (length (sec_list sec lA lN lR)), first_off (sec_list sec lA lN lR))).
  { destruct Hsec as [->|[->| ->]]; cbn [sec_list] in *; rewrite Hcnt; cbn [bind]; [rewrite Oa|rewrite On|rewrite Or]; reflexivity. }
  rewrite Hstart. cbn [bind].
  destruct (sec_list sec lA lN lR) as [|[r x] l'] eqn:El; cbn [length first_off fst]; [reflexivity|].
  replace (N.of_nat (S (length l')) =? 0)%N with false by lia. cbn [unwrap bind].
  replace (N.of_nat (S (length l')) =? 0)%N with false by lia.
  cbn [map fst] in Rs. destruct (records_at_split q [] a r (map fst l') b Rs) as (e & Hrec & _).
  destruct (next_from q r e (objst_bytes _ Hd) Hrec) as (E1 & E2 & _). rewrite E1. cbn [bind]. rewrite E2. cbn [bind].
  unfold cur_on. repeat f_equal. lia.
Qed.

Theorem next_advance_obj : forall v qls qt lA lN lR sec l1 rx l2, objst v -> reading (pp_packet v) qls qt lA lN lR ->
  sec = SAnswer \/ sec = SNameServers \/ sec = SAdditional -> sec_list sec lA lN lR = l1 ++ rx :: l2 ->
  r_next_including_opt v (cur_on sec (fst rx) (length l2)) =
  Ok (match l2 with [] => None | rx2 :: l3 => Some (cur_on sec (fst rx2) (length l3)) end).
Proof.
  intros v qls qt lA lN lR sec l1 [r x] l2 Hd Rd Hsec El. set (q := pp_packet v) in *. cbn [fst].
  destruct (reading_sections q qls qt lA lN lR Rd sec Hsec) as (a & b & Rs & _). rewrite El, map_app in Rs. cbn [map fst] in Rs.
  destruct (records_at_split q _ a r _ b Rs) as (e & Hrec & R2).
  destruct (next_from q r e (objst_bytes _ Hd) Hrec) as (_ & _ & He).
  unfold r_next_including_opt. cbn [cur_on it_offset it_rrs_left it_offset_next it_section bind]. fold q.
  destruct l2 as [|[r2 x2] l3]; cbn [length]; [reflexivity|].
  replace (N.of_nat (S (length l3)) =? 0)%N with false by lia.
  cbn [map fst] in R2. destruct (records_at_cons_inv q e r2 _ b R2) as (Eo2 & e2 & Hrec2 & R3).
  destruct (next_from q r2 e2 (objst_bytes _ Hd) Hrec2) as (E1 & E2 & _).
  rewrite <- He, Eo2. rewrite E1. cbn [bind]. rewrite E2. cbn [bind].
  unfold cur_on. cbn [fst]. repeat f_equal. lia.
Qed.

(** deletion from either kind of state *)
Theorem delete_obj : forall sec v qls qt lA lN lR l1 r x l2 n,
  objst v -> reading (pp_packet v) qls qt lA lN lR -> sec = SAnswer \/ sec = SNameServers \/ sec = SAdditional ->
  sec_list sec lA lN lR = l1 ++ (r, x) :: l2 -> is_opt r = false ->
  exists s', m_delete (v, cur_on sec r n) = (s', Ok tt) /\
  dinv (fst s') /\ it_offset (snd s') = None /\ it_section (snd s') = sec /\
  exists lA' lN' lR', reading (pp_packet (fst s')) qls qt lA' lN' lR' /\
    map unpl (sec_list sec lA' lN' lR') = map unpl l1 ++ map unpl l2 /\ other_sections_kept sec lA lN lR lA' lN' lR'.
Proof.
  intros sec v qls qt lA lN lR l1 r x l2 n Hst Rd Hsec El Hno.
  assert (Hin : In (r, x) (lA ++ lN ++ lR)).
  { assert (Hi : In (r, x) (sec_list sec lA lN lR)) by (rewrite El; apply in_or_app; right; left; reflexivity).
    destruct Hsec as [->|[->| ->]]; cbn [sec_list] in Hi; repeat (apply in_or_app; first [left; exact Hi|right]); exact Hi. }
  destruct Hst as [Hd|[Hb Hp]].
  - destruct (delete_total v (cur_on sec r n) qls qt lA lN lR r x Hd Rd Hin Hno eq_refl eq_refl eq_refl) as (s' & Hdel).
    exists s'. split; [exact Hdel|]. exact (delete_at sec v qls qt lA lN lR l1 r x l2 n s' Hd Rd Hsec El Hno Hdel).
  - set (p := pp_packet v) in *.
    (* the prologue, then deletion on the pointer-free object *)
    destruct (sec_concat_split sec lA lN lR l1 (r, x) l2 Hsec El) as (L1 & L2 & EL & LL1).
    destruct (cursor_decompress_fresh p v (cur_on sec r n) qls qt lA lN lR L1 r x L2 Hb Hp Rd EL ltac:(destruct Hsec as [->|[->| ->]]; discriminate))
      as (dv & lA1 & lN1 & lR1 & L1' & r' & L2' & Hdec & Hd & _ & _ & Rd1 & EL' & LL1' & LA & LN & LR & F2).
    change (it_set (it_set (cur_on sec r n) (Some (rv_off r')) (it_offset_next (cur_on sec r n)) (it_name_end (cur_on sec r n))) (Some (rv_off r'))
              (rv_name_end r' + 10 + rv_rdlen r') (rv_name_end r')) with (cur_on sec r' n) in Hdec.
    assert (Hk : length l1 < length (sec_list sec lA1 lN1 lR1)).
    { assert (length (sec_list sec lA1 lN1 lR1) = length (sec_list sec lA lN lR)) by (destruct Hsec as [->|[->| ->]]; cbn [sec_list]; assumption).
      rewrite H, El, app_length. cbn [length]. lia. }
    destruct (sec_of_concat_split sec lA1 lN1 lR1 L1' (r', x) L2' (length l1) Hsec EL' ltac:(rewrite LL1', LL1, LA, LN; reflexivity) Hk) as (l1' & l2' & El' & Ll1').
    assert (Hi : In (r, x) (sec_list sec lA lN lR)) by (rewrite El; apply in_or_app; right; left; reflexivity).
    assert (Hi' : In (r', x) (sec_list sec lA1 lN1 lR1)) by (rewrite El'; apply in_or_app; right; left; reflexivity).
    assert (Hin1 : In (r', x) (lA1 ++ lN1 ++ lR1)) by (rewrite EL'; apply in_or_app; right; left; reflexivity).
    pose proof (same_rec_unpl _ _ F2) as EU. rewrite !map_app in EU.
    destruct (sections_of_concat _ _ _ _ _ _ EU ltac:(rewrite !map_length; exact LA) ltac:(rewrite !map_length; exact LN)) as (UA & UN & UR).
    assert (Usec : forall s2, map unpl (sec_list s2 lA1 lN1 lR1) = map unpl (sec_list s2 lA lN lR)) by (intros [| | | |]; cbn [sec_list]; assumption).
    pose proof (Usec sec) as Us. rewrite El, El', !map_app in Us. cbn [map] in Us.
    destruct (app_split_len _ _ _ _ Us ltac:(rewrite !map_length; exact Ll1')) as (U1 & Us2). destruct (cons_inj _ _ _ _ Us2) as [Ur U2].
    assert (Ety : rv_type r' = rv_type r) by (apply (f_equal (fun y : rec_view * rd_view => rv_type (fst y))) in Ur; exact Ur).
    assert (Hno' : is_opt r' = false) by (unfold is_opt in *; rewrite Ety; exact Hno).
    destruct (delete_total dv (cur_on sec r' n) qls qt lA1 lN1 lR1 r' x Hd Rd1 Hin1 Hno' eq_refl eq_refl eq_refl) as (s' & Hdel).
    exists s'. split.
    { rewrite (delete_fresh_is_delete_after_decompress p v qls qt lA lN lR sec r x n dv r' Hb Hp Rd Hsec Hi Hdec Hd qls qt lA1 lN1 lR1 Rd1 Hi' Ety). exact Hdel. }
    destruct (delete_at sec dv qls qt lA1 lN1 lR1 l1' r' x l2' n s' Hd Rd1 Hsec El' Hno' Hdel) as (Hd' & Ho & Hs & lA2 & lN2 & lR2 & Rd2 & E2 & Hk2).
    split; [exact Hd'|]. split; [exact Ho|]. split; [exact Hs|]. exists lA2, lN2, lR2. split; [exact Rd2|].
    split; [rewrite E2, U1, U2; reflexivity|]. intros s2 Hne Hs2. rewrite (Hk2 s2 Hne Hs2). apply Usec.
Qed.

Section RefineObj.
  Variable sec : section.
  Hypothesis Hsec : sec = SAnswer \/ sec = SNameServers \/ sec = SAdditional.
  Variable D : rec_view * rd_view -> bool.
  Variable dec : ppacket -> rrit -> bool.
  Hypothesis D_nonopt : forall y, D y = true -> is_opt (fst y) = false.
  Hypothesis dec_ok : forall v qls qt lA lN lR rxp n, reading (pp_packet v) qls qt lA lN lR -> In rxp (sec_list sec lA lN lR) ->
    dec v (cur_on sec (fst rxp) n) = D (unpl rxp).

  Lemma next_of_cur_obj v it qls qt lA lN lR i : objst v -> reading (pp_packet v) qls qt lA lN lR -> Cur sec it (sec_list sec lA lN lR) i ->
    r_next_including_opt v it =
    Ok (match nth_error (sec_list sec lA lN lR) i with
        | None => None
        | Some rxp => Some (cur_on sec (fst rxp) (length (sec_list sec lA lN lR) - i - 1))
        end).
  Proof.
    intros Hd Rd [(-> & Eoff & Es)|(l1 & rxp & l2 & El & -> & ->)].
    - rewrite (next_restart_obj v it qls qt lA lN lR sec Hd Rd Eoff Es Hsec).
      destruct (sec_list sec lA lN lR) as [|rx l']; cbn [nth_error length]; [reflexivity|]. repeat f_equal. lia.
    - rewrite (next_advance_obj v qls qt lA lN lR sec l1 rxp l2 Hd Rd Hsec El). rewrite El.
      replace (S (length l1)) with (length (l1 ++ [rxp]) + 0) by (rewrite app_length; cbn [length]; lia).
      replace (l1 ++ rxp :: l2) with ((l1 ++ [rxp]) ++ l2) by (rewrite <- app_assoc; reflexivity).
      rewrite nth_error_app2 by lia. replace (length (l1 ++ [rxp]) + 0 - length (l1 ++ [rxp])) with 0 by lia.
      destruct l2 as [|rx2 l3]; cbn [nth_error]; [reflexivity|]. repeat f_equal. rewrite !app_length. cbn [length]. lia.
  Qed.

  Theorem walk_refines_obj : forall fuel v it qls qt lA lN lR i cs ys,
    objst v -> reading (pp_packet v) qls qt lA lN lR -> Cur sec it (sec_list sec lA lN lR) i -> Forall2 (yielded sec) cs ys ->
    match awalk D fuel (map unpl (sec_list sec lA lN lR)) i ys with
    | None => cwalk dec fuel v it cs = None
    | Some (l', ys') =>
      exists v' cs' lA' lN' lR', cwalk dec fuel v it cs = Some (v', cs') /\ objst v' /\ reading (pp_packet v') qls qt lA' lN' lR' /\
        map unpl (sec_list sec lA' lN' lR') = l' /\ other_sections_kept sec lA lN lR lA' lN' lR' /\ Forall2 (yielded sec) cs' ys'
    end.
  Proof.
    induction fuel as [|fuel IH]; intros v it qls qt lA lN lR i cs ys Hd Rd Hc Hy; cbn [awalk cwalk]; [reflexivity|].
    set (lc := sec_list sec lA lN lR) in *.
    rewrite (next_of_cur_obj v it qls qt lA lN lR i Hd Rd Hc). fold lc. rewrite nth_error_map.
    destruct (nth_error lc i) as [rxp|] eqn:En; cbn [option_map].
    - destruct (nth_error_split_at lc i rxp En) as (l1 & l2 & El & Ll1).
      assert (Hin : In rxp (sec_list sec lA lN lR)) by (fold lc; rewrite El; apply in_or_app; right; left; reflexivity).
      rewrite (dec_ok v qls qt lA lN lR rxp _ Rd Hin).
      set (cur := cur_on sec (fst rxp) (length lc - i - 1)).
      assert (Hyc : Forall2 (yielded sec) (cs ++ [cur]) (ys ++ [unpl rxp])).
      { apply Forall2_app; [exact Hy|]. constructor; [|constructor]. exists rxp, (length lc - i - 1). auto. }
      destruct (D (unpl rxp)) eqn:Ed.
      + pose proof (D_nonopt _ Ed) as Hno. rewrite unpl_is_opt in Hno. destruct rxp as [r x]. cbn [fst] in *.
        destruct (delete_obj sec v qls qt lA lN lR l1 r x l2 (length lc - i - 1) Hd Rd Hsec El Hno)
          as ([v' cur'] & Hdel & Hd' & Ho' & Hs' & lA1 & lN1 & lR1 & Rd1 & El1 & Hk1).
        fold cur in Hdel. rewrite Hdel. cbn [fst snd] in *.
        assert (Erm : remove_nth i (map unpl lc) = map unpl (sec_list sec lA1 lN1 lR1)).
        { rewrite El1, El, map_app. cbn [map]. rewrite <- Ll1, <- (map_length unpl l1). apply remove_nth_app. }
        rewrite Erm.
        specialize (IH v' cur' qls qt lA1 lN1 lR1 0 (cs ++ [cur]) (ys ++ [unpl (r, x)]) (or_introl Hd') Rd1 ltac:(left; auto) Hyc).
        destruct (awalk D fuel (map unpl (sec_list sec lA1 lN1 lR1)) 0 (ys ++ [unpl (r, x)])) as [[l' ys']|]; [|exact IH].
        destruct IH as (v2 & cs2 & lA2 & lN2 & lR2 & Hw & Hd2 & Rd2 & El2 & Hk2 & Hy2).
        exists v2, cs2, lA2, lN2, lR2. repeat (split; [assumption|]). split; [exact (kept_trans sec _ _ _ _ _ _ _ _ _ Hk1 Hk2)|exact Hy2].
      + apply (IH v cur qls qt lA lN lR (S i) (cs ++ [cur]) (ys ++ [unpl rxp]) Hd Rd); [|exact Hyc].
        right. exists l1, rxp, l2. fold lc. split; [exact El|]. split; [lia|]. unfold cur. f_equal. rewrite El, app_length. cbn [length]. lia.
    - exists v, cs, lA, lN, lR. split; [reflexivity|]. split; [exact Hd|]. split; [exact Rd|]. split; [reflexivity|]. split; [|exact Hy].
      intros s2 _ _. reflexivity.
  Qed.

  Theorem walk_deletes_exactly_obj : forall v it qls qt lA lN lR,
    objst v -> reading (pp_packet v) qls qt lA lN lR -> it_offset it = None -> it_section it = sec ->
    let l := map unpl (sec_list sec lA lN lR) in
    exists v' cs lA' lN' lR' ys,
      cwalk dec ((ndel D l + 1) * (length l + 1)) v it [] = Some (v', cs) /\ objst v' /\ reading (pp_packet v') qls qt lA' lN' lR' /\
      map unpl (sec_list sec lA' lN' lR') = filter (keep D) l /\ other_sections_kept sec lA lN lR lA' lN' lR' /\
      Forall2 (yielded sec) cs ys /\ (forall y, In y (filter (keep D) l) -> In y ys) /\ (forall y, In y ys -> In y l).
  Proof.
    intros v it qls qt lA lN lR Hd Rd Eoff Es l.
    destruct (awalk_terminates D l) as [rr Haw]. destruct rr as [l' ys].
    pose proof (walk_refines_obj ((ndel D l + 1) * (length l + 1)) v it qls qt lA lN lR 0 [] [] Hd Rd ltac:(left; auto) ltac:(constructor)) as Hr.
    fold l in Hr. rewrite Haw in Hr. destruct Hr as (v' & cs' & lA' & lN' & lR' & Hw & Hd' & Rd' & El' & Hk & Hy).
    destruct (awalk_exact D _ l l' ys Haw) as (Hl' & Hsurv).
    destruct (awalk_yields_from_section D _ l 0 [] l' ys Haw) as (zs & Ezs & Hzs). cbn [app] in Ezs. subst zs.
    exists v', cs', lA', lN', lR', ys. rewrite <- Hl'. repeat (split; [assumption|]). first [exact Hzs|split; [exact Hsurv|exact Hzs]].
  Qed.
End RefineObj.

(** in particular: from the packet as the parser returned it *)
Corollary parsed_is_objst p v : bytes_ok p -> parse p = Ok v -> objst v.
Proof.
  intros Hb Hp. right.
  assert (Hpk : pp_packet v = p) by (destruct (parse_view_pos p v Hb Hp) as (? & ? & ? & ? & ? & ? & ? & ? & ? & H & _); exact H).
  rewrite Hpk. auto.
Qed.
