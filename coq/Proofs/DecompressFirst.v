(** * The first cursor operation on a freshly parsed object (C08, C09, C11).

    [delete] and [set_raw_name] bring the object to pointer-free form first and translate the cursor
    ([cursor_decompress_fresh]): on any accepted packet, with the cursor on any record, the prologue succeeds,
    leaves the object of [recompute] / the insertion prologue (which satisfies [dinv]) and a cursor on the same
    record - same position in the list of records, same labels, type, class, TTL and data - of the pointer-free
    packet. *)

From DV Require Import Model.Base Model.NameCheck Model.Parser Model.Header Model.Readers Model.Uncompress Model.Mutate
  Spec.NameSpec Spec.PacketSpec Spec.RecordSpec Spec.PlainSpec Proofs.ListLemmas Proofs.Hoare Proofs.ParserInv Proofs.ParseSound
  Proofs.ParseComplete Proofs.NameIff Proofs.NameCheckTotal Proofs.ReadersAgree Proofs.ReadersLabels Proofs.HeaderBits Proofs.QuestionSpec
  Proofs.WalkValues Proofs.SetTtl Proofs.WalkSkip Proofs.UncompressSpec Proofs.PlainWf Proofs.InsertLemmas Proofs.EdnsFacts Proofs.EdnsPos
  Proofs.EdnsPlain Proofs.InsertSpec Proofs.HeaderInv Proofs.Chain Proofs.SetTtlInv Proofs.DeleteInv Proofs.SetNameInv Proofs.Totality
  Proofs.WalkInv Proofs.CursorHist.
From Coq Require Import ZifyBool ZifyNat ZifyN.

Lemma cbind_assoc {A} (a : cm A) (b : cm unit) (c : cm unit) s :
  cbind a (fun _ => cbind b (fun _ => c)) s = cbind (cbind a (fun _ => b)) (fun _ => c) s.
Proof. unfold cbind. destruct (a s) as [s1 [x| |]]; [|reflexivity|reflexivity]. destruct (b s1) as [s2 [y| |]]; reflexivity. Qed.

Lemma map_plain_place : forall l o, map plain_record (place o l) = map plain_record l.
Proof. induction l as [|rx l IH]; intros o; cbn [place map]; [reflexivity|]. rewrite IH. destruct rx; reflexivity. Qed.

Lemma place3 o A Nn R : place o A ++ place (o + length (cat A)) Nn ++ place (o + length (cat A) + length (cat Nn)) R = place o (A ++ Nn ++ R).
Proof. rewrite !place_app. repeat f_equal. Qed.

Lemma Forall2_split_at {T U} (P : T -> U -> Prop) : forall l1 x l2 m, Forall2 P (l1 ++ x :: l2) m ->
  exists m1 y m2, m = m1 ++ y :: m2 /\ length m1 = length l1 /\ P x y /\ Forall2 P l1 m1.
Proof.
  induction l1 as [|h l1 IH]; intros x l2 m H; cbn [app] in H.
  - inversion H; subst. exists [], y, l'. auto.
  - inversion H as [|? y ? m' Hh Ht]; subst. destruct (IH x l2 m' Ht) as (m1 & y0 & m2 & -> & L & Px & F).
    exists (y :: m1), y0, m2. cbn [app length]. auto.
Qed.

Lemma same_rec_plain : forall l m, Forall2 same_rec l m -> map plain_record m = map plain_record l.
Proof.
  induction 1 as [|[r x] [r' x'] l m (Ex & El & Et & Ec & Ettl) _ IH]; cbn [map]; [reflexivity|]. rewrite IH. f_equal.
  cbn [fst snd] in *. subst x'. unfold plain_record. rewrite El, Et, Ec, Ettl. reflexivity.
Qed.

Theorem cursor_decompress_fresh : forall p v it qls qt lxa lxn lxr l1 r x l2,
  bytes_ok p -> parse p = Ok v -> reading p qls qt lxa lxn lxr -> lxa ++ lxn ++ lxr = l1 ++ (r, x) :: l2 ->
  it_section it <> SQuestion ->
  exists dv lA' lN' lR' l1' r' l2',
    m_cursor_decompress (rv_off r) (v, it) =
      ((dv, it_set (it_set it (Some (rv_off r')) (it_offset_next it) (it_name_end it)) (Some (rv_off r')) (rv_name_end r' + 10 + rv_rdlen r') (rv_name_end r')), Ok tt) /\
    dinv dv /\ uncompress p = Ok (pp_packet dv) /\ (is_response p -> is_response (pp_packet dv)) /\
    reading (pp_packet dv) qls qt lA' lN' lR' /\ lA' ++ lN' ++ lR' = l1' ++ (r', x) :: l2' /\ length l1' = length l1 /\
    length lA' = length lxa /\ length lN' = length lxn /\ length lR' = length lxr /\
    Forall2 same_rec (lxa ++ lxn ++ lxr) (lA' ++ lN' ++ lR').
Proof.
  intros p v it qls qt lxa lxn lxr l1 r x l2 Hb Hp Rd El Hsec.
  (* the translation of the record's offset *)
  destruct (uncompress_at_spec p v Hb Hp) as (qls0 & qt0 & qe & e1 & e2 & lxa0 & lxn0 & lxr0 & [(qe0 & Hc0 & Ht0 & Hcl0 & Hl0)] & Hcn & Ha & Hn & Hr & Hx & Han & Hns & Har & _ & _ & Hat).
  assert (Rd0 : reading p qls0 qt0 lxa0 lxn0 lxr0).
  { destruct (cname_l_fun _ _ _ _ _ _ Hc0 Hcn) as [_ ->]. constructor; try assumption. exists qe, e1, e2. repeat split; try assumption; apply Hcn. }
  destruct (reading_fun _ _ _ _ _ _ _ _ _ _ _ Rd0 Rd) as (-> & -> & -> & -> & ->). clear Rd0.
  specialize (Hat l1 (r, x) l2 El). cbn [fst] in Hat.
  set (q0 := firstn 12 p ++ plain_question qls qt CLASS_IN) in *.
  (* the pointer-free packet and its reading *)
  destruct (uncompress_roundtrip p v Hb Hp) as (q & v' & qls1 & qt1 & lxa1 & lxn1 & lxr1 & lA' & lN' & lR' & Hu & Hbq & Hp' & Hfix & R1 & Rd' & Ea & En & Er & F2).
  destruct (reading_fun _ _ _ _ _ _ _ _ _ _ _ R1 Rd) as (-> & -> & -> & -> & ->). clear R1.
  destruct (uncompress_reading p v Hb Hp) as (qls2 & qt2 & a2 & n2 & r2 & R2 & Hu2).
  destruct (reading_fun _ _ _ _ _ _ _ _ _ _ _ R2 Rd) as (-> & -> & -> & -> & ->). clear R2.
  assert (Eq : q = q0 ++ concat (map plain_record (lxa ++ lxn ++ lxr))).
  { rewrite Hu in Hu2. injection Hu2 as ->. unfold plain_packet_of, q0. rewrite <- app_assoc. reflexivity. }
  rewrite <- Eq in Hat.
  (* where the record sits in the pointer-free packet *)
  rewrite El in F2. destruct (Forall2_split_at same_rec l1 (r, x) l2 _ F2) as (l1' & [r' x'] & l2' & El' & Ll1 & (Ex & _) & F1).
  cbn [fst snd] in Ex. subst x'.
  pose proof (same_rec_plain _ _ F1) as Epl.
  destruct (plain_parts_of q v' Hbq Hp' Hfix) as (w & qls3 & qt3 & A & Nn & R & s1 & s2 & s3 & P).
  destruct (parts_build_wf q w qls3 qt3 A Nn R s1 s2 s3 Hbq P) as (Lq & Rq).
  destruct (reading_fun _ _ _ _ _ _ _ _ _ _ _ Rq Rd') as (-> & -> & EA & EN & ER).
  set (o1 := 12 + length (wire_of_labels qls) + 4) in *.
  assert (Lq0 : length q0 = o1).
  { unfold q0, plain_question. rewrite !app_length, firstn_length. cbn [length be16_bytes].
    assert (12 <= length p) by (destruct Rd as [(? & ? & ? & Hc & _) _ _ _ _]; destruct Hc; lia). unfold o1. lia. }
  assert (Eoff' : rv_off r' = length (q0 ++ concat (map plain_record l1))).
  { rewrite <- EA, <- EN, <- ER, place3 in El'. destruct (place_split_at l1' _ o1 r' x l2' El') as (A1 & r0 & A2 & _ & El1 & _ & Er').
    rewrite Er'. cbn [rv_at rv_off]. rewrite app_length, Lq0, <- Epl, El1, map_plain_place. reflexivity. }
  rewrite <- Eoff' in Hat.
  assert (Hin' : In (r', x) (lA' ++ lN' ++ lR')) by (rewrite El'; apply in_or_app; right; left; reflexivity).
  destruct (reading_record_in _ _ _ _ _ _ Rd' r' x Hin') as (_ & e' & Hrec').
  destruct (next_from q r' e' Hbq Hrec') as (_ & _ & He').
  (* the view after *)
  destruct (summary_kept p v q v' Hb Hp Hu Hp') as (Ec & Erc & Ever & Exf & Emp).
  assert (Hpk : pp_packet v = p).
  { destruct (parse_view_pos p v Hb Hp) as (? & ? & ? & ? & ? & ? & ? & ? & ? & H & _). exact H. }
  assert (Hpk' : pp_packet v' = q).
  { destruct (parse_view_pos q v' Hbq Hp') as (? & ? & ? & ? & ? & ? & ? & ? & ? & H & _). exact H. }
  pose proof (parse_maybe_compressed p v Hp) as Hmc.
  exists (decompressed_view v'), lA', lN', lR', l1', r', l2'.
  assert (Hdvp : pp_packet (decompressed_view v') = q) by (unfold decompressed_view, pp_update; cbn; exact Hpk').
  rewrite Hdvp.
  split.
  { unfold m_cursor_decompress. unfold cbind at 1. unfold getv at 1. cbn [fst snd]. unfold cbind at 1. unfold clift at 1. rewrite Hpk, Hat.
    unfold cbind at 1. unfold putv at 1. cbn [fst snd].
    rewrite cbind_assoc. unfold cbind at 1.
    rewrite (cursor_on (pp_with_packet v q) it r' e' Hbq Hrec' Hsec). rewrite He'.
    unfold m_recompute_sections, m_recompute, cbind, getv, clift, putv. cbn [fst snd pp_with_packet pp_maybe_compressed pp_packet].
    rewrite Hmc. cbn [negb]. rewrite Hfix, Hp'.
    unfold edns_summary_same. cbn [pp_edns_count pp_ext_rcode pp_edns_version pp_ext_flags].
    rewrite Ec, Erc, Ever, Exf, N.eqb_refl, !opt_N_eqb_refl. cbn [andb negb fst snd pp_update pp_maybe_compressed].
    unfold decompressed_view, pp_update. cbn [pp_edns_count pp_ext_rcode pp_edns_version pp_ext_flags pp_max_payload].
    rewrite Hpk', Ec, Erc, Ever, Exf, Emp. reflexivity. }
  split.
  { constructor; rewrite ?Hdvp; try assumption; [reflexivity|].
    exists v'. split; [exact Hp'|]. unfold same_view, decompressed_view, pp_update. cbn. repeat split; reflexivity. }
  split; [exact Hu|].
  split.
  { intros (w0 & Hw0 & Hqr). exists w0. split; [|exact Hqr].
    pose proof (uncompress_header p q Hu) as Hh.
    pose proof (u16_at_firstn p 12 2 w0 ltac:(lia) Hw0) as U0. rewrite <- Hh in U0.
    destruct U0 as (a0 & b0 & Ha0 & Hb0 & E0). exists a0, b0. rewrite nth_error_firstn in Ha0, Hb0 by lia. auto. }
  split; [exact Rd'|]. split; [exact El'|]. split; [exact Ll1|].
  split; [rewrite <- (map_length plain_record lA'), Ea, map_length; reflexivity|].
  split; [rewrite <- (map_length plain_record lN'), En, map_length; reflexivity|].
  split; [rewrite <- (map_length plain_record lR'), Er, map_length; reflexivity|].
  rewrite El. exact F2.
Qed.

(** ** The section offsets of any accepted packet against its reading *)
Lemma parse_offsets_reading p f qls qt lA lN lR : bytes_ok p -> parse p = Ok f -> reading p qls qt lA lN lR ->
  exists qe e1 e2, records_at p (qe + 4) (map fst lA) e1 /\ records_at p e1 (map fst lN) e2 /\ records_at p e2 (map fst lR) (length p) /\
    12 < qe /\
    pp_offset_question f = Some 12 /\
    pp_offset_answers f = (if 0 <? length lA then Some (qe + 4) else None) /\
    pp_offset_nameservers f = (if 0 <? length lN then Some e1 else None) /\
    pp_offset_additional f = (if 0 <? length lR then Some e2 else None).
Proof.
  intros Hb Hp [(qe0 & f1 & f2 & Hcn0 & _ & _ & _ & Ra & Rn & Rr) _ Han0 Hns0 Har0].
  destruct (parse_view p f Hb Hp) as (an & ns & ar & qe & e1 & t1 & e2 & t2 & t3 & Hpk & (ls & Hqn) & Hq4 & Han & Hns & Har &
                                      Hlan & Hlns & Hlar & Hc1 & Hc2 & Hc3 & Hoan & Hons & Hoar).
  rewrite Han0 in Han. rewrite Hns0 in Hns. rewrite Har0 in Har. inversion Han; inversion Hns; inversion Har; subst an ns ar.
  destruct (cname_l_fun _ _ _ _ _ _ Hcn0 Hqn) as [_ <-].
  destruct (rrs_wf_records _ _ _ _ _ _ _ Hc1) as (l1 & Hl1 & Hn1 & _).
  destruct (records_at_fun p _ _ _ Hl1 _ _ Ra ltac:(rewrite map_length; lia)) as [_ ->].
  destruct (rrs_wf_records _ _ _ _ _ _ _ Hc2) as (l2 & Hl2 & Hn2 & _).
  destruct (records_at_fun p _ _ _ Hl2 _ _ Rn ltac:(rewrite map_length; lia)) as [_ ->].
  destruct (parse_shape _ _ Hb Hp) as (? & ? & ? & ? & ? & ? & ? & Ff).
  exists qe0, f1, f2. repeat (split; [assumption|]).
  split; [destruct Hcn0 as [_ Hna]; apply name_at_end_gt in Hna; exact Hna|].
  split; [exact (pf_oq _ _ _ _ _ _ _ _ _ Ff)|].
  rewrite Hoan, Hons, Hoar.
  split; [destruct (length lA); [reflexivity|cbn; destruct (N.of_nat _); reflexivity]|].
  split; [destruct (length lN); [reflexivity|cbn; destruct (N.of_nat _); reflexivity]|destruct (length lR); [reflexivity|cbn; destruct (N.of_nat _); reflexivity]].
Qed.

Lemma records_at_le p : forall a l b, records_at p a l b -> a <= b.
Proof. intros a l b H. pose proof (records_at_span p a l b H). lia. Qed.

Lemma records_at_in_bounds p : forall a l b, records_at p a l b -> forall r, In r l -> a <= rv_off r /\ rv_off r < b.
Proof.
  induction 1 as [off|r off' l e Hr Hl IH]; intros r0 Hin; [destruct Hin|].
  destruct (record_at_end _ _ _ Hr) as (He & Hlt & _). unfold rv_end in He. pose proof (records_at_le _ _ _ _ Hl).
  destruct Hin as [<-|Hin]; [lia|]. destruct (IH r0 Hin). lia.
Qed.

(** which section the cursor code finds for a record of the reading of a freshly parsed packet *)
Lemma fresh_section p v qls qt lA lN lR sec r x it : bytes_ok p -> parse p = Ok v -> reading p qls qt lA lN lR ->
  sec = SAnswer \/ sec = SNameServers \/ sec = SAdditional -> In (r, x) (sec_list sec lA lN lR) -> it_offset it = Some (rv_off r) ->
  it_current_section v it = Ok sec.
Proof.
  intros Hb Hp Rd Hsec Hin Eoff.
  destruct (parse_offsets_reading p v qls qt lA lN lR Hb Hp Rd) as (qe & e1 & e2 & Ra & Rn & Rr & Hqe & Voq & Voa & Von & Vor).
  pose proof (records_at_le _ _ _ _ Ra). pose proof (records_at_le _ _ _ _ Rn). pose proof (records_at_le _ _ _ _ Rr).
  assert (Hr : In r (map fst (sec_list sec lA lN lR))) by (apply in_map_iff; exists (r, x); auto).
  assert (Hlen : 0 < length (sec_list sec lA lN lR)) by (destruct (sec_list sec lA lN lR); [destruct Hin|cbn; lia]).
  destruct Hsec as [->|[->| ->]]; cbn [sec_list] in *.
  - destruct (records_at_in_bounds _ _ _ _ Ra r Hr). rewrite (cur_sec_of v it _ Eoff Voq ltac:(lia)). rewrite Voa, Von, Vor.
    replace (0 <? length lA) with true by lia.
    destruct (0 <? length lN), (0 <? length lR); cbn [off_ge];
      repeat match goal with |- context [?a <=? ?b] => destruct (Nat.leb_spec a b) end; try reflexivity; lia.
  - destruct (records_at_in_bounds _ _ _ _ Rn r Hr). rewrite (cur_sec_of v it _ Eoff Voq ltac:(lia)). rewrite Voa, Von, Vor.
    replace (0 <? length lN) with true by lia.
    destruct (0 <? length lA), (0 <? length lR); cbn [off_ge];
      repeat match goal with |- context [?a <=? ?b] => destruct (Nat.leb_spec a b) end; try reflexivity; lia.
  - destruct (records_at_in_bounds _ _ _ _ Rr r Hr). rewrite (cur_sec_of v it _ Eoff Voq ltac:(lia)). rewrite Voa, Von, Vor.
    replace (0 <? length lR) with true by lia.
    destruct (0 <? length lA), (0 <? length lN); cbn [off_ge];
      repeat match goal with |- context [?a <=? ?b] => destruct (Nat.leb_spec a b) end; try reflexivity; lia.
Qed.

Lemma same_rec_unpl : forall l m, Forall2 same_rec l m -> map unpl m = map unpl l.
Proof.
  induction 1 as [|[r x] [r' x'] l m (Ex & El & Et & Ec & Ettl) _ IH]; cbn [map]; [reflexivity|]. rewrite IH. f_equal.
  cbn [fst snd] in *. subst x'. unfold unpl, rv_at. cbn [fst snd]. rewrite El, Et, Ec, Ettl. reflexivity.
Qed.

Lemma app_split_len {T} : forall (a c b d : list T), a ++ b = c ++ d -> length a = length c -> a = c /\ b = d.
Proof.
  induction a as [|x a IH]; intros [|y c] b d H L; cbn in *; try discriminate; [auto|].
  injection H as -> H. destruct (IH c b d H ltac:(lia)) as [-> ->]. auto.
Qed.

(** the three sections of two concatenations with equal section lengths *)
Lemma sections_of_concat {T} (a b c a' b' c' : list T) : a ++ b ++ c = a' ++ b' ++ c' -> length a = length a' -> length b = length b' ->
  a = a' /\ b = b' /\ c = c'.
Proof.
  intros H La Lb. destruct (app_split_len a a' _ _ H La) as [-> H2]. destruct (app_split_len b b' _ _ H2 Lb) as [-> ->]. auto.
Qed.

Lemma dinv_section v qls qt lA lN lR sec r x it : dinv v -> reading (pp_packet v) qls qt lA lN lR ->
  sec = SAnswer \/ sec = SNameServers \/ sec = SAdditional -> In (r, x) (sec_list sec lA lN lR) -> it_offset it = Some (rv_off r) ->
  it_current_section v it = Ok sec.
Proof.
  intros [_ Hb _ (f & Hf & Hsv)] Rd Hsec Hin Eoff. destruct Hsv as (_ & Voq & Voa & Von & Vor & _).
  rewrite (cur_sec_same f v it it eq_refl Voq Voa Von Vor). exact (fresh_section _ f qls qt lA lN lR sec r x it Hb Hf Rd Hsec Hin Eoff).
Qed.

(** [delete] on a freshly parsed object = the decompress-and-translate prologue, then [delete] on the pointer-free object *)
Theorem delete_fresh_is_delete_after_decompress : forall p v qls qt lA lN lR sec r x n dv r',
  bytes_ok p -> parse p = Ok v -> reading p qls qt lA lN lR -> sec = SAnswer \/ sec = SNameServers \/ sec = SAdditional ->
  In (r, x) (sec_list sec lA lN lR) ->
  m_cursor_decompress (rv_off r) (v, cur_on sec r n) = ((dv, cur_on sec r' n), Ok tt) ->
  dinv dv -> forall qls' qt' lA' lN' lR', reading (pp_packet dv) qls' qt' lA' lN' lR' -> In (r', x) (sec_list sec lA' lN' lR') -> rv_type r' = rv_type r ->
  m_delete (v, cur_on sec r n) = m_delete (dv, cur_on sec r' n).
Proof.
  intros p v qls qt lA lN lR sec r x n dv r' Hb Hp Rd Hsec Hin Hdec Hd qls' qt' lA' lN' lR' Rd' Hin' Ety.
  pose proof (parse_maybe_compressed p v Hp) as Hmc. pose proof (di_mc _ Hd) as Hmc'.
  assert (Hpk : pp_packet v = p).
  { destruct (parse_view_pos p v Hb Hp) as (? & ? & ? & ? & ? & ? & ? & ? & ? & H & _). exact H. }
  assert (Hall : forall s l1 l2 l3 (y : rec_view * rd_view), In y (sec_list s l1 l2 l3) -> s = SAnswer \/ s = SNameServers \/ s = SAdditional -> In y (l1 ++ l2 ++ l3)).
  { intros s l1 l2 l3 y Hy [->|[->| ->]]; cbn [sec_list] in Hy; repeat (apply in_or_app; first [left; exact Hy|right]); exact Hy. }
  destruct (reading_record_in _ _ _ _ _ _ Rd r x (Hall _ _ _ _ _ Hin Hsec)) as (_ & e & Hrec).
  destruct (reading_record_in _ _ _ _ _ _ Rd' r' x (Hall _ _ _ _ _ Hin' Hsec)) as (_ & e' & Hrec').
  pose proof (fresh_section p v qls qt lA lN lR sec r x (cur_on sec r n) Hb Hp Rd Hsec Hin eq_refl) as Es.
  pose proof (dinv_section dv qls' qt' lA' lN' lR' sec r' x (cur_on sec r' n) Hd Rd' Hsec Hin' eq_refl) as Es'.
  pose proof (it_rr_type_ok p v Hpk r e (cur_on sec r n) Hrec eq_refl eq_refl) as Et.
  pose proof (it_rr_type_ok (pp_packet dv) dv eq_refl r' e' (cur_on sec r' n) Hrec' eq_refl eq_refl) as Et'.
  unfold m_delete.
  unfold cbind at 1. unfold getv at 1. cbn [fst snd]. unfold cbind at 1. unfold getit at 1. cbn [fst snd].
  cbn [cur_on it_offset]. fold (cur_on sec r n).
  unfold cbind at 1. unfold clift at 1. rewrite Es. unfold cbind at 1. unfold clift at 1. rewrite Et. cbn [bind]. rewrite Hmc.
  unfold cbind at 1. rewrite Hdec.
  symmetry.
  unfold cbind at 1. unfold getv at 1. cbn [fst snd]. unfold cbind at 1. unfold getit at 1. cbn [fst snd].
  cbn [cur_on it_offset]. fold (cur_on sec r' n).
  unfold cbind at 1. unfold clift at 1. rewrite Es'. unfold cbind at 1. unfold clift at 1. rewrite Et'. cbn [bind]. rewrite Hmc', Ety.
  unfold cbind at 1. unfold cret at 1.
  destruct (section_eqb sec SAdditional); reflexivity.
Qed.

Lemma sec_concat_split sec (lA lN lR : list (rec_view * rd_view)) l1 y l2 : sec = SAnswer \/ sec = SNameServers \/ sec = SAdditional ->
  sec_list sec lA lN lR = l1 ++ y :: l2 ->
  exists L1 L2, lA ++ lN ++ lR = L1 ++ y :: L2 /\
    length L1 = (match sec with SAnswer => 0 | SNameServers => length lA | _ => length lA + length lN end) + length l1.
Proof.
  intros [->|[->| ->]] E; cbn [sec_list] in E; rewrite E.
  - exists l1, (l2 ++ lN ++ lR). rewrite <- app_assoc. cbn [app]. auto.
  - exists (lA ++ l1), (l2 ++ lR). rewrite <- !app_assoc. cbn [app]. rewrite app_length. auto.
  - exists (lA ++ lN ++ l1), l2. rewrite <- !app_assoc. cbn [app]. rewrite !app_length. split; [reflexivity|lia].
Qed.

Lemma sec_of_concat_split sec (lA lN lR : list (rec_view * rd_view)) L1 y L2 k : sec = SAnswer \/ sec = SNameServers \/ sec = SAdditional ->
  lA ++ lN ++ lR = L1 ++ y :: L2 ->
  length L1 = (match sec with SAnswer => 0 | SNameServers => length lA | _ => length lA + length lN end) + k ->
  k < length (sec_list sec lA lN lR) ->
  exists l1 l2, sec_list sec lA lN lR = l1 ++ y :: l2 /\ length l1 = k.
Proof.
  intros Hsec E HL Hk. apply nth_error_split_at.
  assert (Hn : nth_error (lA ++ lN ++ lR) (length L1) = Some y) by (rewrite E, nth_error_app2, Nat.sub_diag by lia; reflexivity).
  destruct Hsec as [->|[->| ->]]; cbn [sec_list] in *; rewrite HL in Hn.
  - rewrite nth_error_app1 in Hn by lia. exact Hn.
  - rewrite nth_error_app2 in Hn by lia. replace (length lA + k - length lA) with k in Hn by lia. rewrite nth_error_app1 in Hn by lia. exact Hn.
  - rewrite nth_error_app2 in Hn by lia. replace (length lA + length lN + k - length lA) with (length lN + k) in Hn by lia.
    rewrite nth_error_app2 in Hn by lia. replace (length lN + k - length lN) with k in Hn by lia. exact Hn.
Qed.

(** deletion through a cursor on a non-OPT record of a freshly parsed packet, compressed or not *)
Theorem delete_on_fresh_parse : forall p v qls qt lA lN lR sec l1 r x l2 n s',
  bytes_ok p -> parse p = Ok v -> reading p qls qt lA lN lR -> sec = SAnswer \/ sec = SNameServers \/ sec = SAdditional ->
  sec_list sec lA lN lR = l1 ++ (r, x) :: l2 -> is_opt r = false ->
  m_delete (v, cur_on sec r n) = (s', Ok tt) ->
  dinv (fst s') /\ it_offset (snd s') = None /\ it_section (snd s') = sec /\
  exists lA' lN' lR', reading (pp_packet (fst s')) qls qt lA' lN' lR' /\
    map unpl (sec_list sec lA' lN' lR') = map unpl l1 ++ map unpl l2 /\ other_sections_kept sec lA lN lR lA' lN' lR'.
Proof.
  intros p v qls qt lA lN lR sec l1 r x l2 n s' Hb Hp Rd Hsec El Hno Hdel.
  destruct (sec_concat_split sec lA lN lR l1 (r, x) l2 Hsec El) as (L1 & L2 & EL & LL1).
  destruct (cursor_decompress_fresh p v (cur_on sec r n) qls qt lA lN lR L1 r x L2 Hb Hp Rd EL ltac:(destruct Hsec as [->|[->| ->]]; discriminate))
    as (dv & lA1 & lN1 & lR1 & L1' & r' & L2' & Hdec & Hd & _ & _ & Rd1 & EL' & LL1' & LA & LN & LR & F2).
  change (it_set (it_set (cur_on sec r n) (Some (rv_off r')) (it_offset_next (cur_on sec r n)) (it_name_end (cur_on sec r n))) (Some (rv_off r'))
            (rv_name_end r' + 10 + rv_rdlen r') (rv_name_end r')) with (cur_on sec r' n) in Hdec.
  assert (Hk : length l1 < length (sec_list sec lA1 lN1 lR1)).
  { assert (length (sec_list sec lA1 lN1 lR1) = length (sec_list sec lA lN lR)) by (destruct Hsec as [->|[->| ->]]; cbn [sec_list]; assumption).
    rewrite H, El, app_length. cbn [length]. lia. }
  destruct (sec_of_concat_split sec lA1 lN1 lR1 L1' (r', x) L2' (length l1) Hsec EL' ltac:(rewrite LL1', LL1, LA, LN; reflexivity) Hk) as (l1' & l2' & El' & Ll1').
  assert (Hin : In (r, x) (sec_list sec lA lN lR)) by (rewrite El; apply in_or_app; right; left; reflexivity).
  assert (Hin' : In (r', x) (sec_list sec lA1 lN1 lR1)) by (rewrite El'; apply in_or_app; right; left; reflexivity).
  (* the same record *)
  pose proof (same_rec_unpl _ _ F2) as EU. rewrite !map_app in EU.
  destruct (sections_of_concat _ _ _ _ _ _ EU ltac:(rewrite !map_length; exact LA) ltac:(rewrite !map_length; exact LN)) as (UA & UN & UR).
  assert (Usec : forall s2, map unpl (sec_list s2 lA1 lN1 lR1) = map unpl (sec_list s2 lA lN lR)) by (intros [| | | |]; cbn [sec_list]; assumption).
  pose proof (Usec sec) as Us. rewrite El, El', !map_app in Us. cbn [map] in Us.
  destruct (app_split_len _ _ _ _ Us ltac:(rewrite !map_length; exact Ll1')) as (U1 & Us2). destruct (cons_inj _ _ _ _ Us2) as [Ur U2].
  assert (Ety : rv_type r' = rv_type r) by (apply (f_equal (fun y : rec_view * rd_view => rv_type (fst y))) in Ur; exact Ur).
  assert (Hno' : is_opt r' = false) by (unfold is_opt in *; rewrite Ety; exact Hno).
  rewrite (delete_fresh_is_delete_after_decompress p v qls qt lA lN lR sec r x n dv r' Hb Hp Rd Hsec Hin Hdec Hd qls qt lA1 lN1 lR1 Rd1 Hin' Ety) in Hdel.
  destruct (delete_at sec dv qls qt lA1 lN1 lR1 l1' r' x l2' n s' Hd Rd1 Hsec El' Hno' Hdel) as (Hd' & Ho & Hs & lA2 & lN2 & lR2 & Rd2 & E2 & Hk2).
  split; [exact Hd'|]. split; [exact Ho|]. split; [exact Hs|]. exists lA2, lN2, lR2. split; [exact Rd2|].
  split; [rewrite E2, U1, U2; reflexivity|]. intros s2 Hne Hs2. rewrite (Hk2 s2 Hne Hs2). apply Usec.
Qed.

(** ** The owner-name setter on a freshly parsed object *)
Theorem set_name_fresh_is_set_name_after_decompress : forall nm n0 v it dv cur ref,
  pp_maybe_compressed v = true -> pp_maybe_compressed dv = false -> it_offset it = Some ref ->
  check_compressed_name nm 0 = Ok n0 ->
  m_cursor_decompress ref (v, it) = ((dv, cur), Ok tt) ->
  m_set_raw_name nm (v, it) = m_set_raw_name nm (dv, cur).
Proof.
  intros nm n0 v it dv cur ref Hmc Hmc' Eoff Hck Hdec.
  unfold m_set_raw_name.
  unfold cbind at 1. unfold clift at 1. rewrite Hck.
  unfold cbind at 1. unfold getv at 1. cbn [fst snd]. unfold cbind at 1. unfold getit at 1. cbn [fst snd]. rewrite Hmc, Eoff.
  unfold cbind at 1. rewrite Hdec.
  symmetry.
  unfold cbind at 1. unfold clift at 1.
  unfold cbind at 1. unfold getv at 1. cbn [fst snd]. unfold cbind at 1. unfold getit at 1. cbn [fst snd]. rewrite Hmc'.
  unfold cbind at 1. unfold cret at 1. reflexivity.
Qed.

Lemma unpl_with_labels r r' x ls : unpl (r, x) = unpl (r', x) -> unpl (with_labels (r, x) ls) = unpl (with_labels (r', x) ls).
Proof.
  intros E.
  assert (Et : rv_type r = rv_type r') by (apply (f_equal (fun y : rec_view * rd_view => rv_type (fst y))) in E; exact E).
  assert (Ec : rv_class r = rv_class r') by (apply (f_equal (fun y : rec_view * rd_view => rv_class (fst y))) in E; exact E).
  assert (Ettl : rv_ttl r = rv_ttl r') by (apply (f_equal (fun y : rec_view * rd_view => rv_ttl (fst y))) in E; exact E).
  unfold unpl, with_labels, rv_at. cbn [fst snd rv_with_labels rv_labels rv_type rv_class rv_ttl]. rewrite Et, Ec, Ettl. reflexivity.
Qed.

Theorem set_name_on_fresh_parse : forall nm p v qls qt lA lN lR sec l1 r x l2 n s',
  bytes_ok p -> bytes_ok nm -> parse p = Ok v -> reading p qls qt lA lN lR -> sec = SAnswer \/ sec = SNameServers \/ sec = SAdditional ->
  sec_list sec lA lN lR = l1 ++ (r, x) :: l2 -> is_opt r = false ->
  m_set_raw_name nm (v, cur_on sec r n) = (s', Ok tt) ->
  dinv (fst s') /\
  exists n0 ls lA' lN' lR' U1 U2,
    check_compressed_name nm 0 = Ok n0 /\ firstn n0 nm = wire_of_labels ls /\ name_ok ls /\
    reading (pp_packet (fst s')) qls qt lA' lN' lR' /\
    length lA' = length lA /\ length lN' = length lN /\ length lR' = length lR /\
    map unpl (lA ++ lN ++ lR) = U1 ++ unpl (r, x) :: U2 /\
    map unpl (lA' ++ lN' ++ lR') = U1 ++ unpl (with_labels (r, x) ls) :: U2 /\
    length U1 = (match sec with SAnswer => 0 | SNameServers => length lA | _ => length lA + length lN end) + length l1.
Proof.
  intros nm p v qls qt lA lN lR sec l1 r x l2 n s' Hb Hbnm Hp Rd Hsec El Hno Hrun.
  assert (Hck : exists n0, check_compressed_name nm 0 = Ok n0).
  { unfold m_set_raw_name in Hrun. unfold cbind at 1 in Hrun. unfold clift at 1 in Hrun.
    destruct (check_compressed_name nm 0) as [n0| |]; [eauto|inversion Hrun|inversion Hrun]. }
  destruct Hck as (n0 & Hck).
  destruct (sec_concat_split sec lA lN lR l1 (r, x) l2 Hsec El) as (L1 & L2 & EL & LL1).
  destruct (cursor_decompress_fresh p v (cur_on sec r n) qls qt lA lN lR L1 r x L2 Hb Hp Rd EL ltac:(destruct Hsec as [->|[->| ->]]; discriminate))
    as (dv & lA1 & lN1 & lR1 & L1' & r' & L2' & Hdec & Hd & _ & _ & Rd1 & EL' & LL1' & LA & LN & LR & F2).
  change (it_set (it_set (cur_on sec r n) (Some (rv_off r')) (it_offset_next (cur_on sec r n)) (it_name_end (cur_on sec r n))) (Some (rv_off r'))
            (rv_name_end r' + 10 + rv_rdlen r') (rv_name_end r')) with (cur_on sec r' n) in Hdec.
  rewrite (set_name_fresh_is_set_name_after_decompress nm n0 v (cur_on sec r n) dv (cur_on sec r' n) (rv_off r) (parse_maybe_compressed p v Hp) (di_mc _ Hd) eq_refl Hck Hdec) in Hrun.
  pose proof (same_rec_unpl _ _ F2) as EU. rewrite EL, EL', !map_app in EU. cbn [map] in EU.
  destruct (app_split_len _ _ _ _ EU ltac:(rewrite !map_length; exact LL1')) as (U1e & Us2). destruct (cons_inj _ _ _ _ Us2) as [Ur U2e].
  assert (Ety : rv_type r' = rv_type r) by (apply (f_equal (fun y : rec_view * rd_view => rv_type (fst y))) in Ur; exact Ur).
  assert (Hno' : is_opt r' = false) by (unfold is_opt in *; rewrite Ety; exact Hno).
  assert (Hin1 : In (r', x) (lA1 ++ lN1 ++ lR1)) by (rewrite EL'; apply in_or_app; right; left; reflexivity).
  destruct (set_raw_name_keeps_dinv nm dv (cur_on sec r' n) s' qls qt lA1 lN1 lR1 r' x Hd Hbnm Rd1 Hin1 Hno' eq_refl eq_refl Hrun)
    as (Hd' & n1 & ls & A & Nn & R & A' & Nn' & R' & X1 & r0 & X2 & Hrest).
  cbv zeta in Hrest. destruct Hrest as (Hck1 & Hseg & Hls & EA & EN & ER & Rd2 & EX & EX' & Er' & LA' & LN' & LR' & _).
  rewrite Hck in Hck1. injection Hck1 as <-.
  split; [exact Hd'|]. eexists n0, ls, _, _, _, (map unpl L1), (map unpl L2). split; [exact Hck|]. split; [exact Hseg|]. split; [exact Hls|].
  split; [exact Rd2|]. rewrite !place_length.
  split; [rewrite LA', <- LA, EA, place_length; reflexivity|]. split; [rewrite LN', <- LN, EN, place_length; reflexivity|].
  split; [rewrite LR', <- LR, ER, place_length; reflexivity|].
  split; [rewrite EL, map_app; reflexivity|].
  split; [|rewrite map_length; exact LL1].
  (* the new lists *)
  rewrite !map_app, !unpl_place, <- !map_app, EX', map_app. cbn [map].
  assert (E1 : map unpl (lA1 ++ lN1 ++ lR1) = map unpl X1 ++ unpl (r0, x) :: map unpl X2).
  { rewrite EA, EN, ER, !map_app, !unpl_place, <- !map_app, EX, map_app. reflexivity. }
  rewrite EL', map_app in E1. cbn [map] in E1.
  assert (LX1 : length (map unpl L1') = length (map unpl X1)).
  { rewrite !map_length.
    assert (Hp1 : lA1 ++ lN1 ++ lR1 = place (12 + length (wire_of_labels qls) + 4) (A ++ Nn ++ R)) by (rewrite EA, EN, ER; apply place3).
    rewrite EX, place_split, EL' in Hp1.
    assert (Hoff : rv_off r' = 12 + length (wire_of_labels qls) + 4 + length (cat X1)) by (rewrite Er'; reflexivity).
    (* positions in a placed list are determined by offsets *)
    destruct (Nat.lt_trichotomy (length L1') (length X1)) as [Hlt|[Heq|Hgt]]; [exfalso| exact Heq |exfalso].
    - apply (f_equal (fun l => nth_error l (length L1'))) in Hp1.
      assert (Hl : nth_error (L1' ++ (r', x) :: L2') (length L1') = Some (r', x)) by (rewrite nth_error_app2, Nat.sub_diag by lia; reflexivity).
      rewrite Hl in Hp1. clear Hl.
      match type of Hp1 with _ = nth_error (?a ++ ?b) _ => assert (Hr : nth_error (a ++ b) (length L1') = nth_error a (length L1')) by (apply nth_error_app1; rewrite place_length; lia) end.
      rewrite Hr in Hp1. clear Hr.
      symmetry in Hp1. apply nth_error_split_at in Hp1. destruct Hp1 as (pa & pb & Epl & Lpa).
      destruct (place_split_at pa X1 _ r' x pb Epl) as (Y1 & y0 & Y2 & EY & _ & _ & Ery). rewrite Ery in Hoff. cbn [rv_at rv_off] in Hoff.
      rewrite EY, cat_app, cat_cons, !app_length, plain_record_length in Hoff. lia.
    - apply (f_equal (fun l => nth_error l (length X1))) in Hp1.
      assert (Hl : nth_error (L1' ++ (r', x) :: L2') (length X1) = nth_error L1' (length X1)) by (apply nth_error_app1; lia).
      rewrite Hl in Hp1. clear Hl.
      match type of Hp1 with _ = nth_error (?a ++ ?y :: ?b) _ => assert (Hr : nth_error (a ++ y :: b) (length X1) = Some y)
        by (rewrite nth_error_app2 by (rewrite place_length; lia); rewrite place_length, Nat.sub_diag; reflexivity) end.
      rewrite Hr in Hp1. clear Hr.
      apply nth_error_split_at in Hp1. destruct Hp1 as (pa & pb & Epl & Lpa).
      assert (Hpl : place (12 + length (wire_of_labels qls) + 4) (A ++ Nn ++ R) = (pa ++ (rv_at (fst (r0, x)) (snd (r0, x)) (12 + length (wire_of_labels qls) + 4 + length (cat X1)), snd (r0, x)) :: pb) ++ (r', x) :: L2').
      { rewrite <- Epl, <- EL', EA, EN, ER. symmetry. apply place3. }
      rewrite <- app_assoc in Hpl. cbn [app] in Hpl.
      destruct (place_split_at pa _ _ _ _ _ Hpl) as (Y1 & y0 & Y2 & EY & Epa & Erest & Ery).
      symmetry in Erest. destruct (place_split_at pb Y2 _ r' x L2' Erest) as (Z1 & z0 & Z2 & _ & _ & _ & Erz).
      rewrite Erz in Hoff. cbn [rv_at rv_off] in Hoff. cbn [fst snd rv_at rv_off] in Ery.
      assert (Hoy : 12 + length (wire_of_labels qls) + 4 + length (cat X1) = 12 + length (wire_of_labels qls) + 4 + length (cat Y1)).
      { apply (f_equal rv_off) in Ery. cbn [rv_at rv_off] in Ery. exact Ery. }
      rewrite plain_record_length in Hoff. lia. }
  destruct (app_split_len _ _ _ _ E1 LX1) as (EU1 & Et2). destruct (cons_inj _ _ _ _ Et2) as [Er0 EU2].
  rewrite <- EU1, <- EU2, U1e, U2e. f_equal. f_equal.
  apply unpl_with_labels. rewrite <- Er0. exact Ur.
Qed.

(** ** The same two equalities for any cursor that stands on the record (any section field other than the question's) *)
Theorem delete_fresh_is_delete_after_decompress_gen : forall p v qls qt lA lN lR sec r x it dv it' r',
  bytes_ok p -> parse p = Ok v -> reading p qls qt lA lN lR -> sec = SAnswer \/ sec = SNameServers \/ sec = SAdditional ->
  In (r, x) (sec_list sec lA lN lR) -> it_offset it = Some (rv_off r) -> it_name_end it = rv_name_end r ->
  m_cursor_decompress (rv_off r) (v, it) = ((dv, it'), Ok tt) -> it_offset it' = Some (rv_off r') -> it_name_end it' = rv_name_end r' ->
  dinv dv -> forall qls' qt' lA' lN' lR', reading (pp_packet dv) qls' qt' lA' lN' lR' -> In (r', x) (sec_list sec lA' lN' lR') -> rv_type r' = rv_type r ->
  m_delete (v, it) = m_delete (dv, it').
Proof.
  intros p v qls qt lA lN lR sec r x it dv it' r' Hb Hp Rd Hsec Hin Eoff Ene Hdec Eoff' Ene' Hd qls' qt' lA' lN' lR' Rd' Hin' Ety.
  pose proof (parse_maybe_compressed p v Hp) as Hmc. pose proof (di_mc _ Hd) as Hmc'.
  assert (Hpk : pp_packet v = p).
  { destruct (parse_view_pos p v Hb Hp) as (? & ? & ? & ? & ? & ? & ? & ? & ? & H & _). exact H. }
  assert (Hall : forall s l1 l2 l3 (y : rec_view * rd_view), In y (sec_list s l1 l2 l3) -> s = SAnswer \/ s = SNameServers \/ s = SAdditional -> In y (l1 ++ l2 ++ l3)).
  { intros s l1 l2 l3 y Hy [->|[->| ->]]; cbn [sec_list] in Hy; repeat (apply in_or_app; first [left; exact Hy|right]); exact Hy. }
  destruct (reading_record_in _ _ _ _ _ _ Rd r x (Hall _ _ _ _ _ Hin Hsec)) as (_ & e & Hrec).
  destruct (reading_record_in _ _ _ _ _ _ Rd' r' x (Hall _ _ _ _ _ Hin' Hsec)) as (_ & e' & Hrec').
  pose proof (fresh_section p v qls qt lA lN lR sec r x it Hb Hp Rd Hsec Hin Eoff) as Es.
  pose proof (dinv_section dv qls' qt' lA' lN' lR' sec r' x it' Hd Rd' Hsec Hin' Eoff') as Es'.
  pose proof (it_rr_type_ok p v Hpk r e it Hrec Eoff Ene) as Et.
  pose proof (it_rr_type_ok (pp_packet dv) dv eq_refl r' e' it' Hrec' Eoff' Ene') as Et'.
  unfold m_delete.
  unfold cbind at 1. unfold getv at 1. cbn [fst snd]. unfold cbind at 1. unfold getit at 1. cbn [fst snd]. rewrite Eoff.
  unfold cbind at 1. unfold clift at 1. rewrite Es. unfold cbind at 1. unfold clift at 1. rewrite Et. cbn [bind]. rewrite Hmc.
  unfold cbind at 1. rewrite Hdec.
  symmetry.
  unfold cbind at 1. unfold getv at 1. cbn [fst snd]. unfold cbind at 1. unfold getit at 1. cbn [fst snd]. rewrite Eoff'.
  unfold cbind at 1. unfold clift at 1. rewrite Es'. unfold cbind at 1. unfold clift at 1. rewrite Et'. cbn [bind]. rewrite Hmc', Ety.
  unfold cbind at 1. unfold cret at 1.
  destruct (section_eqb sec SAdditional); reflexivity.
Qed.
