(** * Record-text synthesis is total (C13), and basic facts about name conversion (C14). *)
From DV Require Import Model.Base Model.Parser Model.Header Model.Readers Model.Uncompress Model.Mutate
  Model.Gen Model.Text Proofs.Hoare.
From Coq Require Import ZifyBool ZifyNat ZifyN.

Lemma crn_loop_nopanic : forall cs nl cur out, nopanic (crn_loop nl cs cur out).
Proof.
  induction cs as [|c cs IH]; intros nl cur out; cbn [crn_loop]; [exact I|].
  repeat match goal with |- context [if ?c then _ else _] => destruct c end; try exact I; apply IH.
Qed.

Lemma copy_raw_name_from_str_nopanic raw name zone : nopanic (copy_raw_name_from_str raw name zone).
Proof.
  unfold copy_raw_name_from_str. destruct (253 <? length name); [exact I|].
  pose proof (crn_loop_nopanic name (length name) [] []) as H.
  destruct (crn_loop (length name) name [] []) as [[out cur]| |]; cbn [bind]; [|exact I|exact H].
  match goal with |- context [if ?c then _ else _] => destruct c end; exact I.
Qed.

(** The encoding appended by [copy_raw_name_from_str] is at most 253 bytes long, whatever was in
    the vector before (repaired behaviour). *)
Lemma copy_raw_name_from_str_len raw name zone w :
  copy_raw_name_from_str raw name zone = Ok w ->
  exists enc, w = raw ++ enc /\ 1 <= length enc <= 253 /\ length name <= 253.
Proof.
  unfold copy_raw_name_from_str. destruct (253 <? length name) eqn:E1; [discriminate|].
  destruct (crn_loop (length name) name [] []) as [[out cur]| |]; cbn [bind]; try discriminate.
  match goal with |- context [if 253 <? length ?x then _ else _] => set (enc := x); destruct (253 <? length enc) eqn:E2 end;
    [discriminate|].
  intros H; inversion H; subst. exists enc. repeat split; try lia.
  unfold enc. destruct (length cur =? 0); rewrite !app_length; cbn [length]; lia.
Qed.

Lemma rr_new_nopanic name ttl cls t rd : nopanic (rr_new name ttl cls t rd).
Proof.
  unfold rr_new. destruct (_ <? _)%N; [exact I|].
  pose proof (copy_raw_name_from_str_nopanic [] name None) as H.
  destruct (copy_raw_name_from_str [] name None); cbn [bind]; [exact I|exact I|exact H].
Qed.

Definition presult_np (p : parser (res bytes)) : Prop :=
  forall i r rest, p i = Some (r, rest) -> nopanic r.

Lemma presult_bind {A} (p : parser A) (f : A -> parser (res bytes)) :
  (forall a, presult_np (f a)) -> presult_np (pbind p f).
Proof.
  intros H i r rest. unfold pbind. destruct (p i) as [[a i']|]; [|discriminate]. apply H.
Qed.

Lemma presult_tail (r : res bytes) : nopanic r -> presult_np (tail_eof r).
Proof.
  intros H i r' rest. unfold tail_eof, pbind, maybe_skip_hws, skip_while, eof, pret.
  destruct (snd (span is_hws i)); [|discriminate]. intros E; inversion E; subst. exact H.
Qed.

Lemma presult_fail : presult_np pfail.
Proof. intros i r rest H. discriminate. Qed.

Lemma builders_nopanic :
  (forall n t ty tg, nopanic (build_name_rr ty n t tg)) /\
  (forall n t s, nopanic (build_txt n t s)) /\
  (forall n t pr h, nopanic (build_mx n t pr h)) /\
  (forall n t a b c d e f g, nopanic (build_soa n t a b c d e f g)) /\
  (forall n t a b c d, nopanic (build_ds n t a b c d)).
Proof.
  repeat split; intros.
  - unfold build_name_rr, raw_name_from_str.
    pose proof (copy_raw_name_from_str_nopanic [] tg None) as H.
    destruct (copy_raw_name_from_str [] tg None); cbn [bind]; [apply rr_new_nopanic|exact I|exact H].
  - unfold build_txt. destruct (_ <? _); [exact I|apply rr_new_nopanic].
  - unfold build_mx.
    pose proof (copy_raw_name_from_str_nopanic (be16_bytes pr) h None) as H.
    destruct (copy_raw_name_from_str (be16_bytes pr) h None); cbn [bind]; [apply rr_new_nopanic|exact I|exact H].
  - unfold build_soa.
    pose proof (copy_raw_name_from_str_nopanic [] a None) as H.
    destruct (copy_raw_name_from_str [] a None) as [rd1| |]; cbn [bind]; [|exact I|exact H].
    pose proof (copy_raw_name_from_str_nopanic rd1 b None) as H2.
    destruct (copy_raw_name_from_str rd1 b None); cbn [bind]; [apply rr_new_nopanic|exact I|exact H2].
  - unfold build_ds. apply rr_new_nopanic.
Qed.

Lemma rr_rdata_np h : presult_np (rr_rdata h).
Proof.
  destruct builders_nopanic as (Hn & Ht & Hm & Hs & Hd).
  unfold rr_rdata.
  repeat match goal with
         | |- presult_np (if ?c then _ else _) => destruct c
         | |- presult_np (pbind _ _) => apply presult_bind; intros ?
         | |- presult_np (tail_eof _) => apply presult_tail
         | |- presult_np pfail => apply presult_fail
         end; auto using rr_new_nopanic.
Qed.

(** No string whatsoever makes synthesis panic. *)
Theorem synth_total : forall s, nopanic (rr_from_string s).
Proof.
  intros s. unfold rr_from_string.
  destruct (rr_parser s) as [[r rest]|] eqn:E; [|exact I].
  unfold rr_parser in E.
  assert (presult_np rr_parser) as H.
  { unfold rr_parser. apply presult_bind; intros h. apply presult_bind; intros ?. apply rr_rdata_np. }
  eapply H. exact E.
Qed.

Theorem raw_name_from_str_total : forall name zone, nopanic (raw_name_from_str name zone).
Proof. intros. apply copy_raw_name_from_str_nopanic. Qed.
