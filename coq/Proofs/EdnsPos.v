(** * Where the EDNS summary of an accepted packet comes from (C04, C08).

    The parser's EDNS summary is that of the one OPT record of the declarative reading of the
    additional section: its options start 11 bytes after the record's first byte (root owner, ten
    fixed bytes), the advertised payload size is the record's class, extended rcode / version / flags
    are the four bytes of its TTL, and the option count is the number of options tiling its data.
    Without an OPT record in the reading there is no summary. *)

From DV Require Import Model.Base Model.NameCheck Model.Parser Model.Header Model.Readers Model.Uncompress
  Spec.NameSpec Spec.PacketSpec Spec.RecordSpec Proofs.ListLemmas Proofs.Hoare Proofs.NameCheckTotal Proofs.ParserTotal
  Proofs.NameIff Proofs.ParserInv Proofs.ParseSound Proofs.ReadersAgree Proofs.ReadersLabels
  Proofs.QuestionSpec Proofs.WalkValues Proofs.SetTtl Proofs.WalkSkip Proofs.UncompressFrame Proofs.EdnsFacts.
From Coq Require Import ZifyBool ZifyNat ZifyN.

Lemma hoarec_and_okc {A} (m : resc A) (Q Q' : A -> Prop) :
  hoarec m Q -> okc m Q' -> hoarec m (fun a => Q a /\ Q' a).
Proof. unfold hoarec, hoare, okc. destruct (fst m); auto. Qed.

Lemma find_app {A} (f : A -> bool) l1 l2 :
  find f (l1 ++ l2) = match find f l1 with Some x => Some x | None => find f l2 end.
Proof. induction l1 as [|a l1 IH]; cbn [app find]; [reflexivity|]. destruct (f a); [reflexivity|exact IH]. Qed.

Lemma find_some_existsb {A} (f : A -> bool) l x : find f l = Some x -> existsb f l = true.
Proof. intros H. apply find_some in H. apply existsb_exists. exists x. exact H. Qed.

Lemma find_none_existsb {A} (f : A -> bool) l : find f l = None <-> existsb f l = false.
Proof.
  induction l as [|a l IH]; cbn [find existsb]; [tauto|].
  destruct (f a); cbn [orb]; [split; discriminate|exact IH].
Qed.

Section Pos.
  Variable p : bytes.
  Hypothesis Hbytes : bytes_ok p.

  (** one record: either the summary is untouched, or this record is the OPT record and the options
      start 11 bytes after its first byte *)
  Definition rr_pos (s s' : pstate) : Prop :=
    ps_edns_start s' = ps_edns_start s \/
    (ps_edns_start s' = Some (ps_off s + 11) /\ check_compressed_name p (ps_off s) = Ok (ps_off s + 1) /\
     u16_at p (ps_off s + 1) TYPE_OPT).

  Lemma skip_name_result s : okc (ps_skip_name_c p s)
    (fun s1 => same_e s s1 /\ check_compressed_name p (ps_off s) = Ok (ps_off s1)).
  Proof.
    unfold ps_skip_name_c. apply okc_bind_any; intros o Ho. apply okc_lift. intros s' H.
    apply set_offset_ok in H. subst s'. split; [reflexivity|]. cbn [ps_off ps_set_off].
    unfold check_compressed_name_c, callc in Ho. cbn [fst] in Ho. exact Ho.
  Qed.

  Lemma parse_rr_pos s sec : esum p s -> okc (parse_rr_c p s sec) (fun s' => esum p s' /\ rr_pos s s').
  Proof.
    intros He. unfold parse_rr_c. apply okc_tick.
    eapply okc_bind; [apply skip_name_result|]. intros s1 [H1 Hck].
    apply okc_bind_any; intros t Ht. cbn [fst lift] in Ht. unfold ps_rr_type in Ht. apply be16_load_ok in Ht.
    unfold DNS_RR_TYPE_OFFSET in Ht. rewrite Nat.add_0_r in Ht.
    apply okc_bind_any; intros rl _.
    destruct (t =? TYPE_OPT)%N eqn:Et.
    - destruct (negb (section_eqb sec SAdditional)); [exact I|].
      apply okc_bind_any; intros d Hd. cbn [fst lift] in Hd. unfold usub in Hd.
      destruct (ps_off s <=? ps_off s1) eqn:Ele; [|discriminate]. inversion Hd; subst d.
      destruct (negb (ps_off s1 - ps_off s =? 1)) eqn:E1; [exact I|].
      assert (Hoff : ps_off s1 = ps_off s + 1) by lia.
      eapply okc_weaken; [apply (parse_opt_esum p Hbytes)|]. intros s' [Hs' Hst].
      split; [exact Hs'|]. right. rewrite Hst, Hoff. split; [f_equal; lia|].
      rewrite <- Hoff. split; [exact Hck|]. assert (t = TYPE_OPT) by lia. subst t. exact Ht.
    - eapply okc_weaken; [apply rdata_frames|]. intros s' H'.
      assert (Hss : same_e s s') by (unfold same_e in *; congruence).
      split; [eapply esum_same; eauto|]. left. unfold same_e, edns_of in Hss. inversion Hss. reflexivity.
  Qed.

  (** a whole section: the reading, the invariant, the summary and where it comes from *)
  Definition rrs_pos (s s' : pstate) (l : list rec_view) : Prop :=
    match find is_opt l with
    | None => ps_edns_start s' = ps_edns_start s
    | Some r => seen_of s = false /\ rv_name_end r = rv_off r + 1 /\ ps_edns_start s' = Some (rv_off r + 11)
    end.

  (** under [esum] the two flags of the parser state go together *)
  Lemma esum_seen s : esum p s -> (seen_of s = false <-> ps_edns_start s = None).
  Proof.
    unfold esum, seen_of. destruct (ps_edns_start s) as [st|].
    - intros (e & l & -> & _). split; discriminate.
    - intros (-> & _). tauto.
  Qed.

  Lemma parse_rrs_joint sec : forall n s, pinv p s -> esum p s ->
    hoarec (parse_rrs_c p s sec n)
           (fun s' => exists l, records_at p (ps_off s) l (ps_off s') /\ length l = n /\
                                rrs_wf p sec (seen_of s) (ps_off s) n (ps_off s') (seen_of s') /\
                                pinv p s' /\ esum p s' /\ rrs_pos s s' l /\
                                seen_of s' = (seen_of s || existsb is_opt l)).
  Proof.
    induction n as [|n IH]; intros s Hinv He; cbn [parse_rrs_c].
    - apply hoarec_lift. cbn. exists []. unfold rrs_pos. cbn [find].
      split; [constructor|]. split; [reflexivity|]. split; [constructor|]. split; [exact Hinv|]. split; [exact He|].
      split; [reflexivity|]. rewrite orb_false_r. reflexivity.
    - eapply hoarec_bind.
      { apply hoarec_and_okc; [apply (parse_rr_sound p Hbytes s sec Hinv)|apply (parse_rr_pos s sec He)]. }
      intros s1 [[Hwf Hinv1] [He1 Hpos1]].
      eapply hoarec_weaken; [apply (IH s1 Hinv1 He1)|]. cbv beta.
      intros s' (l & Hl & Hlen & Hwfs & Hinv' & He' & Hpos & Hseen).
      destruct (rr_wf_record_opt p _ _ _ _ _ Hwf) as (r & Hoff & Hr & Hopt).
      exists (r :: l). split; [rewrite <- Hoff; econstructor; eauto|]. split; [cbn; lia|].
      split; [econstructor; eauto|]. split; [exact Hinv'|]. split; [exact He'|].
      assert (Hseen' : seen_of s' = (seen_of s || existsb is_opt (r :: l))).
      { cbn [existsb]. rewrite Hseen. destruct (is_opt r); [destruct Hopt as (_ & -> & ->); reflexivity|rewrite Hopt; reflexivity]. }
      split; [|exact Hseen'].
      (* whether this record is the OPT record, as the parser saw it *)
      assert (Hcase : (is_opt r = true /\ ps_edns_start s1 = Some (rv_off r + 11) /\ rv_name_end r = rv_off r + 1) \/
                      (is_opt r = false /\ ps_edns_start s1 = ps_edns_start s)).
      { destruct Hpos1 as [Hs1|(Hst1 & Hck & Hty)].
        - destruct (is_opt r) eqn:Eo; [|right; split; [reflexivity|exact Hs1]].
          destruct Hopt as (_ & Hsf & Hst).
          apply (esum_seen s He) in Hsf. rewrite Hsf in Hs1. apply (esum_seen s1 He1) in Hs1. congruence.
        - left. pose proof Hr as (Hcn & Ht & _). rewrite Hoff in Hcn.
          assert (Hc2 : cname p (ps_off s) (ps_off s + 1)) by (apply check_compressed_name_iff; exact Hck).
          destruct Hc2 as (ls2 & Hc2). destruct (cname_l_fun _ _ _ _ _ _ Hcn Hc2) as [_ Ene].
          rewrite Ene in Ht. pose proof (u16_at_fun _ _ _ _ Ht Hty) as Ety.
          split; [unfold is_opt; rewrite Ety; reflexivity|]. split; [rewrite Hst1, Hoff; reflexivity|].
          rewrite Hoff. exact Ene. }
      unfold rrs_pos in *. cbn [find].
      destruct Hcase as [(Eo & Hst1 & Hne)|(Eo & Hst1)]; rewrite Eo in *.
      + destruct Hopt as (_ & Hsf & Hs1t).
        destruct (find is_opt l) as [r2|]; [destruct Hpos as (Hc & _); congruence|].
        split; [exact Hsf|]. split; [exact Hne|]. rewrite Hpos. exact Hst1.
      + destruct (find is_opt l) as [r2|].
        * destruct Hpos as (Hc & Hne2 & Hst2). split; [congruence|]. split; assumption.
        * congruence.
  Qed.
End Pos.

(** ** The whole packet *)
Theorem parse_view_pos : forall p v, bytes_ok p -> parse p = Ok v ->
  exists an ns ar qe e1 e2 la ln lr,
    pp_packet v = p /\ cname p 12 qe /\
    hdr_ancount p = Ok an /\ hdr_nscount p = Ok ns /\ hdr_arcount p = Ok ar /\
    records_at p (qe + 4) la e1 /\ length la = N.to_nat an /\
    records_at p e1 ln e2 /\ length ln = N.to_nat ns /\
    records_at p e2 lr (length p) /\ length lr = N.to_nat ar /\
    esum_v p v /\
    match find is_opt (la ++ ln ++ lr) with
    | None => pp_offset_edns v = None
    | Some r => rv_name_end r = rv_off r + 1 /\ pp_offset_edns v = Some (rv_off r + 11)
    end.
Proof.
  intros p v Hb. unfold parse, parse_c, DNS_HEADER_SIZE, DNS_QUESTION_OFFSET.
  split_if; [discriminate|].
  intros H. apply bindc_ok in H. destruct H as (w & Hw & H). cbn [fst lift] in Hw.
  apply bindc_ok in H. destruct H as (qd & Hqd & H). cbn [fst lift] in Hqd.
  destruct (qd =? 0)%N eqn:Eq0; [discriminate|].
  destruct (1 <? qd)%N eqn:Eq1; [discriminate|].
  assert (qd = 1%N) by lia. subst qd.
  apply bindc_ok in H. destruct H as (s0 & Hs0 & H). cbn [fst lift] in Hs0.
  pose proof (set_offset_spec p ps_init 12) as Ho. rewrite Hs0 in Ho. cbn in Ho. destruct Ho as [-> Hl12].
  assert (H0 : pinv p (ps_set_off ps_init 12)) by (unfold pinv; cbn; lia).
  assert (E0 : esum p (ps_set_off ps_init 12)) by (unfold esum; cbn; repeat split; reflexivity).
  apply bindc_ok in H. destruct H as (s1 & Hs1 & H).
  pose proof (parse_question_sound p _ Hb H0) as Hq. unfold hoarec in Hq. rewrite Hs1 in Hq. cbn [hoare] in Hq.
  destruct Hq as (qe & Hqn & Hq4 & Hqc & Hqo & Hqe). cbn [ps_off ps_set_off ps_edns_end ps_init] in *.
  pose proof (parse_question_frames p (ps_set_off ps_init 12)) as Hqf. unfold okc in Hqf. rewrite Hs1 in Hqf.
  assert (E1 : esum p s1) by (eapply esum_same; eauto).
  assert (St1 : ps_edns_start s1 = None) by (unfold same_e, edns_of in Hqf; inversion Hqf; reflexivity).
  assert (H1 : pinv p s1) by (unfold pinv; lia).
  apply bindc_ok in H. destruct H as (an & Han & H). cbn [fst lift] in Han.
  destruct (negb (word_is_response w) && (0 <? an)%N) eqn:Ean; [discriminate|].
  apply bindc_ok in H. destruct H as (s2 & Hs2 & H).
  pose proof (parse_rrs_joint p Hb SAnswer (N.to_nat an) s1 H1 E1) as J2. unfold hoarec in J2. rewrite Hs2 in J2. cbn [hoare] in J2.
  destruct J2 as (la & Hla & Hlla & _ & H2 & E2 & P2 & Sn2).
  apply bindc_ok in H. destruct H as (ns & Hns & H). cbn [fst lift] in Hns.
  destruct (negb (word_is_response w) && (0 <? ns)%N) eqn:Ens; [discriminate|].
  apply bindc_ok in H. destruct H as (s3 & Hs3 & H).
  pose proof (parse_rrs_joint p Hb SNameServers (N.to_nat ns) s2 H2 E2) as J3. unfold hoarec in J3. rewrite Hs3 in J3. cbn [hoare] in J3.
  destruct J3 as (ln & Hln & Hlln & _ & H3 & E3 & P3 & Sn3).
  apply bindc_ok in H. destruct H as (ar & Har & H). cbn [fst lift] in Har.
  apply bindc_ok in H. destruct H as (s4 & Hs4 & H).
  pose proof (parse_rrs_joint p Hb SAdditional (N.to_nat ar) s3 H3 E3) as J4. unfold hoarec in J4. rewrite Hs4 in J4. cbn [hoare] in J4.
  destruct J4 as (lr & Hlr & Hllr & _ & H4 & E4 & P4 & Sn4).
  apply bindc_ok in H. destruct H as (r & Hr & H). cbn [fst lift] in Hr.
  pose proof (remaining_len_spec p s4 H4) as Hrl. rewrite Hr in Hrl. cbn in Hrl.
  destruct (0 <? r) eqn:Er; [discriminate|].
  unfold pinv in H4. assert (Hend : ps_off s4 = length p) by lia.
  cbn [fst lift] in H. inversion H; subst v; clear H.
  exists an, ns, ar, qe, (ps_off s2), (ps_off s3), la, ln, lr.
  cbn [pp_packet pp_offset_edns].
  rewrite Hqo in Hla. rewrite Hend in Hlr.
  split; [reflexivity|]. split; [exact Hqn|]. split; [exact Han|]. split; [exact Hns|]. split; [exact Har|].
  split; [exact Hla|]. split; [exact Hlla|]. split; [exact Hln|]. split; [exact Hlln|]. split; [exact Hlr|]. split; [exact Hllr|].
  split.
  { unfold esum_v. cbn [pp_offset_edns pp_edns_count pp_ext_rcode pp_edns_version pp_ext_flags pp_max_payload].
    unfold esum in E4. destruct (ps_edns_start s4) as [st|].
    - destruct E4 as (e & l & _ & A & B & C & D & E & F & G & HH & I). exists e, l. repeat split; assumption.
    - destruct E4 as (_ & A & B & C & D & E). repeat split; assumption. }
  (* where the summary comes from *)
  unfold rrs_pos in *. rewrite !find_app.
  assert (Hsn1 : seen_of s1 = false) by (unfold seen_of; rewrite Hqe; reflexivity).
  destruct (find is_opt la) as [ra|] eqn:Fa.
  - destruct P2 as (_ & Na & Ta).
    assert (Hsn2 : seen_of s2 = true) by (rewrite Sn2, (find_some_existsb _ _ _ Fa); apply orb_true_r).
    destruct (find is_opt ln) as [rn|] eqn:Fn; [destruct P3 as (Hc & _); congruence|].
    assert (Hsn3 : seen_of s3 = true) by (rewrite Sn3, Hsn2; reflexivity).
    destruct (find is_opt lr) as [rr|] eqn:Fr; [destruct P4 as (Hc & _); congruence|].
    split; [exact Na|congruence].
  - destruct (find is_opt ln) as [rn|] eqn:Fn.
    + destruct P3 as (_ & Nn & Tn).
      assert (Hsn3 : seen_of s3 = true) by (rewrite Sn3, (find_some_existsb _ _ _ Fn); apply orb_true_r).
      destruct (find is_opt lr) as [rr|] eqn:Fr; [destruct P4 as (Hc & _); congruence|].
      split; [exact Nn|congruence].
    + destruct (find is_opt lr) as [rr|] eqn:Fr.
      * destruct P4 as (_ & Nr & Tr). split; assumption.
      * congruence.
Qed.
