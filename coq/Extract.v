(** Extraction of the executable model for the correspondence driver (driver/main.ml).
    Only [ExtrOcamlBasic] is used: bool, option, unit, list, prod, sumbool, sumor map to
    their OCaml counterparts and andb/orb are inlined; [nat], [N] and [positive] stay the
    extracted inductives. No directive of our own. *)
From Coq Require Import ExtrOcamlBasic.
From DV Require Import Model.Base Model.NameCheck Model.Parser Model.Header Model.Readers
  Model.Uncompress Model.Mutate Model.Gen Model.Text Model.Compress Model.Renamer Model.Walk Model.ErrSlot.

Extraction Language OCaml.
Extraction "model.ml"
  check_compressed_name check_uncompressed_name parse_c cursor_run ps_init
  pp_tid pp_flags pp_rcode pp_opcode pp_is_response pp_dnssec
  pp_set_tid pp_set_flags pp_set_response pp_set_rcode pp_set_opcode pp_empty
  uncompress_with_previous_offset compress rr_from_string raw_name_from_str
  renamer_rename replace_raw gen_query exec_op parse run_sched slots_init.
