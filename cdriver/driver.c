/* C driver for C15: drives the exported FnTable exactly as a C hook does, compiled with the system C
 * compiler against the header SHIPPED with the library (src/bin/c_hook/c_hook.h), so a mismatch between
 * the header and the Rust table shows up here the way it would in a real hook.
 *
 * Every out-buffer handed to the table is placed flush against a PROT_NONE guard page and pre-filled
 * with a canary, so a write beyond the documented capacity faults and a write beyond what was reported
 * is detected.
 *
 * int dv_c_op(const FnTable *t, ParsedPacket *pp, const char *op, char *out, size_t cap)
 *   op  : one facade operation of the script language (see DESIGN.md section 4.2, "F" ops)
 *   out : observation text, same format as the native harness prints for the corresponding native op
 */
#include <stdio.h>
#include <stdlib.h>
#include <string.h>
#include <sys/mman.h>
#include <unistd.h>

#include "c_hook.h"

#define CANARY 0xAA

static uint8_t *guarded(size_t size)
{
    static long pagesz = 0;
    if (pagesz == 0) pagesz = sysconf(_SC_PAGESIZE);
    size_t   pages = (size + (size_t) pagesz - 1) / (size_t) pagesz;
    uint8_t *base  = mmap(NULL, (pages + 1) * (size_t) pagesz, PROT_READ | PROT_WRITE, MAP_PRIVATE | MAP_ANONYMOUS, -1, 0);
    if (base == MAP_FAILED) abort();
    mprotect(base + pages * (size_t) pagesz, (size_t) pagesz, PROT_NONE);
    uint8_t *p = base + pages * (size_t) pagesz - size;
    memset(base, CANARY, pages * (size_t) pagesz);
    return p;
}

static void unguard(uint8_t *p, size_t size)
{
    long     pagesz = sysconf(_SC_PAGESIZE);
    size_t   pages  = (size + (size_t) pagesz - 1) / (size_t) pagesz;
    uint8_t *base   = p + size - pages * (size_t) pagesz;
    munmap(base, (pages + 1) * (size_t) pagesz);
}

typedef struct Out {
    char * buf;
    size_t cap, len;
} Out;

static void put(Out *o, const char *fmt, ...) __attribute__((format(printf, 2, 3)));
#include <stdarg.h>
static void put(Out *o, const char *fmt, ...)
{
    va_list ap;
    va_start(ap, fmt);
    if (o->len < o->cap) {
        int n = vsnprintf(o->buf + o->len, o->cap - o->len, fmt, ap);
        if (n > 0) o->len += (size_t) n < o->cap - o->len ? (size_t) n : o->cap - o->len - 1;
    }
    va_end(ap);
}

static void put_hex(Out *o, const uint8_t *b, size_t n)
{
    if (n == 0) {
        put(o, "-");
        return;
    }
    for (size_t i = 0; i < n; i++) put(o, "%02x", b[i]);
}

static int hexval(int c)
{
    if (c >= '0' && c <= '9') return c - '0';
    if (c >= 'a' && c <= 'f') return c - 'a' + 10;
    if (c >= 'A' && c <= 'F') return c - 'A' + 10;
    return -1;
}

/* decodes hex at s (until a non-hex char) into a malloc'ed buffer; "-" is the empty string */
static uint8_t *unhex(const char *s, size_t *len, const char **end)
{
    size_t   n = 0;
    uint8_t *b = malloc(strlen(s) / 2 + 2);
    if (*s == '-') {
        s++;
    } else {
        while (hexval(s[0]) >= 0 && hexval(s[1]) >= 0) {
            b[n++] = (uint8_t) (hexval(s[0]) * 16 + hexval(s[1]));
            s += 2;
        }
    }
    *len = n;
    if (end) *end = s;
    return b;
}

typedef struct WalkCtx {
    const FnTable *t;
    Out *          o;
    const char *   plan; /* a0/a1/.../ *adef */
    size_t         k;
} WalkCtx;

/* returns the action list for yield k: pointer and length */
static const char *plan_for(const char *plan, size_t k, size_t *len)
{
    const char *p = plan, *def = NULL;
    size_t      deflen = 0, i = 0;
    while (*p) {
        const char *e = strchr(p, '/');
        size_t      l = e ? (size_t) (e - p) : strlen(p);
        if (*p == '*') {
            def    = p + 1;
            deflen = l - 1;
        } else {
            if (i == k) {
                *len = l;
                return p;
            }
            i++;
        }
        if (!e) break;
        p = e + 1;
    }
    *len = deflen;
    return def ? def : "";
}

/* a failure must come with a retrievable, NUL-terminated, non-empty description */
static void err_obs(const FnTable *t, Out *o, const char *tag, const CErr *err)
{
    const char *d = err ? t->error_description(err) : NULL;
    size_t      l = d ? strnlen(d, 1024) : 0;
    const char *q = (d == NULL) ? "nodesc" : (l == 0 ? "emptydesc" : (l >= 1024 ? "unterminated" : "desc"));
    if (tag[0]) put(o, "%s=ERR:%s", tag, q);
    else put(o, "ERR:%s", q);
}

static bool walk_cb(void *ctx_, void *it)
{
    WalkCtx *      w = ctx_;
    const FnTable *t = w->t;
    Out *          o = w->o;
    size_t         alen;
    const char *   a   = plan_for(w->plan, w->k, &alen);
    const char *   end = a + alen;
    bool           stop = false;
    put(o, "%s|", o->len && o->buf[o->len - 1] != '[' ? " " : "");
    while (a < end && !stop) {
        const char *e = memchr(a, '.', (size_t) (end - a));
        if (!e) e = end;
        char c = *a;
        const char *arg = a + 1;
        switch (c) {
        case 'n': {
            char *name = (char *) guarded(DNS_MAX_HOSTNAME_LEN + 1);
            t->name(it, name);
            size_t l = strnlen(name, DNS_MAX_HOSTNAME_LEN + 1);
            put(o, " n=");
            if (l > DNS_MAX_HOSTNAME_LEN) put(o, "NOT-TERMINATED");
            else put_hex(o, (const uint8_t *) name, l);
            for (size_t i = l + 1; i < DNS_MAX_HOSTNAME_LEN + 1; i++)
                if ((uint8_t) name[i] != CANARY) {
                    put(o, "!wrote-past-NUL");
                    break;
                }
            unguard((uint8_t *) name, DNS_MAX_HOSTNAME_LEN + 1);
            break;
        }
        case 't': put(o, " t=%u", (unsigned) t->rr_type(it)); break;
        case 'c': put(o, " c=%u", (unsigned) t->rr_class(it)); break;
        case 'l': put(o, " l=%u", (unsigned) t->rr_ttl(it)); break;
        case 'T':
            t->set_rr_ttl(it, (uint32_t) strtoul(arg, NULL, 10));
            put(o, " T=OK");
            break;
        case 'i': {
            size_t   cap = (t->rr_type(it) == 1) ? 4 : 16;
            uint8_t *ip  = guarded(cap);
            size_t   len = cap;
            t->rr_ip(it, ip, &len);
            put(o, " i=");
            if (len != cap) put(o, "BADLEN%zu", len);
            else put_hex(o, ip, len);
            unguard(ip, cap);
            break;
        }
        case 'A': {
            size_t   n;
            uint8_t *ip = unhex(arg, &n, NULL);
            t->set_rr_ip(it, ip, n);
            free(ip);
            put(o, " A=OK");
            break;
        }
        case 'M': {
            size_t      n;
            uint8_t *   raw = unhex(arg, &n, NULL);
            const CErr *err = NULL;
            int         rc  = t->set_raw_name(it, &err, raw, n);
            free(raw);
            if (rc == 0) put(o, " M=OK");
            else if (rc == -1) { put(o, " "); err_obs(t, o, "M", err); }
            else put(o, " M=RC%d", rc);
            break;
        }
        case 'N': { /* N<hextext>:<hexzone|-> : set_name with an optional default zone */
            size_t      n, zn;
            const char *p2;
            uint8_t *   txt = unhex(arg, &n, &p2);
            uint8_t *   zone = unhex(*p2 == ':' ? p2 + 1 : "-", &zn, NULL);
            const CErr *err = NULL;
            /* ":+" = a default zone given as a valid pointer with length 0 (an empty buffer), ":-" or nothing = NULL */
            int         plus = (*p2 == ':' && p2[1] == '+');
            int         rc  = t->set_name(it, &err, (const char *) txt, n, (zn || plus) ? zone : NULL, zn);
            free(txt);
            free(zone);
            if (rc == 0) put(o, " M=OK");
            else if (rc == -1) { put(o, " "); err_obs(t, o, "M", err); }
            else put(o, " M=RC%d", rc);
            break;
        }
        case 'X': {
            const CErr *err = NULL;
            int         rc  = t->delete_rr(it, &err);
            if (rc == 0) put(o, " X=OK");
            else if (rc == -1) { put(o, " "); err_obs(t, o, "X", err); }
            else put(o, " X=RC%d", rc);
            break;
        }
        case 'B': stop = true; break;
        default: break;
        }
        a = e + 1;
    }
    w->k++;
    return stop;
}

static bool count_cb(void *ctx, void *it)
{
    (void) it;
    (*(size_t *) ctx)++;
    return false;
}

int dv_c_op(const FnTable *t, ParsedPacket *pp, const char *op, char *outbuf, size_t cap)
{
    Out o = { outbuf, cap, 0 };
    outbuf[0] = 0;
    if (t->abi_version != DNSSECTOR_ABI_VERSION) {
        put(&o, "ABI-VERSION-MISMATCH");
        return 0;
    }
    if (strncmp(op, "g", 2) == 0) {
        put(&o, "fg[fl=%u rc=%u op=%u]", (unsigned) t->flags(pp), (unsigned) t->rcode(pp), (unsigned) t->opcode(pp));
    } else if (strncmp(op, "sf,", 3) == 0) {
        t->set_flags(pp, (uint32_t) strtoul(op + 3, NULL, 10));
        put(&o, "OK");
    } else if (strncmp(op, "sr,", 3) == 0) {
        t->set_rcode(pp, (uint8_t) strtoul(op + 3, NULL, 10));
        put(&o, "OK");
    } else if (strncmp(op, "so,", 3) == 0) {
        t->set_opcode(pp, (uint8_t) strtoul(op + 3, NULL, 10));
        put(&o, "OK");
    } else if (strncmp(op, "I,", 2) == 0) {
        const char *sec = op + 2;
        const char *h   = strchr(sec, ',') + 1;
        size_t      n;
        uint8_t *   txt = unhex(h, &n, NULL);
        txt[n]          = 0;
        const CErr *err = NULL;
        int         rc;
        if (strncmp(sec, "q,", 2) == 0) rc = t->add_to_question(pp, &err, (const char *) txt);
        else if (strncmp(sec, "an,", 3) == 0) rc = t->add_to_answer(pp, &err, (const char *) txt);
        else if (strncmp(sec, "ns,", 3) == 0) rc = t->add_to_nameservers(pp, &err, (const char *) txt);
        else rc = t->add_to_additional(pp, &err, (const char *) txt);
        free(txt);
        if (rc == 0) put(&o, "OK");
        else if (rc == -1) err_obs(t, &o, "", err);
        else put(&o, "RC%d", rc);
    } else if (op[0] == 'b') {
        size_t   maxlen = (op[1] == ',') ? (size_t) strtoul(op + 2, NULL, 10) : DNS_MAX_PACKET_SIZE;
        uint8_t *raw    = guarded(DNS_MAX_PACKET_SIZE);
        size_t   len    = (size_t) -1;
        int      rc     = t->raw_packet(pp, raw, &len, maxlen);
        if (rc == 0) {
            put(&o, "b=");
            put_hex(&o, raw, len);
            if (len > maxlen) put(&o, "!exceeds-capacity");
        } else {
            put(&o, "b=TOOBIG");
            for (size_t i = 0; i < DNS_MAX_PACKET_SIZE; i++)
                if (raw[i] != CANARY) {
                    put(&o, "!wrote-although-refused");
                    break;
                }
        }
        unguard(raw, DNS_MAX_PACKET_SIZE);
    } else if (strncmp(op, "fq", 3) == 0) {
        char *   name = (char *) guarded(DNS_MAX_HOSTNAME_LEN + 1);
        uint16_t ty   = 0xffff;
        int      rc   = t->question(pp, name, &ty);
        size_t   l    = strnlen(name, DNS_MAX_HOSTNAME_LEN + 1);
        if (rc == 0) {
            put(&o, "fq=");
            put_hex(&o, (const uint8_t *) name, l);
            put(&o, "/%u", (unsigned) ty);
        } else {
            put(&o, "fq=-");
        }
        unguard((uint8_t *) name, DNS_MAX_HOSTNAME_LEN + 1);
    } else if (strncmp(op, "rn,", 3) == 0) {
        size_t      tn, sn;
        const char *p2;
        uint8_t *   tgt = unhex(op + 3, &tn, &p2);
        uint8_t *   src = unhex(p2 + 1, &sn, &p2);
        bool        sfx = p2[1] == '1';
        const CErr *err = NULL;
        /* called exactly as the shipped header declares it */
        int rc = t->rename_with_raw_names(pp, &err, tgt, tn, src, sn, sfx);
        free(tgt);
        free(src);
        if (rc == 0) put(&o, "OK");
        else if (rc == -1) err_obs(t, &o, "", err);
        else put(&o, "RC%d", rc);
    } else if (strncmp(op, "Z,", 2) == 0) {
        size_t      n;
        uint8_t *   txt = unhex(op + 2, &n, NULL);
        uint8_t *   raw = guarded(DNS_MAX_HOSTNAME_LEN + 1);
        size_t      rawlen = (size_t) -1;
        const CErr *err = NULL;
        int         rc  = t->raw_name_from_str(raw, &rawlen, &err, (const char *) txt, n);
        free(txt);
        if (rc == 0) {
            put(&o, "OK:");
            if (rawlen > DNS_MAX_HOSTNAME_LEN + 1) put(&o, "BADLEN");
            else put_hex(&o, raw, rawlen);
        } else if (rc == -1) err_obs(t, &o, "", err);
        else put(&o, "RC%d", rc);
        unguard(raw, DNS_MAX_HOSTNAME_LEN + 1);
    } else if (strncmp(op, "we", 3) == 0) {
        size_t n = 0;
        t->iter_edns(pp, count_cb, &n);
        put(&o, "we=%zu", n);
    } else if (strncmp(op, "W,", 2) == 0) {
        const char *sec  = op + 2;
        const char *plan = strchr(sec, ',');
        plan             = plan ? plan + 1 : "*";
        WalkCtx w        = { t, &o, plan, 0 };
        put(&o, "W[");
        if (strncmp(sec, "an", 2) == 0) t->iter_answer(pp, walk_cb, &w);
        else if (strncmp(sec, "ns", 2) == 0) t->iter_nameservers(pp, walk_cb, &w);
        else t->iter_additional(pp, walk_cb, &w);
        put(&o, "]");
    } else {
        put(&o, "BADOP");
    }
    return 0;
}
