#!/usr/bin/env python3
"""Entry point of every registered check:  python3 tools/check.py <Cxx> --tier quick|thorough
                                          python3 tools/check.py <Cxx> --replay <file>
Exit 0: the property held on everything explored (theorems checked, model = implementation on all
cases, property oracle clean on the implementation). Exit 1 with a line
`VIOLATION property=<id> replay=<path>` otherwise (see DESIGN.md section 5)."""
import argparse
import json
import os
import random
import sys
import time

sys.path.insert(0, os.path.dirname(os.path.abspath(__file__)))
import dvcore as dv
import props


def run_pipeline(P, tier, seed, replay=None):
    t0 = time.time()
    notes = []
    obligations = []
    discharged = []
    broken = []  # (what, detail)

    # 1. regenerate from source
    tstatus = dv.translate()
    for k, v in tstatus.items():
        if v != "ok":
            notes.append("translator %s: %s" % (k, v))

    # 2. prove
    import glob as _glob
    model_targets = sorted("Model/" + os.path.basename(f) + "o" for f in _glob.glob(os.path.join(dv.COQ, "Model", "*.v")))
    ok, out = dv.coq_make(model_targets + ["props/%s.vo" % P.id])
    if not ok:
        print(out[-3000:])
        print("BROKEN-CHECK: the Coq development does not build (this is a defect of /verif, not of /repo)")
        return 2
    theorems, thm_ok, axioms, plog = dv.run_pins(P.id)
    obligations += theorems
    discharged += thm_ok
    for t in theorems:
        if t not in thm_ok:
            broken.append(("theorem", t + ": " + plog[-600:]))
    bad_axioms = [a for a in axioms if a not in P.allowed_axioms]
    if bad_axioms:
        broken.append(("axioms", "unexpected axioms: %s" % bad_axioms))
    forb = dv.grep_forbidden()
    if forb:
        print("\n".join(forb))
        print("BROKEN-CHECK: forbidden vernacular in the development")
        return 2
    gres = dv.generated_checks(P.generated)
    for n, (gok, glog) in gres.items():
        name = {"Constants": "constants_agree", "FnTable": "abi_table_match", "Ambient": "ambient_inventory", "CallGraph": "no_recursion_on_validation_path", "Casts": "casts_inventory", "PanicSites": "panic_sites_inventory", "DictCompare": "dictionary_compares_the_remembered_bytes", "LabelBytes": "label_byte_policies_are_the_transcribed_ones"}[n]
        obligations.append(name)
        if gok:
            discharged.append(name)
        else:
            broken.append(("generated", "%s (Generated/%s.v vs the model): %s" % (name, n, glog[-800:])))

    # 3. build
    ok, out = dv.build_harness()
    if not ok:
        print(out)
        print("BROKEN-CHECK: /repo (with --cfg dnssector_verif) or the harness does not compile")
        return 2
    ok, out = dv.build_driver()
    if not ok:
        print(out)
        print("BROKEN-CHECK: the extracted model driver does not build")
        return 2
    if P.release_too:
        ok, out = dv.build_harness(release=True)
        if not ok:
            print(out)
            print("BROKEN-CHECK: release build of the harness failed")
            return 2

    # 4. cases
    rng = random.Random(seed)
    if replay:
        rp = json.load(open(replay))
        cases = [props.Case("replay-%d" % i, c["line"], P.meta_from_json(c.get("meta", {}))) for i, c in enumerate(rp.get("cases", []))]
        if not cases:
            print("replay file names no concrete case (%s); re-running the quick tier instead" % rp.get("what", ""))
            cases = P.corpus() + P.gen(rng, tier)
    else:
        cases = P.corpus() + P.gen(rng, tier)
    result = evaluate(P, cases, tier)
    known = dv.load_known()
    known_classes = {f["class"]: f for f in known.get("findings", []) if f["property"] == P.id}

    violations = []
    known_hits = {}
    for (c, why) in result["oracle_failures"]:
        cls = P.classify(c, why)
        if cls in known_classes:
            known_hits.setdefault(cls, []).append((c, why))
        else:
            violations.append((c, why, cls))

    divergences = result["divergences"]
    # a divergence inside a known-finding class is expected (the model follows the property there)
    divergences = [d for d in divergences if P.classify(d[0], "divergence") not in known_classes]

    searched = 0
    if not violations and (divergences or broken):
        # 6. search for a concrete failing input with the property oracle on the implementation
        log_reason = "correspondence broken on %d case(s)" % len(divergences) if divergences else "proof obligation broken: %s" % broken[0][1][:200]
        dv.log("searching for a failing input (%s)" % log_reason)
        srng = random.Random(seed + 1)
        extra = P.search(srng)
        searched = len(extra)
        r2 = evaluate(P, extra, "thorough", model=False)
        for (c, why) in r2["oracle_failures"]:
            cls = P.classify(c, why)
            if cls in known_classes:
                known_hits.setdefault(cls, []).append((c, why))
            else:
                violations.append((c, why, cls))

    for cls, hits in sorted(known_hits.items()):
        print("KNOWN-FINDING: property=%s %s (%d case(s) this run, e.g. %s)" % (P.id, known_classes[cls]["text"], len(hits), hits[0][0].line[:120]))

    rc = 0
    nviol = 0
    if violations:
        violations.sort(key=lambda v: len(v[0].line))
        c, why, cls = violations[0]
        def same_failure(cc):
            w2 = P.oracle(cc, dv.run_impl([cc.text()]).get(cc.id))
            return w2 is not None and P.classify(cc, w2) == cls
        c2 = P.shrink(c, same_failure)
        why = P.oracle(c2, dv.run_impl([c2.text()]).get(c2.id)) or why
        io = dv.run_impl([c2.text()]).get(c2.id)
        mo = dv.run_model([c2.text()]).get(c2.id)
        path = dv.write_replay(P.id, seed, 0, {"what": why, "class": cls, "cases": [{"line": c2.line, "meta": P.meta_to_json(c2.meta)}],
                                                "implementation": io, "model": mo, "other_failing_cases": len(violations) - 1})
        print("VIOLATION property=%s replay=%s" % (P.id, path))
        print("  %s" % why)
        rc, nviol = 1, len(violations)
    elif divergences or broken:
        payload = {"what": "the property is no longer shown to hold; no failing input found among %d searched cases" % searched,
                   "broken_obligations": [b[1] for b in broken], "cases": []}
        if divergences:
            c, i, io, mo = divergences[0]
            payload["first_diverging_correspondence_case"] = {"line": c.line, "op_index": i, "implementation": io, "model": mo}
            payload["diverging_cases"] = len(divergences)
        path = dv.write_replay(P.id, seed, 0, payload)
        print("VIOLATION property=%s replay=%s no-failing-input-found" % (P.id, path))
        rc, nviol = 1, 1

    # 7. evidence
    cov = {
        "obligations": len(obligations), "discharged": len(discharged),
        "checker_cmd": "make -C coq props/%s.vo && coqc -Q coq DV tools/pins/%s.v (pinned statements + Print Assumptions) && coqc Check/*Check.v for %s" % (P.id, P.id, P.generated),
        "trusted_base": dv.TRUSTED_BASE + P.extra_trusted,
        "theorems": obligations, "axioms_reported": axioms,
        "evaluations": result["evaluations"], "distinct_nontrivial": result["distinct_nontrivial"],
        "rule": P.rule, "samples": result["samples"],
        "correspondence": {"cases": result["evaluations"], "divergences": len(result["divergences"]),
                           "oracle_failures": len(result["oracle_failures"]), "searched_extra": searched,
                           "distribution": result["distribution"]},
        "statement_strength": P.strength,
        "translator": tstatus, "notes": notes,
    }
    dv.write_evidence(P.id, tier, seed, cov, time.time() - t0, nviol, P.assumptions, level=P.level)
    print("%s %s: %d/%d obligations, %d cases, %d divergences, %d oracle failures, %.1fs" % (
        P.id, "OK" if rc == 0 else "FAIL", len(discharged), len(obligations), result["evaluations"], len(result["divergences"]),
        len(result["oracle_failures"]), time.time() - t0))
    return rc


def evaluate(P, cases, tier, model=True):
    lines = [c.text() for c in cases]
    impl = dv.run_impl(lines)
    mod = dv.run_model([c.text() for c in cases if not c.meta.get("impl_only")]) if model else {}
    divergences, oracle_failures = [], []
    nontrivial = set()
    dist = {}
    samples = []
    if P.release_too:
        # the same cases against the optimised build (integer overflow wraps instead of panicking, debug assertions are gone):
        # its observations must satisfy the same oracle and agree with the model as well
        impl_rel = dv.run_impl(lines, release=True)
        for c in cases:
            io = impl_rel.get(c.id)
            if model and not c.meta.get("impl_only"):
                i = dv.diff_obs(io, mod.get(c.id), keep_steps=P.keep_steps(c, io), keep_err=P.keep_err)
                if i is not None:
                    divergences.append((c, i, io, mod.get(c.id)))
            why = P.oracle(c, io)
            if why:
                oracle_failures.append((c, "[release build] " + why if not why.startswith("[") else why))
    for c in cases:
        io = impl.get(c.id)
        if model and not c.meta.get("impl_only"):
            mo = mod.get(c.id)
            i = dv.diff_obs(io, mo, keep_steps=P.keep_steps(c, io), keep_err=P.keep_err)
            if i is not None:
                divergences.append((c, i, io, mo))
        why = P.oracle(c, io)
        if why:
            oracle_failures.append((c, why))
        k = P.nontrivial(c, io)
        if k is not None:
            nontrivial.add(k)
        fam = c.meta.get("family", "?")
        d = dist.setdefault(fam, {"n": 0})
        d["n"] += 1
        for tag in P.tags(c, io):
            d[tag] = d.get(tag, 0) + 1
    for c in cases[:: max(1, len(cases) // 6)][:6]:
        samples.append({"case": c.line[:400], "implementation": [o[:200] for o in (impl.get(c.id) or [])][:6]})
    return {"evaluations": len(cases), "divergences": divergences, "oracle_failures": oracle_failures,
            "distinct_nontrivial": len(nontrivial), "distribution": dist, "samples": samples}


def main():
    ap = argparse.ArgumentParser()
    ap.add_argument("prop")
    ap.add_argument("--tier", default=os.environ.get("VERIF_TIER", "quick"))
    ap.add_argument("--replay")
    a = ap.parse_args()
    seed = int(os.environ.get("VERIF_SEED", "20260930"))
    P = props.REGISTRY[a.prop]()
    tier = a.tier if a.tier in ("quick", "thorough") else "quick"
    sys.exit(run_pipeline(P, tier, seed, a.replay))


if __name__ == "__main__":
    main()
