#!/bin/sh
# Runs every registered quick check for the given seeds; prints one line per run. Usage: tools/runall.sh 1 2 3
cd /verif
for s in "$@"; do
  for p in $(python3 -c "import json; print(' '.join(c['property_id'] for c in json.load(open('MANIFEST.json'))['checks']))"); do
    VERIF_SEED=$s python3 tools/check.py $p 2>&1 | grep -v "^KNOWN" | tail -1 | sed "s/^/seed=$s /"
  done
done
