#!/usr/bin/env python3
"""MANIFEST.setup_cmd: build the framework from files on disk only (offline).
Coq development (full .vo build), extracted OCaml model driver, Rust harness against /repo."""
import os
import sys
import time

sys.path.insert(0, os.path.dirname(os.path.abspath(__file__)))
import dvcore as dv

t0 = time.time()
print(dv.translate())
ok, out = dv.coq_make()
print("coq build:", "ok" if ok else "FAILED", "%.0fs" % (time.time() - t0))
if not ok:
    print(out[-4000:])
    sys.exit(1)
ok, out = dv.build_driver()
print("model driver:", "ok" if ok else "FAILED")
if not ok:
    print(out)
    sys.exit(1)
ok, out = dv.build_harness()
print("harness:", "ok" if ok else "FAILED")
if not ok:
    print(out)
    sys.exit(1)
print("setup done in %.0fs" % (time.time() - t0))
