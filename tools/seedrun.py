#!/usr/bin/env python3
"""Confirm a seeded change and run the checks against it.
  seedrun.py collect <id> <worktree> <property>   # copy patch/demo from a scratch worktree, confirm fail/pass there
  seedrun.py run <id> [props...]                  # apply to /repo, run the checks, undo, record which catch it
Nothing is ever committed to /repo; the patch is applied with `git apply` and removed with `git checkout -- .`"""
import json
import os
import shutil
import subprocess
import sys

V = "/verif"


def sh(cmd, cwd=None, timeout=1800):
    r = subprocess.run(cmd, shell=True, cwd=cwd, capture_output=True, text=True, timeout=timeout)
    return r.returncode, (r.stdout + r.stderr)


def collect(sid, wt, prop):
    d = os.path.join(V, "seeded", sid)
    os.makedirs(d, exist_ok=True)
    rc, diff = sh("git diff -- src", cwd=wt)
    open(os.path.join(d, "patch.diff"), "w").write(diff)
    for f in ("tests/seed_demo.rs", "SEED.md"):
        if os.path.exists(os.path.join(wt, f)):
            shutil.copy(os.path.join(wt, f), os.path.join(d, os.path.basename(f)))
    env = "CARGO_TARGET_DIR=%s/target CARGO_NET_OFFLINE=true" % wt
    rc_build, _ = sh("%s cargo build --offline" % env, cwd=wt)
    rc_suite, out_suite = sh("%s cargo test --workspace --offline --no-fail-fast -- --skip seed_demo 2>&1 | grep -E 'test result|FAILED'" % env, cwd=wt)
    # run the existing suite without the demo crate
    rc_s2, out_s2 = sh("%s cargo test --offline --test lib --test test_dnssector --test test_synth 2>&1 | grep -E 'test result'" % env, cwd=wt)
    rc_with, out_with = sh("%s timeout 300 cargo test --offline --test seed_demo 2>&1 | tail -5" % env, cwd=wt)
    # (git stash is shared between the worktrees of one repository: two agents stashing at once swap their changes - use apply -R)
    pf = os.path.join(d, "patch.diff")
    rc_r, out_r = sh("git apply -R %s" % pf, cwd=wt)
    rc_without, out_without = sh("%s timeout 300 cargo test --offline --test seed_demo 2>&1 | tail -5" % env, cwd=wt)
    sh("git apply %s" % pf, cwd=wt)
    meta = {"id": sid, "property": prop, "compiles": rc_build == 0,
            "existing_suite_with_change": out_s2.strip().split("\n"),
            "demo_with_change_fails": ("test result: FAILED" in out_with or "panicked" in out_with), "demo_without_change_passes": ("test result: ok" in out_without and "FAILED" not in out_without),
            "needs": "see SEED.md", "ran": ["cargo build --offline", "cargo test --offline (3 baseline test crates)", "cargo test --test seed_demo with and without the change"],
            "caught_by": None}
    json.dump(meta, open(os.path.join(d, "meta.json"), "w"), indent=1)
    print(json.dumps(meta, indent=1))
    ok = meta["compiles"] and meta["demo_with_change_fails"] and meta["demo_without_change_passes"] and all("ok." in l for l in meta["existing_suite_with_change"] if l)
    print("CONFIRMED" if ok else "NOT CONFIRMED", out_with[-300:], out_without[-300:])
    return ok


def run(sid, props):
    d = os.path.join(V, "seeded", sid)
    meta = json.load(open(os.path.join(d, "meta.json")))
    if not props:
        props = [meta["property"]]
    rc, out = sh("git -C /repo status --porcelain")
    if out.strip():
        print("refusing: /repo has uncommitted changes")
        return
    rc, out = sh("git -C /repo apply %s" % os.path.join(d, "patch.diff"))
    if rc != 0:
        print("patch does not apply:", out)
        return
    results = {}
    try:
        for p in props:
            rc, out = sh("python3 tools/check.py %s" % p, cwd=V, timeout=3000)
            lines = [l for l in out.split("\n") if l.startswith("VIOLATION") or l.startswith("BROKEN") or " OK:" in l or " FAIL:" in l or l.startswith("  ")]
            results[p] = {"exit": rc, "lines": [l[:400] for l in lines[:4]]}
            print(p, rc, "\n   ".join(l[:300] for l in lines[:4]))
    finally:
        sh("git -C /repo checkout -- .")
    meta["caught_by"] = [p for p, r in results.items() if r["exit"] == 1]
    meta["check_results"] = results
    json.dump(meta, open(os.path.join(d, "meta.json"), "w"), indent=1)


if __name__ == "__main__":
    if sys.argv[1] == "collect":
        collect(sys.argv[2], sys.argv[3], sys.argv[4])
    else:
        run(sys.argv[2], sys.argv[3:])
