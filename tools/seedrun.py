#!/usr/bin/env python3
"""Confirm a seeded change and run the checks against it.
  seedrun.py collect <id> <worktree> <property>   # copy patch/demo from a scratch worktree, confirm fail/pass there
  seedrun.py run <id> [props...]                  # apply to /repo, run the checks, undo, record which catch it
Nothing is ever committed to /repo; the patch is applied with `git apply` and removed with `git checkout -- .`"""
import json
import os
import shutil
import subprocess
import sys

V = "/verif"


def sh(cmd, cwd=None, timeout=1800):
    r = subprocess.run(cmd, shell=True, cwd=cwd, capture_output=True, text=True, timeout=timeout)
    return r.returncode, (r.stdout + r.stderr)


def collect(sid, wt, prop):
    d = os.path.join(V, "seeded", sid)
    os.makedirs(d, exist_ok=True)
    rc, diff = sh("git diff -- src", cwd=wt)
    open(os.path.join(d, "patch.diff"), "w").write(diff)
    for f in ("tests/seed_demo.rs", "SEED.md"):
        if os.path.exists(os.path.join(wt, f)):
            shutil.copy(os.path.join(wt, f), os.path.join(d, os.path.basename(f)))
    env = "CARGO_TARGET_DIR=%s/target CARGO_NET_OFFLINE=true" % wt
    rc_build, _ = sh("%s cargo build --offline" % env, cwd=wt)
    rc_suite, out_suite = sh("%s cargo test --workspace --offline --no-fail-fast -- --skip seed_demo 2>&1 | grep -E 'test result|FAILED'" % env, cwd=wt)
    # run the existing suite without the demo crate
    rc_s2, out_s2 = sh("%s cargo test --offline --test lib --test test_dnssector --test test_synth 2>&1 | grep -E 'test result'" % env, cwd=wt)
    rc_with, out_with = sh("%s timeout 300 cargo test --offline --test seed_demo 2>&1 | tail -5" % env, cwd=wt)
    # (git stash is shared between the worktrees of one repository: two agents stashing at once swap their changes - use apply -R)
    pf = os.path.join(d, "patch.diff")
    rc_r, out_r = sh("git apply -R %s" % pf, cwd=wt)
    rc_without, out_without = sh("%s timeout 300 cargo test --offline --test seed_demo 2>&1 | tail -5" % env, cwd=wt)
    sh("git apply %s" % pf, cwd=wt)
    meta = {"id": sid, "property": prop, "compiles": rc_build == 0,
            "existing_suite_with_change": out_s2.strip().split("\n"),
            "demo_with_change_fails": ("test result: FAILED" in out_with or "panicked" in out_with), "demo_without_change_passes": ("test result: ok" in out_without and "FAILED" not in out_without),
            "needs": "see SEED.md", "ran": ["cargo build --offline", "cargo test --offline (3 baseline test crates)", "cargo test --test seed_demo with and without the change"],
            "caught_by": None}
    json.dump(meta, open(os.path.join(d, "meta.json"), "w"), indent=1)
    print(json.dumps(meta, indent=1))
    ok = meta["compiles"] and meta["demo_with_change_fails"] and meta["demo_without_change_passes"] and all("ok." in l for l in meta["existing_suite_with_change"] if l)
    print("CONFIRMED" if ok else "NOT CONFIRMED", out_with[-300:], out_without[-300:])
    return ok


def run(sid, props):
    d = os.path.join(V, "seeded", sid)
    meta = json.load(open(os.path.join(d, "meta.json")))
    if not props:
        props = [meta["property"]]
    rc, out = sh("git -C /repo status --porcelain")
    if out.strip():
        print("refusing: /repo has uncommitted changes")
        return
    rc, out = sh("git -C /repo apply %s" % os.path.join(d, "patch.diff"))
    if rc != 0:
        print("patch does not apply:", out)
        return
    results = {}
    import time as _time
    t_start = _time.time() - 1
    # evidence/<id>.json must describe runs against /repo as it is: keep the files as they were before this run against a modified tree
    saved = {}
    for p in props:
        ep = os.path.join(V, "evidence", p + ".json")
        saved[ep] = open(ep).read() if os.path.exists(ep) else None
    try:
        for p in props:
            rc, out = sh("python3 tools/check.py %s" % p, cwd=V, timeout=3000)
            lines = [l for l in out.split("\n") if l.startswith("VIOLATION") or l.startswith("BROKEN") or " OK:" in l or " FAIL:" in l or l.startswith("  ")]
            results[p] = {"exit": rc, "lines": [l[:400] for l in lines[:4]]}
            print(p, rc, "\n   ".join(l[:300] for l in lines[:4]))
    finally:
        sh("git -C /repo checkout -- .")
        for ep, txt in saved.items():
            if txt is not None:
                open(ep, "w").write(txt)
    # what the check wrote as the replay of the violation belongs with the seeded change, not with the replays of the unchanged tree
    import glob as _glob
    for p in props:
        for rp in _glob.glob(os.path.join(V, "replays", p + "-*.json")):
            try:
                rj = json.load(open(rp))
            except Exception:
                continue
            if results.get(p, {}).get("exit") == 1 and os.path.getmtime(rp) >= t_start:
                os.replace(rp, os.path.join(d, "replay-%s.json" % p))
    meta["caught_by"] = [p for p, r in results.items() if r["exit"] == 1]
    meta["check_results"] = results
    json.dump(meta, open(os.path.join(d, "meta.json"), "w"), indent=1)


NOTES = {
    "C01-a": ("edns_increment_offset checked against the packet end instead of the OPT data end", "caught at once (implementation panics, model returns an error)"),
    "C02-a": ("label check `c < b' '` instead of is_ascii_control: DEL accepted", "caught at once (accepted but not well-formed)"),
    "C03-a": ("OPT-skipping walk decrements the count before testing it: last record lost when OPT is second to last", "caught at once"),
    "C04-a": ("question() no longer lower-cases when it answers from the cache", "caught at once (getter orders exercise the cache)"),
    "C05-a": ("copy_uncompressed_name returns the end of the LAST pointer: SOA through 2 hops corrupt", "caught at once"),
    "C06-a": ("SuffixDict guard `>=` became `>`: a suffix first written at output offset 16384 is remembered", "MISSED at first; added the pointer-limit family (suffix first emitted at every offset 16381..16388, whole name and inner label) - now caught"),
    "C07-a": ("replace_raw folds the case of the packet byte only: upper-case source never matches", "caught at once"),
    "C08-a": ("resize_rr shifts offset_edns only for records of earlier sections", "caught at once (view differs from a fresh parse)"),
    "C09-a": ("set_raw_name without the trailing recompute_rr: stale name_end for the next operation on the same item", "first run: correspondence broke, no failing input; walks now apply up to three operations and field reads to the same item - now caught with an input"),
    "C10-a": ("insert_rr size test moved before the decompression", "first run: correspondence broke, no failing input; added compressed packets whose pointer-free form is 7900-9000 bytes - now caught with an input"),
    "C11-a": ("delete() without recompute_rr after in-place decompression", "caught at once"),
    "C12-a": ("set_flags mask built from named constants: Z bit not written", "caught at once (exhaustive over the 65536 words)"),
    "C13-a": ("TXT chunk count len/255+1: extra empty string at multiples of 255", "caught at once (boundary lengths 254/255/256/510)"),
    "C14-a": ("lower-casing folded into raw_name_to_str with bound 25: 'Z' kept", "caught at once"),
    "C15-a": ("C `name` accessor returns early on an empty name: buffer not terminated for root owners", "caught at once (canary/termination check of the C driver)"),
    "C16-a": ("C error served from a process-wide table keyed by error variant", "caught at once (schedules) and by the ambient inventory"),
    "C17-a": ("per-thread scratch SuffixDict not cleared when a rename fails", "first run: only the regenerated inventory obligation broke (new thread_local), no failing input; added failed-rename-then-operation pairs and mixed operation pairs - now caught with an input"),
    "C18-a": ("pointer-to-pointer hops escape the 16-hop budget", "first run: correspondence broke, no failing input; added runs of back-to-back pointers in opaque data named by every record - now caught above the proved bound"),
    "C01-b": ("parse_opt checks the remaining length before skipping the OPT header", "caught at once"),
    "C02-b": ("check_uncompressed_name no longer counts the root byte: 256-byte DNAME target accepted", "MISSED at first; the 253..257-byte and 62..64-byte limits are now generated in every name position (question, owner, NS/CNAME/PTR, MX, SOA x2, DNAME) - now caught"),
    "C03-b": ("raw_name_to_str stops at the 16th pointer", "caught (1 case); added 14..16-hop chains through owner, NS, MX, SOA, PTR names - 4 cases now"),
    "C04-b": ("question_raw0 locates type/class with the uncompressed length", "caught (1 case, header-pointer question); added header-pointer questions followed by records / OPT - 9 cases now"),
    "C05-b": ("final_offset.replace(): as C05-a by another route", "caught at once"),
    "C06-b": ("compress treats DNAME data as a compressible name", "caught at once"),
    "C07-b": ("replace_raw applies the 255 limit before knowing whether the name matches", "caught at once"),
    "C08-b": ("set_raw_name no longer clears the question cache (equal-length rename)", "caught at once"),
    "C09-b": ("RRIterator::recompute returns early when name_end did not move", "caught (2 cases); added records with a full owner and compressed data first in their section - 4 cases now"),
    "C10-b": ("current_section() errors on a question-less object after resize_rr moved the bytes", "MISSED by C10 at first (C08 caught it); C10 now has question-less histories and checks that a walk whose mutating actions all failed left the message unchanged - now caught"),
    "C11-b": ("question cursor offset_next uses the record header size", "MISSED by C11 at first (C08 and C09 caught it); C11 now deletes the question after an earlier operation decompressed the object - now caught"),
    "C12-b": ("set_opcode helper does not mask the shifted argument: bit 4 lands on QR", "caught at once"),
    "C13-b": ("253 limit applied to the whole output buffer: SOA with two long names, MX with a 252-byte name", "caught at once"),
    "C14-b": ("predicted-size check counts the zone for names ending in a dot", "caught at once"),
    "C15-b": ("raw_packet refuses a packet of exactly 8192 bytes", "MISSED at first; added copy-out of 8190..9000-byte packets under stated capacities 8190/8191/8192 (and the oracle now computes the expected refusal) - now caught"),
    "C16-b": ("64 process-wide error slots handed out round-robin", "first run: only the inventory obligation broke, no failing input; added schedules with 70 and 140 live threads - now caught with an input"),
    "C17-b": ("thread-local name scratch buffer not cleared when replace_raw fails", "caught at once (by the families added for C17-a)"),
    "C18-b": ("every pointer target validated recursively: 2^depth steps", "caught at once"),
    # third round: the agents were told what the differential suite generates and asked for inputs it would plausibly not generate
    "C02-c": ("check_compressed_name compares the pointer target in 16 bits: a backward pointer from a name starting at offset >= 65536 is refused", "MISSED at first (no packet above 64 KiB in the quick tier); added records placed at 65535..65548 and data lengths of 65526..65535 to the packet families - now caught"),
    "C03-c": ("skip_rdata adds header size and data length in u16: a record with RDLENGTH 65526..65535 derails the walk (panic in debug, wrap in release)", "MISSED at first; jumbo-rdlen packets added, and C01 C02 C03 C05 C10 C18 now also run the optimised build of the harness - now caught in both builds"),
    "C05-c": ("'null MX' fast path in uncompress_rdata taken when the last data byte is 0: an exchange ending in a pointer to offset 256, 512 ...", "MISSED at first; added packets with a label starting at offset 255 / 256 / 257 / 512 / 768 named by a pointer from every kind of name - now caught"),
    "C06-c": ("hand-rolled case folding treats '[' and '{' as one letter", "MISSED at first; added names differing only in a non-letter byte pair 0x20 apart (@/`, [/{, ]/}, ^/~, 0xC1/0xE1) - now caught"),
    "C07-c": ("SuffixDict guard off by one at offset 16384 (as C06-a) reached through the renamer", "caught at once (pointer-limit family)"),
    "C08-c": ("delete() takes any record whose type field reads 41 for OPT: deleting a question with QTYPE 41 wipes the EDNS summary", "MISSED at first; added questions whose QTYPE is the number of a special record type (41, 6, 15, 2, 39, 0, 65535), deleted and re-inserted, with and without a real OPT - now caught"),
    "C09-c": ("set_raw_name no longer clears the question cache (as C08-b)", "caught at once"),
    "C10-c": ("RR::len() as u16 in the size test of insert_rr: a record of 65536+ bytes is accepted", "MISSED at first (records were only ever synthesised from text); added the harness/model operation IR (RR::new with any data length, then insert_rr) and data lengths around 8192 and 65520..65535 - now caught"),
    "C11-c": ("resize_rr no longer clears the question cache: a question deleted from an already decompressed object is still reported by the getters", "MISSED at first; the question getters are now called before and after the question is deleted - now caught"),
    "C13-c": ("TXT length limit derived from the owner name length: 3571..3825 bytes of text refused when the owner has 234+ bytes", "MISSED at first; added the grid owner-name length x data length for every type - now caught"),
    "C01-c": ("SOA length test rearranged to `rdlen - names_len != 20`: underflow when the two names are longer than the declared data length (debug build)", "MISSED at first; added the data-length sweep (every declared length 0 .. true+3 over SOA/MX records with long uncompressed names and with pointers) - now caught"),
    "C04-c": ("set_raw_name relies on resize_rr to drop the cached question, which returns early when the length does not change", "MISSED by C04 at first (C08 and C09 caught it); C04 now has histories that decompress, read the cached question and rename it to a name of the same encoded length, comparing the getters with the decoding of the bytes as they then are - now caught"),
    "C12-c": ("set_flags stores the upper half of its argument into the cached extended flags when the packet has an OPT record", "MISSED at first (the flag-word sweep used packets without OPT); added packets with an OPT record under the same setters - now caught"),
    "C14-c": ("253-byte limit measured on the whole buffer rather than on the name appended to it", "MISSED at first; new op ZP (copy_raw_name_from_str appending to a buffer that already holds 1..300 bytes) in harness and model - now caught"),
    "C15-c": ("rr_ip through the table canonicalises the address: an IPv4-mapped AAAA is copied out as 4 bytes", "MISSED at first; a third of the generated AAAA data are now addresses libraries treat specially and walks read the address of unchanged records - now caught"),
    "C16-c": ("error slot moved from a thread-local to a 4096-entry table indexed by a wrapping counter", "first run: only the regenerated thread_local obligation broke (no failing input); schedules with 4100 (thorough 8200) live threads added, the replay thread now uses one gate per step - now caught with an input"),
    "C18-c": ("EDNS option length + 4 computed in u16: an option declaring 65532 bytes never advances the cursor (release), overflow panic (debug)", "first run: only the regenerated cast inventory broke (no failing input); added option lengths 65527..65535 and a per-case watchdog in the harness (a case running over 20 s is reported as HANG instead of losing the shard) - now caught with an input"),
    "C03-d": ("raw_name_to_str stops at a pointer whose target is at or beyond min(len, 8192): dotted names cut short in packets above 8 KiB", "MISSED at first; pointer targets 4096 / 8191 / 8192 / 8193 / 12000 / 16382 / 16383 added to the label-at family (every kind of name points there) - now caught"),
    "C05-d": ("decompression copies the question name's wire bytes verbatim: a question written as a pointer into the header keeps its pointer", "caught at once (header-pointer questions are in the accepted-packet families)"),
    "C06-d": ("dictionary comparison accepts characters that differ only by bit 0x20 even when they are not letters ('[' / '{', '@' / '`')", "caught at once (near-case family)"),
    "C07-d": ("replace_raw starts comparing at the byte offset len(name) - len(source) without walking the labels", "MISSED at first; added names in which the byte before a look-alike tail equals the source's first length byte (all lengths 1..62, two depths, same- and different-length targets) - now caught. The theorem C07_keeps_other_names states the clause this change violates"),
    "C08-d": ("delete() treats any record of type 41 as the OPT record: deleting a question with QTYPE 41 wipes the EDNS summary", "caught at once (special-QTYPE family added for C08-c)"),
    "C09-d": ("same change as C08-d, seeded independently against C09", "first run: reported by the correspondence only, no failing input (the bytes are unchanged; only what the object reports changes); C09 now compares the object's EDNS report after every step with the OPT record of the abstract message - now caught with an input"),
    "C10-d": ("insert_rr tests the 8192 limit against the length on entry (possibly compressed) instead of the pointer-free length", "caught at once (compressed packets whose pointer-free form straddles the limit, added for C10-a)"),
    "C11-d": ("the 65535 limit of resize_rr also applied when a record shrinks or is removed", "caught at once (jumbo histories)"),
    "C13-d": ("RR::new refuses data of exactly 65535 bytes (>= instead of >)", "MISSED at first; only a DS record can get there: digests of 65527 .. 65533 bytes (131 KB of text) added - now caught"),
    "C01-d": ("edns_increment_offset bounded by the end of the packet instead of the end of the OPT data (OPT not last, option overrunning into the next record)", "caught at once"),
    "C02-d": ("after a pointer, the labels read at the target only have to stop before the pointer that was followed, not before the segment that held it", "not run before the strengthening: the family of misaligned reads (pointer-like byte pairs inside label contents, pointers to arbitrary earlier offsets) was written after reading the description of this change - caught with it; 587 of 3000 such packets are rejected for exactly the loosened rule"),
    "C04-d": ("resize_rr no longer drops the cached question and the getters test the question offset first: delete + re-insert of the question on a decompressed object reports the old question", "MISSED at first; C04's histories now also delete the question and insert another one between reads of the cache - now caught"),
    "C12-d": ("set_rcode / set_opcode go through a helper that asks for 13 header bytes: no effect on a synthesised empty packet of exactly 12 bytes", "MISSED at first; the setters are now also run on ParsedPacket::empty() before any insertion - now caught"),
    "C14-d": ("253-byte limit measured on the whole output buffer (with a truncate on error): SOA contact / MX host rejected", "caught at once (op ZP added for C14-c)"),
    "C16-d": ("error slot table of 65536 entries indexed by a wrapping counter", "first run: reported through the regenerated thread_local obligation only (no failing input); new op HS (one live thread, n short-lived failing threads one after the other) with n = 300 / 4097 in the quick tier and 65535 / 65536 / 65537 / 131073 in the thorough tier; the search that a broken obligation triggers runs the thorough family, so the quick check now reports it with the 65536-thread input (72 s)"),
    "C17-d": ("compress() reuses a per-thread dictionary whose clear() forgets the entries beyond the write cursor after it wrapped", "caught at once (operation pairs after 32+-suffix packets, added for C17-a/c; also the thread_local inventory)"),
    "C18-d": ("pointer-to-pointer fast path decrements the hop budget without testing it: mixed label/pointer chains wrap the counter (release) or panic (debug)", "first run: only the regenerated inventory and the step-count correspondence broke (no failing input); added chains of mixed shape (0..4 pointer-to-label hops before / after a run of 8..19, 40, 400, 4000 back-to-back pointers) - now caught with an input"),
    "C03-e": ("copy_raw_name returns the length of the whole destination vector instead of the length of the name", "not run before the strengthening (harness changed after reading the description): the raw-name accessor is now called on an empty vector and on one that already holds five bytes, and both results must agree - caught"),
    "C04-e": ("set_raw_name keeps the cached question when the new name differs from the old one only by letter case", "not run before the strengthening: C04's rename histories now include case-only changes of the question name - caught"),
    "C07-e": ("replace_raw tests name[offset] == source[0] instead of walking the labels to the offset", "caught at once (byte-offset near misses added for C07-d)"),
    "C08-e": ("set_raw_name sizes the record from the length of the whole slice it was given instead of the encoded name it starts with", "MISSED at first; renames now pass names followed by 1 .. 240 bytes of junk after the root label a quarter of the time - now caught"),
    "C09-e": ("resize_rr shifts the EDNS offset when the record resized starts exactly at it (`>=` for `>`): OPT without options followed by a record", "first run: correspondence only, no failing input; C09 now also compares where the object places the EDNS data with where they are in its bytes - now caught with an input"),
    "C10-e": ("room for the new record computed from the length before decompression", "caught at once"),
    "C15-e": ("set_name through the table refuses when text length + default-zone length > 255, also for absolute names, which ignore the zone", "not run before the strengthening: facade walks now call set_name (action N) with relative / absolute, short / 200..253-byte names, with and without a default zone - caught"),
    "C01-e": ("the two query checks merged into `ancount + nscount > 0` in u16: 65535 + 1 wraps (release) or panics (debug)", "MISSED at first; header counts at the edges of 16 bits (0, 1, 0x7fff, 0x8000, 0xfffe, 0xffff in every combination, queries and responses) added - now caught"),
    "C06-e": ("dictionary comparison takes the label structure from the name looked up only: foo-bar.zone and foo.bar.zone share a pointer", "MISSED at first; added pairs of names of equal wire length whose label boundaries differ (a character - also one equal to the length byte - where the other has a length byte), both orders, owners and name-bearing data - now caught"),
    "C11-e": ("same change as C09-e, seeded independently against C11", "caught at once (C11 compares the view after every deletion)"),
    "C13-e": ("hostname parser treats any non-blank character after a 62-byte final label as one character too many: `(` directly after an SOA contact name", "MISSED at first; the opening parenthesis may now follow the contact name without white space, with final labels of 1 / 30 / 61 / 62 bytes - now caught"),
    "C16-e": ("descriptions of 64+ characters are written to one process-wide spill buffer", "not run before the strengthening: the two longest descriptions the table can produce (second question, rename to a name starting with NUL) added to the failing calls of the schedules (seven kinds) - caught; also the ambient inventory (new static)"),
    "C18-e": ("hop counter became a u8 tested only when a label is reached: ladders of 256+ pointers wrap it (release) or panic (debug)", "caught at once (runs of back-to-back pointers)"),
    "C12-e": ("flags() masks the extended half down to DO: reserved extended flag bits of an OPT record vanish from the 32-bit word", "caught at once (OPT records carry arbitrary 16-bit extended flags)"),
    "C17-e": ("compress/rename share a thread-local suffix table cleared lazily by a 16-bit epoch that wraps without wiping the slots: the 65535th call on a thread sees the entries of the first", "first run: only the regenerated inventory obligation broke (no-failing-input-found); added HL: f(x) on a fresh thread against f(x) after f(y) and n small calls, n around 2^8 and 2^16 - now caught with an input"),
    "C01-f": ("check_compressed_name's loop bounded by 143 steps: a name with 127 one-byte labels read through 16 pointers needs 144 (unreachable!() reached)", "first run: only the regenerated inventory broke (no-failing-input-found); added the limit-product family (126 / 127 / 128 one-byte labels through 15 / 16 / 17 hops, in one piece and spread over the hops) - now caught with an input"),
    "C02-f": ("pointer target decoded with a 13-bit mask in the validator: targets 8192..16383 are checked 8192 bytes too early", "caught at once (label-at family: pointer targets up to 16383)"),
    "C03-f": ("raw_name_to_str drops bit 13 of the pointer target", "caught at once (same family)"),
    "C04-f": ("decompression copies the question name verbatim: a question written as a pointer into the header keeps its pointer on an object marked pointer-free; header setters then change the question under the cached one", "MISSED by C04 at first (C05 reports it at once: same change as C05-f); C04 now has histories on header-pointer questions that decompress, read the cache, then call header setters / insert - now caught"),
    "C05-f": ("decompression copies the question name verbatim (pointer into the header kept)", "caught at once (hand-built header-pointer packets)"),
    "C06-f": ("dictionary comparison folds bit 0x20 of every byte, not only of letters: `@` / backquote, `[` / `{` ... compare equal", "caught at once (names over the full byte alphabet the parser accepts)"),
    "C07-f": ("replace_raw no longer checks that the match position is a label boundary of the name", "caught at once (byte-coincidence near misses added for C07-d)"),
    "C08-f": ("insertion point of a question takes the additional offset before the name-server offset: a question inserted into an object without question and without answers lands after the authority records", "MISSED at first; added delete-the-question-and-insert-another on all eight shapes of packet (each record section empty or not), with and without OPT - now caught"),
    "C09-f": ("rename_with_raw_names no longer marks the object as possibly compressed: a later length-changing mutation skips decompression", "caught at once (histories with a rename after a decompressing operation)"),
    "C10-f": ("current_section() reports an error for every record of an object without a question; resize_rr asks for the section after it moved the bytes", "caught at once (histories on objects whose question was deleted)"),
    "C11-f": ("same change as C09-f, demonstrated through a deleting walk", "MISSED by C11 at first (C09 reports it at once); C11 now has walks that delete after a decompressing operation followed by a whole-packet rename - now caught"),
    "C12-f": ("set_response delegates to a helper that treats a 12-byte packet as too short", "caught at once (setters on the empty 12-byte packet, added for C12-d)"),
    "C13-f": ("TXT size limit subtracts the owner name's length: texts of 3571..3825 bytes under owners of 234+ characters refused", "caught at once"),
    "C14-f": ("early length guard counts the default zone even for names that end in a dot", "caught at once"),
    "C16-f": ("descriptions kept in a process-wide table under a hash of the text, overwritten in place on collision: exactly one pair of reachable descriptions collides", "first run: only the regenerated inventory broke (no-failing-input-found); the failing calls now produce thirteen descriptions (six more through set_raw_name and rename) and every ordered pair of them is scheduled on two threads - now caught with an input"),
    "C17-f": ("from_string keeps a per-thread memo of the last record keyed on its blank-separated fields: blanks inside a quoted TXT string are data", "first run: only the regenerated inventory broke (no-failing-input-found); added near-duplicate pairs (y = x with one small edit: a blank inserted / changed / removed, preferably inside quotes; a character or a bit changed) - now caught with an input"),
    "C18-f": ("hop counter counted up in 8 bits and tested only at a label", "caught at once (runs of 400 / 4000 back-to-back pointers)"),
    "C01-g": ("EDNS option steps bounded by the end of the packet instead of the end of the OPT data: an option overrunning an OPT record that is not last walks into the next record", "caught at once (OPT in every position with lying option lengths)"),
    "C02-g": ("after a pointer the walk's barrier is the pointer's own position instead of the start of its segment: a label reached through a pointer may run forward over the referring name", "caught at once (misaligned pointer targets)"),
    "C03-g": ("A / AAAA records of class ANY / NONE with no data accepted; the address accessors still read 4 / 16 bytes", "MISSED at first; added the field matrix (every type with a rule of its own x classes IN / CH / HS / NONE / ANY / 0 / 65535 x declared lengths 0, 1, natural, natural + 1, last record or not) - now caught"),
    "C04-g": ("qtype_qclass with a cold cache locates type and class with the after-decompression length of the question name", "caught at once (questions written as pointers into the header)"),
    "C05-g": ("new assertion on the expanded SOA data length off by one: two names of 255 bytes each panic", "MISSED at first; added SOA records with both names at 253 / 254 / 255 bytes (in full, and the second as a pointer to the first), MX / NS with a maximal name under a maximal owner - now caught"),
    "C06-g": ("case-folding table folds one octet too many: `[` equals `{`", "caught at once (full accepted alphabet in names)"),
    "C08-g": ("insert_rr recomputes the view only after the size test: a refused insertion into a compressed object whose pointer-free form is too large leaves the decompressed bytes with the offsets of the compressed layout", "first run: correspondence broke without a failing input for C08's own oracle (answers-only packets have the same offsets either way); added inflating packets with authority, additional and OPT records after the answers to C08 and C09 - now caught"),
    "C09-g": ("the size test of insert_rr runs before the decompression it triggers", "MISSED by C09 at first (C10 has the family); inflating packets added to C09 - now caught"),
    "C10-g": ("first half of the size test evaluated on the compressed length, the subtraction on the decompressed one", "caught at once"),
    "C11-g": ("current_section() fails for every record of an object without a question", "MISSED at first; a deleting walk over a record section now follows the deletion of the question - now caught"),
    "C12-g": ("the C table's set_flags masks its argument with the named flag constants, which lack the Z bit", "MISSED at first (the sweep called the Rust setters); every 64th flag word now also goes through the three setters of the C function table - now caught"),
    "C13-g": ("decimal fields refused beyond ten digits, counting leading zeros", "MISSED at first; TTL, SOA counters and MX preference are now written with leading zeros (up to 14 digits) in one text out of eight - now caught"),
    "C14-g": ("final length test measures the whole destination vector, not the name just appended", "caught at once"),
    "C16-g": ("error objects handed out from a global free list; a failing call without an error pointer recycles the thread's object while the thread keeps using it", "first run: the inventory obligation broke and the search reported a hang of the 131073-thread case; added failing calls made without an error pointer to the schedules (step kind n) - now caught with a proper input"),
    "C17-g": ("C table set_name memoises the last conversion under the concatenation of text name and raw zone", "first run: only the inventory obligation broke (no-failing-input-found); added set_name pairs whose two arguments concatenate to the same bytes with the boundary moved by one (operation PF: parse + one table call) - now caught"),
    "C01-h": ("debug assertion adding the three record counts in 16 bits: well-formed packets with more than 65535 records in all panic in debug builds", "first run: only the regenerated panic-site inventory broke (no-failing-input-found); added packets of 65536+ records across two or three sections (implementation only - 770 KB - with the independent decoder as the expectation) - now caught with an input"),
    "C02-h": ("barrier after a pointer = position of the pointer, not the start of its segment: a name whose pointer target runs forward into the name itself is accepted", "caught at once (pointer layouts landing inside the current name)"),
    "C04-h": ("qtype_qclass() with a cold cache measures the question name after decompression: wrong type and class for a question written through a header pointer", "caught at once (header-pointer family, getter orders)"),
    "C05-h": ("decompression refuses outputs larger than 32 times the input: NS / CNAME / PTR records whose owner and data are pointers to a maximal name expand up to 37 times", "MISSED at first (largest generated ratio about 20); added the largest expansions there are - a maximal question name and 60..125 records of pointer owner + pointer data of each name-bearing type, 2 KB in, up to 64 KB out - now caught"),
    "C06-h": ("name comparison folds '[' to '{' (off-by-one range in a hand-written lower-caser): srv{1 becomes a pointer to srv[1", "caught at once (labels over punctuation next to letters)"),
    "C07-h": ("dictionary accepts offset 16384 exactly: a pointer to it is written as c0 00", "caught at once (renames of packets that cross 16 KB)"),
    "C08-h": ("resize_rr shifts offset_edns when it equals the record's offset (>= instead of >): an OPT without options followed by the record changed", "caught at once (view against fresh parse: 'ed' differs)"),
    "C09-h": ("TXT builder refuses exactly 3825 bytes (>= instead of >)", "MISSED at first (histories never used the boundary shapes of the synthesis grammar); one insertion in eight now does (maximal names, TXT of 255 / 3570 / 3825 bytes) - now caught; C13 reported it at once"),
    "C10-h": ("refused whole-packet rename leaves may-be-compressed set: every later operation on a question-less or QR-gated object then fails", "MISSED at first; added refused renames followed by recompute / insertions on question-less objects, and the oracle clause 'a failing call that moved no byte changed nothing else of the object either' (the flag may only go from set to clear: the first version of the clause raised a false alarm on the decompress-first prologue, corrected before commit) - now caught"),
    "C11-h": ("resize_rr fast path for a trailing record skips clearing the cached question: deleted question still reported", "caught at once (getter before and after the deletion of the question)"),
    "C12-h": ("set_response is a no-op on a packet of exactly 12 bytes", "caught at once (flag sweep on the empty object)"),
    "C13-h": ("RDATA limit 65536 instead of 65535: a DS digest of 65532 bytes gives a record whose length field wrapped to 0", "caught at once (DS digests around the 16-bit limit)"),
    "C14-h": ("wire-to-text escapes a backslash as \\092 while text-to-wire copies it", "MISSED at first (read-back went through set_raw_name, which refuses such labels); added read-back through RR::new + insert_rr for names over backslash, quote, space, control bytes, 127, 128 and upper case - now caught; since the repair a97c4c2 of /repo the text conversion refuses a backslash (the parser never accepted one): no accepted text holds one any more, the premise of C14 does not cover such names, the change no longer violates C14 and its demonstration fails on the unchanged source too - kept for the record, not counted"),
    "C15-f": ("C table rr_ip requires a 16-byte buffer for an A record (written by the agent given C03's text)", "caught at once by C15 (the C driver hands in exactly 4 bytes against a guard page); kept under C15, whose facade it breaks"),
    "C16-h": ("throw_err returns early when the slot handed in already points to an error with the same text: the slot keeps pointing at another thread's object", "MISSED at first; added failing calls whose error slot still holds the pointer another thread obtained (step x), with equal and different texts - now caught"),
    "C17-h": ("suffix table moved into a thread-local shared by all SuffixDict values of a thread", "first run: only the regenerated inventory broke (no-failing-input-found); added the public name emitter with two caller-owned dictionaries used alternately on one thread (operation DD) - now caught with an input"),
    "C18-h": ("EDNS option list walked again after every additional record that follows the OPT record", "first run: no failing input (no packet had options and records after them); added packets with half their bytes in the options of an OPT record that comes first or in the middle and half in records after it - now caught (step count differs from the model's and exceeds the bound)"),
    "C01-i": ("pointer read through a slice bounded by the barrier: a pointer whose first byte is the last byte before the segment that referred to it panics", "caught at once (pointer layouts around the start of the referring segment)"),
    "C02-i": ("'reference to an empty label' tested on the first pointer of a name only: a later hop may land on a root byte", "caught at once (chains through bytes never validated as names)"),
    "C03-i": ("name() lower-cases with Unicode rules when the owner name is valid UTF-8", "MISSED at first (labels were ASCII or random bytes); added names with UTF-8 letters that have a lower-case form, lone high bytes and 0xff - now caught"),
    "C05-i": ("decompression asserts that a pointer target is at or after offset 12: names written through the header panic", "caught at once (header-pointer packets)"),
    "C06-i": ("dictionary hit decided by equal length and equal 32-bit hash; the remembered bytes are never compared", "MISSED: no generated packet holds two names whose case-folded FNV-1a hashes collide (one pair in 2^32). A regenerated inventory was added (DictCompare: the one comparison of SuffixDict::insert, its arguments and its guard, and the dictionary's other helpers), which the model's sd_find and the invariant dict_inv of C06_content rest on - now reported, without a failing input"),
    "C08-i": ("delete() takes a question of QTYPE 41 for the OPT record when the packet has one: the EDNS summary is reset while the OPT record stays (written by the agent given C04's text)", "caught at once by C08 and C09 (the object reports no EDNS, its bytes hold an OPT record); outside C04, which speaks of accepted packets - the question is gone"),
    "C09-i": ("decompression treats AFSDB and RT data as '2 bytes + a name'", "MISSED at first (no record of those types); added records of 32 types the library gives no meaning to, with data that looks like a name, like 2 bytes + a name, like a name followed by junk, in every section of the hand-built packets all history checks draw from - now caught"),
    "C10-i": ("set_raw_name no longer recomputes the cursor after its in-place decompression: a growth refused at 65535 bytes leaves the cursor with the offsets of the compressed packet", "MISSED at first; added packets that decompress to 65000..65535 bytes, a refused owner-name change through a cursor, then reads, a deletion and a second change through the same cursor - now caught (a second agent, given C08's text, made the same change; kept once)"),
    "C11-i": ("single-name data test written as the range NS..=CNAME: MD and MF data are read as names by the decompression a deletion triggers", "MISSED at first; deleting walks now include records of types without meaning whose data looks like a name - now caught"),
    "C12-i": ("set_response(true) also sets TC on a query larger than max(512, advertised payload)", "MISSED at first (every packet of the flag sweep had 29 or 40 bytes); added packets of exact sizes around 512, the advertised payload, 4096, 8192 and 64 KiB, with and without OPT - now caught"),
    "C13-i": ("white space inside the parentheses of SOA skipped with is_ascii_whitespace: a vertical tab is refused", "MISSED at first; CR, VT and FF added to the white space generated inside SOA parentheses - now caught"),
    "C14-i": ("length test rearranged into 253 - suffix.len(): with a default zone of 254 or 255 bytes it underflows (panic in debug, over-long name accepted in release)", "MISSED at first (one short default zone); added default zones of 100..255 wire bytes - now caught"),
    "C16-i": ("per-thread error slot drawn from a 16-bit counter of threads that ever failed", "the quick schedules stop at 4097 sequential threads; the change breaks the regenerated inventory of ambient state, and the search that follows a broken obligation (thorough generator) finds HS,65536 - caught with an input. 65537 sequential threads were put into the quick tier for one commit and taken out again: on a loaded machine the run hit the watchdog (a false alarm of the check, not of the code)"),
    "C17-i": ("recompute() skips decompression when its packet has the address and length of the buffer the last direct decompression returned", "first run: only the regenerated inventory broke (no-failing-input-found); added parse + recompute (operation PR) after a decompression whose result has exactly that length - now caught with an input (the allocator hands the freed block back)"),
    "C03-j": ("name() answers from the cached question when the owner is a bare pointer whose LOW byte is 12: pointers to 268, 524, ... read as the question name once a question getter has run", "MISSED at first; a question getter is now placed among the walks of every packet and labels are placed at 256k + 12 (268, 524, 780, 4108, 16140) - now caught"),
    "C05-j": ("MX data ending in a zero byte copied verbatim: an exchange that ends with a pointer to an offset that is a multiple of 256", "caught at once (labels placed at 256, 512, 768, 4096, 8192 and named from MX data)"),
    "C13-j": ("TXT length bound made to depend on the owner name: 3571..3825 bytes refused under an owner of 235+ characters", "caught at once (boundary owners x boundary TXT lengths)"),
    "C14-j": ("C table set_name takes a non-null default-zone pointer with length 0 for a zone: the name gets no root byte and is refused", "MISSED at first (the C driver passed NULL for 'no zone'); the driver can now pass a valid pointer with length 0 and C14 calls set_name through the table with NULL, with an empty buffer and with a zone - now caught"),
    "C16-j": ("the description of any thread NAMED \"main\" is kept in one process-wide slot", "first run: only the regenerated inventory broke (no-failing-input-found); schedules whose threads all carry the name \"main\" added (operation HM) - now caught with an input"),
    "C17-c": ("compress() output built in a thread-local scratch buffer that is not cleared above 64 KiB of capacity", "first run: only the regenerated inventory obligation broke; added small operations right after 33 .. 65 KB ones - now caught with an input"),
    # eleventh round (k): ten agents, told what ten rounds had tried and asked for combinations nobody varies
    "C02-k": ("RFC 2136 'placeholder' records: with opcode UPDATE and QR set, a record of class ANY / NONE with TTL 0 and no data skips every type-specific data check (A without its 4 bytes accepted)", "first run: only the cast inventory broke (no failing input); the opcode x section x class x TTL x type x (no data | true data) matrix was added - now caught with an input"),
    "C04-k": ("question() reads type and class after the LAST pointer of the name instead of the first: wrong for a question reached through two pointers, which can only lie in the header (.. c0 03, flag byte c0, qdcount 00 01)", "MISSED at first; header-double-pointer family added (every getter first, ten label bytes, prefixes, five types) - now caught"),
    "C05-k": ("copy_raw_name copies an owner name verbatim when its last byte is 0: a name ending in a pointer to a multiple of 256", "caught at once (labels at 256k families of round three)"),
    "C06-k": ("suffix dictionary also serves a suffix from the tail of a longer remembered name, compared byte-wise without regard to label boundaries: a length byte of 32..63 is also a character", "first run: correspondence broke (8 divergences, all valid outputs), no failing input; length-byte-as-character family added (Y of n bytes, a<chr(n+1)>.Y, <chr(n)>Y as one label) - now caught with an input"),
    "C07-k": ("renamer remembers where the target name was first written and points later matches there; offset off by the 2-byte pointer when the dictionary already held L.target and L is one byte", "first run: correspondence broke (322 divergences, all valid outputs), no failing input; packets that already mention the target zone before the first match were added - now caught with an input"),
    "C08-k": ("set_raw_name overwrites a pointer-free name of equal encoded length in place on a still-compressed packet: later pointers into the old name's interior", "caught at once"),
    "C09-k": ("set_raw_name on the last record of a compressed packet whose owner is a bare pointer rewrites in place: names in the record's own data that point at the owner pointer are dragged along", "MISSED at first (one divergence inside a tolerated class); self-pointer family added (NS / CNAME / PTR / MX / SOA data pointing at the record's own owner pointer, three sections, last or not) - now caught"),
    "C10-k": ("insert_rr bumps the question count before the size test: a question refused as too large after the question was deleted leaves QDCOUNT = 1", "first run: correspondence broke (220 divergences), no failing input; delete the question of an 8-9 KB packet, then insert one that does not fit - now caught with an input"),
    "C11-k": ("the parser marks a packet as possibly compressed only when a name does not end in 0: pointers to multiples of 256 end in 0, deletion then skips decompression", "caught at once (flag soundness clause of the view oracle)"),
    "C13-k": ("TXT cap computed from the owner length: 234+ byte owners lower it to 3570", "caught at once (owner length x text length family of round three)"),
}


def report(only=()):
    """Apply every kept change in turn, run its property's quick check, write seeded/README.md.
    `report C15 C06` re-runs only the changes of those properties and keeps what meta.json records for the others."""
    rows = []
    for mp in sorted(__import__("glob").glob(os.path.join(V, "seeded", "*", "meta.json"))):
        sid = os.path.basename(os.path.dirname(mp))
        if not only or any(sid.startswith(o) for o in only):
            run(sid, [])
        m = json.load(open(mp))
        r = m["check_results"][m["property"]]
        line = next((l for l in r["lines"] if l.startswith("VIOLATION")), "")
        status = "not reported" if r["exit"] != 1 else ("reported, no failing input" if "no-failing-input-found" in line else "reported with a failing input")
        what, hist = NOTES.get(sid, ("", ""))
        rows.append("| %s | %s | %s | %s | %s |" % (sid, m["property"], what, status, hist))
    out = ["# Seeded changes", "",
           "Each directory holds a change written by an independent sub-agent that was given only the text of one property and a scratch",
           "worktree: `patch.diff` (applies to /repo's pinned source with `git -C /repo apply`), `seed_demo.rs` (an integration test that fails",
           "with the change and passes without it), `SEED.md` (the agent's notes) and `meta.json` (what was confirmed here: it compiles, the 46",
           "tests pass, the demo fails with / passes without; and what the checks reported). None of them is ever committed to /repo.", "",
           "The table is regenerated by `python3 tools/seedrun.py report` (applies each patch, runs the quick check of its property, undoes it).", "",
           "| id | property | the change | quick check now | history |", "|---|---|---|---|---|"] + rows
    open(os.path.join(V, "seeded", "README.md"), "w").write("\n".join(out) + "\n")
    print("\n".join(rows))


if __name__ == "__main__":
    if sys.argv[1] == "report":
        report(tuple(sys.argv[2:]))
    elif sys.argv[1] == "collect":
        collect(sys.argv[2], sys.argv[3], sys.argv[4])
    else:
        run(sys.argv[2], sys.argv[3:])
