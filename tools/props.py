"""Per-property case generators, property oracles (evaluated on the *implementation's* output)
and metadata. The theorems live in coq/props/Cxx.v; the statements are pinned in tools/pins/Cxx.v."""
import os
import random
import struct
import sys

sys.path.insert(0, os.path.join(os.path.dirname(os.path.abspath(__file__)), "..", "gen"))
import dnsgen as G
import textgen as T
import hist as H
import copy
import json


def hx(b):
    return b.hex() if b else "-"


class Case:
    __slots__ = ("id", "line", "meta")

    def __init__(self, id, line, meta=None):
        self.id, self.line, self.meta = id, line, meta or {}

    def text(self):
        return self.id + "\t" + self.line


class Prop:
    id = "C00"
    generated = ["Constants"]
    allowed_axioms = []
    extra_trusted = []
    assumptions = []
    keep_err = False
    release_too = False
    level = "proof"
    rule = ""
    strength = ""

    def keep_steps(self, case, io):
        return False

    def corpus(self):
        """Minimised failures kept from earlier runs (corpus/<id>.txt), run first."""
        p = os.path.join(os.path.dirname(os.path.abspath(__file__)), "..", "corpus", self.id + ".txt")
        out = []
        if os.path.exists(p):
            for i, l in enumerate(open(p)):
                l = l.rstrip("\n")
                if l and not l.startswith("#"):
                    meta = {"family": "corpus"}
                    meta.update(self.corpus_meta(l))
                    out.append(Case("corpus-%d" % i, l, meta))
        return out

    def corpus_meta(self, line):
        """Rebuild the metadata the oracle needs from a bare corpus line."""
        first = line.split("\t")[0].split(",")
        if first[0] == "P" and len(first) > 1:
            b = first[1] if first[1] != "-" else ""
            return {"pkt": b, "len": len(b) // 2}
        return {}

    def gen(self, rng, tier):
        return []

    def search(self, rng):
        return self.gen(rng, "thorough")

    def oracle(self, case, io):
        return None

    def classify(self, case, why):
        return "unclassified"

    def nontrivial(self, case, io):
        return hash(case.line)

    def tags(self, case, io):
        return []

    def shrink(self, case, still_fails):
        return case

    def meta_to_json(self, meta):
        return meta

    def meta_from_json(self, meta):
        return meta


def no_crash(io):
    if io is None:
        return "the implementation produced no output for this case (abort, stack overflow or hang)"
    for o in io:
        if o.startswith("PANIC"):
            return "the implementation panicked"
    return None


def shrink_bytes(case, still_fails, op_index=0, field=1, budget=150):
    """Greedy removal of byte ranges from the hex field of one op while the failure persists."""
    ops = case.line.split("\t")
    f = ops[op_index].split(",")
    if len(f) <= field or f[field] == "-":
        return case
    b = bytes.fromhex(f[field])
    best = case
    n = 0
    size = max(1, len(b) // 2)
    while size >= 1 and n < budget:
        i = 0
        progressed = False
        while i + size <= len(b) and n < budget:
            cand = b[:i] + b[i + size:]
            f2 = list(f)
            f2[field] = hx(cand)
            ops2 = list(ops)
            ops2[op_index] = ",".join(f2)
            c2 = Case(case.id, "\t".join(ops2), case.meta)
            n += 1
            try:
                if still_fails(c2):
                    b, best, progressed = cand, c2, True
                    continue
            except Exception:
                pass
            i += size
        if not progressed:
            size //= 2
    return best


# ---------------------------------------------------------------------------------------------
# shared packet families


def packet_families(rng, tier, scale=1.0):
    """(family, bytes) pairs: valid packets under all layouts, clause-by-clause boundary damage,
    arbitrary bytes."""
    n_valid = int((500 if tier == "quick" else 12000) * scale)
    out = []
    for i in range(n_valid):
        b, bounds, m = G.rand_valid_packet(rng, max_rr=4 if rng.random() < 0.9 else 12)
        out.append(("valid", b))
        if i % 3 == 0:
            for x in G.mutate_boundary(rng, b, bounds):
                out.append(("mutated", x))
    for x in G.boundary_family(rng):
        out.append(("boundary", x))
    n_rand = int((300 if tier == "quick" else 6000) * scale)
    for i in range(n_rand):
        n = rng.choice([0, 1, 5, 11, 12, 13, 17, 29, 40, 64, rng.randint(0, 300)])
        b = bytearray(rng.randint(0, 255) for _ in range(n))
        if n >= 12 and rng.random() < 0.8:
            b[4:6] = b"\0\1"  # one question: get past the first gate more often
            if rng.random() < 0.7:
                b[6:12] = struct.pack(">HHH", rng.randint(0, 2), rng.randint(0, 2), rng.randint(0, 2))
        out.append(("bytes", bytes(b)))
    # opcode x section x class x TTL x type x (no data | true data): a record without data is refused for the types whose data is
    # checked whatever the opcode (an RFC 2136 UPDATE carries such records; the parser's policy does not know about it)
    qn = G.wire_name([b"example", b"com"])
    nm1 = G.wire_name([b"n"])
    true_data = {1: b"\x01\x02\x03\x04", 28: bytes(range(16)), 2: nm1, 5: nm1, 12: nm1, 39: nm1, 15: b"\x00\x05" + nm1,
                 6: nm1 + nm1 + bytes(20), 16: b"\x01a"}
    for opcode in (0, 1, 2, 4, 5, 6, 15):
        for si in range(3):
            for cls in (1, 254, 255):
                for ttl in (0, 1):
                    for t, data in true_data.items():
                        for rd in (b"", data):
                            flags = 0x8000 | (opcode << 11) | rng.choice([0, 0x0400, 0x0100])
                            counts = [0, 0, 0]
                            counts[si] = 1
                            out.append(("opcode-matrix", struct.pack(">HHHHHH", rng.getrandbits(16), flags, 1, *counts) + qn +
                                        struct.pack(">HH", 6 if opcode == 5 else 1, 1) + b"\xc0\x0c" + struct.pack(">HHIH", t, cls, ttl, len(rd)) + rd))
    # adversarial structure
    for h in (2, 3, 16, 17, 40):
        out.append(("chain", G.chain_packet(h)))
    loop = bytearray(G.chain_packet(1))
    loop[29:31] = b"\xc0\x1d"  # self pointer
    out.append(("loop", bytes(loop)))
    two = struct.pack(">HHHHHH", 1, 0x8180, 1, 2, 0, 0) + G.wire_name([b"a"]) + struct.pack(">HH", 1, 1)
    o1 = len(two)
    two += b"\xc0" + bytes([o1 + 16]) + struct.pack(">HHIH", 1, 1, 1, 4) + b"\1\2\3\4"
    two += b"\xc0" + bytes([o1]) + struct.pack(">HHIH", 1, 1, 1, 4) + b"\1\2\3\4"  # two pointers at each other
    out.append(("loop", two))
    # names and records beyond offset 65535 (16-bit arithmetic anywhere would wrap): a record placed at 65535..65548, and a record
    # whose data length is 65526..65535 followed by another record
    for at in ((65535, 65536, 65548) if tier == "quick" else (65534, 65535, 65536, 65537, 65541, 65548, 70000, 81919)):
        out.append(("beyond-64k", G.jumbo_packet(at)))
    for rl in ((65530,) if tier == "quick" else (65525, 65526, 65530, 65535)):
        out.append(("jumbo-rdlen", G.jumbo_packet(None, big_rdlen=rl)))
    for T in (255, 256, 257, 512, 4096, 8191, 8192, 8193, 16383):  # incl. targets at the size constants of the library and the largest pointer value
        for b in G.label_at_packets(T):
            out.append(("label-at-%d" % T, b))
    # lying record counts at the edges of 16 bits, in queries and in responses (sums of two counts wrap at 65536)
    qh = G.wire_name([b"example", b"com"]) + struct.pack(">HH", 1, 1)
    for fl in (0x0100, 0x8180):
        for an in (0, 1, 0x7FFF, 0x8000, 0xFFFE, 0xFFFF):
            for ns in (0, 1, 0x8000, 0xFFFF):
                for ar in (0, 1, 0xFFFF):
                    out.append(("lying-counts", struct.pack(">HHHHHH", 0x1c1c, fl, 1, an, ns, ar) + qh))
    out.append(("lying-counts", struct.pack(">HHHHHH", 0x1c1c, 0x0100, 1, 0xFFFF, 1, 0) + qh + b"\xc0\x0c" + struct.pack(">HHIH", 1, 1, 5, 4) + b"\1\2\3\4"))
    # pointer chains of mixed shape around the hop limit: runs of pointer-to-pointer steps reached through pointer-to-label steps
    for b in G.mixed_chain_family(thorough=(tier != "quick")):
        out.append(("mixed-chain", b))
    # fixed fields combined freely: type x class x declared data length (0, 1, natural, natural + 1), last record or not, answer / additional
    for b in G.field_matrix_packets():
        out.append(("field-matrix", b))
    # both limits of a name at once: 126 / 127 / 128 one-byte labels read through 15 / 16 / 17 hops (in one piece, and spread over the hops)
    for b in G.limit_product_family(thorough=(tier != "quick")):
        out.append(("limit-product", b))
    # reading that starts in the middle of earlier labels (pointer-like pairs and length-like bytes inside label contents)
    for b in G.misaligned_packets(rng, 1500 if tier == "quick" else 60000):
        out.append(("misaligned", b))
    # every declared data length of a record with names inside (SOA, MX) from 0 to beyond the true one, with long uncompressed
    # names and with pointers: any subtraction `rdlen - <something computed from the names>` meets each sign
    for b in G.rdlen_sweep_packets():
        out.append(("rdlen-sweep", b))
    # EDNS option lengths at the top of the 16-bit range (an addition of the 4-byte option header in u16 wraps there), in a short
    # packet and in one that really is that long
    for b in G.opt_len_packets(thorough=(tier != "quick")):
        out.append(("opt-len", b))
    if tier == "thorough":
        big = bytearray(G.chain_packet(16, tail_records=4000))
        out.append(("large", bytes(big)))  # > 65535 bytes
        out.append(("large", bytes(big) + b"\0"))
        out.append(("large", bytes(rng.randint(0, 255) for _ in range(70000))))
        m = G.rand_msg(rng, 60)
        b, _ = G.encode(rng, m, "chain")
        out.append(("large", b))
    return out


class C01(Prop):
    release_too = True
    id = "C01"
    rule = ("P: DNSSector::parse on generated packets (valid under none/greedy/random/chain pointer layouts; one-clause-at-a-time "
            "boundary damage; arbitrary bytes; pointer loops/chains; >65535 bytes in thorough); K/N: the two public name checkers on "
            "arbitrary buffers x offsets (inside, at, beyond the end); O: random sequences of set_offset/increment_offset/rr_rdlen/"
            "edns_rr_rdlen on a fresh DNSSector. A case is non-trivial when its buffer has >= 12 bytes (P) or is non-empty (K/N/O); "
            "distinct = distinct case line.")
    strength = ("full statement: forall byte strings / offsets / op lists, outcome is Ok or Err, never Panic (every index, unwrap, "
                "assert, usize subtraction, counter overflow and loop budget is a Panic site of the model), parsed packet keeps the "
                "input bytes, cursor offset stays <= len. Stack depth: the model's functions are loops, absence of recursion in the "
                "Rust code is checked on the regenerated call graph, not proved.")
    assumptions = ["bytes are numbers < 256 (bytes_ok), which holds for every Vec<u8>", "usize arithmetic does not overflow 2^64"]
    generated = ["Constants", "CallGraph", "Casts", "PanicSites"]

    def keep_steps(self, case, io):
        return False

    def gen(self, rng, tier):
        cases = []
        fams = packet_families(rng, tier)
        for i, (fam, b) in enumerate(fams):
            cases.append(Case("p%d" % i, "P," + hx(b), {"family": "P/" + fam, "len": len(b)}))
        # name checkers on arbitrary buffers and offsets
        pick = [b for (_, b) in fams if len(b) > 0]
        nk = 600 if tier == "quick" else 20000
        for i in range(nk):
            b = rng.choice(pick)
            off = rng.choice([0, 12, len(b) - 1, len(b), len(b) + 1, rng.randint(0, len(b)), rng.randint(0, 70000)])
            cases.append(Case("k%d" % i, "%s,%s,%d" % (rng.choice("KN"), hx(b), max(0, off)), {"family": "KN", "len": len(b)}))
        # more records than any 16-bit count: every count is legal, their sum is not a u16 (implementation only: the
        # model reads lists by position, quadratic in a packet of this size; the independent decoder says what is expected)
        for j, (an, ns, ar) in enumerate([(40000, 30000, 0), (65535, 1, 0), (0, 65535, 1), (30000, 35535, 0), (21846, 21845, 21845)]
                                         if tier == "quick" else
                                         [(40000, 30000, 0), (65535, 1, 0), (0, 65535, 1), (30000, 35535, 0), (21846, 21845, 21845),
                                          (65535, 65535, 65535), (1, 65535, 0), (32768, 32768, 0), (32767, 32768, 0)]):
            rec = b"\x00" + struct.pack(">HHIH", 99, 1, 7, 0)
            b = struct.pack(">HHHHHH", 0x1234, 0x8180, 1, an, ns, ar) + b"\x01a\x00" + struct.pack(">HH", 1, 1) + rec * (an + ns + ar)
            cases.append(Case("many%d" % j, "P," + hx(b), {"family": "P/many-records", "len": len(b), "impl_only": True,
                                                             "expect_ok": decode_or_none(b) is not None}))
        cases.append(Case("k-empty", "K,-,0", {"family": "KN", "len": 0}))
        cases.append(Case("n-empty", "N,-,0", {"family": "KN", "len": 0}))
        no = 300 if tier == "quick" else 6000
        for i in range(no):
            b = rng.choice(pick) if rng.random() < 0.9 else b""
            ops = []
            for _ in range(rng.randint(1, 8)):
                k = rng.choice("siire")
                if k in "si":
                    v = rng.choice([0, 1, 2, 10, 12, len(b) - 1, len(b), len(b) + 1, rng.randint(0, len(b) + 3), 70000, 2 ** 40, 2 ** 64 - 1])
                    ops.append(k + str(max(0, v)))
                else:
                    ops.append(k)
            huge = any(o[0] in "si" and int(o[1:]) > 100000 for o in ops)
            # values the unary-nat model cannot represent in reasonable time run on the implementation only
            cases.append(Case("o%d" % i, "O,%s,%s" % (hx(b), ".".join(ops)), {"family": "O", "len": len(b), "impl_only": huge}))
        return cases

    def oracle(self, case, io):
        w = no_crash(io)
        if w:
            return w
        o = io[0]
        if case.line.startswith("P,"):
            if o.startswith("OK:") and " same=1" not in o:
                return "parse returned Ok but the parsed packet no longer holds exactly the input bytes"
            if case.meta.get("expect_ok") and not o.startswith("OK"):
                return "a well-formed packet with %d bytes (more than 65535 records in all, each count legal) was not accepted: %s" % (case.meta.get("len", 0), o[:80])
        if o.startswith("BADOFFSET"):
            return "cursor primitive left offset beyond the end of the buffer: " + o
        return None

    def classify(self, case, why):
        return "crash-or-hang"

    def nontrivial(self, case, io):
        n = case.meta.get("len", 1)
        if case.line.startswith("P,"):
            return hash(case.line) if n >= 12 else None
        return hash(case.line) if n > 0 else None

    def tags(self, case, io):
        if not io:
            return ["noout"]
        o = io[0]
        if o.startswith("OK"):
            return ["ok"]
        if o.startswith("ERR"):
            return [o.split()[0]]
        return [o[:1]]

    def shrink(self, case, still_fails):
        return shrink_bytes(case, still_fails)


class C02(Prop):
    release_too = True
    id = "C02"
    rule = ("P: DNSSector::parse on the packet families of C01 (valid under every pointer layout; one-clause-at-a-time boundary damage: "
            "63/64-byte labels, 255/256-byte names, 16/17 pointers, forward/self/root pointers, pointers into the header, bad characters, "
            "A/AAAA lengths, rdlen off by one, names not filling NS/CNAME/PTR/MX/SOA/DNAME data, OPT placement / duplication / owner / option "
            "tiling, trailing bytes, QR gating, qdcount 0/2, class != IN, lying counts; mutated and arbitrary bytes). The verdict is compared "
            "in BOTH directions with an independent executable recogniser of the policy (gen/dnsgen.py wf_ref) and with the model. "
            "Non-trivial: packet has at least a header; distinct = distinct packet.")
    strength = ("full statement: for every byte string, parse p = Ok _ <-> wf_packet p, where wf_packet is an inductive/declarative statement "
                "of the policy that does not mention the parser's control flow (C02_parse_sound, C02_parse_complete, C02_parse_ok_iff_wf, "
                "C02_name_policy); unbounded, closed under the global context.")
    assumptions = ["bytes < 256"]
    generated = ["Constants", "Casts"]

    def gen(self, rng, tier):
        cases = []
        for i, (fam, b) in enumerate(packet_families(rng, tier, scale=1.5)):
            cases.append(Case("p%d" % i, "P," + hx(b), {"family": "P/" + fam, "len": len(b), "pkt": b.hex()}))
        return cases

    def oracle(self, case, io):
        w = no_crash(io)
        if w:
            return w
        b = bytes.fromhex(case.meta["pkt"]) if case.meta.get("pkt") else b""
        accepted = io[0].startswith("OK")
        wf = G.wf_ref(b)
        if accepted and not wf:
            try:
                G.decode_ref(b)
                reason = "?"
            except G.Reject as e:
                reason = str(e)
            except IndexError:
                reason = "truncated"
            return "the parser accepted a packet that is not well-formed under the policy (%s)" % reason
        if wf and not accepted:
            return "the parser turned away a well-formed packet: " + io[0]
        return None

    def classify(self, case, why):
        return "policy"

    def nontrivial(self, case, io):
        return hash(case.line) if case.meta.get("len", 0) >= 12 else None

    def tags(self, case, io):
        return ["accepted" if io and io[0].startswith("OK") else "rejected"]

    def shrink(self, case, still_fails):
        c = shrink_bytes(case, lambda cc: still_fails(Case(cc.id, cc.line, dict(cc.meta, pkt=cc.line.split(",")[1] if cc.line.split(",")[1] != "-" else ""))))
        return Case(c.id, c.line, dict(c.meta, pkt=c.line.split(",")[1] if c.line.split(",")[1] != "-" else ""))


class C18(Prop):
    release_too = True
    generated = ["Constants", "Casts"]
    id = "C18"
    rule = ("P cases as for C01 plus families built to maximise pointer following (k records each naming through a 16-hop chain, "
            "maximal 255-byte names shared by all records, dense empty-option lists, runs of back-to-back pointers in opaque data named by every record), sizes doubling up to 65535 bytes. The model's "
            "step count must EQUAL the implementation's cfg(dnssector_verif) counter on every accepted packet (and is compared on "
            "rejected ones too); the counter is also held to the proved bound 75*len+817. Non-trivial: packet >= 12 bytes.")
    strength = ("full statement: forall byte strings, parse_steps p <= 75 * length p + 817 (potential-function proof over the whole "
                "parser model, no size bound); per name walk <= 272 iterations.")
    assumptions = ["bytes are numbers < 256 (bytes_ok)", "one step = one iteration of a name-walking loop, one EDNS option, one record; "
                   "the implementation's counter is incremented at the same five places (hook commit in /repo)"]

    def keep_steps(self, case, io):
        return True

    def adversarial(self, rng, sizes):
        out = []
        for n in sizes:
            # many records, each owner read through the longest admissible chain
            k = max(1, (n - 29) // 16)
            out.append(("chain16", G.chain_packet(16, tail_records=max(0, k - 16))))
            out.append(("chain17", G.chain_packet(17, tail_records=max(0, k - 17))))
            # maximal name shared by all records
            name = G.name_of_wire_len(255)
            hdr = struct.pack(">HHHHHH", 1, 0x8180, 1, max(1, (n - 271) // 16), 0, 0)
            b = hdr + G.wire_name(name) + struct.pack(">HH", 1, 1)
            for _ in range(max(1, (n - 271) // 16)):
                b += b"\xc0\x0c" + struct.pack(">HHIH", 1, 1, 1, 4) + b"\1\2\3\4"
            out.append(("maxname", b))
            # SOA records: three walks per record
            cnt = max(1, (n - 271) // 36)
            b = struct.pack(">HHHHHH", 1, 0x8180, 1, cnt, 0, 0) + G.wire_name(name) + struct.pack(">HH", 1, 1)
            for _ in range(cnt):
                b += b"\xc0\x0c" + struct.pack(">HHIH", 6, 1, 1, 24) + b"\xc0\x0c\xc0\x0c" + bytes(20)
            out.append(("soa", b))
            # dense option list
            nopt = min(16383, max(0, (n - 40) // 4))
            b = struct.pack(">HHHHHH", 1, 0x0100, 1, 0, 0, 1) + G.wire_name([b"a"]) + struct.pack(">HH", 1, 1)
            b += b"\0" + struct.pack(">HHIH", 41, 4096, 0, nopt * 4) + struct.pack(">HH", 10, 0) * nopt
            out.append(("options", b))
            # half the bytes in the options of an OPT record that comes first (and once in the middle), the other half in records
            # after it: m*r steps if anything about the options is looked at again per later record
            m, r = max(1, (n - 40) // 8), max(1, (n - 40) // 30)
            for lead in (0, 2):
                b = struct.pack(">HHHHHH", 1, 0x8180, 1, 0, 0, lead + 1 + r) + G.wire_name([b"a"]) + struct.pack(">HH", 1, 1)
                b += (b"\0" + struct.pack(">HHIH", 1, 1, 1, 4) + b"\1\2\3\4") * lead
                b += b"\0" + struct.pack(">HHIH", 41, 4096, 0, m * 4) + struct.pack(">HH", 10, 0) * m
                b += (b"\0" + struct.pack(">HHIH", 1, 1, 1, 4) + b"\1\2\3\4") * r
                out.append(("options-then-records", b))
            # a run of K back-to-back pointers (each to the previous one) hidden in opaque record data, R records naming through its head:
            # K*R steps if pointer-to-pointer hops ever escape the 16-hop budget
            K, R = max(1, (n - 40) // 4), max(1, (n - 40) // 32)
            s0 = 19 + 12
            run = b"".join(struct.pack(">H", 0xc000 | (12 if i == 0 else s0 + 2 * (i - 1))) for i in range(K))
            b = struct.pack(">HHHHHH", 1, 0x8180, 1, 1 + R, 0, 0) + G.wire_name([b"a"]) + struct.pack(">HH", 1, 1)
            b += b"\xc0\x0c" + struct.pack(">HHIH", 10, 1, 1, len(run)) + run
            head = struct.pack(">H", 0xc000 | min(0x3fff, s0 + 2 * (K - 1)))
            for _ in range(R):
                b += head + struct.pack(">HHIH", 1, 1, 1, 4) + b"\1\2\3\4"
            out.append(("ptrrun", b))
        return out

    def gen(self, rng, tier):
        cases = []
        fams = packet_families(rng, tier, scale=0.6)
        sizes = [64, 128, 256, 512, 1024, 2048] if tier == "quick" else [64, 128, 256, 512, 1024, 2048, 4096, 8192, 16384, 32768, 65535]
        fams += self.adversarial(rng, sizes)
        for i, (fam, b) in enumerate(fams):
            cases.append(Case("p%d" % i, "P," + hx(b), {"family": "P/" + fam, "len": len(b)}))
        return cases

    def search(self, rng):
        cases = self.gen(rng, "thorough")
        return cases

    def oracle(self, case, io):
        w = no_crash(io)
        if w:
            return w
        o = io[0]
        if " steps=" in o:
            steps = int(o.rsplit(" steps=", 1)[1])
            n = case.meta.get("len", 0)
            if steps > 75 * n + 817:
                return "parser spent %d steps on a %d-byte packet, above the linear bound 75*len+817" % (steps, n)
        return None

    def classify(self, case, why):
        return "superlinear"

    def nontrivial(self, case, io):
        return hash(case.line) if case.meta.get("len", 0) >= 12 else None

    def tags(self, case, io):
        if not io:
            return ["noout"]
        o = io[0]
        t = ["ok" if o.startswith("OK") else "rejected"]
        if " steps=" in o:
            steps = int(o.rsplit(" steps=", 1)[1])
            n = max(1, case.meta.get("len", 1))
            t.append("steps_per_16_bytes>=%d" % min(64, 16 * steps // n))
        return t

    def shrink(self, case, still_fails):
        return shrink_bytes(case, still_fails)


class C12(Prop):
    id = "C12"
    rule = ("one case per 16-bit flag word (all 65536 in both tiers): parse a question-only packet carrying that word, then apply "
            "set_flags / set_rcode / set_opcode / set_response / set_tid with arguments drawn from {0, all-ones, single bits, inverted "
            "single bits, random} (thorough: 24 argument rounds per word), reading all getters and the raw bytes after each setter; plus "
            "600 (thorough 6000) packets that carry an OPT record with extended flags / payload values, the same setters and reads "
            "(the getters must keep reporting what the OPT record says, whatever the upper half of the flags argument); plus 200 (thorough "
            "2000) synthesised empty packets (12 bytes, before any insertion) under the same setters. "
            "Non-trivial = every case (each exercises five setters); distinct = distinct (word, arguments).")
    strength = ("full statement at word level for every 16-bit word and every argument value (bit-vector proof, upper half of the "
                "flags argument included); byte level for all 256x256 (header byte, u8 argument) pairs; packet level: frame (only "
                "bytes 2-3 / 0-1 change) and getter-after-setter; setters never panic on a packet with a header.")
    assumptions = ["bytes < 256", "rcode/opcode arguments are u8, tid u16, flags u32 (the Rust types)"]

    def one(self, rng, w, rounds, opt=None, table=False, size=None):
        tid = rng.randint(0, 0xFFFF)
        pkt = struct.pack(">HHHHHH", tid, w, 1, 0, 0, (1 if opt else 0) + (1 if size else 0)) + G.wire_name([b"example", b"com"]) + struct.pack(">HH", 1, 1)
        if opt:  # (payload, extended flags): an OPT record, whose values the setters must leave alone
            pkt += b"\0" + struct.pack(">HHBBHH", 41, opt[0], 0, 0, opt[1], 0)
        if size:  # padded to an exact wire size with one additional record of a private type (sizes around 512, the advertised payload, 64 KiB)
            fill = max(0, size - len(pkt) - 11)
            pkt += b"\0" + struct.pack(">HHIH", 65280, 1, 0, fill) + bytes(rng.randrange(256) for _ in range(fill))
        ops = ["P," + hx(pkt), "g"]
        args = []
        for _ in range(rounds):
            k = rng.randrange(32)
            f = rng.choice([0, 0xFFFFFFFF, 1 << k, 0xFFFFFFFF ^ (1 << k), rng.getrandbits(32), rng.getrandbits(16), w, w ^ 0xFFFF])
            r, o, t = rng.randint(0, 255), rng.randint(0, 255), rng.randint(0, 65535)
            q = rng.randint(0, 1)
            seq = [("sf", f), ("sr", r), ("so", o), ("sp", q), ("st", t)]
            rng.shuffle(seq)
            for name, a in seq:
                # table=True: the three setters the C function table has are called through it
                ops += ["%s%s,%d" % ("F," if table and name in ("sf", "sr", "so") else "", name, a), "g", "b"]
                args.append((name, a))
        return Case("w%d%s%s%s" % (w, "e%d_%d_%d" % (opt[0], opt[1], tid) if opt else "", "t" if table else "", "s%d_%d" % (size, tid) if size else ""), "\t".join(ops),
                    {"family": "flags-sized" if size else "flags-table" if table else "flags-edns" if opt else "flags", "w": w, "tid": tid, "pkt": pkt.hex(), "args": args, "opt": opt})

    def empty_cases(self, rng, n, rounds):
        """The same setters on a synthesised empty packet (12 bytes: nothing but the header), before any record is inserted."""
        out = []
        for i in range(n):
            tid = rng.randint(0, 0xFFFF)
            ops = ["E,%d" % tid, "g", "b"]
            args = []
            for _ in range(rounds):
                k = rng.randrange(32)
                f = rng.choice([0, 0xFFFFFFFF, 1 << k, 0xFFFFFFFF ^ (1 << k), rng.getrandbits(32), rng.getrandbits(16)])
                seq = [("sf", f), ("sr", rng.randint(0, 255)), ("so", rng.randint(0, 255)), ("sp", rng.randint(0, 1)), ("st", rng.randint(0, 65535))]
                rng.shuffle(seq)
                for name, a in seq:
                    ops += ["%s,%d" % (name, a), "g", "b"]
                    args.append((name, a))
            out.append(Case("e%d_%d" % (i, tid), "\t".join(ops), {"family": "flags-empty", "args": args, "tid": tid}))
        return out

    def edns_cases(self, rng, n, rounds):
        """Packets that carry an OPT record (the getters then combine the header with what was parsed from it): a setter must neither
        write to it nor change what the getters report from it, whatever the upper half of the flags argument says."""
        out = []
        efs = [0, 0x8000, 0x4000, 0x0001, 0xFFFF, 0x7FFF]
        for i in range(n):
            w = rng.choice([0, 0x0100, 0x8180, 0xFFFF, 0x8000, 0x0020, rng.getrandbits(16)])
            ef = efs[i % len(efs)] if i < 4 * len(efs) else rng.getrandbits(16)
            out.append(self.one(rng, w, rounds, opt=(rng.choice([0, 512, 1232, 4096, 65535]), ef)))
        return out

    def sized_cases(self, rng, tier):
        """Queries and responses of exact sizes around 512 bytes, around the payload size an OPT record advertises, and beyond: what a
        setter does must not depend on how large the packet is."""
        out = []
        sizes = (511, 512, 513, 514, 600, 1232, 1233, 3040, 4097, 8193) if tier == "quick" else (100, 511, 512, 513, 514, 600, 1231, 1232, 1233, 1500, 3040, 4096, 4097, 8192, 8193, 16385, 65535, 65536)
        for sz in sizes:
            for w in (0x0000, 0x0100, 0x0120, 0x8180, rng.getrandbits(16) & 0x7FFF):
                for opt in (None, (512, 0), (1232, 0x8000), (4096, 0)):
                    out.append(self.one(rng, w, 1 if tier == "quick" else 3, opt=opt, size=sz, table=(sz % 2 == 0 and opt is None)))
        return out

    def gen(self, rng, tier):
        rounds = 1 if tier == "quick" else 24
        words = range(65536) if tier == "quick" else range(0, 65536, 1)
        if tier == "thorough":
            return ([self.one(rng, w, 2 if w % 16 else rounds) for w in words] + self.edns_cases(rng, 6000, 6) + self.empty_cases(rng, 2000, 6)
                    + [self.one(rng, w, 4, table=True) for w in range(0, 65536, 4)] + self.sized_cases(rng, tier))
        return ([self.one(rng, w, rounds) for w in words] + self.edns_cases(rng, 600, 3) + self.empty_cases(rng, 200, 3)
                + [self.one(rng, w, 2, table=True) for w in range(0, 65536, 64)] + self.sized_cases(rng, tier))

    def search(self, rng):
        return [self.one(rng, w, 6) for w in range(65536)] + self.edns_cases(rng, 3000, 6) + self.empty_cases(rng, 1000, 6)

    def expect_g(self, tid, w, opt=None):
        qr = (w >> 15) & 1
        fl = w & 0x87F0
        mp, ef = opt if opt else (512, 0)
        sec = ((fl >> 5) & 1) if qr else (ef >> 15) & 1  # AD in a response, DO (from the OPT record) in a query
        return "g[tid=%d fl=%d rc=%d op=%d qr=%d sec=%d mp=%d]" % (tid, (ef << 16) | fl, w & 15, (w >> 11) & 15, qr, sec, mp)

    def oracle(self, case, io):
        w0 = no_crash(io)
        if w0:
            return w0
        if case.meta["family"] == "flags-empty":
            return self.oracle_empty(case, io)
        pkt = bytes.fromhex(case.meta["pkt"])
        tid, w = case.meta["tid"], case.meta["w"]
        if not io[0].startswith("OK"):
            return "question-only packet rejected: " + io[0]
        opt = case.meta.get("opt")
        opt = tuple(opt) if opt else None
        if io[1] != self.expect_g(tid, w, opt):
            return "getters on the parsed packet: got %s, bytes say %s" % (io[1], self.expect_g(tid, w, opt))
        i = 2
        for name, a in case.meta["args"]:
            before = (tid, w)
            if name == "sf":
                w = (w & 0x780F) | (a & 0x87F0)
            elif name == "sr":
                w = (w & 0xFFF0) | (a & 15)
            elif name == "so":
                w = (w & 0x87FF) | ((a & 15) << 11)
            elif name == "sp":
                w = (w & 0x7FFF) | (a << 15)
            elif name == "st":
                tid = a & 0xFFFF
            exp_b = "b=" + (struct.pack(">HH", tid, w) + pkt[4:]).hex()
            if i + 2 >= len(io) + 0 and len(io) < i + 3:
                return "missing observations after %s" % name
            if io[i] != "OK":
                return "%s(%d) returned %s" % (name, a, io[i])
            if io[i + 2] != exp_b:
                return "%s(%d) on tid=0x%04x word=0x%04x: header became %s, must be %s (only the addressed field may change)" % (
                    name, a, before[0], before[1], io[i + 2][2:10], exp_b[2:10])
            if io[i + 1] != self.expect_g(tid, w, opt):
                return "after %s(%d): getters %s, stored value %s" % (name, a, io[i + 1], self.expect_g(tid, w, opt))
            i += 3
        return None

    def oracle_empty(self, case, io):
        """Synthesised empty packet: the initial header is read from the object itself (its id is the one asked for), then every setter
        must change exactly its field of those 12 bytes and the getters must report the stored values."""
        import re
        if len(io) < 3 or not io[2].startswith("b="):
            return "no header bytes from a synthesised empty packet: " + " ".join(io[:3])[:120]
        hdr = bytes.fromhex(io[2][2:])
        if len(hdr) != 12:
            return "a synthesised empty packet has %d bytes, expected the 12 header bytes" % len(hdr)
        tid, w = struct.unpack(">HH", hdr[:4])
        if tid != case.meta["tid"]:
            return "empty packet created with id %d carries id %d" % (case.meta["tid"], tid)
        m = re.match(r"g\[tid=(\d+) fl=(\d+) rc=(\d+) op=(\d+) qr=(\d+) sec=(\d+) mp=(\d+)\]", io[1])
        if not m:
            return "getters of the empty packet: " + io[1]
        mp = int(m.group(7))

        def exp_g(tid, w):
            qr = (w >> 15) & 1
            return "g[tid=%d fl=%d rc=%d op=%d qr=%d sec=%d mp=%d]" % (tid, w & 0x87F0, w & 15, (w >> 11) & 15, qr, ((w >> 5) & 1) if qr else 0, mp)
        if io[1] != exp_g(tid, w):
            return "getters on the empty packet: got %s, its header bytes say %s" % (io[1], exp_g(tid, w))
        i = 3
        for name, a in case.meta["args"]:
            before = (tid, w)
            if name == "sf":
                w = (w & 0x780F) | (a & 0x87F0)
            elif name == "sr":
                w = (w & 0xFFF0) | (a & 15)
            elif name == "so":
                w = (w & 0x87FF) | ((a & 15) << 11)
            elif name == "sp":
                w = (w & 0x7FFF) | (a << 15)
            elif name == "st":
                tid = a & 0xFFFF
            if len(io) < i + 3:
                return "missing observations after %s" % name
            if io[i] != "OK":
                return "%s(%d) on an empty packet returned %s" % (name, a, io[i])
            exp_b = "b=" + (struct.pack(">HH", tid, w) + hdr[4:]).hex()
            if io[i + 2] != exp_b:
                return "%s(%d) on an empty packet with tid=0x%04x word=0x%04x: header became %s, must be %s" % (name, a, before[0], before[1], io[i + 2][2:], exp_b[2:])
            if io[i + 1] != exp_g(tid, w):
                return "after %s(%d) on an empty packet: getters %s, stored value %s" % (name, a, io[i + 1], exp_g(tid, w))
            i += 3
        return None

    def classify(self, case, why):
        for name in ("sf", "sr", "so", "sp", "st"):
            if why.startswith(name + "(") or why.startswith("after " + name):
                return "setter-" + name
        return "header"

    def nontrivial(self, case, io):
        return hash(case.line)

    def tags(self, case, io):
        return ["qr=%d" % (case.meta["w"] >> 15)] if "w" in case.meta else ["empty"]

    def shrink(self, case, still_fails):
        # keep the first failing setter only
        ops = case.line.split("\t")
        for k in range(len(case.meta["args"])):
            sub = ops[:2] + ops[2 + 3 * k: 5 + 3 * k]
            c2 = Case(case.id, "\t".join(sub), dict(case.meta, args=[case.meta["args"][k]]))
            try:
                if still_fails(c2):
                    return c2
            except Exception:
                pass
        return case


# ---------------------------------------------------------------------------------------------
# expectations computed from the reference decoder (gen/dnsgen.py decode_ref)

SECN = ["an", "ns", "ar"]
ALLR = "n.r.t.c.l.d.D.i.s.o"


def name_text(labels):
    out = []
    for l in labels:
        out.append(bytes(l).replace(b".", b"\\046"))
    return b".".join(out).lower()


def exp_record_obs(r, secname):
    wn = G.wire_name(r.name)
    o = ["|", "n=" + hx(name_text(r.name)), "r=%s/%d" % (hx(wn), len(wn)), "t=%d" % r.rtype, "c=%d" % r.rclass, "l=%d" % r.ttl,
         "d=%d" % r.rdlen]
    if r.rtype in (G.T_A, G.T_AAAA):
        o += ["D=ip:" + hx(r.rdata), "i=" + hx(r.rdata)]
    else:
        o += ["D=" + hx(r.rdata), "i=ERR:PropertyNotFound"]
    o += ["s=" + secname, "o=%d/%d" % (r.off, r.name_end)]
    return o


def exp_walk(m, sec, incl):
    """Expected observation of W,<sec>,<incl>,*ALLR on a decoded message."""
    if sec == "q":
        wn = G.wire_name(m.qname)
        return "W[" + " ".join(["|", "n=" + hx(name_text(m.qname)), "r=%s/%d" % (hx(wn), len(wn)), "t=%d" % m.qtype, "c=%d" % m.qclass,
                                "s=q", "o=%d/%d" % (m.q_off, m.q_name_end)]) + "]"
    if sec == "ed":
        if m.opt is None:
            return "W[]"
        return "W[" + " ".join("|e=%d/%s" % (c, hx(d)) for (c, d, _) in m.opt.opts) + "]"
    si = SECN.index(sec)
    out = []
    for r in m.sections[si]:
        if r.rtype == G.T_OPT and not incl:
            continue
        out += exp_record_obs(r, sec)
    return "W[" + " ".join(out) + "]"


def exp_view(m, mc=1):
    def on(x):
        return "-" if x is None else str(x)
    if m.opt is None:
        ed = ("-", 0, "-", "-", "-", 512)
    else:
        ttl = m.opt.ttl
        ed = (m.opt.rd_off, len(m.opt.opts), ttl >> 24, (ttl >> 16) & 255, ttl & 0xFFFF, m.opt.rclass)
    return "q=12 an=%s ns=%s ar=%s ed=%s ec=%d rc=%s ver=%s xf=%s mc=%d mp=%d" % (
        on(m.sec_off[0]), on(m.sec_off[1]), on(m.sec_off[2]), ed[0], ed[1], ed[2], ed[3], ed[4], mc, ed[5])


def exp_g(m):
    w = m.flags
    xf = 0 if m.opt is None else (m.opt.ttl & 0xFFFF)
    fl = (xf << 16) | (w & 0x87F0)
    qr = (w >> 15) & 1
    sec = ((w >> 5) & 1) if qr else ((xf >> 15) & 1)
    mp = 512 if m.opt is None else m.opt.rclass
    return "g[tid=%d fl=%d rc=%d op=%d qr=%d sec=%d mp=%d]" % (m.tid, fl, w & 15, (w >> 11) & 15, qr, sec, mp)


def decode_or_none(b):
    try:
        return G.decode_ref(b)
    except (G.Reject, IndexError):
        return None


def valid_packets(rng, n, **kw):
    """Accepted packets with their reference decoding: all layouts, OPT first/middle/last/absent."""
    out = []
    while len(out) < n:
        b, bounds, _ = G.rand_valid_packet(rng, **kw)
        m = decode_or_none(b)
        if m is not None:
            out.append((b, m))
    return out


def special_valid(rng):
    """Hand-built accepted packets: OPT in every position, pointer chains, pointers into rdata names and
    into the header, root and maximal names."""
    out = []
    A = lambda n, k=1: G.RR(n, 1, 1, 60 + k, ("raw", bytes([10, 0, 0, k])))
    q = [b"example", b"com"]
    for pos in range(4):
        for nopt in (0, 1, 3):
            ar = [A([b"a%d" % i] + q, i) for i in range(3)]
            opts = [(10 + i, bytes(range(i))) for i in range(nopt)]
            ar.insert(pos, G.RR([], 41, 1232, 0x01008000, ("opt", opts)))
            for layout in ("none", "greedy", "chain"):
                b, _ = G.encode(rng, G.Msg(7, 0x8180, q, 1, 1, an=[A(q)], ns=[], ar=ar), layout)
                out.append(b)
    b, _ = G.encode(rng, G.Msg(7, 0x0120, q, 1, 1, ar=[G.RR([], 41, 4096, 0x8000, ("opt", []))]), "none")
    out.append(b)  # query with DO
    for h in (1, 8, 15, 16):
        out.append(G.chain_packet(h, tail_records=2))
    out.append(G.header_pointer_packet())
    mx = G.RR(q, 15, 1, 5, ("mx", 10, [b"mail"] + q))
    soa = G.RR(q, 6, 1, 5, ("soa", [b"ns"] + q, [b"host", b"master"] + q, bytes(range(20))))
    ns_ = G.RR(q, 2, 1, 5, ("name", [b"ns"] + q))
    cn = G.RR([b"www"] + q, 5, 1, 5, ("name", [b"mail"] + q))  # points into the MX rdata name under greedy
    for layout in ("none", "greedy", "chain", "random"):
        b, _ = G.encode(rng, G.Msg(9, 0x8580, q, 255, 1, an=[mx, cn, soa], ns=[ns_], ar=[A([b"ns"] + q)]), layout)
        out.append(b)
    big = G.name_of_wire_len(255)
    b, _ = G.encode(rng, G.Msg(9, 0x8180, big, 1, 1, an=[A(big), G.RR([], 2, 1, 0, ("name", []))]), "greedy")
    out.append(b)
    b, _ = G.encode(rng, G.Msg(9, 0x8180, [], 1, 1, an=[A([])]), "none")
    out.append(b)  # root everywhere
    # chains of 14..16 pointers laid out in opaque record data; owner names and NS / MX / SOA names reached through the head of the run
    for K in (14, 15, 16):
        for tails in (1, 3):
            out.append(G.chain_packet(K, tail_records=tails))
        s0 = 19 + 12
        run = b"".join(struct.pack(">H", 0xc000 | (12 if i == 0 else s0 + 2 * (i - 1))) for i in range(K))
        head = struct.pack(">H", 0xc000 | (s0 + 2 * (K - 1)))
        rrb = lambda nm, t, rd: nm + struct.pack(">HHIH", t, 1, 77, len(rd)) + rd
        recs = [rrb(b"\xc0\x0c", 10, run), rrb(head, 1, b"\1\2\3\4"), rrb(head, 2, head), rrb(b"\xc0\x0c", 15, b"\0\7" + head),
                rrb(head, 6, head + head + bytes(range(20))), rrb(b"\xc0\x0c", 12, head)]
        out.append(struct.pack(">HHHHHH", 3, 0x8180, 1, len(recs), 0, 0) + G.wire_name([b"a"]) + struct.pack(">HH", 1, 1) + b"".join(recs))
    # question name written as a pointer into the header, followed by additional records / OPT
    hp = G.header_pointer_packet()
    a_rec = b"\xc0\x00" + struct.pack(">HHIH", 1, 1, 5, 4) + b"\1\2\3\4"
    opt = b"\0" + struct.pack(">HHIH", 41, 1232, 0x8000, 0)
    for extra in ([a_rec], [opt], [a_rec, opt], [opt, a_rec], [a_rec, a_rec]):
        out.append(hp[:10] + struct.pack(">H", len(extra)) + hp[12:] + b"".join(extra))
    for qt in (28, 255, 0xffff):
        out.append(hp[:14] + struct.pack(">HH", qt, 1))
    # owner written in full, data holding a compressed name (NS, CNAME, PTR, MX, SOA), first in its section
    Qw = G.wire_name(q) + struct.pack(">HH", 1, 1)
    rrb = lambda nm, t, rd: nm + struct.pack(">HHIH", t, 1, 300, len(rd)) + rd
    wp = b"\3www\xc0\x0c"
    for t, rd in ((2, wp), (5, wp), (12, wp), (15, b"\0\5" + wp), (6, wp + b"\4host\xc0\x0c" + bytes(range(20)))):
        for sec in range(3):
            cnt = [0, 0, 0]
            cnt[sec] = 2
            out.append(struct.pack(">HHHHHH", 5, 0x8180, 1, *cnt) + Qw + rrb(G.wire_name(q), t, rd) + rrb(wp, 1, b"\1\2\3\4"))
    # two maximal names in one record: SOA whose primary and contact both expand to 253 / 254 / 255 bytes (written in full, and the
    # second as a pointer to the first), MX and NS with a maximal name under a maximal owner
    for l1 in (253, 254, 255):
        for l2 in (253, 254, 255):
            n1, n2 = G.name_of_wire_len(l1), G.name_of_wire_len(l2)
            for sec in range(3):
                cnt = [0, 0, 0]
                cnt[sec] = 1
                rd = G.wire_name(n1) + (G.wire_name(n2) if (l1, sec) != (l2, 1) else struct.pack(">H", 0xC000 | (12 + len(Qw) + 2 + 10))) + bytes(range(20))
                out.append(struct.pack(">HHHHHH", 6, 0x8180, 1, *cnt) + Qw + rrb(b"\xc0\x0c", 6, rd))
    for l1 in (254, 255):
        n1 = G.name_of_wire_len(l1)
        out.append(struct.pack(">HHHHHH", 6, 0x8180, 1, 2, 0, 0) + Qw + rrb(G.wire_name(n1), 15, b"\0\5" + G.wire_name(n1)) + rrb(G.wire_name(n1), 2, struct.pack(">H", 0xC000 | (12 + len(Qw)))))
    # a label starting at an offset whose low byte is 0xff / 0x00 / 0x01, named by a pointer from every kind of name
    for T in (255, 256, 257, 267, 268, 269, 512, 524, 768, 780, 4096, 4108, 8191, 8192, 8193, 12000, 16140, 16382, 16383):
        out += G.label_at_packets(T)
    # record types the library gives no meaning to, with data that looks like a name, like "2 bytes + a name", like a name followed
    # by junk, or like nothing at all: opaque means copied byte for byte by every operation (MD / MF / MB / MG / MR / AFSDB / RT /
    # X25 / ISDN / PX / KX / DNAME / SRV / NAPTR / ..., in each section, after a compressed owner name)
    odd_types = (3, 4, 7, 8, 9, 10, 13, 14, 17, 18, 19, 20, 21, 24, 26, 33, 35, 36, 39, 46, 47, 99, 250, 251, 252, 253, 254, 255, 256, 257, 32768, 65535)
    datas = (b"\3xyz", b"\0\1\0\xde\xad\xbe", b"\xc0\x0c", b"\0\5\xc0\x0c", b"\3www\xc0\x0c\xff\xff", b"\0\1\3abc\0", b"", b"\xc0", bytes(range(40)))
    for i, t in enumerate(odd_types):
        for j in range(3):
            rd = datas[(i + 3 * j) % len(datas)]
            cnt = [0, 0, 0]
            cnt[(i + j) % 3] = 3
            out.append(struct.pack(">HHHHHH", 8, 0x8180, 1, *cnt) + Qw + rrb(b"\xc0\x0c", 1, b"\1\2\3\4") + rrb(wp, t, rd) + rrb(b"\xc0\x0c", 1, b"\5\6\7\x08"))
    # names with bytes above 127: UTF-8 letters that have a lower-case form (only A-Z fold in DNS), lone high bytes, 0xff
    for lab in ("CAF\u00c9", "\u00dcBER", "\u03a3\u038a\u03a3", "\u0130STANBUL", "\u212a", "\u01c5", "\u00c0\u00c1", "stra\u1e9ee", "A\u0301"):
        lb = lab.encode("utf-8")
        for layout in ("none", "greedy"):
            b, _ = G.encode(rng, G.Msg(7, 0x8180, [lb, b"Example"], 1, 1, an=[A([lb, b"Example"]), G.RR([b"WWW", lb], 5, 1, 9, ("name", [lb, b"Example"]))]), layout)
            out.append(b)
    for lb in (b"\xc9", b"A\xff\xc3", b"\x80\x81", b"\xc3\x89\xc3"):
        b, _ = G.encode(rng, G.Msg(7, 0x8180, [lb, b"Org"], 1, 1, an=[A([lb, b"Org"])]), "greedy")
        out.append(b)
    # beyond 64 KiB: a record after offset 65535, a record with a data length of 65530
    out.append(G.jumbo_packet(65536))
    out.append(G.jumbo_packet(None, big_rdlen=65530))
    return [(x, decode_or_none(x)) for x in out if decode_or_none(x) is not None]


class C03(Prop):
    release_too = True
    generated = ["Constants", "Casts"]
    id = "C03"
    rule = ("accepted packets (random messages under none/greedy/random/chain pointer layouts; hand-built: OPT first/middle/last/absent with "
            "0-3 options, 1/8/15/16-hop chains, pointers into rdata names and into the header, root and 255-byte names): walk the question, "
            "answer, authority, additional (OPT skipped and included) sections and the EDNS options calling every accessor on every record; "
            "then dump the bytes. Compared with the model and with expectations computed by an independent reference decoder. "
            "Non-trivial: packet has at least one record besides the question; distinct = distinct packet.")
    strength = ("proved (unbounded): on every packet the parser accepts, skip_name agrees with the validator on every name, each accepted "
                "record is skipped to exactly the offset the parser reached, and the walk of each record section with OPT included visits "
                "exactly the records that lie back to back in that section under the declarative reading of Spec/RecordSpec.v, in order, "
                "returning on each the offset, raw owner name and its length, lower-cased dotted owner name, type, class, TTL, data length "
                "and data of that reading, which is a function of the bytes; no Panic outcome (C03_walk_values, C03_reading_unique, "
                "C03_copy_name_labels, C03_name_text, C03_skip_name_agrees, C03_walk_including_opt_total); the OPT-skipping walk visits exactly "
                "the non-OPT records of that reading with the same views (every record in the answer and authority sections) and its debug "
                "assertions cannot fire; the question cursor yields the declaratively decoded question once (C03_walks, "
                "C03_question_cursor); the EDNS option cursor yields exactly the options that tile the OPT data, as many as the object's "
                "option count (C03_option_cursor). Everything else of the property is the correspondence of model and code.")
    assumptions = ["bytes < 256"]

    def gen(self, rng, tier):
        n = 500 if tier == "quick" else 60000
        pk = special_valid(rng) + valid_packets(rng, n)
        cases = []
        for i, (b, m) in enumerate(pk):
            ops = ["P," + hx(b), "W,q,0,*n.r.t.c.s.o", "W,an,0,*" + ALLR, "W,ns,0,*" + ALLR, "W,ar,0,*" + ALLR, "W,ar,1,*" + ALLR,
                   "W,an,1,*" + ALLR, "W,ed", "b"]
            rng.shuffle(ops[1:8])
            head, mid = ops[:1], ops[1:8]
            # a question getter somewhere among the walks: what it remembers must not change what the walks after it return
            mid.append(rng.choice(["q0", "q1", "q0", "q2"]))
            rng.shuffle(mid)
            cases.append(Case("w%d" % i, "\t".join(head + mid + ["b"]), {"family": "walk", "pkt": b.hex()}))
        # records whose fixed fields are combined freely (most are refused: the model and the code must refuse the same ones, and read
        # the others alike)
        k = len(cases)
        for b in G.field_matrix_packets():
            ops = ["P," + hx(b), "W,an,0,*" + ALLR, "W,ar,0,*" + ALLR, "W,ar,1,*" + ALLR, "b"]
            cases.append(Case("w%d" % k, "\t".join(ops), {"family": "field-matrix", "pkt": b.hex()}))
            k += 1
        return cases

    def oracle(self, case, io):
        w = no_crash(io)
        if w:
            return w
        b = bytes.fromhex(case.meta["pkt"])
        m = decode_or_none(b)
        if m is None:
            return None
        ops = case.line.split("\t")
        if not io[0].startswith("OK"):
            return None  # C02's business
        for op, o in zip(ops[1:], io[1:]):
            f = op.split(",")
            if f[0] == "W":
                exp = exp_walk(m, f[1], len(f) > 2 and f[2] == "1")
                if o != exp:
                    return "walk %s of an accepted packet: got %s, the bytes decode to %s" % (",".join(f[:3]), o[:300], exp[:300])
            elif f[0] == "b":
                if o != "b=" + hx(b):
                    return "reading altered the packet bytes"
        return None

    def classify(self, case, why):
        return "readers"

    def nontrivial(self, case, io):
        m = decode_or_none(bytes.fromhex(case.meta["pkt"]))
        return hash(case.meta["pkt"]) if m is not None and sum(len(s) for s in m.sections) > 0 else None

    def tags(self, case, io):
        m = decode_or_none(bytes.fromhex(case.meta["pkt"]))
        if m is None:
            return ["rejected"]
        t = ["records=%d" % min(9, sum(len(s) for s in m.sections))]
        if m.opt is not None:
            idx = m.sections[2].index(m.opt)
            t.append("opt=" + ("only" if len(m.sections[2]) == 1 else "first" if idx == 0 else "last" if idx == len(m.sections[2]) - 1 else "middle"))
        else:
            t.append("opt=absent")
        return t


class C04(Prop):
    id = "C04"
    rule = ("accepted packets as for C03 plus, for a fixed packet with and without OPT, all 65536 flag words (quick: 4096 of them); every "
            "getter (tid, flags, rcode, opcode, is_response, dnssec, max_payload, question_raw0/raw/text, qtype_qclass, the EDNS summary "
            "fields) in several orders so the cache is exercised filled and empty; plus 300 (thorough 6000) histories in which the packet is "
            "decompressed and its question renamed (same and different encoded length) between reads of the cached question, the getters "
            "compared with the decoding of the bytes as they then are. Expected values are decoded independently from the bytes. "
            "Non-trivial: all; distinct = distinct (packet, getter order).")
    strength = ("proved: flags() = (ext_flags << 16) | (word & 0x87f0) and the DNSSEC indicator as bit identities for every word and OPT value "
                "(C04_flags_word, C04_dnssec_bits); for every accepted packet the four question getters, with the cache empty and filled, "
                "return the labels the declarative name policy reads at offset 12 (wire form, wire form without root, lower-cased dotted "
                "text) with the following two 16-bit words as type and class, and that decoding is unique (C04_question_getters, "
                "C04_question_decoding_unique), the same on the object gen::query synthesises: the labels of the text, the type and class given "
                "(C04_query_getters); the EDNS summary the parser stores is the start of the OPT data, the number of options tiling "
                "it, payload size, extended rcode, version and flags read from the OPT record, or nothing and 512 without OPT "
                "(C04_edns_summary), and that record is the one OPT record of the declarative reading: payload = its class, extended "
                "rcode/version/flags = its TTL bytes, count = options tiling its data (C04_summary_of_opt_record). id = the first 16-bit word, rcode = the low four bits of the flag word, opcode = its bits 11..14, for every buffer that has "
                "these bytes (C04_id_opcode_rcode). The statement is covered by theorems; equality of model and implementation rests on "
                "the correspondence and the reference-decoder oracle.")
    assumptions = ["bytes < 256"]

    def one(self, rng, i, b, fam):
        getters = ["g", "q0", "q1", "q2", "qt", "v", "ca"]
        order = []
        for _ in range(rng.randint(5, 9)):
            order.append(rng.choice(getters))
        order += ["q2", "qt", "q0", "q2", "qt", "q1", "g", "v"]
        return Case("g%d" % i, "\t".join(["P," + hx(b)] + order), {"family": fam, "pkt": b.hex()})

    def after_rename(self, rng, i, b, m):
        """The summaries of a packet that has been changed through the library must still be those of its current bytes: the
        cached question is read, the packet is decompressed (recompute, or a rename of the first answer), the cache is read again
        and the question is renamed to a name of the same / another encoded length; after every change the raw bytes are taken
        (`b`) and the getters that follow are compared with the independent decoding of exactly those bytes."""
        ops = ["P," + hx(b)] + [rng.choice(["q0", "q1", "q2", "qt", "g"]) for _ in range(rng.randint(0, 2))]
        mode = rng.randrange(3)
        if mode == 1 or (mode == 2 and m.counts[1] == 0):
            ops += ["rc", "b"]
        elif mode == 2:
            nm = [b"r" + bytes([97 + rng.randrange(26)]), b"example"]
            ops += ["W,an,0,n.M%s/*n" % hx(G.wire_name(nm)), "b"]
        if rng.random() < 0.8:
            ops += [rng.choice(["q0", "q1", "q2"]) for _ in range(rng.randint(1, 3))]
        q = [bytes(l) for l in m.qname]
        kind = rng.choice(["same", "same", "case", "case", "other"])
        if kind == "case" and q and any(c in b"abcdefghijklmnopqrstuvwxyzABCDEFGHIJKLMNOPQRSTUVWXYZ" for l in q for c in l):
            # only the case of letters changes: equal under every case-insensitive comparison, different bytes
            q = [bytes((c ^ 0x20) if (65 <= (c & 0xDF) <= 90 and rng.random() < 0.6) else c for c in l) for l in q]
            if q == [bytes(l) for l in m.qname]:
                q = [bytes((c ^ 0x20) if 65 <= (c & 0xDF) <= 90 else c for c in l) for l in q]
        elif kind in ("same", "case") and q:
            j = rng.randrange(len(q))
            l = bytearray(q[j])
            k = rng.randrange(len(l))
            l[k] = 120 if l[k] not in (120, 88) else 121  # one byte of one label becomes 'x' ('y'): same encoded length
            q[j] = bytes(l)
        else:
            q = [b"n" * rng.randint(1, 12)] + q[1:]
        if rng.random() < 0.3:
            # the question is deleted and another one (other name, other type) inserted in its place
            newq = b"mail.%s.net" % bytes(rng.choice(b"abcdefgh") for _ in range(rng.randint(1, 9)))
            ops += ["W,q,0,n.X/*n", "IQ,%s,%d" % (hx(newq), rng.choice([1, 28, 15, 255])), "b", "q0", "q1", "q2", "qt", "g"]
        else:
            ops += ["W,q,0,n.M%s/*n" % hx(G.wire_name(q)), "b", "q0", "q1", "q2", "qt", "g"]
        if rng.random() < 0.5:
            ops += ["rc", "b", "q0", "q2", "g"]
        return Case("r%d" % i, "\t".join(ops), {"family": "after-rename", "pkt": b.hex()})

    def gen(self, rng, tier):
        cases = []
        pk = special_valid(rng) + valid_packets(rng, 400 if tier == "quick" else 40000)
        for i, (b, m) in enumerate(pk):
            cases.append(self.one(rng, i, b, "packets"))
        for i, (b, m) in enumerate(valid_packets(rng, 300 if tier == "quick" else 6000)):
            if not G.has_header_pointer(b) and len(G.wire_name(m.qname)) < 200:
                cases.append(self.after_rename(rng, i, b, m))
        # a question written as a pointer into the header, on an object that was decompressed first: the header setters and
        # insertions that follow change the bytes the pointer went through, the question must not move with them
        hp = G.header_pointer_packet()
        a_rec = b"\xc0\x00" + struct.pack(">HHIH", 1, 1, 5, 4) + b"\1\2\3\4"
        hps = [hp] + [hp[:10] + struct.pack(">H", len(extra)) + hp[12:] + b"".join(extra) for extra in ([a_rec], [a_rec, a_rec])]
        k = len(cases)
        for j in range(12 if tier == "quick" else 600):
            b = hps[j % len(hps)]
            ops = ["P," + hx(b)] + [rng.choice(["q0", "q1", "q2", "qt", "g"]) for _ in range(rng.randint(0, 2))]
            ops += [rng.choice(["rc", "I,ar,%s" % hx(b"extra.example. 5 IN A 9.9.9.9")]), "b"]
            ops += [rng.choice(["q0", "q1", "q2"]) for _ in range(rng.randint(1, 3))]
            for _ in range(rng.randint(1, 3)):
                ops += [rng.choice(["st,%d" % rng.choice([0x0162, 0x0261, 0x0041, rng.getrandbits(16)]), "sr,%d" % rng.randrange(16),
                                    "so,%d" % rng.randrange(16), "I,ar,%s" % hx(b"more%d.example. 5 IN A 9.9.9.9" % rng.randrange(100))]), "b"]
                ops += ["q0", "q1", "q2", "qt", "g"]
            cases.append(Case("h%d" % k, "\t".join(ops), {"family": "header-pointer-decompressed", "pkt": b.hex()}))
            k += 1
        # a question reached through TWO pointers that both lie in the header (the only shape: ".. c0 03" with a flag word whose low
        # byte is c0 and the qdcount 00 01 after it, so that offset 3 reads "c0 00" and offset 0 reads the label [01 xx] 00): name,
        # type and class must be the same from every getter, whichever is called first (the cache is filled by the raw getters only)
        k = len(cases)
        for j, ch in enumerate(b"AaZz09-_~@"):
            for pre in ([], [b"w"], [b"Www", b"x-1"]):
                for qt in (1, 28, 255, 256, 41):
                    for first in ("q2", "qt", "q0", "q1"):
                        hdr = bytes([1, ch, 0x00, 0xC0, 0, 1, 0, 0, 0, 0, 0, 0])
                        b = hdr + b"".join(bytes([len(l)]) + l for l in pre) + b"\xc0\x03" + struct.pack(">HH", qt, 1)
                        order = [first] + [rng.choice(["g", "q0", "q1", "q2", "qt", "v", "ca"]) for _ in range(rng.randint(2, 5))] + ["q2", "qt", "q0", "q2", "qt", "q1"]
                        cases.append(Case("dp%d" % k, "\t".join(["P," + hx(b)] + order), {"family": "header-double-pointer", "pkt": b.hex()}))
                        k += 1
        step = 16 if tier == "quick" else 1
        q = [b"Example", b"COM"]
        k = len(cases)
        for w in range(0, 65536, step):
            for opt in (False, True):
                flags = w
                an = [G.RR(q, 1, 1, 1, ("raw", b"\1\2\3\4"))] if (w & 0x8000) else []
                ar = [G.RR([], 41, rng.choice([512, 1232, 65535, 0]), rng.getrandbits(32), ("opt", [(1, b"x")] * rng.randint(0, 2)))] if opt else []
                b, _ = G.encode(rng, G.Msg(rng.getrandbits(16), flags, q, 28, 1, an=an, ar=ar), "greedy")
                cases.append(Case("f%d" % k, "\t".join(["P," + hx(b), "g", "v", "q0", "q2"]), {"family": "flagwords", "pkt": b.hex()}))
                k += 1
        return cases

    def oracle(self, case, io):
        w = no_crash(io)
        if w:
            return w
        b = bytes.fromhex(case.meta["pkt"])
        m = decode_or_none(b)
        if m is None or not io[0].startswith("OK"):
            return None
        def expected(m):
            wn = G.wire_name(m.qname)
            return {"g": exp_g(m), "q0": "q0=%s/%d/%d" % (hx(wn), m.qtype, m.qclass), "q1": "q1=%s/%d/%d" % (hx(wn[:-1]), m.qtype, m.qclass),
                    "q2": "q2=%s/%d/%d" % (hx(name_text(m.qname)), m.qtype, m.qclass), "qt": "qt=%d/%d" % (m.qtype, m.qclass),
                    "v": "v[" + exp_view(m) + "]"}
        exp = expected(m)
        changed = False
        for op, o in zip(case.line.split("\t")[1:], io[1:]):
            if op.startswith("IQ,"):
                exp, changed = None, True
                if o != "OK":
                    return "inserting a question after the question was deleted: " + o[:120]
                continue
            if op == "rc" or op.startswith(("W,", "st,", "sf,", "sr,", "so,", "sp,", "I,")):
                exp, changed = None, True  # the bytes changed: the next `b` says what they are now
                if op.startswith(("st,", "sf,", "sr,", "so,", "sp,", "I,")):
                    continue
                if op == "rc" and o != "OK":
                    return "recompute on an accepted packet: " + o
                if op.startswith("W,") and ("ERR" in o or "PANIC" in o):
                    return None if "PacketTooLarge" in o or "too long" in o else "rename through the cursor failed: " + o[:200]
                continue
            if op == "b":
                m2 = decode_or_none(bytes.fromhex(o[2:]))
                if m2 is None:
                    return "after a change through the library the bytes are no longer an accepted packet"
                exp = expected(m2)
                exp.pop("v")  # offsets and the compression flag of the view are C08's subject
                continue
            if exp is not None and op in exp and o != exp[op]:
                return "getter %s%s: got %s, the bytes say %s" % (op, " after a change of the packet" if changed else "", o[:200], exp[op][:200])
        return None

    def classify(self, case, why):
        return "summary"

    def tags(self, case, io):
        return ["opt" if b"\x00\x00\x29" in bytes.fromhex(case.meta["pkt"]) else "noopt"]


class C05(Prop):
    release_too = True
    generated = ["Constants", "Casts"]
    id = "C05"
    rule = ("accepted packets as for C03; for each, Compress::uncompress_with_previous_offset at EVERY record boundary (start of every record "
            "and end of packet), plus uncompress of the canonical output again (stability). Expected output = the canonical pointer-free "
            "encoding computed by the independent reference decoder/encoder, expected offset = the same boundary in that encoding. "
            "Non-trivial: packet contains at least one compression pointer; distinct = distinct (packet, boundary).")
    strength = ("proved (unbounded, every accepted packet): uncompress returns the 12 header bytes followed by the question and every record of "
                "the declarative reading of the packet re-encoded without compression pointers - owner names and the names inside NS/CNAME/"
                "PTR/MX/SOA data label by label, type/class/TTL as read, data length recomputed, opaque data byte for byte, in order; no "
                "Panic outcome (C05_uncompress_is_plain_encoding); that output is accepted by the parser again, reads as the same question and "
                "records (equal plain records of the two unique readings, record by record equal labels/type/class/TTL/data reading) and is a fixed point of decompression (C05_roundtrip, "
                "C05_reading_unique; also C05_header_kept, C05_name_copy_appends); the offset of the question, of every record and of the end of "
                "the packet is translated to where it sits in the output (C05_boundary_translation). The statement is covered by theorems; "
                "the run-time part is the correspondence of model and code, with exact comparison against the independent canonical "
                "encoder at every boundary of every packet.")
    assumptions = ["bytes < 256", "the reference offset is a record boundary (documented precondition of uncompress_with_previous_offset)"]

    def gen(self, rng, tier):
        n = 300 if tier == "quick" else 40000
        pk = special_valid(rng) + valid_packets(rng, n)
        cases = []
        k = 0
        for (b, m) in pk:
            plain, bounds = G.encode_plain(m)
            offs = sorted(bounds)
            if tier == "quick" and len(offs) > 6:
                offs = sorted(set([offs[0], offs[-1]] + rng.sample(offs, 4)))
            for off in offs:
                cases.append(Case("u%d" % k, "U,%s,%d" % (hx(b), off), {"family": "boundary", "pkt": b.hex(), "off": off}))
                k += 1
            cases.append(Case("u%d" % k, "U,%s,%d" % (hx(plain), 12), {"family": "stable", "pkt": plain.hex(), "off": 12}))
            k += 1
        # the largest expansions there are: a maximal question name, then many records whose owner name and whose data name(s) are
        # bare pointers to it (NS / CNAME / PTR: 16 bytes become 2 * 255 + 10; MX, SOA alike) - output up to 64 KB from 2 KB
        combos = [(255, 2, 120), (255, 5, 125), (255, 12, 118), (254, 12, 124), (255, 15, 60), (255, 6, 70), (200, 2, 125)] if tier == "quick" else \
                 [(wl, t, n) for wl in (255, 254, 220, 128) for t in (2, 5, 12, 15, 6) for n in (40, 117, 118, 125, 128)]
        for (wl, t, n) in combos:
            qn = G.wire_name(G.name_of_wire_len(wl))
            rd = {2: b"\xc0\x0c", 5: b"\xc0\x0c", 12: b"\xc0\x0c", 15: b"\x00\x0a\xc0\x0c", 6: b"\xc0\x0c\xc0\x0c" + bytes(20)}[t]
            b = struct.pack(">HHHHHH", 9, 0x8180, 1, n, 0, 0) + qn + struct.pack(">HH", 1, 1) + \
                (b"\xc0\x0c" + struct.pack(">HHIH", t, 1, 5, len(rd)) + rd) * n
            m = decode_or_none(b)
            if m is None:
                continue
            plain, bounds = G.encode_plain(m)
            if len(plain) > 65535:
                continue
            for off in (12, sorted(bounds)[-1], sorted(bounds)[len(bounds) // 2]):
                cases.append(Case("u%d" % k, "U,%s,%d" % (hx(b), off), {"family": "max-inflation", "pkt": b.hex(), "off": off}))
                k += 1
        return cases

    def oracle(self, case, io):
        w = no_crash(io)
        if w:
            return w
        b = bytes.fromhex(case.meta["pkt"])
        m = decode_or_none(b)
        if m is None:
            return None
        plain, bounds = G.encode_plain(m)
        exp = "OK:%s@%d" % (hx(plain), bounds[case.meta["off"]])
        if io[0] != exp:
            got = io[0]
            if got.startswith("OK:"):
                gb, go = got[3:].split("@")
                if gb != hx(plain):
                    m2 = decode_or_none(bytes.fromhex(gb)) if gb != "-" else None
                    if m2 is None:
                        return "decompression of an accepted packet produced a packet that is not well-formed"
                    if G.message_key(m2) != G.message_key(m):
                        return "decompression changed the message (records, names, types, classes, TTLs or data differ)"
                    return "decompression output is not the canonical pointer-free encoding of the message"
                return "record boundary %d of the input must map to %d in the output, got %s" % (case.meta["off"], bounds[case.meta["off"]], go)
            return "decompression of an accepted packet failed: " + got
        return None

    def classify(self, case, why):
        return "uncompress"

    def nontrivial(self, case, io):
        b = bytes.fromhex(case.meta["pkt"])
        m = decode_or_none(b)
        if m is None:
            return None
        return hash(case.line) if G.encode_plain(m)[0] != b else None

    def tags(self, case, io):
        return [case.meta["family"]]


BASE_RESPONSE = struct.pack(">HHHHHH", 7, 0x8180, 1, 1, 0, 0) + G.wire_name([b"example", b"com"]) + struct.pack(">HH", 1, 1) + \
    b"\xc0\x0c" + struct.pack(">HHIH", 1, 1, 60, 4) + b"\x0a\x00\x00\x01"


def record_wellformed(rrw):
    """Is this the wire form of one well-formed record (checked by parsing it inside a packet)?"""
    pkt = struct.pack(">HHHHHH", 7, 0x8180, 1, 1, 0, 0) + G.wire_name([b"q"]) + struct.pack(">HH", 1, 1) + rrw
    return decode_or_none(pkt) is not None


class C13(Prop):
    id = "C13"
    rule = ("Y: RR::from_string on (a) texts rendered from abstract records of the nine supported types with boundary values (TTL 0 / 2^32-1, "
            "62-byte labels, 253-byte names, 255/256-byte TXT, preference 0/65535, every '::' form), arbitrary horizontal whitespace and "
            "keyword case: result must equal the RFC 1035 wire form computed by an independent encoder; (b) systematically damaged variants "
            "(missing/surplus field, out-of-range number, bad address, unbalanced quote, odd/non-hex digest): must be an error; (c) arbitrary "
            "printable and UTF-8 strings: never a panic, and any Ok result is a well-formed record. I: insertion of (a) into the answer / "
            "authority / additional section of a valid response, then a fresh parse of the object's bytes. Non-trivial: (a) and (b); distinct = "
            "distinct text.")
    strength = ("proved: synthesis is total - for every byte string RR::from_string returns Ok or Err in the model, never Panic "
                "(C13_synth_total); whatever it returns is a well-formed record: owner name encoded label by label from well-formed text "
                "labels within 253 bytes, type, class IN, TTL, a data length equal to the length of the data that follows "
                "(C13_result_well_formed); the data of each builder is characterised: names label by label for NS/CNAME/PTR/MX/SOA, TXT as "
                "character-strings concatenating to the text, all but the last of exactly 255 bytes, none empty (C13_txt, C13_name_rr, "
                "C13_mx, C13_soa). The insertion clause for records whose data holds no names (A with 4 bytes, AAAA with 16, TXT, DS, any type "
                "other than NS / CNAME / PTR / MX / SOA / DNAME / OPT): what RR::new returns for an accepted owner text is the pointer-free "
                "encoding of a record well-formed in every context, with the labels of the text (C13_built_record_is_insertable), and for "
                "every accepted packet a successful insert_rr of it into the answer, authority or additional section leaves accepted bytes "
                "with the view of their parse (C13_built_record_inserts, through C09_insert_effect); the same well-formedness for the records whose data is one name "
                "(NS, CNAME, PTR through the name-record builder: C13_built_name_record_is_insertable), for MX, SOA, TXT and DS through their builders "
                "(C13_built_mx_record_is_insertable, C13_built_soa_record_is_insertable, C13_built_txt_record_is_insertable, "
                "C13_built_ds_record_is_insertable): all nine record types of the grammar. PARTIAL: that the grammar accepts exactly the supported texts and passes the right fields to the "
                "builders is decided by the correspondence and the independent encoder oracle, not by a theorem.")
    assumptions = ["input strings are valid UTF-8 (Rust &str); the model works on their bytes",
                   "chomp1-0.3.4 combinators, hex::decode and Ipv6Addr::from_str are reproduced by hand in Model/Text.v (trusted, exercised by the correspondence)"]

    def gen(self, rng, tier):
        n = 700 if tier == "quick" else 20000
        cases = []
        k = 0
        for i in range(n):
            r = T.rand_record(rng, boundary=(i % 3 == 0))
            text = T.render(rng, r)
            ok = T.grammar_ok(r)
            cases.append(Case("y%d" % k, "Y," + hx(text), {"family": "valid/" + r.t, "expect": T.wire(r).hex() if ok else None, "text": text.decode("latin1")}))
            k += 1
            if i % 2 == 0:
                for d in T.damage(rng, r):
                    cases.append(Case("y%d" % k, "Y," + hx(d), {"family": "damaged/" + r.t, "reject": True, "text": d.decode("latin1")}))
                    k += 1
            if i % 4 == 0 and ok:
                sec = rng.choice(["an", "ns", "ar"])
                cases.append(Case("y%d" % k, "\t".join(["P," + hx(BASE_RESPONSE), "I,%s,%s" % (sec, hx(text)), "fp", "v", "b"]),
                                  {"family": "insert/" + r.t, "rr": T.wire(r).hex(), "sec": sec}))
                k += 1
        # combinations of two limits: owner names of 1 .. 253 text bytes x the longest data each type allows
        def name_of_text_len(L):
            labels = []
            while L > 0:
                k = min(60, L)
                if L - k == 1:
                    k -= 1
                labels.append(b"x" * k)
                L -= k + 1
            return labels
        # (the encoder's limit is 253 bytes of wire name = 251 bytes of text without a final dot; 252 and 253 must be refused)
        grid_owner = (1, 233, 234, 251, 252) if tier == "quick" else (1, 100, 232, 233, 234, 235, 240, 250, 251, 252, 253)
        grid_txt = (3570, 3571, 3825, 3826) if tier == "quick" else (255, 3569, 3570, 3571, 3600, 3824, 3825, 3826, 4000)
        for L in grid_owner:
            for N in grid_txt:
                r = T.rand_record(rng, t="TXT")
                r.name, r.name_trailing = name_of_text_len(L), False
                r.txt = bytes(rng.randint(97, 122) for _ in range(N))
                text = T.render(rng, r)
                ok = T.grammar_ok(r) and L <= 251
                cases.append(Case("y%d" % k, "Y," + hx(text), {"family": "grid/TXT", "expect": T.wire(r).hex() if ok else None,
                                                               "reject": not ok, "text": text.decode("latin1")[:200]}))
                k += 1
            for t in ("NS", "MX", "SOA", "DS", "A", "AAAA"):
                r = T.rand_record(rng, t=t, boundary=True)
                r.name, r.name_trailing = name_of_text_len(L), False
                if t in ("NS", "MX"):
                    r.target, r.target_trailing = name_of_text_len(rng.choice([1, 250, 251])), False
                if t == "SOA":
                    r.ns, r.contact = name_of_text_len(rng.choice([120, 250, 251])), name_of_text_len(rng.choice([120, 250, 251]))
                text = T.render(rng, r)
                ok = T.grammar_ok(r) and L <= 251
                cases.append(Case("y%d" % k, "Y," + hx(text), {"family": "grid/" + t, "expect": T.wire(r).hex() if ok else None, "reject": L > 251,
                                                               "text": text.decode("latin1")[:200]}))
                k += 1
        # the opening parenthesis of SOA directly after the contact name (it ends the name), with final labels at the 62-byte limit
        for kl in (1, 30, 61, 62):
            for trailing in (False, True):
                for pre in ([], [b"host"]):
                    r = T.rand_record(rng, t="SOA")
                    r.name, r.name_trailing = [b"a"], True
                    r.contact = pre + [b"x" * kl]
                    ftxt = [T.dotted(r.name, True), b"%d" % r.ttl, b"IN", b"SOA", T.dotted(r.ns), T.dotted(r.contact, trailing) + b"(" + b" ".join(b"%d" % n for n in r.nums) + b")"]
                    text = b" ".join(ftxt)
                    cases.append(Case("y%d" % k, "Y," + hx(text), {"family": "soa-paren", "expect": T.wire(r).hex(), "text": text.decode("latin1")[:160]}))
                    k += 1
        # the only type whose data can reach the 16-bit data length: DS digests of 65530 .. 65533 bytes (data = 4 + digest; 65535 is the last
        # length that fits, so 65531 must be accepted and 65532 refused)
        for dl in ((65530, 65531, 65532) if tier == "quick" else (65527, 65528, 65529, 65530, 65531, 65532, 65533, 70000)):
            r = T.rand_record(rng, t="DS")
            r.name, r.name_trailing = [b"big", b"example"], True
            r.digest = bytes(rng.randint(0, 255) for _ in range(dl))
            text = T.render(rng, r)
            ok = dl + 4 <= 65535
            cases.append(Case("y%d" % k, "Y," + hx(text), {"family": "ds-limit", "expect": T.wire(r).hex() if ok else None, "reject": not ok,
                                                           "text": text.decode("latin1")[:120]}))
            k += 1
        m = 300 if tier == "quick" else 8000
        alphabet = b" \t.0123456789aAzZ_-\"\\():INinTXAMSODCPRtxamsodcpr"
        for i in range(m):
            ln = rng.choice([0, 1, 3, 8, 20, 40, 80])
            if rng.random() < 0.8:
                t = bytes(rng.choice(alphabet) for _ in range(ln))
            else:
                t = "".join(chr(rng.choice([rng.randint(1, 126), rng.randint(128, 0x7FF), rng.randint(0x800, 0xFFFF)])) for _ in range(ln)).encode("utf-8", "ignore")
            cases.append(Case("y%d" % k, "Y," + hx(t), {"family": "arbitrary", "text": t.decode("latin1")}))
            k += 1
        return cases

    def oracle(self, case, io):
        w = no_crash(io)
        if w:
            return w
        if case.line.startswith("Y,"):
            o = io[0]
            if o == "NOTUTF8":
                return None
            exp = case.meta.get("expect")
            if exp is not None and o != "OK:" + exp:
                return "text in the supported grammar: got %s, RFC 1035 wire form is %s (text %r)" % (o[:160], exp[:160], case.meta["text"][:120])
            if case.meta.get("reject") and o.startswith("OK"):
                return "text outside the grammar was accepted (text %r)" % case.meta["text"][:160]
            if o.startswith("OK:") and not record_wellformed(bytes.fromhex(o[3:])):
                return "synthesis returned a record that is not well-formed (text %r)" % case.meta["text"][:160]
            return None
        # insertion
        if io[1] != "OK":
            return "inserting a grammar text into a valid packet failed: " + io[1]
        if not io[2].startswith("fp[q="):
            return "after inserting a synthesised record the packet is no longer accepted by the parser: " + io[2]
        return None

    def classify(self, case, why):
        return "synth"

    def nontrivial(self, case, io):
        return hash(case.line) if not case.meta["family"].startswith("arbitrary") else None

    def tags(self, case, io):
        return [io[0][:3]] if io else ["noout"]

    def shrink(self, case, still_fails):
        return shrink_bytes(case, still_fails) if case.line.startswith("Y,") else case


class C14(Prop):
    id = "C14"
    generated = ["Constants", "LabelBytes"]
    rule = ("Z: raw_name_from_str on ALL strings of length <= 5 over {a,B,-,_,.,1} (9331, exhaustive in both tiers), labels of 61..64 bytes, "
            "totals of 250..256 wire bytes, random LDH names and arbitrary bytes, each with and without a default zone; then, for accepted "
            "names, set_raw_name on a record followed by name() (read back). Expected labels are computed from the input text independently. "
            "Non-trivial: non-empty name; distinct = distinct (name, zone).")
    strength = ("proved (unbounded, for every byte string as text and every optional zone): whatever is accepted is a list of labels (non-empty, "
                "<= 62 bytes, no dot, no byte above 128) joined by dots with an optional final dot, encoded as each label prefixed by its "
                "length then the root byte or - without a final dot - the zone, within 253 bytes (C14_from_str_sound); every such list that "
                "fits is accepted and so encoded (C14_accepts_open, C14_accepts_closed); an empty interior label, a leading dot, 63 bytes "
                "without a dot and texts over 253 bytes are errors (C14_rejects_empty_label, _leading_dot, _long_label, "
                "_long_label_after_dot, _long_text); for letter-digit-hyphen-underscore labels the produced wire name is a name of the "
                "parser's policy with those labels and prints back as the labels joined by dots (C14_ldh_roundtrip); for every text the conversion accepts (no default zone) the wire name is a name of the parser's policy with exactly the labels of the text - no control character, DEL, dot or backslash in a label (C14_accepted_text_is_policy_name; true since the repair a97c4c2 of /repo). Read-back through a record: on an object in pointer-free form a successful set_raw_name with the "
                "wire name of non-empty labels leaves the cursor on a record whose raw name is that wire name and whose name() is the "
                "labels joined by dots, lower-cased (C14_set_name_reads_back, C14_text_reads_back with the text conversion in front); the "
                "read-back through RR::new + insert_rr, which takes the bytes the setter refuses, is decided by the correspondence.")
    assumptions = ["bytes < 256", "the default zone passed in is itself a well-formed wire name (documented precondition)"]

    ZONE = [b"example", b"org"]

    def names(self, rng, tier):
        out = []
        alpha = b"aB-_.1"
        import itertools
        for ln in range(0, 6):
            for t in itertools.product(alpha, repeat=ln):
                out.append(bytes(t))
        for l in (61, 62, 63, 64):
            out += [b"a" * l, b"a" * l + b".com", b"x." + b"b" * l, b"a" * l + b"."]
        for total in range(248, 258):
            labels = G.name_of_wire_len(total)
            labels = [l[:62] for l in labels]
            # 62-byte labels so that only the total matters
            n = []
            rest = total - 1
            while rest > 0:
                l = min(62, rest - 1)
                if l <= 0:
                    break
                n.append(b"y" * l)
                rest -= l + 1
            out += [b".".join(n), b".".join(n) + b"."]
        for _ in range(300 if tier == "quick" else 10000):
            lab = T.rand_hostname(rng, big=rng.random() < 0.3)
            out.append(T.dotted(lab, rng.random() < 0.5))
        for _ in range(200 if tier == "quick" else 5000):
            out.append(bytes(rng.choice([rng.randint(0, 255), 46, 97, 128, 129]) for _ in range(rng.choice([1, 2, 5, 20, 70, 254, 300]))))
        return out

    def gen(self, rng, tier):
        cases = []
        zone = G.wire_name(self.ZONE)
        for i, nm in enumerate(self.names(rng, tier)):
            for z in (None, zone):
                if z is not None and i % 3 and len(nm) > 3:
                    continue
                cases.append(Case("z%d%s" % (i, "z" if z else ""), "Z,%s,%s" % (hx(nm), hx(z) if z else "-"),
                                  {"family": "from_str", "name": nm.hex(), "zone": bool(z)}))
        # default zones up to the longest wire name there is (255 bytes): the total is what counts, wherever the zone starts
        zk = 0
        for zl_len in (100, 200, 240, 245, 248, 249, 250, 251, 252, 253, 254, 255):
            zlabels = G.name_of_wire_len(zl_len)
            for nm in (b"www", b"a", b"ab", b"abc", b"a.b", b"x" * 62, b"www."):
                cases.append(Case("zl%d" % zk, "Z,%s,%s" % (hx(nm), hx(G.wire_name(zlabels))),
                                  {"family": "from_str", "name": nm.hex(), "zone": True, "zone_labels": [l.hex() for l in zlabels]}))
                zk += 1
        # the same conversion appending to a buffer that already holds bytes (as the MX and SOA builders use it): the limits are
        # those of the name, wherever in the buffer it starts
        allnames = self.names(random.Random(rng.random()), "quick")
        long_ones = [nm for nm in allnames if len(nm) >= 240]
        pick = long_ones[:: max(1, len(long_ones) // (150 if tier == "quick" else 1500))] + allnames[:: max(1, len(allnames) // (150 if tier == "quick" else 1500))]
        for j, nm in enumerate(pick):
            pre = bytes(rng.randrange(256) for _ in range(rng.choice([1, 2, 2, 3, 10, 100, 165, 252, 253, 254, 255, 300])))
            z = zone if (j % 4 == 0 and len(nm) < 200) else None
            cases.append(Case("zp%d" % j, "ZP,%s,%s,%s" % (hx(pre), hx(nm), hx(z) if z else "-"),
                              {"family": "from_str", "name": nm.hex(), "zone": bool(z), "prefix": pre.hex()}))
        # read back through a record
        k = 0
        for nm in self.names(random.Random(rng.random()), "quick")[9331:9331 + (400 if tier == "quick" else 4000)]:
            if not T.ldh_name_ok(nm):
                continue
            labels = T.expected_labels(nm, None)
            if G.wire_len(labels) > 253:
                continue
            raw = G.wire_name(labels)
            cases.append(Case("rb%d" % k, "\t".join(["P," + hx(BASE_RESPONSE), "W,an,0,*M%s.n.r" % hx(raw), "fp"]),
                              {"family": "readback", "name": nm.hex(), "raw": raw.hex()}))
            k += 1
        # the C table's set_name with the three ways a hook has of saying "no default zone" (NULL, a valid pointer with length 0) and
        # with a zone: relative and absolute names
        for j, nm in enumerate([b"www", b"www.", b"a.b", b"a.b.", b"x" * 62, b"www.example.net", b"A-1._tcp", b"host"]):
            for z in ("-", "+", hx(zone)):
                cases.append(Case("tn%d_%s" % (j, "n" if z == "-" else "e" if z == "+" else "z"),
                                  "PF,%s,W,an,n.N%s:%s.n/*n" % (hx(BASE_RESPONSE), hx(nm), z),
                                  {"family": "table-set-name", "name": nm.hex(), "zone": z not in "-+"}))
        # read back through a record built from the text (RR::new) and inserted: the path that takes every byte the conversion
        # accepts, not only those the name setter and the parser allow (backslash, quote, space, control bytes, 127, 128, upper case)
        odd = [b"a", b"B", b"\\", b" ", b'"', b"\x01", b"\x7f", b"\x80", b"-", b"_", b"@", b"$", b"(", b";", b"0"]
        texts = [x for x in odd] + [x + y for x in odd for y in odd]
        for _ in range(300 if tier == "quick" else 6000):
            n = rng.choice([3, 4, 5, 8, 12, 30, 62])
            t = b"".join(rng.choice(odd + [b"c", b"D"]) for _ in range(n))
            parts = [t]
            for _ in range(rng.randint(0, 3)):
                parts.append(b"".join(rng.choice(odd + [b"e", b"F"]) for _ in range(rng.randint(1, 10))))
            texts.append(b".".join(parts) + (b"." if rng.random() < 0.4 else b""))
        for j, nm in enumerate(texts):
            cases.append(Case("ri%d" % j, "\t".join(["P," + hx(BASE_RESPONSE), "IR,an,%s,16,3" % hx(nm), "W,an,1,*n.r"]),
                              {"family": "readback-insert", "name": nm.hex()}))
        return cases

    def oracle(self, case, io):
        w = no_crash(io)
        if w:
            return w
        nm = bytes.fromhex(case.meta["name"]) if case.meta["name"] else b""
        if case.meta["family"] == "from_str":
            o = io[0]
            zl = self.ZONE if case.meta["zone"] else None
            if case.meta.get("zone_labels"):
                zl = [bytes.fromhex(l) for l in case.meta["zone_labels"]]
            pre = bytes.fromhex(case.meta.get("prefix", ""))
            if o.startswith("OK:"):
                wire = bytes.fromhex(o[3:]) if o[3:] != "-" else b""
                if wire[:len(pre)] != pre:
                    return "the conversion changed the %d bytes already in the buffer" % len(pre)
                wire = wire[len(pre):]
                try:
                    labels, end = G.ref_plain_name(wire, 0)
                except (G.Reject, IndexError):
                    return "accepted name %r encodes to bytes that are not a well-formed pointer-free name: %s" % (nm[:60], o[:120])
                if end != len(wire) or len(wire) > 255 or any(len(l) > 63 for l in labels):
                    return "accepted name %r: encoding has trailing bytes or exceeds the limits" % nm[:60]
                if nm not in (b"", b".") and labels != T.expected_labels(nm, zl):
                    return "accepted name %r: labels %r are not the dot-separated labels of the input (+zone)" % (nm[:60], labels[:6])
                if T.must_reject(nm):
                    return "name %r with an empty or over-long label was accepted" % nm[:60]
            else:
                if T.ldh_name_ok(nm) and G.wire_len(T.expected_labels(nm, zl)) <= 253:
                    return "LDH name %r (wire length <= 253, labels <= 62) was rejected: %s" % (nm[:60], o)
            return None
        if case.meta["family"] == "table-set-name":
            zl = self.ZONE if case.meta["zone"] else None
            labels = T.expected_labels(nm, zl)
            exp_txt = b".".join(labels).lower()
            walk = io[0]
            if "M=OK" not in walk:
                return "set_name through the table refused the host name %r (%s zone): %s" % (nm, "with a" if zl else "without", walk[:200])
            if ("M=OK n=%s]" % hx(exp_txt)) not in walk and ("M=OK n=%s|" % hx(exp_txt)) not in walk:
                return "set_name through the table: the record reads back as %s, expected name %r" % (walk[:200], exp_txt)
            return None
        if case.meta["family"] == "readback-insert":
            if not io[1].startswith("OK"):
                if T.ldh_name_ok(nm) and G.wire_len(T.expected_labels(nm, None)) <= 253:
                    return "a record with the LDH owner name %r could not be built and inserted: %s" % (nm[:60], io[1][:100])
                return None
            exp_n = nm[:-1] if nm.endswith(b".") else nm
            try:
                raw = G.wire_name(T.expected_labels(nm, None))
            except Exception:
                return None
            last = io[2].rstrip("]").split("|")[-1].strip()
            exp = "n=%s r=%s/%d" % (hx(exp_n.lower()), hx(raw), len(raw))
            if last != exp:
                return "record built with the name %r and inserted reads back as %s, expected %s" % (nm[:60], last[:200], exp[:200])
            return None
        # read back
        exp_n = nm[:-1] if nm.endswith(b".") else nm
        raw = bytes.fromhex(case.meta["raw"])
        exp = "W[| M=OK n=%s r=%s/%d]" % (hx(exp_n.lower()), hx(raw), len(raw))
        if io[1] != exp:
            return "record given the name %r reads back as %s, expected %s" % (nm[:60], io[1][:200], exp[:200])
        if not io[2].startswith("fp[q="):
            return "packet no longer accepted after set_raw_name: " + io[2]
        return None

    def classify(self, case, why):
        return "names"

    def nontrivial(self, case, io):
        return hash(case.line) if case.meta["name"] else None

    def tags(self, case, io):
        return [io[0][:3]] if io else ["noout"]


def known_classes(pid):
    p = os.path.join(os.path.dirname(os.path.abspath(__file__)), "..", "known_findings.json")
    try:
        return set(f["class"] for f in json.load(open(p)).get("findings", []) if f["property"] == pid)
    except Exception:
        return set()


def big_plain_packet(rng, size):
    """A pointer-free response of roughly `size` bytes (TXT records), for the size-limit clauses."""
    q = [b"big", b"example"]
    recs = []
    n = 0
    while n < size:
        k = min(255, max(1, size - n))
        recs.append(G.RR(q, 16, 1, 5, ("raw", bytes([k - 1]) + bytes(rng.randint(97, 122) for _ in range(k - 1)) if k > 1 else b"\0")))
        n += 11 + 13 + k
    b, _ = G.encode(rng, G.Msg(5, 0x8180, q, 16, 1, an=recs), "none")
    return b


def big_compressed_packet(rng, usize):
    """A compressed response whose pointer-free form has exactly `usize` bytes while the wire form is several times smaller
    (owner names are pointers to a long question name): inserting into it must be judged on the uncompressed length."""
    q = [bytes(rng.randint(97, 122) for _ in range(rng.randint(20, 30))) for _ in range(3)]
    ql = sum(len(l) + 1 for l in q) + 1
    recs = []
    n = 12 + ql + 4
    while n + ql + 14 + ql + 12 <= usize:
        recs.append(G.RR(q, 1, 1, 5, ("raw", bytes(rng.getrandbits(8) for _ in range(4)))))
        n += ql + 14
    pad = usize - n - (ql + 10)
    if pad < 1:
        return None
    pad = min(pad, 256)
    recs.append(G.RR(q, 16, 1, 5, ("raw", bytes([pad - 1]) + bytes(rng.randint(97, 122) for _ in range(pad - 1)))))
    b, _ = G.encode(rng, G.Msg(5, 0x8180, q, 1, 1, an=recs), "greedy")
    return b


def inflating_packet(rng, usize):
    """Like big_compressed_packet, with an authority record, an additional record and an OPT record after the answers: the section offsets
    and the EDNS offset of the compressed layout differ from those of the pointer-free one. Pointer-free size: exactly `usize`."""
    q = [bytes(rng.randint(97, 122) for _ in range(rng.randint(20, 30))) for _ in range(3)]
    ql = sum(len(l) + 1 for l in q) + 1
    tail_ns = [G.RR(q, 2, 1, 5, ("name", [b"ns"] + q))]
    tail_ar = [G.RR([b"ns"] + q, 1, 1, 5, ("raw", b"\1\2\3\4")), G.RR([], 41, 1232, 0x8000, ("opt", [(10, b"12345678")]))]
    fixed = 12 + ql + 4 + (ql + 10 + 3 + ql) + (3 + ql + 14) + (11 + 12)
    recs = []
    n = fixed
    while n + (ql + 14) + (ql + 12) <= usize:
        recs.append(G.RR(q, 1, 1, 5, ("raw", bytes(rng.getrandbits(8) for _ in range(4)))))
        n += ql + 14
    pad = usize - n - (ql + 10)
    if pad < 1 or pad > 256:
        return None
    recs.append(G.RR(q, 16, 1, 5, ("raw", bytes([pad - 1]) + bytes(rng.randint(97, 122) for _ in range(pad - 1)))))
    b, _ = G.encode(rng, G.Msg(5, 0x8180, q, 1, 1, an=recs, ns=tail_ns, ar=tail_ar), "greedy")
    return b


def exact_packet(rng, size):
    """An accepted response of exactly `size` bytes (size >= 60): TXT records owned by a pointer to the question."""
    q = [b"big", b"example"]
    head = G.wire_name(q) + struct.pack(">HH", 16, 1)
    R = size - 12 - len(head)
    lens = []
    while R > 2 * 268:
        lens.append(256)
        R -= 268
    if R <= 268:
        lens.append(R - 12)
    else:
        lens += [(R - 24) // 2, R - 24 - (R - 24) // 2]
    body = b""
    for rl in lens:
        body += b"\xc0\x0c" + struct.pack(">HHIH", 16, 1, 5, rl) + bytes([rl - 1]) + bytes(rng.randint(97, 122) for _ in range(rl - 1))
    b = struct.pack(">HHHHHH", 5, 0x8180, 1, len(lens), 0, 0) + head + body
    assert len(b) == size, (len(b), size)
    return b


def data_pointer_packets():
    """Accepted packets in which a later owner name is read through the TTL field / the address of an earlier record."""
    H_ = struct.pack(">HHHHHH", 1, 0x8180, 1, 2, 0, 0) + b"\x01a\x00" + struct.pack(">HH", 1, 1)
    r1_ttl = b"\xc0\x0c" + struct.pack(">HH", 1, 1) + b"\x01b\x00\x00" + struct.pack(">H", 4) + b"\1\2\3\4"      # TTL bytes = label "b", root
    r2_ttl = b"\xc0\x19" + struct.pack(">HHIH", 1, 1, 5, 4) + bytes([5, 6, 7, 8])                                   # owner -> offset 25 (the TTL)
    r1_ip = b"\xc0\x0c" + struct.pack(">HHIH", 1, 1, 60, 4) + b"\x01b\x00\x09"                              # address bytes = label "b", root
    r2_ip = b"\xc0\x1f" + struct.pack(">HHIH", 1, 1, 5, 4) + bytes([5, 6, 7, 8])                                    # owner -> offset 31 (the address)
    return [H_ + r1_ttl + r2_ttl, H_ + r1_ip + r2_ip]


class HistProp(Prop):
    """Shared machinery of C08-C11: histories with an abstract message model (gen/hist.py)."""
    clauses = set()
    assumptions = ["bytes < 256", "cursor operations are issued on live cursors of the section they were created for (Rust borrow rules)",
                   "set_raw_name / TTL writes are not applied to the OPT pseudo-record except in the known-finding family"]

    def base(self, rng, kind=None):
        """(first op, abstract message, flags)"""
        kind = kind or rng.choice(["parsed"] * 7 + ["query", "query", "empty-q", "empty"])
        if kind == "parsed" and rng.random() < 0.2:
            # hand-built layouts (OPT anywhere, deep chains, pointer into the header, full owner with compressed data)
            if not hasattr(self, "_special"):
                self._special = [b for (b, m) in special_valid(random.Random(1)) if H.decode_bytes(b) is not None and len(b) < 600]
            b = rng.choice(self._special)
            return "P," + hx(b), H.decode_bytes(b), set()
        if kind == "parsed":
            while True:
                b, _, _ = G.rand_valid_packet(rng, max_rr=rng.choice([1, 2, 3, 5]))
                a = H.decode_bytes(b)
                if a is not None:
                    return "P," + hx(b), a, set()
        if kind == "query":
            labels = T.rand_hostname(rng)
            nm = T.dotted(labels, rng.random() < 0.5)
            a = H.AMsg()
            tid = rng.randint(0, 65535)
            a.tid, a.flags, a.q = tid, 0x0100, (labels, 28, 1)
            return "Q,%s,28,%d" % (hx(nm), tid), a, set()
        a = H.AMsg()
        tid = rng.randint(0, 65535)
        a.tid, a.flags = tid, 0x0100
        return "E,%d" % tid, a, set(["no-question"])

    def finish(self, i, first, bld, fam):
        return Case("h%d" % i, bld.line(first), {"family": fam, "steps": bld.steps, "a0": None})

    def special_qtype_family(self, rng, k0):
        """Questions whose QTYPE is the number of a record type the library treats specially (OPT = 41, SOA, MX, NS, DNAME, 0, 65535),
        in packets with and without a real OPT record: delete the question, put one back, look at everything."""
        out = []
        q = [b"q", b"example"]
        for qt in (41, 6, 15, 2, 39, 0, 65535):
            for with_opt in (True, False):
                ar = [G.RR([b"a"] + q, 1, 1, 9, ("raw", bytes([10, 0, 0, 1])))]
                if with_opt:
                    ar.insert(rng.randint(0, 1), G.RR([], 41, 1232, 0x8000, ("opt", [(10, b"cookie12")])))
                b, _ = G.encode(rng, G.Msg(rng.getrandbits(16), 0x8180, q, qt, 1, an=[G.RR(q, 1, 1, 5, ("raw", bytes([1, 2, 3, 4])))], ar=ar),
                                rng.choice(["none", "greedy"]))
                a = H.decode_bytes(b)
                if a is None:
                    continue
                bld = H.Builder(rng, a, set())
                if rng.random() < 0.5:
                    bld.getter_op(rng.choice(["q0", "q1"]))
                bld.question_walk_op("X")
                bld.second_question_op()
                bld.getter_op("q0")
                bld.walk_op(si=2, mode="read", incl=True)
                bld.walk_op(si=rng.randrange(3), mode="mixed")
                out.append(self.finish(k0 + len(out), "P," + hx(b), bld, "special-qtype"))
        return out

    def requestion_family(self, rng, k0):
        """The question is deleted and another one inserted, on every shape of packet (each of the three record sections empty or not,
        with and without OPT): where the question goes is decided by the first section offset that is present."""
        out = []
        q = [b"q", b"example"]
        mk = lambda nm, t=1: G.RR([nm] + q, t, 1, 9, ("raw", bytes([10, 0, 0, 1])) if t == 1 else ("name", [b"ns"] + q))
        for shape in range(8):
            for with_opt in (False, True):
                for layout in ("none", "greedy"):
                    an = [mk(b"a1"), mk(b"a2")][: rng.randint(1, 2)] if shape & 1 else []
                    ns = [mk(b"n1", 2), mk(b"n2", 2)][: rng.randint(1, 2)] if shape & 2 else []
                    ar = [mk(b"r1"), mk(b"r2")][: rng.randint(1, 2)] if shape & 4 else []
                    if with_opt:
                        ar.insert(rng.randint(0, len(ar)), G.RR([], 41, 1232, 0x8000, ("opt", [])))
                    b, _ = G.encode(rng, G.Msg(rng.getrandbits(16), 0x8180, q, 1, 1, an=an, ns=ns, ar=ar), layout)
                    a = H.decode_bytes(b)
                    if a is None:
                        continue
                    bld = H.Builder(rng, a, set())
                    if rng.random() < 0.5:
                        bld.getter_op(rng.choice(["q0", "q1"]))
                    bld.question_walk_op("X")
                    bld.second_question_op()
                    bld.getter_op("q0")
                    for si in range(3):
                        bld.walk_op(si=si, mode="read", incl=True)
                    bld.walk_op(si=rng.randrange(3), mode="mixed")
                    out.append(self.finish(k0 + len(out), "P," + hx(b), bld, "requestion"))
        return out

    def query_bytes_family(self, rng, k0, tier):
        """Synthesised queries whose name holds any byte the text-to-wire conversion may be handed (control bytes, DEL, backslash,
        quote, space, 128, upper case): whatever gen::query returns is a packet the parser must accept and whose view is its parse
        (C08 names synthesised packets as starting points). Added when the proof that a synthesised query is its own fresh parse
        needed 'every label byte the conversion accepts is one the parser accepts' - which the pinned code did not give."""
        out = []
        odd = [b"a", b"B", b"\\", b" ", b'"', b"\x01", b"\x1f", b"\x7f", b"\x80", b"-", b"_", b"@", b"0", b"\x00", b"\t"]
        texts = [x + b"x" for x in odd] + [b"x" + x + b".y" for x in odd] + [b"y." + x for x in odd]
        for _ in range(60 if tier == "quick" else 3000):
            parts = [b"".join(rng.choice(odd + [b"c", b"D", b"e"]) for _ in range(rng.choice([1, 2, 3, 8, 30, 62]))) for _ in range(rng.randint(1, 4))]
            texts.append(b".".join(parts) + (b"." if rng.random() < 0.4 else b""))
        for nm in texts:
            if T.must_reject(nm) or len(nm) > 253:
                continue
            labels = T.expected_labels(nm, None)
            if G.wire_len(labels) > 253 or any(len(l) > 62 for l in labels):
                continue
            a = H.AMsg()
            tid = rng.randint(0, 65535)
            a.tid, a.flags, a.q = tid, 0x0100, (labels, 28, 1)
            bld = H.Builder(rng, a, set())
            if rng.random() < 0.5:
                bld.getter_op(rng.choice(["q0", "q1"]))
            out.append(self.finish(k0 + len(out), "Q,%s,28,%d" % (hx(nm), tid), bld, "query-bytes"))
        return out

    def inflating_family(self, rng, k0, tier):
        """Compressed responses of 1-2 KB whose pointer-free form has 7900 .. 9000 bytes: the first insertion decompresses, and must be
        judged (accepted or refused, and the object left consistent either way) on the pointer-free length."""
        out = []
        for usz in ([8000, 8150, 8180, 8192, 8300] if tier == "quick" else [7900, 8000, 8100, 8150, 8170, 8180, 8185, 8190, 8192, 8200, 8300, 9000]):
            for rep in range(4 if tier == "quick" else 8):
                b = (inflating_packet if rep % 2 == 0 else big_compressed_packet)(rng, usz)
                a = H.decode_bytes(b) if b else None
                if a is None:
                    continue
                if rep % 2 == 0 and len(a.wire()) != usz:
                    raise AssertionError("inflating_packet: pointer-free size %d, asked for %d" % (len(a.wire()), usz))
                bld = H.Builder(rng, a, set())
                if rng.random() < 0.5:
                    bld.getter_op()
                for _ in range(2):
                    bld.insert_op()
                for sj in range(3):
                    bld.walk_op(si=sj, mode="read", incl=True)
                bld.walk_op(si=rng.randrange(3), mode="mixed")
                out.append(self.finish(k0 + len(out), "P," + hx(b), bld, "inflating"))
        return out

    def self_pointer_family(self, rng, k0):
        """Records whose data holds a name written as a pointer to the record's OWN owner name, itself a pointer (two hops, accepted):
        an owner-name change, a TTL change or a deletion aimed at that record - the last of the packet or not - must leave the names
        inside the data as they were (an in-place rewrite of the owner name without decompression drags them along)."""
        out = []
        qn = G.wire_name([b"www", b"example", b"com"])
        own = 12 + len(qn) + 4
        ptr = bytes([0xC0 | (own >> 8), own & 255])
        datas = {5: b"\x03cdn" + ptr, 2: b"\x02ns" + ptr, 12: b"\x01p" + ptr, 15: b"\x00\x0a\x02mx" + ptr,
                 6: b"\x02ns" + ptr + b"\x03adm" + ptr + bytes(range(20))}
        tail_a = b"\xc0\x0c" + struct.pack(">HHIH", 1, 1, 7, 4) + b"\x0a\x00\x00\x01"
        for t, rd in datas.items():
            for si in range(3):
                for tail in (b"", tail_a):
                    counts = [0, 0, 0]
                    counts[si] = 1
                    if tail:
                        counts[2] += 1
                    b = struct.pack(">HHHHHH", rng.getrandbits(16), 0x8180, 1, *counts) + qn + struct.pack(">HH", 1, 1) + \
                        b"\xc0\x0c" + struct.pack(">HHIH", t, 1, 300, len(rd)) + rd + tail
                    a = H.decode_bytes(b)
                    if a is None:
                        continue
                    for rep in range(3):
                        bld = H.Builder(rng, H.decode_bytes(b), set())
                        for _ in range(2):
                            bld.walk_op(si=si, mode="mixed")
                        bld.walk_op(si=si, mode="read", incl=True)
                        out.append(self.finish(k0 + len(out), "P," + hx(b), bld, "self-pointer"))
        return out

    def data_pointer_family(self, rng, k0):
        """Known-finding class data-pointer: TTL / address writes on records whose bytes a later name is read through."""
        out = []
        for b in data_pointer_packets():
            a = H.decode_bytes(b)
            if a is None:
                continue
            for rep in range(3):
                bld = H.Builder(rng, a if rep == 0 else H.decode_bytes(b), set())
                for _ in range(3):
                    bld.walk_op(si=0, mode="mixed")
                out.append(self.finish(k0 + len(out), "P," + hx(b), bld, "class-data-pointer"))
        return out

    def corpus_meta(self, line):
        """A corpus line carries no expectations: every operation becomes a step checked for crashes, model agreement and the object's view."""
        ops = line.split("\t")
        return {"steps": [H.Step(ops[i], "corpus", None, None, None, {}) for i in range(5, len(ops), 5)], "a0": None}

    def meta_to_json(self, meta):
        m = dict(meta)
        m["steps"] = [{"op": s.op, "kind": s.kind, "expect_out": s.expect_out, "expect_err": s.expect_err,
                       "expect_msg": (s.expect_msg.wire().hex() if s.expect_msg is not None else None), "note": s.note} for s in meta.get("steps", [])]
        return m

    def meta_from_json(self, meta):
        m = dict(meta)
        steps = []
        for d in meta.get("steps", []):
            em = H.decode_lenient(bytes.fromhex(d["expect_msg"])) if d.get("expect_msg") else None
            steps.append(H.Step(d["op"], d["kind"], d.get("expect_out"), em, d.get("expect_err"), d.get("note")))
        m["steps"] = steps
        return m

    def shrink(self, case, still_fails):
        """Drop trailing steps while the failure persists."""
        steps = case.meta["steps"]
        ops = case.line.split("\t")
        best = case
        for n in range(1, len(steps)):
            c2 = Case(case.id, "\t".join(ops[:5 + 5 * n]), dict(case.meta, steps=steps[:n]))
            try:
                if still_fails(c2):
                    return c2
            except Exception:
                pass
        return best

    @staticmethod
    def match_walk(exp, got, prefix=False):
        """exp: list of per-yield token lists (None = wildcard token); got: observation string. prefix=True: the plan was cut at 400
        yields, what follows in `got` (names read with the default action) is not compared."""
        if not got.startswith("W[") or not got.endswith("]"):
            return False
        toks = got[2:-1].split(" ") if len(got) > 3 else []
        flat = [t for y in exp for t in y]
        if prefix and len(toks) >= len(flat):
            toks = toks[:len(flat)]
        if len(toks) != len(flat):
            return False
        for e, g in zip(flat, toks):
            if e is None:
                continue
            if e.endswith("=ERR") and g.startswith(e):
                continue
            if e != g:
                return False
        return True

    def step_failures(self, case, io):
        """All failures of this history as (class, text)."""
        fails = []
        steps = case.meta["steps"]
        if io is None or len(io) < 5:
            return fails
        prev_b = io[4][2:] if io[4].startswith("b=") else None
        if io[0].startswith("ERR") or io[0] == "NOOBJ":
            return fails
        if "view" in self.clauses:
            self.check_state(fails, "initial object", io[1], io[2], io[3], prev_b)
        for k, st in enumerate(steps):
            base = 5 + 5 * k
            if len(io) < base + 5:
                break
            o, v, fp, ca, b = io[base:base + 5]
            b1 = b[2:]
            a0 = H.decode_lenient(bytes.fromhex(prev_b)) if prev_b and prev_b != "-" else None
            a1 = H.decode_lenient(bytes.fromhex(b1)) if b1 != "-" else None
            what = "step %d (%s: %s)" % (k, st.kind, st.op[:80])
            is_err = o.startswith("ERR")
            # --- outcome of the operation itself
            if st.expect_err is not None:
                if "err" in self.clauses:
                    if not is_err:
                        fails.append(("expected-error", "%s was accepted but must fail" % what))
                    elif st.expect_err != "any" and o != "ERR:" + st.expect_err:
                        fails.append(("error-kind", "%s failed with %s, expected %s" % (what, o, st.expect_err)))
            elif st.kind == "getter":
                exp = st.note.get("ci") if hasattr(st, "note") and st.note else None
                if exp is not None and ("view" in self.clauses or "effect" in self.clauses) and o.lower() != exp.lower():
                    fails.append(("getter", "%s returned %s, the bytes say %s" % (what, o[:160], exp[:160])))
            elif isinstance(st.expect_out, str):
                if "effect" in self.clauses and o != st.expect_out:
                    fails.append(("outcome", "%s returned %s, expected %s" % (what, o[:120], st.expect_out)))
            elif isinstance(st.expect_out, list):
                if ("walk" in self.clauses or "effect" in self.clauses) and not self.match_walk(st.expect_out, o, bool(st.note and st.note.get("truncated"))):
                    fails.append(("walk", "%s yielded %s; the abstract walk expects %s" % (
                        what, o[:400], " ".join(str(t) for y in st.expect_out for t in y)[:400])))
            # --- a walk in which every mutating action reported an error must leave the message as it was
            if "err" in self.clauses and o.startswith("W[") and a0 is not None:
                muts = [t for t in o[2:-1].split(" ") if t[:2] in ("M=", "T=", "A=", "X=", "V=")]
                if muts and all("=ERR" in t for t in muts):
                    if a1 is None or a1.key() != a0.key():
                        fails.append(("failed-op-changed-message", "%s: every mutating action of the walk reported an error (%s) but the packet no "
                                      "longer decodes to the same message" % (what, muts[0])))
                    self.check_state(fails, "after " + what, v, fp, ca, b1)
            # --- effect on the decoded message
            if is_err or o == "PANIC":
                if "err" in self.clauses and is_err and a0 is not None:
                    if a1 is None or a1.key() != a0.key():
                        fails.append(("failed-op-changed-message", "%s reported %s but the packet no longer decodes to the same message" % (what, o)))
                # not one byte moved: then nothing else of the object may have changed either (offsets, counts, EDNS summary, the
                # may-be-compressed flag - a flag left set makes every later operation parse bytes it used to take as they are)
                # (the decompress-first prologue of a failing insertion / cursor operation may clear the flag on bytes that had no pointer)
                def _vd(x):
                    return dict(t.split("=", 1) for t in x[2:-1].split(" ") if "=" in t)
                if "err" in self.clauses and is_err and b1 == prev_b and v.startswith("v[") and io[base - 4].startswith("v[") and v != io[base - 4] and \
                        ({k_: x_ for k_, x_ in _vd(v).items() if k_ != "mc"} != {k_: x_ for k_, x_ in _vd(io[base - 4]).items() if k_ != "mc"} or
                         (_vd(io[base - 4]).get("mc"), _vd(v).get("mc")) == ("0", "1")):
                    fails.append(("failed-op-changed-object", "%s reported %s and left the bytes as they were, but the object changed: %s before, %s after" % (
                        what, o, io[base - 4][:200], v[:200])))
            elif st.expect_msg is not None and "effect" in self.clauses:
                if a1 is None:
                    fails.append(("effect", "%s: the resulting bytes do not decode to any message" % what))
                elif a1.key() != st.expect_msg.key():
                    fails.append(("effect", "%s: the decoded message differs from the abstract effect of the operation" % what))
            # --- what the object reports about EDNS is what the OPT record of the message says (operations aimed at the OPT record's
            #     TTL are the known class opt-ttl and are left to the view clause)
            if "edns" in self.clauses and not is_err and o != "PANIC" and st.expect_msg is not None and st.kind != "walk-opt-ttl" and v.startswith("v["):
                exp_e = self.edns_expected(st.expect_msg)
                vv = dict(x.split("=") for x in v[2:-1].split(" "))
                got_e = tuple(vv.get(k) for k in ("ec", "rc", "ver", "xf", "mp"))
                if exp_e is not None and st.expect_msg.opt() is None:
                    # without an OPT record the payload size is the object's default (512 after a parse, 8192 for a synthesised packet)
                    exp_e, got_e = exp_e[:4], got_e[:4]
                if exp_e is not None and got_e != exp_e:
                    fails.append(("edns", "%s: the object reports EDNS (count, ext rcode, version, flags, payload) = %s, the message's OPT record says %s" % (
                        what, "/".join(map(str, got_e)), "/".join(exp_e))))
                elif fp.startswith("fp[q="):
                    # where the object says the EDNS data are (copy_raw_edns_section and the option iterator start there)
                    ff = dict(x.split("=") for x in fp[3:-1].split(" "))
                    if vv.get("ed") != ff.get("ed"):
                        fails.append(("edns", "%s: the object places the EDNS data at %s, in its bytes they are at %s" % (what, vv.get("ed"), ff.get("ed"))))
            if "size" in self.clauses and st.kind in ("insert", "insert-too-large") and not is_err and len(b1) // 2 > 8192:
                fails.append(("size-limit", "%s produced a packet of %d bytes (> 8192)" % (what, len(b1) // 2)))
            if "view" in self.clauses or ("err" in self.clauses and is_err):
                self.check_state(fails, "after " + what, v, fp, ca, b1)
            prev_b = b1
        return fails

    @staticmethod
    def edns_expected(a):
        """(count, ext rcode, version, flags, payload) as strings, from the OPT record of the abstract message; None if its data do not tile."""
        r = a.opt()
        if r is None:
            return ("0", "-", "-", "-", "512")
        d = r.rd[1] if r.rd[0] == "raw" else None
        if d is None:
            return None
        n, i = 0, 0
        while i < len(d):
            if i + 4 > len(d):
                return None
            l = (d[i + 2] << 8) | d[i + 3]
            i += 4 + l
            n += 1
        if i != len(d):
            return None
        return (str(n), str(r.ttl >> 24), str((r.ttl >> 16) & 255), str(r.ttl & 0xFFFF), str(r.c))

    @staticmethod
    def reject_class(bhex):
        """Known-finding classes of states no parse can accept, recognised from the bytes themselves."""
        if bhex in (None, "-") or len(bhex) < 24:
            return None
        b = bytes.fromhex(bhex)
        qd, an, ns = (b[4] << 8) | b[5], (b[6] << 8) | b[7], (b[8] << 8) | b[9]
        if qd == 0:
            return "no-question"
        if not (b[2] & 0x80) and (an or ns):
            return "qr-gating"
        return None

    def check_state(self, fails, where, v, fp, ca, bhex):
        """C08: the object's view equals a fresh parse of its bytes."""
        if not v.startswith("v["):
            return
        if fp.startswith("fp[ERR"):
            cls = self.reject_class(bhex)
            if cls:
                a = H.decode_lenient(bytes.fromhex(bhex))
                if a is not None:
                    fails.append((cls, "%s: bytes are not accepted by the parser (%s)" % (where, fp)))
                    return
            fails.append(("not-accepted", "%s: the packet's bytes are rejected by the parser: %s" % (where, fp)))
            return
        vv = dict(x.split("=") for x in v[2:-1].split(" "))
        ff = dict(x.split("=") for x in fp[3:-1].split(" "))
        for k in ("q", "an", "ns", "ar", "ed", "ec", "rc", "ver", "xf"):
            if vv.get(k) != ff.get(k):
                cls = "view"
                if k in ("rc", "ver", "xf") and all(vv.get(j) == ff.get(j) for j in ("q", "an", "ns", "ar", "ed", "ec")):
                    cls = "opt-ttl"
                fails.append((cls, "%s: object says %s=%s, a fresh parse of its bytes says %s" % (where, k, vv.get(k), ff.get(k))))
                return
        b = bytes.fromhex(bhex)
        a = H.decode_bytes(b)
        if a is None:
            return
        if ca != "ca=-":
            wn = G.wire_name(a.q[0])
            exp = "ca=%s/%d/%d" % (hx(wn), a.q[1], a.q[2])
            if ca.lower() != exp.lower():
                fails.append(("stale-cache", "%s: cached question %s, the bytes say %s" % (where, ca, exp)))
                return
        if vv.get("mc") == "0" and a.wire() != b:
            fails.append(("flag-unsound", "%s: maybe_compressed is false but the bytes are not in pointer-free form" % where))

    HEADER_SETTERS = ("sf", "st", "sr", "so", "sp")

    def header_pointer_case(self, case, op_index=None, text=None):
        """Known-finding class: some name of the starting packet is read through the header bytes, the history calls a header setter, and
        the failure is observed at or after that call."""
        ops = case.line.split("\t")
        setters = [i for i, o in enumerate(ops) if i > 0 and (o[2:] if o.startswith("F,") else o).split(",")[0] in self.HEADER_SETTERS]
        if not ops[0].startswith("P,") or not setters:
            return False
        if op_index is None:
            import re
            m = re.search(r"step (\d+)", text or "")
            if not m:
                return False
            op_index = 5 + 5 * int(m.group(1))
        if op_index < setters[0]:
            return False
        try:
            return G.has_header_pointer(bytes.fromhex(ops[0][2:]))
        except ValueError:
            return False

    def data_pointer_case(self, case, op_index=None, text=None):
        """Known-finding class: some name of the starting packet is read through bytes that are not a name (a TTL, fixed fields, an address,
        opaque data), the history writes a TTL or an address in place, and the failure is observed at or after that write."""
        import re
        ops = case.line.split("\t")
        if not ops[0].startswith("P,"):
            return False

        def writes(o):
            o = o[2:] if o.startswith("F,") else o
            f = o.split(",")
            return f[0] == "W" and len(f) > 2 and any(re.match(r"^(T\d|A[0-9a-f])", a) for y in f[-1].split("/") for a in y.lstrip("*").split("."))
        ws = [i for i, o in enumerate(ops) if i > 0 and writes(o)]
        if not ws:
            return False
        if op_index is None:
            m = re.search(r"step (\d+)", text or "")
            if not m:
                return False
            op_index = 5 + 5 * int(m.group(1))
        if op_index < ws[0]:
            return False
        try:
            return bool(G.alien_pointer_targets(bytes.fromhex(ops[0][2:])))
        except ValueError:
            return False

    def oracle(self, case, io):
        w = no_crash(io)
        if w:
            if self.data_pointer_case(case, op_index=len(io) - 1 if io else 0):
                return "[data-pointer] an in-place TTL/address write changed bytes that a name of the packet is read through; afterwards: " + w
            if self.header_pointer_case(case, op_index=len(io) - 1 if io else 0):
                return "[header-pointer] a header setter rewrote bytes that a name of the packet is read through; afterwards: " + w
            return "[crash] " + w + " at op %d" % (len(io) - 1 if io else -1)
        fails = self.step_failures(case, io)
        if not fails:
            return None
        if self.header_pointer_case(case, text=fails[0][1]):
            return "[header-pointer] a header setter rewrote bytes that a name of the packet is read through; afterwards: [%s] %s" % fails[0]
        if self.data_pointer_case(case, text=fails[0][1]):
            return "[data-pointer] an in-place TTL/address write changed bytes that a name of the packet is read through; afterwards: [%s] %s" % fails[0]
        known = known_classes(self.id)
        for cls, txt in fails:
            if cls not in known:
                return "[%s] %s" % (cls, txt)
        return "[%s] %s" % fails[0]

    def classify(self, case, why):
        if why.startswith("["):
            return why[1:why.index("]")]
        if self.header_pointer_case(case, op_index=len(case.line.split("\t"))):
            # the process aborts in the implementation where the model reaches a Panic site: no line-by-line comparison is possible
            return "header-pointer"
        if self.data_pointer_case(case, op_index=len(case.line.split("\t"))):
            return "data-pointer"
        return "divergence-unclassified"

    def tags(self, case, io):
        t = []
        for st in case.meta["steps"]:
            t.append(st.kind)
        return t[:8]

    def nontrivial(self, case, io):
        return hash(case.line) if case.meta["steps"] else None

    def random_step(self, rng, bld, weights):
        k = rng.choices(list(weights), weights=list(weights.values()))[0]
        if k == "header":
            bld.header_op()
        elif k == "insert":
            bld.insert_op()
        elif k == "insert-bad":
            bld.insert_op(bad=True)
        elif k == "iq":
            bld.second_question_op()
        elif k == "rename":
            bld.rename_op()
        elif k == "rename-overflow":
            bld.rename_op(overflow=True)
        elif k == "recompute":
            bld.recompute_op()
        elif k == "getter":
            bld.getter_op()
        elif k == "walk":
            bld.walk_op(mode="mixed")
        elif k == "walk-read":
            bld.walk_op(mode="read")
        elif k == "qwalk":
            act = rng.choice(["read", "M", "M"])
            if act == "M":
                # a stale cached question is only visible when the cache was filled before the question changes and read after
                if rng.random() < 0.7:
                    bld.getter_op(rng.choice(["q0", "q1", "q2"]))
                bld.question_walk_op("M")
                bld.getter_op(rng.choice(["q0", "q1", "q2"]))
            else:
                bld.question_walk_op(act)
        elif k == "qdelete":
            bld.question_walk_op("X")
        elif k == "qr-break":
            if bld.a.secs[0] or bld.a.secs[1]:
                bld.qr_break_op()
            else:
                bld.header_op()
        elif k == "opt-ttl":
            if bld.a.opt() is not None:
                bld.opt_ttl_op()
            else:
                bld.walk_op(mode="read")


W_GENERAL = {"header": 3, "insert": 4, "iq": 1, "rename": 2, "recompute": 1, "walk": 6, "walk-read": 1, "qwalk": 3, "getter": 3}


class C08(HistProp):
    id = "C08"
    generated = ["Constants", "LabelBytes"]
    clauses = {"view"}
    rule = ("histories of 1-6 operations (header setters, insert_rr_from_string in any section, RR::new_question insert, rename, recompute, "
            "walks with set_rr_ttl / set_rr_ip / set_raw_name growing-shrinking-equal / delete / cursor uncompress / reads at every record "
            "position, question walks with set_raw_name) on parsed packets (compressed or not, with/without OPT), gen::query objects and "
            "ParsedPacket::empty; after EVERY step the object's view, a fresh parse of its bytes, the cached question and the bytes are "
            "observed. Plus dedicated families for the three known-finding classes. Non-trivial: history has a mutating step; distinct = "
            "distinct history.")
    strength = ("PARTIAL: the mutation model (coq/Model/Mutate.v, Walk.v) is executable and tied to the implementation step by step; proved "
                "(unbounded): (i) on every freshly parsed object, recompute and the decompress-first prologue of insert_rr never reach the "
                "consistency assertion and leave exactly the parse of the pointer-free bytes (C08_recompute_is_fresh_parse, "
                "C08_insert_prologue_is_fresh_parse, C08_decompression_keeps_edns_summary); (ii) from ANY state, a successful recompute or "
                "rename wrapper leaves the bytes that were parsed with that parse's offsets and EDNS fields, cache empty (C08_recompute_view, "
                "C08_rename_view); (iii) insert_rr of a well-formed pointer-free non-OPT record into any record section of a freshly parsed "
                "object leaves a view equal to the fresh parse of the new, accepted bytes in every field (C08_insert_view, with "
                "C09_insert_effect); (iv) HISTORIES (C08_histories, C08_step_keeps_invariant): for every accepted response, any history that "
                "starts with an insertion or recompute and goes on with any sequence of successful insertions of such records, recomputes, "
                "set_tid, set_rcode, set_opcode, set_response(true) and set_flags with QR ends with accepted bytes that are a fixed point of "
                "decompression, the not-compressed flag, and every offset and EDNS field equal to a fresh parse; (v) the same for histories "
                "that also delete non-OPT records and set their TTLs, addresses and owner names through a cursor placed with set_offset + recompute "
                "(C08_histories_with_cursor, every step applicable where applied), and every such history runs to the end with no Panic outcome, "
                "a step that reports an error changing nothing (C08_histories_with_cursor_total); the same from any freshly parsed response "
                "whose first operation is an insertion or a recompute (C08_histories_from_parse_with_cursor, ..._total); the decompress-and-"
                "translate prologue of delete / set_raw_name on any parsed packet succeeds, establishes the invariant and keeps the cursor on "
                "the same record (C08_cursor_decompress), so the first operation of such a history may also be a deletion or an owner-name "
                "change through a cursor on the still-compressed packet (C08_histories_from_parse_any_first); plus frame/shape lemmas "
                "(C08_insert_shape, C08_header_setters_keep_view); with failing steps tolerated every such history runs to the end without a "
                "Panic outcome (C08_histories_total). After a successful whole-packet rename of a packet as the parser returned it the object is "
                "exactly the parse of its new bytes, every field (C08_rename_is_fresh_parse), the same from any object satisfying the invariant; "
                "histories that mix renames at any point with the cursor histories keep the object equal to a fresh parse of its bytes in "
                "one of the two forms (C08_histories_with_rename), and every such history runs to the end with failing steps tolerated: "
                "each applicable step succeeds or reports an error, never a Panic outcome, and leaves an object that is again its own fresh "
                "parse (C08_step_with_rename_total, C08_histories_with_rename_total); the cursor that changed an owner name is the "
                "cursor on the renamed record and advancing it yields the record that followed (C08_cursor_after_rename, "
                "C08_next_after_rename). Synthesised packets: what gen::query returns (class IN) is accepted by the parser, pointer-free, and its view "
                "is that of the parse of its bytes, question = the labels of the text (C08_query_is_fresh_parse; needed the repair a97c4c2 of "
                "/repo, found while proving it; the regenerated inventory LabelBytes ties the byte tests of the text conversion and of the "
                "parser to the model). Operations that move the cursor (TTL / address / name setters, deletion, "
                "cursor decompression), insertion of OPT records or of a question, and histories on synthesised objects are decided each run "
                "by the correspondence plus the fresh-parse oracle on every step of every history.")

    def gen(self, rng, tier):
        n = 500 if tier == "quick" else 80000
        cases = []
        for i in range(n):
            first, a, flags = self.base(rng)
            bld = H.Builder(rng, a, flags)
            fam = "general"
            r = rng.random()
            nsteps = rng.randint(1, 6)
            if first.startswith("E,") and rng.random() < 0.7:
                bld.second_question_op()
            for _ in range(nsteps):
                self.random_step(rng, bld, W_GENERAL)
            if r < 0.04:
                self.random_step(rng, bld, {"qdelete": 1})
                fam = "class-no-question"
            elif r < 0.08:
                bld.flags.add("allow-qr-gating")
                self.random_step(rng, bld, {"qr-break": 1, "insert": 1})
                fam = "class-qr-gating"
            elif r < 0.12:
                self.random_step(rng, bld, {"opt-ttl": 1})
                fam = "class-opt-ttl"
            cases.append(self.finish(i, first, bld, fam))
        cases += self.data_pointer_family(rng, len(cases))
        cases += self.special_qtype_family(rng, len(cases))
        cases += self.requestion_family(rng, len(cases))
        cases += self.inflating_family(rng, len(cases), tier)
        cases += self.query_bytes_family(rng, len(cases), tier)
        return cases


class C09(HistProp):
    id = "C09"
    clauses = {"effect", "walk", "edns"}
    rule = ("as C08's histories, but the oracle is the abstract message model: before and after every operation the bytes are decoded "
            "independently and compared (names case-insensitively) with the abstract effect - set name replaces only that owner name, delete "
            "removes only that record and lowers only its count, insert appends at the end of the chosen section, TTL/address setters change "
            "only that field; every other record, their order, header fields and EDNS data stay equal; the observations of each walk (which "
            "record a cursor designates before and after each action) must match the abstract walk. Non-trivial/distinct as C08.")
    strength = ("PARTIAL: proved in full for one operation on a freshly parsed object (C09_insert_effect, unbounded over accepted packets, "
                "sections and well-formed pointer-free non-OPT records): a successful insert_rr leaves the pointer-free encoding of the same "
                "question and records with the new record appended at the end of the chosen section and only that count incremented; those "
                "bytes are accepted, read declaratively as exactly that, and the object's view equals their fresh parse in every field; "
                "records of accepted packets are such records (C09_accepted_records_insertable). The TTL setter from any state satisfying the "
                "C08 invariant, cursor on a non-OPT record: a successful set_rr_ttl keeps the invariant and the reading is the old one with "
                "exactly that TTL replaced, without any hypothesis on names (C09_set_ttl_on_decompressed). Deletion from any such state, cursor "
                "on a non-OPT record of any record section: a successful delete keeps the invariant, the three record lists are the old "
                "ones with exactly that record removed, only that section's count is lowered, the flag word stays "
                "(C09_delete_on_decompressed). The owner-name setter from any such state, any byte string as the name: a successful "
                "set_raw_name replaces exactly that record's owner labels by the labels the checker accepted (growing, shrinking or equal "
                "length), every other record, the counts and the flag word stay, the invariant is kept (C09_set_name_on_decompressed). The "
                "address setter from any such state: success means an A record given 4 bytes or an AAAA record given 16, and exactly that "
                "record's data is replaced (C09_set_ip_on_decompressed). Deletion on a packet as the parser returned it, compressed or not: "
                "the prologue translates the cursor to the same record of the pointer-free packet, the deletion removes exactly that record "
                "(C09_delete_on_parsed_packet), and the owner-name setter there replaces exactly that record's labels "
                "(C09_set_name_on_parsed_packet). Further lemmas: C09_insert_appends (bytes after a successful insert = bytes before with the record spliced at the "
                "end of the section, one count incremented), C09_set_ttl_frame (only 4 bytes change), C09_set_ttl_effect (on a section that reads "
                "declaratively as records l, after set_rr_ttl t on the k-th cursor the section walk returns the views of l with the k-th TTL "
                "replaced by t and nothing else changed, PROVIDED no owner name of the section is read through the 4 bytes written; "
                "C09_set_ttl_without_it_refuted shows the proviso is necessary - known finding data-pointer). Insertion from any state satisfying the C08 invariant appends the record to the reading "
                "(C09_insert_on_decompressed); a successful whole-packet rename on a packet as the parser returned it leaves an object whose "
                "packet reads as the renamed message up to case, counts kept, cursor untouched (C09_rename_effect; from any object satisfying the invariant: C09_rename_on_decompressed). The refinement of the other "
                "operations to the abstract message operations is decided each run by the correspondence and the abstract-effect oracle.")

    def gen(self, rng, tier):
        n = 500 if tier == "quick" else 80000
        cases = []
        for i in range(n):
            first, a, flags = self.base(rng, kind=rng.choice(["parsed"] * 8 + ["query", "empty-q"]))
            bld = H.Builder(rng, a, flags)
            if first.startswith("E,"):
                bld.second_question_op()
            for _ in range(rng.randint(1, 4)):
                self.random_step(rng, bld, {"header": 2, "insert": 4, "rename": 2, "walk": 8, "qwalk": 3, "recompute": 1, "getter": 3})
            cases.append(self.finish(i, first, bld, "effects"))
        cases += self.data_pointer_family(rng, len(cases))
        cases += self.special_qtype_family(rng, len(cases))
        cases += self.inflating_family(rng, len(cases), tier)
        cases += self.self_pointer_family(rng, len(cases))
        return cases


class C10(HistProp):
    release_too = True
    generated = ["Constants", "Casts"]
    id = "C10"
    clauses = {"err", "size"}
    rule = ("error-provoking histories: second question, malformed record text (field-wise damaged), invalid / over-long / pointer-bearing "
            "names given to set_raw_name, operations on a deleted record's cursor, single renames / deletions / TTL writes on question-less objects, renames that overflow 255 bytes, inserts into packets of "
            "8100-9500 bytes and >65535 bytes (quick: up to 9500) and into compressed packets of 1-2 KB whose pointer-free form has 7900-9000 bytes, at any point of a history; after every failing call the decoded message "
            "must equal the one before the call and the object must still match a fresh parse; no successful insert may exceed 8192 bytes. "
            "Non-trivial: history contains a failing call; distinct = distinct history.")
    strength = ("PARTIAL: proved: C10_insert_bound (a successful insert never yields more than 8192 bytes, whatever the starting length, and "
                "the size test cannot underflow), C10_insert_core_atomic (when the size or count check fails no byte has moved) and "
                "C10_failed_insert_keeps_message (a failing insert_rr on a freshly parsed packet leaves exactly its decompressed form, "
                "accepted and reading as the same message; cursor untouched), which satisfies the C08 invariant "
                "(C10_failed_insert_keeps_invariant); from any state satisfying that invariant a failing insert_rr changes nothing at all "
                "(C10_failed_insert_changes_nothing) and histories over insert_rr / recompute / the header setters with failing steps "
                "tolerated run to the end without a Panic outcome and keep the invariant (C08_histories_total). From any such state, cursor on "
                "a non-OPT record of a record section: set_raw_name and set_rr_ip either succeed or report an error with object and cursor "
                "exactly as they were (C10_failed_set_name_changes_nothing, C10_failed_set_ip_changes_nothing), delete and set_rr_ttl cannot "
                "fail (C10_delete_succeeds, C10_set_ttl_succeeds), none has a Panic outcome; histories that include them run to the end "
                "(C08_histories_with_cursor_total). A failing whole-packet rename or recompute leaves object and cursor exactly as they were, any object, any arguments "
                "(C10_failed_rename_changes_nothing, C10_failed_recompute_changes_nothing); on a packet as the parser returned it the rename "
                "succeeds or reports an error, its consistency assertion is unreachable (C10_rename_total, C10_rename_keeps_edns_summary; also from any object satisfying the "
                "invariant: C10_rename_total_on_decompressed). Every operation of the histories that mix renames with the cursor operations, applied to "
                "an object that is its own fresh parse, succeeds or reports an error and leaves such an object again, cursor untouched "
                "(C10_step_with_rename_outcome); the first decompress-first operation on a packet as the parser returned it - recompute, "
                "insertion, deletion or owner-name change through a cursor - succeeds or reports an error and leaves the pointer-free form "
                "with the view of its parse, or the object untouched (C10_first_operation_outcome). Atomicity of the other failing operations (the question, text, "
                "operations that start on a compressed object) is decided each run by the correspondence and the before/after oracle.")

    def gen(self, rng, tier):
        n = 400 if tier == "quick" else 10000
        cases = []
        for i in range(n):
            first, a, flags = self.base(rng, kind=rng.choice(["parsed"] * 8 + ["query"]))
            bld = H.Builder(rng, a, flags)
            for _ in range(rng.randint(1, 5)):
                self.random_step(rng, bld, {"insert-bad": 4, "iq": 3, "rename-overflow": 2, "walk": 6, "insert": 2, "header": 1, "rename": 1})
            cases.append(self.finish(i, first, bld, "errors"))
        # objects without a question (synthesised empty, or question deleted), then records inserted and renamed / deleted one at a time:
        # an operation that reports an error here must not have moved any byte
        k0 = len(cases)
        for i in range(60 if tier == "quick" else 1500):
            first, a, flags = self.base(rng, kind=rng.choice(["empty", "parsed", "query"]))
            bld = H.Builder(rng, a, flags)
            bld.flags.add("allow-qr-gating")
            if a.q is not None:
                bld.question_walk_op("X")
            for _ in range(rng.randint(1, 2)):
                bld.insert_op()
            if rng.random() < 0.5:
                # a whole-packet rename of an object the parser would refuse is itself refused (the renamed packet is parsed
                # again): nothing may have changed, and the object must go on working - recompute, insertions, walks
                tgt = [bld.fresh_label(), b"renamed"]
                src = [b"nomatch", b"example"] if rng.random() < 0.5 else [b"example"]
                bld.steps.append(H.Step("rn,%s,%s,%d" % (hx(G.wire_name(tgt)), hx(G.wire_name(src)), rng.randrange(2)), "rename-refused", None, None, "any"))
                bld.recompute_op()
                if rng.random() < 0.5:
                    bld.insert_op()
            for _ in range(rng.randint(1, 3)):
                bld.walk_op(mode="single", si=rng.randrange(3))
            cases.append(self.finish(k0 + i, first, bld, "no-question"))
        sizes = [8100, 8150, 8180, 8190, 8200, 8500, 9500] if tier == "quick" else [8100, 8150, 8170, 8180, 8185, 8190, 8192, 8200, 8500, 9500, 20000, 66000]
        k = len(cases)
        for sz in sizes:
            for rep in range(3 if tier == "quick" else 8):
                b = big_plain_packet(rng, sz)
                a = H.decode_bytes(b)
                if a is None:
                    continue
                bld = H.Builder(rng, a, set())
                for _ in range(3):
                    bld.insert_op()
                cases.append(self.finish(k, "P," + hx(b), bld, "size-limit"))
                k += 1
                # the question deleted, then a question that does not fit: the refused insertion must leave the counts as they were
                # (the count of the question section is checked and bumped by the same helper: it must not run before the size test)
                if a.q is not None:
                    nm = b".".join([b"q" * 60] * 3 + [b"example", b"com"])
                    if len(b) - (G.wire_len(a.q[0]) + 4) + (G.wire_len(T.expected_labels(nm, None)) + 4) > 8192:
                        bld = H.Builder(rng, a, set())
                        if rng.random() < 0.5:
                            bld.getter_op("q0")
                        bld.question_walk_op("X")
                        bld.steps.append(H.Step("IQ,%s,%d" % (hx(nm), rng.choice([1, 28])), "insert-question-too-large", None, None, "any"))
                        bld.walk_op(si=0, mode="read", incl=True)
                        bld.second_question_op()
                        cases.append(self.finish(k, "P," + hx(b), bld, "size-limit-question"))
                        k += 1
        # records built with RR::new (any data length up to 65535) handed to insert_rr: 8 KB, and around the 16-bit limits of the
        # record's own length (name + 10 + data = 65535, 65536, 65537 ...)
        for rdlen in ([100, 8100, 8192, 30000, 65520, 65522, 65523, 65524, 65535] if tier == "quick" else
                      [0, 1, 100, 8000, 8100, 8170, 8192, 8193, 30000, 65500, 65519, 65520, 65521, 65522, 65523, 65524, 65525, 65530, 65534, 65535]):
            for first in ("P," + hx(BASE_RESPONSE), "P," + hx(big_plain_packet(rng, 8150)) if rdlen > 60000 else "Q,%s,1,7" % hx(b"example.com")):
                sec = rng.choice(["an", "ns", "ar"])
                ops = [first, "v", "fp", "ca", "b", "sp,1", "v", "fp", "ca", "b", "IR,%s,%s,16,%d" % (sec, hx(b"big.example.com"), rdlen), "v", "fp", "ca", "b"]
                st = [H.Step("sp,1", "header", None, None, None, {}), H.Step(ops[10], "insert-too-large" if rdlen > 8000 else "insert", None, None, "any" if rdlen > 8100 else None, {})]
                cases.append(Case("h%d" % k, "\t".join(ops), {"family": "raw-record-size", "steps": st, "a0": None}))
                k += 1
        # an owner-name change through a cursor refused because the packet would pass 65535 bytes - after the cursor has already
        # decompressed the packet: the same cursor is then read again, used for a deletion, and the walk goes on
        qw = G.wire_name([b"example", b"com"]) + struct.pack(">HH", 1, 1)
        for usize in ((65479, 65300, 65530) if tier == "quick" else (65000, 65300, 65400, 65479, 65500, 65520, 65530, 65535)):
            for nlen, tail in ((201, "t.l.c"), (255, "t.l.X"), (120, "l.t.c.M%s.t" % hx(G.wire_name([b"ok"])))):
                n_txt = usize - 79
                pkt = struct.pack(">HHHHHH", 11, 0x8180, 1, 2, 0, 0) + qw + b"\xc0\x0c" + struct.pack(">HHIH", 16, 1, 7, n_txt) + bytes([0x61]) * n_txt + \
                    b"\xc0\x0c" + struct.pack(">HHIH", 1, 1, 9, 4) + b"\xc0\x00\x02\x07"
                big = G.wire_name(G.name_of_wire_len(nlen))
                ops = ["P," + hx(pkt), "v", "fp", "ca", "b", "W,an,0,M%s.%s/*n.t.l" % (hx(big), tail), "v", "fp", "ca", "b", "W,an,1,*n.t.l", "v", "fp", "ca", "b"]
                st = [H.Step(ops[5], "walk-raw", None, None, None, {}), H.Step(ops[10], "walk-raw", None, None, None, {})]
                cases.append(Case("h%d" % k, "\t".join(ops), {"family": "refused-growth", "steps": st, "a0": None}))
                k += 1
        for usz in ([8000, 8100, 8150, 8180, 8192, 8300] if tier == "quick" else [7900, 8000, 8100, 8150, 8170, 8180, 8185, 8190, 8192, 8200, 8300, 9000]):
            for rep in range(3 if tier == "quick" else 8):
                b = big_compressed_packet(rng, usz)
                a = H.decode_bytes(b) if b else None
                if a is None:
                    continue
                bld = H.Builder(rng, a, set())
                for _ in range(2):
                    bld.insert_op()
                cases.append(self.finish(k, "P," + hx(b), bld, "size-limit"))
                k += 1
        return cases

    def nontrivial(self, case, io):
        return hash(case.line) if any(s.expect_err for s in case.meta["steps"]) or case.meta["family"] == "size-limit" else None


class C11(HistProp):
    id = "C11"
    clauses = {"walk", "effect", "view"}
    rule = ("deletion walks: sections of 0..8 uniquely named records (quick: sizes 0..5 with ALL subsets, larger sizes sampled; thorough: all "
            "subsets for every size 0..8), each of the three record sections and the question, compressed and pointer-free packets, with and "
            "without OPT; at every yielded record chosen for deletion: delete, delete again (must report a void record and change nothing), "
            "read the tombstone's offsets; the yielded sequence must equal the abstract walk (restart from the section start after a "
            "deletion), the final section must hold exactly the survivors in order with a matching count, an emptied section reads as absent. "
            "Non-trivial: at least one deletion; distinct = distinct (packet, section, subset).")
    strength = ("proved (unbounded): (i) the abstract machine: for every section and every set of records chosen for deletion the walk with "
                "restart-after-delete terminates within (|D|+1)(n+1) yields, never yields a deleted record again, yields every survivor at "
                "least once and leaves exactly the survivors in order (C11_walk_terminates, C11_walk_exact); (ii) the concrete cursor code "
                "on a decompressed object refines it (Proofs/WalkInv.v): a cursor without offset restarts at the first record of its "
                "section with the current count or ends (C11_cursor_restarts_from_section_start), a cursor on a record advances or ends "
                "(C11_cursor_advances), a delete removes exactly the record under the cursor, voids the cursor, keeps the C08 invariant and "
                "cannot fail (C11_delete_removes_the_record_under_the_cursor, C11_delete_succeeds), a second delete reports a void record "
                "(C11_second_delete_void), an emptied section is absent (C11_section_offsets); composed: the loop next / decide / delete over "
                "a record section returns what the machine returns, other sections untouched (C11_concrete_walk_refines_machine), so from a "
                "fresh cursor it terminates with exactly the survivors, each yielded (C11_concrete_walk_exact), for every decision that "
                "depends only on the record under the cursor and spares OPT (such decisions exist: C11_delete_everything_but_opt); the same "
                "from the object as the parser returned it, compressed or not (C11_walk_on_any_object, C11_delete_on_any_object, "
                "C11_parsed_packets_are_such_objects): the first deletion runs the decompress-and-translate prologue, which lands on the "
                "same record of the pointer-free packet; the ordinary next(), which steps over the OPT record, yields the next record other "
                "than OPT (C11_next_skips_opt) and the loop with it refines the machine on the section's records other than OPT "
                "(C11_walk_with_next_refines_machine, C11_walk_with_next_exact). PARTIAL: the question section is decided each run by the "
                "correspondence (with all subsets of small record sections as validation of the model).")

    def gen(self, rng, tier):
        import itertools
        cases = []
        k = 0
        maxn = 5 if tier == "quick" else 8
        for n in range(0, 9):
            subsets = list(itertools.chain.from_iterable(itertools.combinations(range(n), r) for r in range(n + 1)))
            if n > maxn:
                subsets = rng.sample(subsets, 24)
            for sub in subsets:
                si = rng.randrange(3)
                layout = rng.choice(["none", "greedy", "chain"])
                q = [b"zone", b"example"]
                recs = []
                for j in range(n):
                    t = rng.choice([1, 1, 28, 2, 15, 16, 0])
                    name = [b"r%d" % j] + q
                    if t == 0:
                        # a type the library gives no meaning to, with data that looks like a name or like "2 bytes + a name": it must
                        # survive the decompression a deletion triggers byte for byte
                        t = rng.choice([3, 4, 7, 8, 9, 14, 17, 18, 21, 24, 26, 33, 36, 99, 250, 255, 256, 65535])
                        rd = ("raw", rng.choice([b"\x03xyz", b"\x00\x01\x00\xde\xad\xbe", b"\xc0\x0c", b"\x00\x05\xc0\x0c", b"\x03www\xc0\x0c\xff", b"", b"\xc0"]))
                    elif t == 1:
                        rd = ("raw", bytes([10, 0, 0, j]))
                    elif t == 28:
                        rd = ("raw", bytes(15) + bytes([j]))
                    elif t == 2:
                        rd = ("name", [b"ns%d" % j] + q)
                    elif t == 15:
                        rd = ("mx", j, [b"mx"] + q)
                    else:
                        rd = ("raw", b"\x03abc")
                    recs.append(G.RR(name, t, 1, 100 + j, rd))
                secs = [[], [], []]
                secs[si] = recs
                other = [G.RR([b"other"] + q, 1, 1, 7, ("raw", b"\1\2\3\4"))] if rng.random() < 0.5 else []
                secs[(si + 1) % 3] = other
                if rng.random() < 0.5:
                    secs[2] = list(secs[2])
                    secs[2].insert(rng.randint(0, len(secs[2])), G.RR([], 41, 1232, 0x8000, ("opt", [(10, b"ab")] if rng.random() < 0.5 else [])))
                b, _ = G.encode(rng, G.Msg(rng.getrandbits(16), 0x8180, q, 1, 1, an=secs[0], ns=secs[1], ar=secs[2]), layout)
                a = H.decode_bytes(b)
                if a is None:
                    continue
                bld = H.Builder(rng, a, set())
                tags = [id(r) for r in bld.a.secs[si] if r.t != G.T_OPT]
                dset = set(tags[j] for j in sub if j < len(tags))
                bld.walk_op(si=si, mode="delete", incl=rng.random() < 0.5, delete_set=dset)
                bld.walk_op(si=si, mode="read", incl=True)
                cases.append(self.finish(k, "P," + hx(b), bld, "delete-%d" % n))
                k += 1
        # the question
        for layout in ("none", "greedy"):
            for _ in range(6):
                b, _, _ = G.rand_valid_packet(rng, layout=layout)
                a = H.decode_bytes(b)
                if a is None:
                    continue
                bld = H.Builder(rng, a, set())
                bld.question_walk_op("X")
                bld.question_walk_op("read")
                cases.append(self.finish(k, "P," + hx(b), bld, "delete-question"))
                k += 1
        # the question of an object that an earlier operation already brought to pointer-free form (a deletion elsewhere, a rename,
        # an insertion, in-place decompression), and of synthesised queries
        for i in range(24 if tier == "quick" else 6000):
            first, a, flags = self.base(rng, kind=rng.choice(["parsed", "parsed", "parsed", "query"]))
            bld = H.Builder(rng, a, flags)
            pre = rng.choice(["delete", "rename", "insert", "V", "none"])
            nonempty = [si for si in range(3) if any(r.t != G.T_OPT for r in bld.a.secs[si])]
            if pre == "delete" and nonempty:
                si = rng.choice(nonempty)
                tags = [id(r) for r in bld.a.secs[si] if r.t != G.T_OPT]
                bld.walk_op(si=si, mode="delete", incl=False, delete_set={rng.choice(tags)})
            elif pre == "rename":
                bld.rename_op()
            elif pre == "insert":
                bld.flags.add("allow-qr-gating")
                bld.insert_op()
            elif pre == "V" and nonempty:
                bld.walk_op(si=rng.choice(nonempty), mode="uncompress")
            if rng.random() < 0.6:
                bld.getter_op(rng.choice(["q0", "q1"]))      # the question cache is filled before the question goes away
            bld.question_walk_op("X")
            for g in rng.sample(["q0", "q1", "q2", "qt"], 2):    # an emptied section reads as absent through every getter
                bld.getter_op(g)
            bld.question_walk_op("read")
            # a deleting walk over a record section of the object that now has no question
            nonempty = [si for si in range(3) if any(r.t != G.T_OPT for r in bld.a.secs[si])]
            if nonempty and rng.random() < 0.6:
                si = rng.choice(nonempty)
                tags = [id(r) for r in bld.a.secs[si] if r.t != G.T_OPT]
                bld.walk_op(si=si, mode="delete", incl=rng.random() < 0.5, delete_set={rng.choice(tags)})
            for si in range(3):
                bld.walk_op(si=si, mode="read", incl=True)
            cases.append(self.finish(k, first, bld, "delete-question-after-" + pre))
            k += 1
        # deleting from a walk after the object was brought to pointer-free form and then renamed as a whole (the rename compresses
        # again: whether the cursor code knows is decided by a flag that three different operations have to keep right)
        for i in range(40 if tier == "quick" else 6000):
            first, a, flags = self.base(rng, kind="parsed")
            bld = H.Builder(rng, a, flags)
            nonempty = [si for si in range(3) if any(r.t != G.T_OPT for r in bld.a.secs[si])]
            if not nonempty:
                continue
            # (an insertion into a query is left out: answer / authority records while QR = 0 are the known finding qr-gating, and the
            # rename that follows would fail on them)
            pre = rng.choice(["delete", "insert", "V", "recompute"] if bld.a.flags & 0x8000 else ["delete", "V", "recompute"])
            if pre == "delete":
                si = rng.choice(nonempty)
                tags = [id(r) for r in bld.a.secs[si] if r.t != G.T_OPT]
                bld.walk_op(si=si, mode="delete", incl=False, delete_set={rng.choice(tags)})
            elif pre == "insert":
                bld.insert_op()
            elif pre == "V":
                bld.walk_op(si=rng.choice(nonempty), mode="uncompress")
            else:
                bld.recompute_op()
            bld.rename_op()
            nonempty = [si for si in range(3) if any(r.t != G.T_OPT for r in bld.a.secs[si])]
            if not nonempty:
                continue
            si = rng.choice(nonempty)
            tags = [id(r) for r in bld.a.secs[si] if r.t != G.T_OPT]
            dset = set(t for t in tags if rng.random() < 0.5) or {tags[0]}
            bld.walk_op(si=si, mode="delete", incl=rng.random() < 0.5, delete_set=dset)
            for sj in range(3):
                bld.walk_op(si=sj, mode="read", incl=True)
            cases.append(self.finish(k, first, bld, "delete-after-%s-rename" % pre))
            k += 1
        return cases

    def nontrivial(self, case, io):
        return hash(case.line) if any("X=OK" in str(s.expect_out) for s in case.meta["steps"]) else None


def plain_messages(rng, n, tier):
    """Pointer-free accepted packets built to stress the suffix dictionary."""
    out = []
    A = lambda nm, k=1: G.RR(nm, 1, 1, 60, ("raw", bytes([10, 0, k & 255, (k >> 8) & 255])))
    q = [b"example", b"com"]
    # random messages, pointer-free
    for _ in range(n):
        m = G.rand_msg(rng, max_rr=rng.choice([2, 4, 8]))
        b, _ = G.encode(rng, m, "none")
        out.append(("random", b))
    # repeated and nested suffixes, depth d
    for d in (2, 5, 10, 15, 16, 17, 20, 30):
        recs = []
        name = list(q)
        for k in range(d):
            name = [b"l%d" % k] + name
            recs.append(A(list(name), k))
        b, _ = G.encode(rng, G.Msg(1, 0x8180, q, 1, 1, an=recs), "none")
        out.append(("nested-%d" % d, b))
    # more than 32 distinct suffixes
    for cnt in (31, 32, 33, 40, 70):
        recs = [A([b"h%d" % k, b"zone%d" % k, b"org"], k) for k in range(cnt)] + [A([b"again", b"zone0", b"org"], 999), A(q, 5)]
        b, _ = G.encode(rng, G.Msg(1, 0x8180, q, 1, 1, an=recs), "none")
        out.append(("many-suffixes-%d" % cnt, b))
    # suffixes around 127 bytes
    for ln in (120, 126, 127, 128, 129, 200):
        nm = G.name_of_wire_len(ln)
        recs = [A(nm, 1), A([b"www"] + nm if G.wire_len([b"www"] + nm) <= 255 else nm, 2), A(nm, 3)]
        b, _ = G.encode(rng, G.Msg(1, 0x8180, q, 1, 1, an=recs), "none")
        out.append(("suffix-len-%d" % ln, b))
    # mixed-case duplicates, every name-bearing type, OPT anywhere
    for pos in range(4):
        ar = [A([b"ns"] + q, 1), A([b"NS", b"Example", b"COM"], 2), A([b"mail", b"EXAMPLE", b"com"], 3)]
        ar.insert(pos, G.RR([], 41, 1232, 0x8000, ("opt", [(10, b"cookie12")])))
        an = [G.RR(q, 15, 1, 5, ("mx", 10, [b"mail"] + q)), G.RR([b"WWW"] + q, 5, 1, 5, ("name", [b"web", b"Example", b"Com"])),
              G.RR(q, 6, 1, 5, ("soa", [b"ns"] + q, [b"admin"] + q, bytes(range(20)))), G.RR([b"ptr"] + q, 12, 1, 5, ("name", q)),
              G.RR([b"d"] + q, 39, 1, 5, ("dname", [b"target", b"net"]))]
        ns_ = [G.RR(q, 2, 1, 5, ("name", [b"ns"] + q))]
        b, _ = G.encode(rng, G.Msg(1, 0x8580, [b"Example", b"COM"], 255, 1, an=an, ns=ns_, ar=ar), "none")
        out.append(("types-opt%d" % pos, b))
    # names beyond offset 16383 (thorough only: the model is quadratic in the packet size)
    if tier == "thorough":
        big = [G.RR(q, 16, 1, 5, ("raw", bytes([255]) + bytes(rng.randint(97, 122) for _ in range(255)))) for _ in range(62)]
        recs = big + [A([b"far", b"away", b"org"], 1), A([b"x", b"far", b"away", b"org"], 2), A(q, 3)]
        b, _ = G.encode(rng, G.Msg(1, 0x8180, q, 1, 1, an=recs), "none")
        out.append(("beyond-16383", b))
    # names that differ only in a byte pair 0x20 apart that is NOT a letter pair (@/`, [/{, ]/}, ^/~, 0xC1/0xE1 ...): they are different
    # names and must never share a pointer; next to them genuine case pairs (A/a, Z/z) that must
    for c in (0x40, 0x5b, 0x5d, 0x5e, 0x41, 0x5a, 0xc1, 0xdf):
        for where in (0, 1):
            l1 = bytes([0x73, c, 0x31]) if where == 0 else bytes([c])
            l2 = bytes([0x73, c ^ 0x20, 0x31]) if where == 0 else bytes([c ^ 0x20])
            recs = [A([l1] + q, 1), A([l2] + q, 2), A([b"www", l2] + q, 3), A([b"www", l1] + q, 4),
                    G.RR(q, 2, 1, 5, ("name", [l1] + q)), G.RR(q, 15, 1, 5, ("mx", 1, [l2] + q))]
            b, _ = G.encode(rng, G.Msg(1, 0x8180, q, 1, 1, an=recs), "none")
            out.append(("near-case-%02x" % c, b))
    # a label-length byte of 32..63 is also a printable character: a name remembered as "labels + pointer" next to a sibling whose first
    # label begins with the character equal to that length byte (Y of n bytes: Y.com, then a<chr(n+1)>.Y.com, then <chr(n)>Y.com as ONE
    # label of n+1 bytes) - a byte-wise tail comparison that ignores label boundaries matches in the middle of a label
    for nlen in (32, 33, 45, 47, 48, 49, 57, 62):
        Y = bytes(97 + (i % 26) for i in range(nlen))
        for tld in ([b"com"], [b"example", b"com"]):
            for order in (0, 1, 2):
                n1 = [Y] + tld
                n2 = [b"a" + bytes([nlen + 1])] + n1
                n3 = [bytes([nlen]) + Y] + tld if nlen + 1 <= 63 else [bytes([nlen]) + Y[:-1]] + tld
                names = [[n1, n2, n3], [n1, n3, n2, n3], [n2, n1, n3, n2]][order]
                recs = [A(list(nm), k) for k, nm in enumerate(names)] + [G.RR(q, 2, 1, 5, ("name", list(n3))), G.RR(q, 15, 1, 5, ("mx", 1, list(n2)))]
                b, _ = G.encode(rng, G.Msg(1, 0x8180, q, 1, 1, an=recs), "none")
                out.append(("length-byte-as-character-%d" % nlen, b))
    # names of equal wire length that differ in where the label boundaries are: "foo-bar.zone" / "foo.bar.zone" (a character where the
    # other has a length byte; also with the character EQUAL to that length byte, so that only the first length byte differs), in both
    # orders, as owners and inside name-bearing data: they are different names and must never share a pointer
    for l1, l2 in ((b"foo", b"bar"), (b"a", b"b"), (b"x" * 30, b"y" * 31), (b"ab", b"cdefgh")):
        for c in (0x2d, len(l2), 0x5f):
            fused = l1 + bytes([c]) + l2
            if len(fused) > 63 or c < 0x20:
                continue
            for order in (0, 1):
                n1, n2 = ([fused] + q, [l1, l2] + q) if order == 0 else ([l1, l2] + q, [fused] + q)
                recs = [A(n1, 1), A(n2, 2), A([b"www"] + n2, 3), A([b"www"] + n1, 4), G.RR(q, 2, 1, 5, ("name", n2)), G.RR(q, 15, 1, 5, ("mx", 1, n1)),
                        G.RR(q, 6, 1, 5, ("soa", n1, n2, bytes(range(20))))]
                b, _ = G.encode(rng, G.Msg(1, 0x8180, n1 if order else q, 1, 1, an=recs), "none")
                out.append(("boundary-shift", b))
    # a new suffix first emitted at output offset exactly T, T around the 14-bit pointer limit, then reused: whole name and inner label
    for T in (range(16381, 16389) if tier == "quick" else range(16370, 16400)):
        for inner in (0, 4):
            R = T - inner - 29
            fill = []
            while R >= 2 * 268:
                fill.append(256)
                R -= 268
            r1 = (R - 24) // 2
            fill += [r1, R - 24 - r1]
            big = [G.RR(q, 16, 1, 5, ("raw", bytes([r - 1]) + bytes(rng.randint(97, 122) for _ in range(r - 1)))) for r in fill]
            recs = big + [A([b"far", b"away", b"org"], 1), A([b"x", b"far", b"away", b"org"], 2), A([b"y", b"away", b"org"], 3), A([b"far", b"away", b"org"], 4), A(q, 5)]
            b, _ = G.encode(rng, G.Msg(1, 0x8180, q, 1, 1, an=recs), "none")
            out.append(("pointer-limit-%d-%d" % (T, inner), b))
    return [(f, b) for (f, b) in out if decode_or_none(b) is not None]


def max_hops(m):
    h = m.q_hops
    for recs in m.sections:
        for r in recs:
            h = max(h, r.hops)
    return h


class C06(Prop):
    generated = ["Constants", "DictCompare"]
    id = "C06"
    rule = ("CU: Compress::compress then Compress::uncompress of the result, on accepted pointer-free packets: random messages; nested "
            "suffixes of depth 2..30; 31..70 distinct suffixes (table wrap, pinned first entry); suffixes of 120..200 bytes; mixed-case "
            "duplicates; names differing only in a non-letter byte pair 0x20 apart (@/`, [/{, ]/}, ^/~, 0xC1/0xE1); NS/CNAME/PTR/MX/SOA/DNAME data; OPT in every position; a new suffix (whole name or inner label) first emitted at every output offset 16381..16388 (thorough: 16370..16399) and reused afterwards; names beyond offset 16383. Oracle: output accepted, "
            "not longer than the input, same header / record sequence / contents with names equal up to ASCII case and the question name "
            "byte-identical, decompression gives back the input up to name case. Non-trivial: output shorter than input; distinct = "
            "distinct packet.")
    strength = ("proved at packet level, unbounded over accepted packets that decompression leaves unchanged (every accepted pointer-free "
                "packet, by C05): compress succeeds (no error, none of the model's Panic outcomes) and returns a packet no longer than its "
                "input (C06_succeeds_and_never_grows) made of the input's header, the question name byte for byte, the input's question "
                "type and class, and record by record - answers, authority, additional with OPT - an owner name that decodes to the input's "
                "labels up to ASCII case, the input's type / class / TTL bytes, a data-length field equal to the length of what follows, and "
                "the same data, names inside NS / CNAME / PTR / MX / SOA data again decoding to the same labels up to case (C06_content); "
                "names are decoded by a reference decoder that follows any number of strictly backward pointers, is a function of the "
                "offset (C06_reference_decoder_is_a_function) and reads what the parser's name policy reads wherever that policy accepts "
                "(C06_reference_decoder_reads_policy_names) - so every pointer designates, in the output, a name equal up to case to the "
                "suffix it stands for; whenever the parser accepts the output, its declarative reading is the input's up to the case of "
                "names, section by section and record by record, and its decompression is the pointer-free encoding of that reading "
                "(C06_same_message: same records + round trip up to case). Per name: C06_name_emission, C06_dictionary_comparison. "
                "NOT proved, because false: that the parser always accepts the output - nested suffixes can build chains of more than 16 "
                "pointers (known finding chain-depth, reported each run from a generated witness); the theorem C06_same_message has the "
                "acceptance as a hypothesis. Tie to the code: correspondence of the executable compress with Compress::compress plus "
                "the reference-decoder oracle on every generated packet.")
    assumptions = ["bytes < 256", "input is pointer-free (documented precondition: compress panics on an already compressed name)"]

    def gen(self, rng, tier):
        n = 300 if tier == "quick" else 40000
        return [Case("c%d" % i, "CU," + hx(b), {"family": fam, "pkt": b.hex()}) for i, (fam, b) in enumerate(plain_messages(rng, n, tier))]

    def oracle(self, case, io):
        w = no_crash(io)
        if w:
            return "[crash] " + w
        b = bytes.fromhex(case.meta["pkt"])
        m = decode_or_none(b)
        if m is None:
            return None
        o = io[0]
        if not o.startswith("OK:"):
            return "[failed] compression of an accepted pointer-free packet failed: " + o
        c_hex, u_hex = o[3:].split("|")
        c = bytes.fromhex(c_hex)
        mc = decode_or_none(c)
        if mc is None:
            # is it the known chain-depth class?
            try:
                G.decode_ref(c)
            except G.Reject as e:
                if "more than 16 pointers" in str(e):
                    return "[chain-depth] compressed packet needs more than 16 pointer hops for some name and is rejected by the parser"
            except IndexError:
                pass
            return "[not-accepted] compressed packet is not accepted by the parser"
        if len(c) > len(b):
            return "[grew] compressed packet is longer than its input (%d > %d)" % (len(c), len(b))
        if G.message_key(mc, ci=True) != G.message_key(m, ci=True):
            return "[changed] compression changed the message (beyond the case of names)"
        if list(mc.qname) != list(m.qname):
            return "[question-case] the question name is not byte-identical after compression"
        if u_hex.startswith("ERR"):
            return "[roundtrip] decompressing the compressed packet failed: " + u_hex
        mu = decode_or_none(bytes.fromhex(u_hex))
        if mu is None or G.message_key(mu, ci=True) != G.message_key(m, ci=True) or len(bytes.fromhex(u_hex)) != len(b):
            return "[roundtrip] decompressing the compressed packet does not give back the input (up to name case)"
        return None

    def classify(self, case, why):
        return why[1:why.index("]")] if why.startswith("[") else "compress"

    def nontrivial(self, case, io):
        if io and io[0].startswith("OK:"):
            c = io[0][3:].split("|")[0]
            return hash(case.line) if len(c) < len(case.meta["pkt"]) else None
        return None

    def tags(self, case, io):
        return [io[0][:3]] if io else ["noout"]


class C07(Prop):
    generated = ["Constants", "DictCompare"]
    id = "C07"
    rule = ("R: Renamer::rename_with_raw_names on accepted packets (all pointer layouts, OPT anywhere, every name-bearing type) x (target, "
            "source, exact|suffix) with well-formed non-root names: sources taken from the packet's own names at every label depth, case "
            "variants, partial-label near misses, non-matching names, identity (target = source), targets that push a name past 255 bytes; "
            "RR: replace_raw on single names. Oracle: abstract rename on the decoded message (gen/hist.py apply_rename). Non-trivial: the "
            "source matches at least one name; distinct = distinct (packet, names, mode).")
    strength = ("proved for one name, unbounded over all pointer-free names given by their labels and all non-root sources/targets: "
                "replace_raw replaces the trailing labels by the target's labels exactly when they equal the source's labels up to ASCII case "
                "(whole name in exact mode, any label-aligned suffix in suffix mode), fails instead of exceeding 255 bytes, and reports no-match "
                "in every other case (C07_replaces_matching_suffix, C07_keeps_other_names, C07_identity; the byte loops rr_walk / rr_match / "
                "all_eq_ci are characterised in Proofs/RenameSpec.v), plus the shape of every replacement (C07_replace_raw_shape). Proved at "
                "packet level, unbounded over accepted packets (compressed or not) and sources / targets given by labels (C07_packet): the "
                "renamer either reports 'invalid name' or returns the input's header, the question with its name renamed by that rule and "
                "written in full, and record by record - answers, authority, additional with OPT - the owner name renamed, the same type / "
                "class / TTL bytes, a data length equal to the length of what follows, the same data with the names inside NS / CNAME / PTR / "
                "MX / SOA data renamed and every other byte copied; names of the output read by the reference decoder of C06 and compared "
                "up to case; no Panic outcome; the error is reported exactly when the question name, an owner name or a name inside data would exceed 255 "
                "bytes once renamed; whenever the parser accepts the output it reads as the renamed message up to case, section by section, "
                "same counts (C07_same_message). PARTIAL: acceptance of the output has the known finding chain-depth (shared with C06). Tie to the "
                "code: correspondence plus the abstract rename applied to the independently decoded message, on every generated packet.")
    assumptions = ["bytes < 256", "source and target are well-formed pointer-free non-root names (property precondition)"]

    def gen(self, rng, tier):
        n = 400 if tier == "quick" else 40000
        cases = []
        pk = special_valid(rng) + valid_packets(rng, n)
        for fam, b in plain_messages(rng, 20, "quick"):
            m = decode_or_none(b)
            if m is not None:
                pk.append((b, m))
        k = 0
        for (b, m) in pk:
            a = H.amsg_of(m)
            names = [a.q[0]]
            for s in a.secs:
                for r in s:
                    if r.t == G.T_OPT:
                        continue
                    names.append(r.name)
                    if r.rd[0] == "name":
                        names.append(r.rd[1])
                    elif r.rd[0] == "mx":
                        names.append(r.rd[2])
                    elif r.rd[0] == "soa":
                        names += [r.rd[1], r.rd[2]]
            names = [nm for nm in names if len(nm) > 0]
            for rep in range(3):
                sfx = rng.random() < 0.6
                r = rng.random()
                if names and r < 0.7:
                    nm = rng.choice(names)
                    src = list(nm[rng.randrange(len(nm)):]) if sfx else list(nm)
                    if rng.random() < 0.3:
                        src = [bytes(l).swapcase() for l in src]
                    if rng.random() < 0.15 and len(src[0]) > 1:
                        src = [src[0][1:]] + src[1:]  # partial-label near miss
                else:
                    src = [b"no", b"match"]
                r2 = rng.random()
                if r2 < 0.15:
                    tgt = list(src)  # identity
                elif r2 < 0.3:
                    tgt = G.name_of_wire_len(rng.choice([200, 240, 250, 255]))
                else:
                    tgt = [b"new%d" % rep, rng.choice([b"Target", b"net", b"t" * 40])]
                if not all(G._label_ok(l) and len(l) > 0 for l in src + tgt):
                    continue
                cases.append(Case("r%d" % k, "R,%s,%s,%s,%d" % (hx(b), hx(G.wire_name(tgt)), hx(G.wire_name(src)), 1 if sfx else 0),
                                  {"family": "rename", "pkt": b.hex(), "tgt": [x.hex() for x in tgt], "src": [x.hex() for x in src], "sfx": sfx}))
                k += 1
        # packets that already mention the TARGET zone before the first name that matches the source: the suffix dictionary then holds
        # "L.target" when the first rewritten name "..L.source" is emitted, and that name ends in a pointer right after the kept labels
        # (L of one byte, two bytes, several labels; further matches follow as owners and inside NS / MX / SOA data)
        Ar = lambda nm, j=1: G.RR(nm, 1, 1, 60, ("raw", bytes([10, 0, 0, j & 255])))
        for L in ([b"a"], [b"ab"], [b"w", b"a"], [b"7"]):
            for src, tgt in (([b"example", b"com"], [b"zzz", b"org"]), ([b"example", b"com"], [b"example", b"net"]), ([b"com"], [b"net"])):
                for layout in ("none", "greedy"):
                    for qname in (L + tgt, [b"x"] + L + tgt, L + src):
                        an = [Ar([b"y"] + L + tgt, 1), Ar([b"x"] + L + src, 2), Ar(L + src, 3), Ar([b"b"] + L + src, 4),
                              G.RR(src, 2, 1, 5, ("name", [b"ns"] + L + src)), G.RR(L + src, 15, 1, 5, ("mx", 10, [b"mail"] + L + src)),
                              G.RR(src, 6, 1, 5, ("soa", [b"ns"] + L + src, [b"adm"] + L + tgt, bytes(range(20))))]
                        rng.shuffle(an) if rng.random() < 0.3 else None
                        b, _ = G.encode(rng, G.Msg(rng.getrandbits(16), 0x8180, qname, 1, 1, an=an), layout)
                        if decode_or_none(b) is None:
                            continue
                        for sfx in (True, False):
                            cases.append(Case("r%d" % k, "R,%s,%s,%s,%d" % (hx(b), hx(G.wire_name(tgt)), hx(G.wire_name(src)), 1 if sfx else 0),
                                              {"family": "rename", "pkt": b.hex(), "tgt": [x.hex() for x in tgt], "src": [x.hex() for x in src], "sfx": sfx}))
                            k += 1
        # replace_raw on single names
        for i in range(300 if tier == "quick" else 5000):
            nm = G.rand_name(rng, None, 5)
            nm = [l for l in nm if G._label_ok(l)]
            if not nm:
                continue
            sfx = rng.random() < 0.5
            src = list(nm[rng.randrange(len(nm)):]) if rng.random() < 0.7 else [b"zz"]
            tgt = [b"t", b"example"] if rng.random() < 0.8 else G.name_of_wire_len(250)
            cases.append(Case("rr%d" % i, "RR,%s,%s,%s,%d" % (hx(G.wire_name(nm)), hx(G.wire_name(tgt)), hx(G.wire_name(src)), 1 if sfx else 0),
                              {"family": "replace_raw", "nm": [x.hex() for x in nm], "tgt": [x.hex() for x in tgt], "src": [x.hex() for x in src], "sfx": sfx}))
        # partial-label near misses in which the byte just before the look-alike tail equals the length byte the source starts with
        # (a comparison that starts at the byte offset `len(name) - len(source)` without walking the labels is fooled exactly there)
        k = len(cases)
        for n in range(1, 63):
            L = bytes(rng.choice(b"abcdefghijklmnopqrstuvwxyz0123456789") for _ in range(n))
            for pre in ([b""] if n == 62 else [b"", b"v"]):
                if len(pre) + 1 + n > 63:
                    continue
                lab = pre + bytes([n]) + L
                for front in ([], [b"w"]):
                    nm = front + [lab, b"example"]
                    src = [L, b"example"]
                    for tgt in ([bytes(reversed(L)), b"example"], [b"t", b"net"]):
                        cases.append(Case("rr%d" % k, "RR,%s,%s,%s,1" % (hx(G.wire_name(nm)), hx(G.wire_name(tgt)), hx(G.wire_name(src))),
                                          {"family": "replace_raw", "nm": [x.hex() for x in nm], "tgt": [x.hex() for x in tgt], "src": [x.hex() for x in src], "sfx": True}))
                        k += 1
        return cases

    def oracle(self, case, io):
        w = no_crash(io)
        if w:
            return "[crash] " + w
        tgt = [bytes.fromhex(x) for x in case.meta["tgt"]]
        src = [bytes.fromhex(x) for x in case.meta["src"]]
        sfx = case.meta["sfx"]
        o = io[0]
        if case.meta["family"] == "replace_raw":
            nm = [bytes.fromhex(x) for x in case.meta["nm"]]
            new, over = H.replace_name(nm, tgt, src, sfx)
            changed = [bytes(x).lower() for x in new] != [bytes(x).lower() for x in nm] or (tgt == src and H.replace_name(nm, [b"\1"], src, sfx)[0] != nm)
            matched = H.replace_name(nm, [b"@@"], src, sfx)[0] != nm
            if not matched:
                exp = "OK:none"
            elif over:
                exp = "ERR"
            else:
                exp = "OK:" + hx(G.wire_name(new))
            if (exp == "ERR" and not o.startswith("ERR")) or (exp != "ERR" and o.lower() != exp.lower()):
                return "[replace_raw] got %s, expected %s" % (o[:120], exp[:120])
            return None
        b = bytes.fromhex(case.meta["pkt"])
        m = decode_or_none(b)
        if m is None:
            return None
        a = H.amsg_of(m)
        exp = H.apply_rename(a, tgt, src, sfx)
        if exp is None:
            if not o.startswith("ERR"):
                return "[overflow-accepted] a rewritten name exceeds 255 bytes but renaming returned a packet"
            return None
        if not o.startswith("OK:"):
            return "[failed] renaming failed (%s) although no rewritten name exceeds 255 bytes" % o
        r = bytes.fromhex(o[3:])
        mr = decode_or_none(r)
        if mr is None:
            try:
                G.decode_ref(r)
            except G.Reject as e:
                if "more than 16 pointers" in str(e):
                    return "[chain-depth] renamed packet needs more than 16 pointer hops for some name and is rejected by the parser"
            except IndexError:
                pass
            return "[not-accepted] renamed packet is not accepted by the parser"
        if H.amsg_of(mr).key(ci=True) != exp.key(ci=True):
            return "[effect] renamed packet does not decode to the abstractly renamed message"
        return None

    def classify(self, case, why):
        return why[1:why.index("]")] if why.startswith("[") else "rename"

    def nontrivial(self, case, io):
        return hash(case.line)

    def tags(self, case, io):
        return [io[0][:3]] if io else ["noout"]


class C15(HistProp):
    id = "C15"
    generated = ["Constants", "FnTable"]
    clauses = {"view"}
    rule = ("hook scripts: the history generator of C08 restricted to what the C table offers (set_flags/rcode/opcode, add_to_*, "
            "rename_with_raw_names, section callbacks with name / rr_type / rr_class / rr_ttl / set_rr_ttl / rr_ip / set_rr_ip (A/AAAA only) / "
            "set_raw_name / set_name with default zone / delete, raw_packet with ample and with too small capacity, question, "
            "raw_name_from_str, iter_edns), issued through the real FnTable by a C driver compiled with the system C compiler against the "
            "SHIPPED c_hook.h; every out-buffer sits flush against a PROT_NONE guard page and is pre-filled with a canary. Each facade "
            "observation must equal the native model's; after every step the object must still match a fresh parse. Non-trivial: script "
            "mutates the packet through the table; distinct = distinct script.")
    strength = ("PARTIAL: proved/decided in Coq: abi_table_match on the regenerated Rust table and C header (entries, order, ABI classes, "
                "repr(C), capacities, ABI version), exactly 4 or 16 address bytes, converted names within 256 bytes, packets copied out "
                "only within the stated capacity (C15_*). That each unsafe table entry behaves as the native operation and stays inside the "
                "caller's buffers is validated by the C driver with guard pages, not proved; panics crossing the FFI boundary and UB inside "
                "the unsafe blocks are outside what a Coq model can express.")
    assumptions = ["documented preconditions: valid pointers and stated capacities, accessors on live cursors only, rr_ip/set_rr_ip only on "
                   "A/AAAA with matching length, NUL-terminated UTF-8 record text",
                   "the C driver is compiled by the system C compiler (cc) against /repo/src/bin/c_hook/c_hook.h"]

    def to_facade(self, st):
        """Facade form of a native step, or None when the table has no such entry."""
        f = st.op.split(",")
        if f[0] in ("sf", "sr", "so"):
            return "F," + st.op
        if f[0] == "I":
            return "F," + st.op
        if f[0] == "rn":
            return "F," + st.op
        if f[0] == "W" and f[1] in ("an", "ns", "ar") and f[2] == "0":
            return "F,W,%s,%s" % (f[1], f[3])
        return None

    def gen(self, rng, tier):
        n = 300 if tier == "quick" else 40000
        cases = []
        for i in range(n):
            first, a, flags = self.base(rng, kind="parsed")
            bld = H.Builder(rng, a, flags)
            ops = [first, "v", "fp", "ca", "b"]
            steps = []
            for _ in range(rng.randint(1, 5)):
                k = rng.choice(["header", "insert", "insert-bad", "rename", "walk", "walk", "walk", "getter"])
                before = len(bld.steps)
                if k == "walk":
                    bld.walk_op(mode="mixed", incl=False, c_safe=True)
                elif k == "getter":
                    ops += [rng.choice(["F,g", "F,fq", "F,we", "F,b", "F,b,%d" % rng.choice([0, 11, 50, 200, 8192]),
                                        "F,Z," + hx(T.dotted(T.rand_hostname(rng))), "F,Z," + hx(b"a..b")])]
                    continue
                else:
                    self.random_step(rng, bld, {k: 1})
                for st in bld.steps[before:]:
                    fop = self.to_facade(st)
                    steps.append(st)
                    ops += [fop if fop is not None else st.op, "v", "fp", "ca", "b"]
            ops += ["F,b", "F,g"]
            cases.append(Case("f%d" % i, "\t".join(ops), {"family": "hook-script", "steps": [], "nsteps": len(steps)}))
        # addresses of every kind address libraries treat specially, read and rewritten through the table (always present: the random
        # scripts only sometimes draw such a record)
        v4s = [bytes(x) for x in ([0, 0, 0, 0], [127, 0, 0, 1], [255, 255, 255, 255], [10, 0, 0, 1], [224, 0, 0, 1], [169, 254, 1, 1], [192, 0, 2, 1])]
        v6s = [b"\0" * 10 + b"\xff\xff" + v4s[6], b"\0" * 12 + v4s[3], b"\0" * 16, b"\0" * 15 + b"\1", bytes.fromhex("0064ff9b") + b"\0" * 8 + v4s[6],
               bytes.fromhex("fe80") + b"\0" * 10 + v4s[5], bytes.fromhex("ff02") + b"\0" * 13 + b"\1", b"\0" * 10 + b"\xff\xff" + v4s[1], b"\xff" * 16]
        qn = [b"addr", b"example"]
        for si, secname in enumerate(("an", "ns", "ar")):
            recs = [G.RR([b"h%d" % j] + qn, 1, 1, 30 + j, ("raw", a4)) for j, a4 in enumerate(v4s)] + \
                   [G.RR([b"g%d" % j] + qn, 28, 1, 40 + j, ("raw", a6)) for j, a6 in enumerate(v6s)]
            secs = [[], [], []]
            secs[si] = recs
            for layout in ("none", "greedy"):
                b, _ = G.encode(rng, G.Msg(21, 0x8180, qn, 1, 1, an=secs[0], ns=secs[1], ar=secs[2]), layout)
                ops = ["P," + hx(b), "v", "fp", "ca", "b", "F,W,%s,*n.t.i" % secname, "v", "fp", "ca", "b",
                       "F,W,%s,i.A%s.i/i.A%s.i/*i" % (secname, hx(v4s[2]), hx(v4s[0])), "v", "fp", "ca", "b", "F,W,%s,*i" % secname, "v", "fp", "ca", "b"]
                cases.append(Case("f%d" % len(cases), "\t".join(ops), {"family": "special-addresses", "steps": [], "nsteps": 3}))
        # set_name through the table: text name + optional default zone (absolute names ignore the zone; relative ones get it appended),
        # short and long (the conversion's 253-byte limit applies to what is actually encoded)
        zone_l = [b"example", b"com"]
        zone = G.wire_name(zone_l)
        def long_name(n, trailing):
            labels = []
            while n > 0:
                k = min(50, n)
                if n - k == 1:
                    k -= 1
                labels.append(bytes(rng.choice(b"abcdefghij") for _ in range(k)))
                n -= k + 1
            return T.dotted(labels, trailing)
        texts = [T.dotted(T.rand_hostname(rng), tr) for tr in (False, True) for _ in range(6 if tier == "quick" else 200)]
        texts += [long_name(n, tr) for n in (200, 230, 238, 239, 240, 241, 244, 250, 251, 252, 253) for tr in (False, True)]
        for j, txt in enumerate(texts):
            for z in (None, zone):
                labels = T.expected_labels(txt, zone_l if z else None)
                ok = T.ldh_name_ok(txt) and G.wire_len(labels) <= 253
                ops = ["P," + hx(BASE_RESPONSE), "v", "fp", "ca", "b", "F,W,an,n.N%s:%s.n/*n" % (hx(txt), hx(z) if z else "-"), "v", "fp", "ca", "b"]
                cases.append(Case("f%d" % len(cases), "\t".join(ops),
                                  {"family": "set-name", "steps": [], "nsteps": 1, "setname": [txt.hex(), bool(z), ok, hx(name_text(labels)).lower() if ok else None]}))
        # copy-out of packets around the capacity of the buffer the shipped header gives hooks (8192 bytes), under several stated capacities
        for size in (8190, 8191, 8192, 8193, 9000):
            b = exact_packet(rng, size)
            ops = ["P," + hx(b), "v", "fp", "ca", "b", "F,b"] + ["F,b,%d" % c for c in (8190, 8191, 8192)] + ["F,g", "F,fq"]
            cases.append(Case("f%d" % len(cases), "\t".join(ops), {"family": "copy-out-capacity", "steps": [], "nsteps": 1}))
        return cases

    def oracle(self, case, io):
        w = no_crash(io)
        if w:
            if self.header_pointer_case(case, op_index=(len(io) - 1) if io else len(case.line.split("\t"))):
                return "[header-pointer] a header setter rewrote bytes that a name of the packet is read through; afterwards: " + w
            return "[crash] " + w + " (a table call made as the shipped header declares it crashed the process)" if io is None else "[crash] " + w
        ops = case.line.split("\t")
        last_b = None
        fails = []
        sn = case.meta.get("setname")
        if sn:
            txt, hasz, ok, expn = sn
            o = io[5] if len(io) > 5 else ""
            toks = o[2:-1].split(" ") if o.startswith("W[") else []
            mtok = [t for t in toks if t.startswith("M=")]
            ntok = [t for t in toks if t.startswith("n=")]
            if ok and (not mtok or mtok[0] != "M=OK"):
                return "[facade] set_name(%r%s) through the table returned %s; the native conversion accepts this name (absolute names ignore the default zone)" % (
                    bytes.fromhex(txt)[:40], ", zone example.com" if hasz else "", (mtok or ["?"])[0])
            if ok and (len(ntok) < 2 or ntok[-1].lower() != "n=" + expn):
                return "[facade] after set_name(%r%s) the record is named %s, expected %s" % (bytes.fromhex(txt)[:40], ", zone" if hasz else "", (ntok or ["?"])[-1][:80], expn[:80])
        for i, (op, o) in enumerate(zip(ops, io)):
            if op.startswith("F,"):
                for bad in ("!wrote", "BADLEN", "NOT-TERMINATED", "=RC", "RC", "ABI-VERSION", "nodesc", "emptydesc", "unterminated", "exceeds-capacity", "BADOP"):
                    if bad in o and not o.startswith("OK:"):
                        if self.header_pointer_case(case, op_index=i):
                            return "[header-pointer] a header setter rewrote bytes that a name of the packet is read through; afterwards: facade op %s: %s" % (op[:60], o[:120])
                        if self.data_pointer_case(case, op_index=i):
                            return "[data-pointer] an in-place TTL/address write changed bytes that a name of the packet is read through; afterwards: facade op %s: %s" % (op[:60], o[:120])
                        return "[buffer] facade op %s: %s" % (op[:60], o[:200])
                if (op == "F,b" or op.startswith("F,b,")) and last_b is not None and last_b.startswith("b="):
                    cap = int(op[4:]) if op.startswith("F,b,") else 8192
                    plen = (len(last_b) - 2) // 2
                    want = last_b if plen <= cap else "b=TOOBIG"
                    if o != want:
                        return "[facade] raw_packet with a stated capacity of %d on a %d-byte packet: got %s, expected %s" % (cap, plen, o[:60], want[:60])
            if op == "b":
                last_b = o
            if op == "fp" and i >= 1:
                self.check_state(fails, "after op %d (%s)" % (i - 2, ops[i - 2][:60]), io[i - 1], o, io[i + 1] if i + 1 < len(io) else "ca=-",
                                 io[i + 2][2:] if i + 2 < len(io) and io[i + 2].startswith("b=") else None)
        known = known_classes(self.id)
        if fails and self.header_pointer_case(case, op_index=len(ops)):
            return "[header-pointer] a header setter rewrote bytes that a name of the packet is read through; afterwards: [%s] %s" % fails[0]
        for cls, txt in fails:
            if cls not in known and cls not in ("no-question", "qr-gating"):
                return "[%s] %s" % (cls, txt)
        return None

    def nontrivial(self, case, io):
        return hash(case.line) if case.meta.get("nsteps", 0) > 0 else None

    def tags(self, case, io):
        return ["ops=%d" % min(40, len(case.line.split("\t")))]

    def meta_to_json(self, meta):
        return dict(meta, steps=[])

    def meta_from_json(self, meta):
        return dict(meta, steps=[])

    def shrink(self, case, still_fails):
        ops = case.line.split("\t")
        for n in range(6, len(ops)):
            c2 = Case(case.id, "\t".join(ops[:n]), case.meta)
            try:
                if still_fails(c2):
                    return c2
            except Exception:
                pass
        return case


class C16(Prop):
    id = "C16"
    generated = ["Constants", "Ambient"]
    rule = ("H: barrier-scripted interleavings replayed on real threads: each step is either a failing C-table call on thread t "
            "(raw_name_from_str with four kinds of bad names, add_to_answer with bad text, a second question, a rename to a name starting with NUL - the two longest descriptions the table produces: seven distinct messages, chosen so that concurrent "
            "threads never hold the same message) or error_description on thread t; quick: ALL interleavings of 2 threads x 3 steps and a "
            "random sample of 3-4 thread schedules of 6-14 steps; three schedules with 70, 140 and 4100 live threads (thorough: up to 8200); thorough adds all interleavings of 3 threads x 2 steps and longer random "
            "ones. The strings read must equal the model's. Non-trivial: at least one read happens after a failure of ANOTHER thread that "
            "followed the reader's own failure; distinct = distinct schedule.")
    strength = ("full statement for the model: for every interleaving of any number of threads each read returns the reader's most recent "
                "failure (C16_thread_private, induction over the interleaving); the source declares the slot thread_local "
                "(cerr_is_thread_local on the regenerated inventory). The Rust runtime's thread_local! and real-thread behaviour are "
                "validated by the scripted schedules, not proved.")
    assumptions = ["Rust's thread_local! gives each thread its own RefCell<CErr>", "the description pointer is read on the thread that produced it"]

    def sched(self, rng, nthreads, steps):
        last = {}
        out = []
        for t in steps:
            if t not in last or rng.random() < 0.55:
                others = set(v for u, v in last.items() if u != t)
                kinds = [k for k in range(13) if k not in others]
                k = rng.choice(kinds)
                last[t] = k
                out.append("%d:f%d" % (t, k))
            else:
                out.append("%d:r" % t)
        # every thread that failed reads once at the end
        for t in sorted(last):
            out.append("%d:r" % t)
        return "H,%d,%s" % (nthreads, ".".join(out))

    def gen(self, rng, tier):
        import itertools
        cases = []
        k = 0
        # all interleavings of 2 threads x 3 steps
        for order in set(itertools.permutations([0, 0, 0, 1, 1, 1])):
            cases.append(Case("h%d" % k, self.sched(rng, 2, list(order)), {"family": "2x3-exhaustive"}))
            k += 1
        if tier == "thorough":
            for order in set(itertools.permutations([0, 0, 1, 1, 2, 2])):
                cases.append(Case("h%d" % k, self.sched(rng, 3, list(order)), {"family": "3x2-exhaustive"}))
                k += 1
        for _ in range(60 if tier == "quick" else 12000):
            n = rng.choice([2, 3, 4])
            steps = [rng.randrange(n) for _ in range(rng.randint(6, 14))]
            cases.append(Case("h%d" % k, self.sched(rng, n, steps), {"family": "random-%d" % n}))
            k += 1
        # many threads (a bounded table of slots shared round-robin would wrap): thread 0 fails first, N others fail with other messages,
        # thread 0 reads before and after each of them has read; also N live threads that each fail and read in reverse order
        for n in ((70, 140, 4100) if tier == "quick" else (33, 65, 70, 129, 140, 257, 300, 1025, 4100, 8200)):
            st = ["0:f0"] + ["%d:f%d" % (t, 1 + t % 4) for t in range(1, n)] + ["0:r"] + ["%d:r" % t for t in range(n - 1, 0, -1)] + ["0:r"]
            cases.append(Case("h%d" % k, "H,%d,%s" % (n, ".".join(st)), {"family": "many-threads"}))
            k += 1
        # failing calls made without an error pointer (the bundled C hook does so for most calls) between failures and reads of other
        # threads: such a call must leave every thread's description alone
        for i in range(24 if tier == "quick" else 3000):
            ka, kn, kb = rng.sample(range(13), 3)
            st = ["0:f%d" % ka, "0:n%d" % kn, "1:f%d" % kb, "0:r", "1:r", "1:n%d" % ka, "0:f%d" % kn, "1:r", "0:r"]
            if rng.random() < 0.5:
                st = ["0:f%d" % ka, "1:n%d" % kn, "0:n%d" % kb, "2:f%d" % kb, "1:f%d" % kn, "0:r", "1:r", "2:r"]
            n_thr = 1 + max(int(x.split(":")[0]) for x in st)
            cases.append(Case("h%d" % k, "H,%d,%s" % (n_thr, ".".join(st)), {"family": "null-error-pointer"}))
            k += 1
        # every ordered pair of the thirteen descriptions the failing calls produce: thread 0 fails with one, thread 1 with the other, both
        # read (descriptions kept in a shared table under a key derived from the text collide for particular pairs only)
        for i in range(13):
            for j in range(13):
                if i != j:
                    cases.append(Case("h%d" % k, "H,2,0:f%d.1:f%d.0:r.1:r.0:r" % (i, j), {"family": "pairs"}))
                    k += 1
        # the error slot handed to a failing call still holds the pointer another thread obtained (an out-parameter a C caller did not
        # clear, e.g. a session structure that moved from one thread to another): what the slot held must not matter, including when
        # the new failure has the very text of the one the slot pointed to (step x = such a call)
        for a in range(13):
            for b in range(13):
                if a != b:
                    st = rng.choice([["0:f%d" % a, "1:x%d" % a, "0:f%d" % b, "1:r", "0:r"],
                                     ["0:f%d" % a, "1:x%d" % a, "1:r", "0:f%d" % b, "1:r", "0:r", "1:x%d" % b, "0:f%d" % a, "1:r", "0:r"],
                                     ["0:f%d" % a, "1:x%d" % b, "0:r", "1:r", "2:x%d" % b, "1:f%d" % a, "2:r", "1:r", "0:r"]])
                    n_thr = 1 + max(int(x.split(":")[0]) for x in st)
                    cases.append(Case("h%d" % k, "H,%d,%s" % (n_thr, ".".join(st)), {"family": "handed-slot"}))
                    k += 1
        # the same schedules with every thread carrying the name the runtime gives the initial thread ("main"): what a thread is called
        # must not decide where its description is kept
        for order in list(set(itertools.permutations([0, 0, 0, 1, 1, 1])))[:10]:
            cases.append(Case("h%d" % k, self.sched(rng, 2, list(order)).replace("H,", "HM,", 1), {"family": "threads-named-main"}))
            k += 1
        for _ in range(10 if tier == "quick" else 2000):
            n = rng.choice([2, 3, 4])
            cases.append(Case("h%d" % k, self.sched(rng, n, [rng.randrange(n) for _ in range(rng.randint(6, 12))]).replace("H,", "HM,", 1), {"family": "threads-named-main"}))
            k += 1
        # thread 0 fails and stays alive, n short-lived threads then fail one after the other, thread 0 reads: a table of slots handed out
        # by a wrapping counter of any size up to n is detected (powers of two and their neighbours)
        # (65536+ sequential threads take 10 s here and several times that on a loaded machine: thorough tier and the search only)
        for n in ((300, 4097) if tier == "quick" else (300, 4097, 65535, 65536, 65537, 131073)):
            cases.append(Case("h%d" % k, "HS,%d" % n, {"family": "sequential-threads"}))
            k += 1
        return cases

    def oracle(self, case, io):
        w = no_crash(io)
        if w:
            return w
        o = io[0]
        if case.line.startswith("HS,"):
            exp = "HS[Invalid_name_in_a_DNS_record:_Spurious_dot_in_a_label]"
            return None if o == exp else "thread 0 failed with 'Spurious dot in a label', %s other threads failed afterwards, thread 0 then read %s" % (case.line[3:], o)
        if not o.startswith("H["):
            return "schedule did not complete: " + o
        toks = o[2:-1].split(" ")
        steps = case.line.split(",")[2].split(".")
        texts = ["Invalid_name_in_a_DNS_record:_Spurious_dot_in_a_label", "Invalid_name_in_a_DNS_record:_Label_too_long",
                 "Invalid_name_in_a_DNS_record:_Name_too_long", "Invalid_name_in_a_DNS_record:_Non-ASCII_character_in_a_label", "Parse_error",
                 "Invalid_DNS_packet:_A_DNS_packet_can_only_contain_up_to_one_question",
                 "Invalid_name_in_a_DNS_record:_A_non-empty_name_cannot_start_with_a_NUL_byte",
                 "Invalid_name_in_a_DNS_record:_Empty_name", "Invalid_name_in_a_DNS_record:_Invalid_internal_offset",
                 "Invalid_name_in_a_DNS_record:_Forward/self_reference", "Invalid_name_in_a_DNS_record:_Label_length_too_long",
                 "Invalid_name_in_a_DNS_record:_Out-of-bounds_name", "Invalid_name_in_a_DNS_record:_Unexpected_character_in_name"]
        last = {}
        for st, tok in zip(steps, toks):
            t, a = st.split(":")
            if a[0] == "n":
                if tok != "rc=-1":
                    return "failing table call (no error pointer) returned %s instead of -1" % tok
            elif a[0] in "fx":
                last[t] = texts[int(a[1:]) % 13]
                if tok != "rc=-1":
                    return "failing table call returned %s instead of -1" % tok
            else:
                exp = last.get(t, "nofail")
                if tok != exp:
                    return "thread %s read %r, its most recent failure was %r" % (t, tok, exp)
        return None

    def classify(self, case, why):
        return "cerr"

    def nontrivial(self, case, io):
        if case.line.startswith("HS,"):
            return hash(case.line)
        steps = case.line.split(",")[2].split(".")
        lastfail = {}
        for i, st in enumerate(steps):
            t, a = st.split(":")
            if a[0] in "fx":
                lastfail[t] = i
            elif a[0] == "r" and t in lastfail and any(s.split(":")[0] != t and s.split(":")[1][0] in "fx" for s in steps[lastfail[t] + 1:i]):
                return hash(case.line)
        return None

    def tags(self, case, io):
        if case.line.startswith("HS,"):
            return ["sequential=%s" % case.line[3:]]
        return ["steps=%d" % len(case.line.split(",")[2].split("."))]


class C17(Prop):
    id = "C17"
    generated = ["Constants", "Ambient"]
    rule = ("HP: for each of parse, uncompress, compress, rename and record synthesis: f(x) alone, f(x) after f(y) on the same thread, f(x) "
            "in a context object reused after f(y), and f(x) on 8 threads concurrently with f(y), must all be byte-identical and equal to the "
            "model's f(x). (y, x) pairs are chosen to stress leakage: y fills the 32-entry suffix table / is rejected half-way / caches a "
            "question / shares suffixes with x / is a rename that fails half-way after writing names whose suffixes x shares; every operation is also run after every other kind of operation; HL: f(x) on a fresh thread against f(x) on a thread that ran f(y) once and a small f(z) n times, n around 2^8 and 2^16 (counters and epochs that wrap). Non-trivial: x is accepted and y differs from x; distinct = distinct (f, x, y).")
    strength = ("thin: purity of the model is definitional (C17_amb_independent, C17_history_independent), empty packets differ only in "
                "the transaction id (C17_empty_only_tid_random); the content is the regenerated inventory (ambient_inventory, "
                "dict_fresh_per_call: no static state other than the thread-local C error slot; rng only in ParsedPacket::empty; a fresh "
                "SuffixDict per compress/rename call) plus the validation that the model is the code under sequential and concurrent use.")
    assumptions = ["absence of hidden state is established on a token-level scan of src/**/*.rs (gen/translate.py), not on rustc's view of the program"]

    def gen(self, rng, tier):
        n = 60 if tier == "quick" else 8000
        cases = []
        plain = [b for (_, b) in plain_messages(rng, n, "quick")]
        comp = [b for (b, m) in valid_packets(rng, n)]
        k = 0

        def add(fam, opx, opy):
            nonlocal k
            cases.append(Case("p%d" % k, "HP|%s|%s" % (opx, opy), {"family": fam}))
            k += 1
        for i in range(n):
            x, y = rng.choice(comp), rng.choice(comp)
            add("parse", "P," + hx(x), "P," + hx(y if rng.random() < 0.7 else y[:-3]))
            add("uncompress", "U,%s,12" % hx(x), "U,%s,12" % hx(y))
            x, y = rng.choice(plain), rng.choice(plain)
            add("compress", "C," + hx(x), "C," + hx(y))
            x, y = rng.choice(comp), rng.choice(comp + plain)
            t, s = G.wire_name([b"new", b"name"]), G.wire_name([b"com"])
            add("rename", "R,%s,%s,%s,1" % (hx(x), hx(t), hx(s)), "R,%s,%s,%s,1" % (hx(y), hx(s), hx(t)))
            r1, r2 = T.rand_record(rng), T.rand_record(rng)
            add("synth", "Y," + hx(T.render(rng, r1)), "Y," + hx(T.render(rng, r2) if rng.random() < 0.7 else b"garbage"))
        # y = a rename that fails half-way (a later name would exceed 255 bytes) after names sharing suffixes with x were already written;
        # x = any of the operations on a packet sharing those suffixes; and every operation after every other operation
        A = lambda nm, k=1: G.RR(nm, 1, 1, 60, ("raw", bytes([10, 0, 0, k])))
        for i in range(max(8, n // 4)):
            tld = rng.choice([b"org", b"com", b"net"])
            zone = [b"zone%d" % rng.randrange(3), tld]
            longn = G.name_of_wire_len(rng.choice([240, 245, 249]) - G.wire_len(zone) + 1)
            recs = [A([b"a"] + zone), A([b"mail", b"other", tld], 2), A(longn + zone, 3), A([b"b"] + zone, 4)]
            yb, _ = G.encode(rng, G.Msg(7, 0x8180, [b"a"] + zone, 1, 1, an=recs), rng.choice(["none", "greedy"]))
            if decode_or_none(yb) is None:
                continue
            opy = "R,%s,%s,%s,1" % (hx(yb), hx(G.wire_name([b"a-much-longer-zone-name-than-before", tld])), hx(G.wire_name(zone)))
            xrecs = [A([b"www", b"other", tld]), A([b"mail", b"other", tld], 2), A([b"x"] + zone, 3)]
            xb, _ = G.encode(rng, G.Msg(9, 0x8180, [b"www", b"other", tld], 1, 1, an=xrecs), "none")
            add("compress-after-failed-rename", "C," + hx(xb), opy)
            add("rename-after-failed-rename", "R,%s,%s,%s,1" % (hx(xb), hx(G.wire_name([b"new", tld])), hx(G.wire_name([b"other", tld]))), opy)
            xc, _ = G.encode(rng, G.Msg(9, 0x8180, [b"www", b"other", tld], 1, 1, an=xrecs), "greedy")
            add("uncompress-after-failed-rename", "U,%s,12" % hx(xc), opy)
        # y = an operation on a packet of 33 .. 65 KB (buffers kept between calls only above some capacity), x = a small one
        for size in ((33000, 64700) if tier == "quick" else (16000, 32000, 33000, 34000, 50000, 64700)):
            yb = big_plain_packet(rng, size)
            xb = rng.choice(plain)
            add("small-after-jumbo", "C," + hx(xb), "C," + hx(yb))
            add("small-after-jumbo", "U,%s,12" % hx(rng.choice(comp)), "U,%s,12" % hx(yb))
            add("small-after-jumbo", "R,%s,%s,%s,1" % (hx(xb), hx(G.wire_name([b"new"])), hx(G.wire_name([b"com"]))),
                "R,%s,%s,%s,1" % (hx(yb), hx(G.wire_name([b"new"])), hx(G.wire_name([b"example"]))))
            add("small-after-jumbo", "P," + hx(rng.choice(comp)), "P," + hx(yb))
        # long histories on one thread: f(y) once, f(z) n times with n around 2^8 and 2^16 (generation counters, epochs), then f(x)
        def long(fam, n, opx, opy, opz):
            nonlocal k
            cases.append(Case("p%d" % k, "HL|%d|%s|%s|%s" % (n, opx, opy, opz), {"family": fam}))
            k += 1
        zq, _ = G.encode(rng, G.Msg(3, 0x0100, [b"a", b"org"], 1, 1), "none")
        for n_mid in ((65534, 65535) if tier == "quick" else (254, 255, 256, 257, 65533, 65534, 65535, 65536, 65537, 131070)):
            tld = rng.choice([b"net", b"com", b"info"])
            yb, _ = G.encode(rng, G.Msg(7, 0x8180, [b"www", b"example", b"com"], 1, 1,
                                        an=[A([b"mail", b"test", tld]), A([b"other", b"zone", b"info"], 2)]), "none")
            xb, _ = G.encode(rng, G.Msg(9, 0x8180, [b"a", b"org"], 2, 1,
                                        ns=[G.RR([b"a", b"org"], 2, 1, 60, ("name", [b"ns", b"test", tld]))]), "none")
            long("long-history", n_mid, "C," + hx(xb), "C," + hx(yb), "C," + hx(zq))
            long("long-history", n_mid, "R,%s,%s,%s,1" % (hx(xb), hx(G.wire_name([b"b", b"org"])), hx(G.wire_name([b"a", b"org"]))),
                 "C," + hx(yb), "C," + hx(zq))
            if tier != "quick":
                long("long-history", n_mid, "C," + hx(rng.choice(plain)), "C," + hx(rng.choice(plain)), "C," + hx(zq))
                long("long-history", n_mid, "U,%s,12" % hx(rng.choice(comp)), "U,%s,12" % hx(rng.choice(comp)), "P," + hx(zq))
        # y = x with one small edit (a memo keyed on a lossy normal form of the argument answers x with what it kept for y):
        # record texts with a blank inserted / doubled / removed (inside quoted strings too), a character changed, the case of a letter
        # flipped; packets with one byte changed
        def edit_text(t):
            t = bytearray(t)
            blanks = [i for i, c in enumerate(t) if c in (32, 9)]
            inq, quoted = False, []
            for i, c in enumerate(t):
                if c == 34:
                    inq = not inq
                elif inq and c in (32, 9):
                    quoted.append(i)
            if quoted and rng.random() < 0.7:
                blanks = quoted
            kind = rng.randrange(5) if not quoted else rng.choice([0, 0, 1, 2, 3, 4])
            if kind == 0 and blanks:
                i = rng.choice(blanks)
                t[i:i] = b" "
            elif kind == 1 and blanks:
                i = rng.choice(blanks)
                t[i] = 9 if t[i] == 32 else 32
            elif kind == 2 and len(t) > 2:
                i = rng.randrange(len(t))
                t[i:i] = bytes([rng.choice(b" x1.")])
            elif kind == 3 and len(t) > 2:
                i = rng.randrange(len(t))
                if 65 <= (t[i] & 0xDF) <= 90:
                    t[i] ^= 0x20
                else:
                    t[i] = rng.choice(b"abz09")
            elif len(t) > 2:
                del t[rng.randrange(len(t))]
            return bytes(t)
        for i in range(150 if tier == "quick" else 20000):
            r1 = T.rand_record(rng)
            if rng.random() < 0.5:
                words = [bytes(rng.choice(b"ab c") for _ in range(rng.randint(1, 8))) for _ in range(rng.randint(1, 3))]
                xt = b"%s. %d IN TXT %s" % (rng.choice([b"x", b"txt.example", b"a.b"]), rng.randrange(1000), b" ".join(b'"' + w + b'"' for w in words))
            else:
                xt = T.render(rng, r1)
            add("near-duplicate", "Y," + hx(xt), "Y," + hx(edit_text(xt)))
        for i in range(60 if tier == "quick" else 8000):
            x = rng.choice(comp)
            y = bytearray(x)
            y[rng.randrange(len(y))] ^= 1 << rng.randrange(8)
            add("near-duplicate", "P," + hx(x), "P," + hx(bytes(y)))
            add("near-duplicate", "U,%s,12" % hx(x), "U,%s,12" % hx(bytes(y)))
            x = rng.choice(plain)
            y = bytearray(x)
            y[rng.randrange(12, len(y))] ^= 1 << rng.randrange(8)
            add("near-duplicate", "C," + hx(x), "C," + hx(bytes(y)))
        # set_name through the C function table (text name + raw default zone): pairs whose two arguments concatenate to the same bytes
        # with the boundary between name and zone moved by one, and ordinary near-duplicates
        for i in range(40 if tier == "quick" else 6000):
            lab = bytes(rng.choice(b"abcdefgh") for _ in range(rng.randint(1, 8)))
            L = rng.choice([x for x in range(33, 61) if x + 1 not in (46, 34, 59, 64, 92) and x not in (46, 92)])
            chars = bytes(rng.choice(b"bcd") for _ in range(L))
            zone_tail = bytes([L]) + chars + b"\0"
            # zone 1: one label of L + 1 bytes whose first byte is L; moving its length byte to the end of the text name leaves zone 2
            n1, z1 = lab, bytes([L + 1, L]) + chars + b"\0"
            n2, z2 = lab + bytes([L + 1]), zone_tail
            mk = lambda n, z: "PF,%s,W,an,n.N%s:%s.n/*n" % (hx(BASE_RESPONSE), hx(n), hx(z))
            add("set-name-boundary", mk(n2, z2), mk(n1, z1))
            add("set-name-boundary", mk(n1, z1), mk(n2, z2))
            add("set-name-near", mk(lab, zone_tail), mk(lab + b"x", zone_tail))
        ops = lambda: rng.choice(["P," + hx(rng.choice(comp)), "U,%s,12" % hx(rng.choice(comp)), "C," + hx(rng.choice(plain)),
                                  "R,%s,%s,%s,1" % (hx(rng.choice(comp + plain)), hx(G.wire_name([b"new", b"name"])), hx(G.wire_name([rng.choice([b"com", b"org", b"example"])])))])
        for i in range(n):
            add("mixed", ops(), ops())
        # x = parse + recompute() called directly on a compressed packet B, after y = a decompression (called directly) whose RESULT has
        # exactly the length of B (a buffer handed back by the allocator, a length remembered from the previous call): every B of
        # the pool against decompressions of that length, and against itself
        bylen = {}
        for b in comp + [b for (b, m) in special_valid(random.Random(5))]:
            m = decode_or_none(b)
            if m is not None:
                bylen.setdefault(len(G.encode_plain(m)[0]), []).append(b)
        kk = 0
        for b in comp:
            if decode_or_none(b) is None or G.encode_plain(decode_or_none(b))[0] == b:
                continue
            for a in bylen.get(len(b), [])[:3]:
                add("recompute-after-uncompress", "PR," + hx(b), "U,%s,12" % hx(a))
                kk += 1
            if kk > (200 if tier == "quick" else 20000):
                break
        # a hand-made pair: A decompresses to exactly len(B) bytes
        A_ = lambda nm, k=1: G.RR(nm, 1, 1, 60, ("raw", bytes([10, 0, 0, k])))
        for pad in range(0, 12):
            bq = [b"q" * (1 + pad), b"example", b"com"]
            bb, _ = G.encode(rng, G.Msg(9, 0x8180, bq, 1, 1, an=[A_(bq)]), "greedy")
            target = len(bb)
            for extra in range(0, 40):
                aq = [b"z" * (1 + extra)]
                ab, _ = G.encode(rng, G.Msg(7, 0x8180, aq, 1, 1, an=[A_(aq)]), "greedy")
                if decode_or_none(ab) is not None and len(G.encode_plain(decode_or_none(ab))[0]) == target:
                    add("recompute-after-uncompress", "PR," + hx(bb), "U,%s,12" % hx(ab))
                    break
        # the public name emitter with a caller-owned dictionary (Compress::copy_compressed_name + SuffixDict): a sequence of names
        # through one dictionary, alone and with a second dictionary used on the same thread between the calls - for other names and
        # for the same names (what a dictionary remembers must be its own)
        for i in range(40 if tier == "quick" else 4000):
            tld = rng.choice([b"org", b"com", b"net"])
            zone = [rng.choice([b"example", b"zone", b"test-%d" % rng.randrange(9)]), tld]
            names = [zone] + [[rng.choice([b"www", b"mail", b"a", b"NS1"])] + (zone if rng.random() < 0.8 else [b"other", tld]) for _ in range(rng.randint(1, 5))]
            if rng.random() < 0.2:
                names += [[b"h%d" % j, b"fill%d" % j, b"x%d" % j] for j in range(34)] + [[b"again"] + zone]
            other = rng.choice([[b"another", b"org"], [b"www"] + zone, zone, [b"mail", b"other", tld]])
            cases.append(Case("p%d" % k, "DD,%s,%s" % (".".join(hx(G.wire_name(nm)) for nm in names), hx(G.wire_name(other))), {"family": "two-dictionaries"}))
            k += 1
        return cases

    def oracle(self, case, io):
        w = no_crash(io)
        if w:
            return w
        if case.line.startswith("DD,"):
            if not io[0].startswith("DD:"):
                return "name emission with a caller-owned dictionary did not complete: " + io[0][:200]
            alone, inter = io[0][3:].split("|")
            if alone != inter:
                return "what a dictionary emits depends on another dictionary used on the same thread in between: alone %s, interleaved %s" % (alone[:200], inter[:200])
            return None
        if not io[0].startswith("SAME:"):
            return "result depends on earlier or concurrent calls: " + io[0][:300]
        return None

    def classify(self, case, why):
        return "impure"

    def nontrivial(self, case, io):
        if case.line.startswith("DD,"):
            return hash(case.line) if io and "c0" in io[0] else None
        if io and io[0].startswith("SAME:OK"):
            if case.line.startswith("HL|"):
                return hash(case.line)
            _, x, y = case.line.split("|")
            return hash(case.line) if x != y else None
        return None

    def tags(self, case, io):
        return [io[0][:7]] if io else ["noout"]


REGISTRY = {"C02": C02, "C15": C15, "C16": C16, "C17": C17, "C06": C06, "C07": C07, "C08": C08, "C09": C09, "C10": C10, "C11": C11, "C01": C01, "C18": C18, "C12": C12, "C03": C03, "C04": C04, "C05": C05, "C13": C13, "C14": C14}
