"""Per-property case generators, property oracles (evaluated on the *implementation's* output)
and metadata. The theorems live in coq/props/Cxx.v; the statements are pinned in tools/pins/Cxx.v."""
import os
import random
import struct
import sys

sys.path.insert(0, os.path.join(os.path.dirname(os.path.abspath(__file__)), "..", "gen"))
import dnsgen as G


def hx(b):
    return b.hex() if b else "-"


class Case:
    __slots__ = ("id", "line", "meta")

    def __init__(self, id, line, meta=None):
        self.id, self.line, self.meta = id, line, meta or {}

    def text(self):
        return self.id + "\t" + self.line


class Prop:
    id = "C00"
    generated = ["Constants"]
    allowed_axioms = []
    extra_trusted = []
    assumptions = []
    keep_err = False
    release_too = False
    level = "proof"
    rule = ""
    strength = ""

    def keep_steps(self, case, io):
        return False

    def corpus(self):
        """Minimised failures kept from earlier runs (corpus/<id>.txt), run first."""
        p = os.path.join(os.path.dirname(os.path.abspath(__file__)), "..", "corpus", self.id + ".txt")
        out = []
        if os.path.exists(p):
            for i, l in enumerate(open(p)):
                l = l.rstrip("\n")
                if l and not l.startswith("#"):
                    out.append(Case("corpus-%d" % i, l, {"family": "corpus"}))
        return out

    def gen(self, rng, tier):
        return []

    def search(self, rng):
        return self.gen(rng, "thorough")

    def oracle(self, case, io):
        return None

    def classify(self, case, why):
        return "unclassified"

    def nontrivial(self, case, io):
        return hash(case.line)

    def tags(self, case, io):
        return []

    def shrink(self, case, still_fails):
        return case


def no_crash(io):
    if io is None:
        return "the implementation produced no output for this case (abort, stack overflow or hang)"
    for o in io:
        if o.startswith("PANIC"):
            return "the implementation panicked"
    return None


def shrink_bytes(case, still_fails, op_index=0, field=1, budget=150):
    """Greedy removal of byte ranges from the hex field of one op while the failure persists."""
    ops = case.line.split("\t")
    f = ops[op_index].split(",")
    if len(f) <= field or f[field] == "-":
        return case
    b = bytes.fromhex(f[field])
    best = case
    n = 0
    size = max(1, len(b) // 2)
    while size >= 1 and n < budget:
        i = 0
        progressed = False
        while i + size <= len(b) and n < budget:
            cand = b[:i] + b[i + size:]
            f2 = list(f)
            f2[field] = hx(cand)
            ops2 = list(ops)
            ops2[op_index] = ",".join(f2)
            c2 = Case(case.id, "\t".join(ops2), case.meta)
            n += 1
            try:
                if still_fails(c2):
                    b, best, progressed = cand, c2, True
                    continue
            except Exception:
                pass
            i += size
        if not progressed:
            size //= 2
    return best


# ---------------------------------------------------------------------------------------------
# shared packet families


def packet_families(rng, tier, scale=1.0):
    """(family, bytes) pairs: valid packets under all layouts, clause-by-clause boundary damage,
    arbitrary bytes."""
    n_valid = int((500 if tier == "quick" else 12000) * scale)
    out = []
    for i in range(n_valid):
        b, bounds, m = G.rand_valid_packet(rng, max_rr=4 if rng.random() < 0.9 else 12)
        out.append(("valid", b))
        if i % 3 == 0:
            for x in G.mutate_boundary(rng, b, bounds):
                out.append(("mutated", x))
    for x in G.boundary_family(rng):
        out.append(("boundary", x))
    n_rand = int((300 if tier == "quick" else 6000) * scale)
    for i in range(n_rand):
        n = rng.choice([0, 1, 5, 11, 12, 13, 17, 29, 40, 64, rng.randint(0, 300)])
        b = bytearray(rng.randint(0, 255) for _ in range(n))
        if n >= 12 and rng.random() < 0.8:
            b[4:6] = b"\0\1"  # one question: get past the first gate more often
            if rng.random() < 0.7:
                b[6:12] = struct.pack(">HHH", rng.randint(0, 2), rng.randint(0, 2), rng.randint(0, 2))
        out.append(("bytes", bytes(b)))
    # adversarial structure
    for h in (2, 3, 16, 17, 40):
        out.append(("chain", G.chain_packet(h)))
    loop = bytearray(G.chain_packet(1))
    loop[29:31] = b"\xc0\x1d"  # self pointer
    out.append(("loop", bytes(loop)))
    two = struct.pack(">HHHHHH", 1, 0x8180, 1, 2, 0, 0) + G.wire_name([b"a"]) + struct.pack(">HH", 1, 1)
    o1 = len(two)
    two += b"\xc0" + bytes([o1 + 16]) + struct.pack(">HHIH", 1, 1, 1, 4) + b"\1\2\3\4"
    two += b"\xc0" + bytes([o1]) + struct.pack(">HHIH", 1, 1, 1, 4) + b"\1\2\3\4"  # two pointers at each other
    out.append(("loop", two))
    if tier == "thorough":
        big = bytearray(G.chain_packet(16, tail_records=4000))
        out.append(("large", bytes(big)))  # > 65535 bytes
        out.append(("large", bytes(big) + b"\0"))
        out.append(("large", bytes(rng.randint(0, 255) for _ in range(70000))))
        m = G.rand_msg(rng, 60)
        b, _ = G.encode(rng, m, "chain")
        out.append(("large", b))
    return out


class C01(Prop):
    id = "C01"
    rule = ("P: DNSSector::parse on generated packets (valid under none/greedy/random/chain pointer layouts; one-clause-at-a-time "
            "boundary damage; arbitrary bytes; pointer loops/chains; >65535 bytes in thorough); K/N: the two public name checkers on "
            "arbitrary buffers x offsets (inside, at, beyond the end); O: random sequences of set_offset/increment_offset/rr_rdlen/"
            "edns_rr_rdlen on a fresh DNSSector. A case is non-trivial when its buffer has >= 12 bytes (P) or is non-empty (K/N/O); "
            "distinct = distinct case line.")
    strength = ("full statement: forall byte strings / offsets / op lists, outcome is Ok or Err, never Panic (every index, unwrap, "
                "assert, usize subtraction, counter overflow and loop budget is a Panic site of the model), parsed packet keeps the "
                "input bytes, cursor offset stays <= len. Stack depth: the model's functions are loops, absence of recursion in the "
                "Rust code is checked on the regenerated call graph, not proved.")
    assumptions = ["bytes are numbers < 256 (bytes_ok), which holds for every Vec<u8>", "usize arithmetic does not overflow 2^64"]
    generated = ["Constants", "CallGraph"]

    def keep_steps(self, case, io):
        return False

    def gen(self, rng, tier):
        cases = []
        fams = packet_families(rng, tier)
        for i, (fam, b) in enumerate(fams):
            cases.append(Case("p%d" % i, "P," + hx(b), {"family": "P/" + fam, "len": len(b)}))
        # name checkers on arbitrary buffers and offsets
        pick = [b for (_, b) in fams if len(b) > 0]
        nk = 600 if tier == "quick" else 20000
        for i in range(nk):
            b = rng.choice(pick)
            off = rng.choice([0, 12, len(b) - 1, len(b), len(b) + 1, rng.randint(0, len(b)), rng.randint(0, 70000)])
            cases.append(Case("k%d" % i, "%s,%s,%d" % (rng.choice("KN"), hx(b), max(0, off)), {"family": "KN", "len": len(b)}))
        cases.append(Case("k-empty", "K,-,0", {"family": "KN", "len": 0}))
        cases.append(Case("n-empty", "N,-,0", {"family": "KN", "len": 0}))
        no = 300 if tier == "quick" else 6000
        for i in range(no):
            b = rng.choice(pick) if rng.random() < 0.9 else b""
            ops = []
            for _ in range(rng.randint(1, 8)):
                k = rng.choice("siire")
                if k in "si":
                    v = rng.choice([0, 1, 2, 10, 12, len(b) - 1, len(b), len(b) + 1, rng.randint(0, len(b) + 3), 70000, 2 ** 40, 2 ** 64 - 1])
                    ops.append(k + str(max(0, v)))
                else:
                    ops.append(k)
            huge = any(o[0] in "si" and int(o[1:]) > 100000 for o in ops)
            # values the unary-nat model cannot represent in reasonable time run on the implementation only
            cases.append(Case("o%d" % i, "O,%s,%s" % (hx(b), ".".join(ops)), {"family": "O", "len": len(b), "impl_only": huge}))
        return cases

    def oracle(self, case, io):
        w = no_crash(io)
        if w:
            return w
        o = io[0]
        if case.line.startswith("P,"):
            if o.startswith("OK:") and " same=1" not in o:
                return "parse returned Ok but the parsed packet no longer holds exactly the input bytes"
        if o.startswith("BADOFFSET"):
            return "cursor primitive left offset beyond the end of the buffer: " + o
        return None

    def classify(self, case, why):
        return "crash-or-hang"

    def nontrivial(self, case, io):
        n = case.meta.get("len", 1)
        if case.line.startswith("P,"):
            return hash(case.line) if n >= 12 else None
        return hash(case.line) if n > 0 else None

    def tags(self, case, io):
        if not io:
            return ["noout"]
        o = io[0]
        if o.startswith("OK"):
            return ["ok"]
        if o.startswith("ERR"):
            return [o.split()[0]]
        return [o[:1]]

    def shrink(self, case, still_fails):
        return shrink_bytes(case, still_fails)


class C18(Prop):
    id = "C18"
    rule = ("P cases as for C01 plus families built to maximise pointer following (k records each naming through a 16-hop chain, "
            "maximal 255-byte names shared by all records, dense empty-option lists), sizes doubling up to 65535 bytes. The model's "
            "step count must EQUAL the implementation's cfg(dnssector_verif) counter on every accepted packet (and is compared on "
            "rejected ones too); the counter is also held to the proved bound 75*len+817. Non-trivial: packet >= 12 bytes.")
    strength = ("full statement: forall byte strings, parse_steps p <= 75 * length p + 817 (potential-function proof over the whole "
                "parser model, no size bound); per name walk <= 272 iterations.")
    assumptions = ["bytes are numbers < 256 (bytes_ok)", "one step = one iteration of a name-walking loop, one EDNS option, one record; "
                   "the implementation's counter is incremented at the same five places (hook commit in /repo)"]

    def keep_steps(self, case, io):
        return True

    def adversarial(self, rng, sizes):
        out = []
        for n in sizes:
            # many records, each owner read through the longest admissible chain
            k = max(1, (n - 29) // 16)
            out.append(("chain16", G.chain_packet(16, tail_records=max(0, k - 16))))
            out.append(("chain17", G.chain_packet(17, tail_records=max(0, k - 17))))
            # maximal name shared by all records
            name = G.name_of_wire_len(255)
            hdr = struct.pack(">HHHHHH", 1, 0x8180, 1, max(1, (n - 271) // 16), 0, 0)
            b = hdr + G.wire_name(name) + struct.pack(">HH", 1, 1)
            for _ in range(max(1, (n - 271) // 16)):
                b += b"\xc0\x0c" + struct.pack(">HHIH", 1, 1, 1, 4) + b"\1\2\3\4"
            out.append(("maxname", b))
            # SOA records: three walks per record
            cnt = max(1, (n - 271) // 36)
            b = struct.pack(">HHHHHH", 1, 0x8180, 1, cnt, 0, 0) + G.wire_name(name) + struct.pack(">HH", 1, 1)
            for _ in range(cnt):
                b += b"\xc0\x0c" + struct.pack(">HHIH", 6, 1, 1, 24) + b"\xc0\x0c\xc0\x0c" + bytes(20)
            out.append(("soa", b))
            # dense option list
            nopt = min(16383, max(0, (n - 40) // 4))
            b = struct.pack(">HHHHHH", 1, 0x0100, 1, 0, 0, 1) + G.wire_name([b"a"]) + struct.pack(">HH", 1, 1)
            b += b"\0" + struct.pack(">HHIH", 41, 4096, 0, nopt * 4) + struct.pack(">HH", 10, 0) * nopt
            out.append(("options", b))
        return out

    def gen(self, rng, tier):
        cases = []
        fams = packet_families(rng, tier, scale=0.6)
        sizes = [64, 128, 256, 512, 1024, 2048] if tier == "quick" else [64, 128, 256, 512, 1024, 2048, 4096, 8192, 16384, 32768, 65535]
        fams += self.adversarial(rng, sizes)
        for i, (fam, b) in enumerate(fams):
            cases.append(Case("p%d" % i, "P," + hx(b), {"family": "P/" + fam, "len": len(b)}))
        return cases

    def search(self, rng):
        cases = self.gen(rng, "thorough")
        return cases

    def oracle(self, case, io):
        w = no_crash(io)
        if w:
            return w
        o = io[0]
        if " steps=" in o:
            steps = int(o.rsplit(" steps=", 1)[1])
            n = case.meta.get("len", 0)
            if steps > 75 * n + 817:
                return "parser spent %d steps on a %d-byte packet, above the linear bound 75*len+817" % (steps, n)
        return None

    def classify(self, case, why):
        return "superlinear"

    def nontrivial(self, case, io):
        return hash(case.line) if case.meta.get("len", 0) >= 12 else None

    def tags(self, case, io):
        if not io:
            return ["noout"]
        o = io[0]
        t = ["ok" if o.startswith("OK") else "rejected"]
        if " steps=" in o:
            steps = int(o.rsplit(" steps=", 1)[1])
            n = max(1, case.meta.get("len", 1))
            t.append("steps_per_16_bytes>=%d" % min(64, 16 * steps // n))
        return t

    def shrink(self, case, still_fails):
        return shrink_bytes(case, still_fails)


class C12(Prop):
    id = "C12"
    rule = ("one case per 16-bit flag word (all 65536 in both tiers): parse a question-only packet carrying that word, then apply "
            "set_flags / set_rcode / set_opcode / set_response / set_tid with arguments drawn from {0, all-ones, single bits, inverted "
            "single bits, random} (thorough: 24 argument rounds per word), reading all getters and the raw bytes after each setter. "
            "Non-trivial = every case (each exercises five setters); distinct = distinct (word, arguments).")
    strength = ("full statement at word level for every 16-bit word and every argument value (bit-vector proof, upper half of the "
                "flags argument included); byte level for all 256x256 (header byte, u8 argument) pairs; packet level: frame (only "
                "bytes 2-3 / 0-1 change) and getter-after-setter; setters never panic on a packet with a header.")
    assumptions = ["bytes < 256", "rcode/opcode arguments are u8, tid u16, flags u32 (the Rust types)"]

    def one(self, rng, w, rounds):
        tid = rng.randint(0, 0xFFFF)
        pkt = struct.pack(">HHHHHH", tid, w, 1, 0, 0, 0) + G.wire_name([b"example", b"com"]) + struct.pack(">HH", 1, 1)
        ops = ["P," + hx(pkt), "g"]
        args = []
        for _ in range(rounds):
            k = rng.randrange(32)
            f = rng.choice([0, 0xFFFFFFFF, 1 << k, 0xFFFFFFFF ^ (1 << k), rng.getrandbits(32), rng.getrandbits(16), w, w ^ 0xFFFF])
            r, o, t = rng.randint(0, 255), rng.randint(0, 255), rng.randint(0, 65535)
            q = rng.randint(0, 1)
            seq = [("sf", f), ("sr", r), ("so", o), ("sp", q), ("st", t)]
            rng.shuffle(seq)
            for name, a in seq:
                ops += ["%s,%d" % (name, a), "g", "b"]
                args.append((name, a))
        return Case("w%d" % w, "\t".join(ops), {"family": "flags", "w": w, "tid": tid, "pkt": pkt.hex(), "args": args})

    def gen(self, rng, tier):
        rounds = 1 if tier == "quick" else 24
        words = range(65536) if tier == "quick" else range(0, 65536, 1)
        if tier == "thorough":
            return [self.one(rng, w, 2 if w % 16 else rounds) for w in words]
        return [self.one(rng, w, rounds) for w in words]

    def search(self, rng):
        return [self.one(rng, w, 6) for w in range(65536)]

    def expect_g(self, tid, w):
        qr = (w >> 15) & 1
        fl = w & 0x87F0
        sec = ((fl >> 5) & 1) if qr else 0  # no OPT in these packets: DO is 0
        return "g[tid=%d fl=%d rc=%d op=%d qr=%d sec=%d mp=512]" % (tid, fl, w & 15, (w >> 11) & 15, qr, sec)

    def oracle(self, case, io):
        w0 = no_crash(io)
        if w0:
            return w0
        pkt = bytes.fromhex(case.meta["pkt"])
        tid, w = case.meta["tid"], case.meta["w"]
        if not io[0].startswith("OK"):
            return "question-only packet rejected: " + io[0]
        if io[1] != self.expect_g(tid, w):
            return "getters on the parsed packet: got %s, bytes say %s" % (io[1], self.expect_g(tid, w))
        i = 2
        for name, a in case.meta["args"]:
            before = (tid, w)
            if name == "sf":
                w = (w & 0x780F) | (a & 0x87F0)
            elif name == "sr":
                w = (w & 0xFFF0) | (a & 15)
            elif name == "so":
                w = (w & 0x87FF) | ((a & 15) << 11)
            elif name == "sp":
                w = (w & 0x7FFF) | (a << 15)
            elif name == "st":
                tid = a & 0xFFFF
            exp_b = "b=" + (struct.pack(">HH", tid, w) + pkt[4:]).hex()
            if i + 2 >= len(io) + 0 and len(io) < i + 3:
                return "missing observations after %s" % name
            if io[i] != "OK":
                return "%s(%d) returned %s" % (name, a, io[i])
            if io[i + 2] != exp_b:
                return "%s(%d) on tid=0x%04x word=0x%04x: header became %s, must be %s (only the addressed field may change)" % (
                    name, a, before[0], before[1], io[i + 2][2:10], exp_b[2:10])
            if io[i + 1] != self.expect_g(tid, w):
                return "after %s(%d): getters %s, stored value %s" % (name, a, io[i + 1], self.expect_g(tid, w))
            i += 3
        return None

    def classify(self, case, why):
        for name in ("sf", "sr", "so", "sp", "st"):
            if why.startswith(name + "(") or why.startswith("after " + name):
                return "setter-" + name
        return "header"

    def nontrivial(self, case, io):
        return hash(case.line)

    def tags(self, case, io):
        return ["qr=%d" % (case.meta["w"] >> 15)]

    def shrink(self, case, still_fails):
        # keep the first failing setter only
        ops = case.line.split("\t")
        for k in range(len(case.meta["args"])):
            sub = ops[:2] + ops[2 + 3 * k: 5 + 3 * k]
            c2 = Case(case.id, "\t".join(sub), dict(case.meta, args=[case.meta["args"][k]]))
            try:
                if still_fails(c2):
                    return c2
            except Exception:
                pass
        return case


REGISTRY = {"C01": C01, "C18": C18, "C12": C12}
