#!/usr/bin/env python3
"""Writes MANIFEST.json from the table below (single source for the registered checks)."""
import json
import os
import subprocess

V = os.path.dirname(os.path.dirname(os.path.abspath(__file__)))

CLAIMED = {
    "C01": dict(
        category="proof",
        text="Coq theorems C01_parse_total, C01_check_compressed_name_total, C01_check_uncompressed_name_total, C01_cursor_total: for every "
             "byte string / offset / primitive sequence the model returns Ok or Err, never Panic (every index, unwrap, assert, usize "
             "subtraction, counter overflow and loop budget is an explicit Panic outcome), and a parsed packet keeps its bytes. Unbounded "
             "(induction / invariants), closed under the global context. The model is tied to /repo each run by the correspondence "
             "(same observations on ~6k generated cases incl. adversarial pointer structure) and regenerated constants/call graph.",
        ref="6/C01",
        note="trusted: Coq kernel, hand-written model validated by differential testing (not proof) against the implementation, extraction "
             "(ExtrOcamlBasic), translator; bytes < 256; usize does not overflow; absence of recursion checked on a token-level call graph",
        technique="Coq proof (Hoare-style invariants over a fuelled model) + model/implementation correspondence"),
    "C18": dict(
        category="proof",
        text="Coq theorem C18_parse_linear: forall p, parse_steps p <= 75*length p + 817, by a potential-function argument over the whole "
             "parser model (each accepted record pays <= 75 steps per consumed byte; per name walk <= 272 iterations). The model's step "
             "count must EQUAL the implementation's cfg(dnssector_verif) counter on every generated case, including families built to "
             "maximise pointer following, so the theorem is about the quantity the code actually spends.",
        ref="6/C18",
        note="trusted: as C01; the counter hook in /repo is incremented at the five places the model counts (checked by exact equality of "
             "counts on every case); wall-clock time is outside the model",
        technique="Coq proof (amortised cost in a cost monad) + exact step-count correspondence"),
}

CLAIMED["C12"] = dict(
    category="proof",
    text="Coq theorems C12_*: for every 16-bit header word and every argument value, set_flags changes exactly the bits QR AA TC RD RA Z AD CD "
         "(testbit characterisation for every bit index, upper half of the argument ignored, opcode/rcode kept), set_response changes bit 15 "
         "only, set_rcode/set_opcode (all 256x256 byte/argument pairs, exhaustive evaluation inside Coq) change only their nibble/field and the "
         "getters return the stored value truncated; at packet level only bytes 2-3 (0-1 for the id) change and getters read the value back; "
         "no setter panics on a packet with a header. Correspondence: all 65536 flag words, five setters each, every getter and the raw "
         "bytes compared with the model and with an independent oracle.",
    ref="6/C12",
    note="trusted: as C01; arguments have the Rust types (u8/u16/u32); the EDNS half of flags() is covered by C04",
    technique="Coq proof (bit-vector identities via N.testbit; finite sweeps lifted by forallb_forall) + exhaustive-word correspondence")

CLAIMED["C03"] = dict(
    category="proof",
    text="Coq theorems (unbounded, closed under the global context): on every name the validator accepts the unchecked skip_name returns "
         "the same end offset (C03_skip_name_agrees); every record the parser accepts is skipped by skip_name+skip_rdata to exactly the "
         "parser's next position (C03_accepted_record_shape, C03_skip_rr_agrees); on every accepted packet, walking each record section with "
         "OPT included visits exactly the announced number of records and stops, with no Panic outcome (C03_walk_including_opt_total). "
         "PARTIAL with respect to the full statement: the values returned by the accessors (names, TTLs, data, addresses) and the OPT-skipping "
         "and EDNS walks are not yet theorems; they are decided each run by the correspondence (model = implementation on every accessor of "
         "every record, all pointer layouts, OPT first/middle/last/absent) plus an independent reference decoder used as oracle.",
    ref="6/C03",
    note="trusted: as C01; the reference decoder gen/dnsgen.py:decode_ref is an independent executable statement of RFC 1035 decoding used "
         "only as oracle/search aid",
    technique="Coq proof (validator/reader agreement by loop invariants, induction over the record chain) + correspondence with reference-decoder oracle")
CLAIMED["C04"] = dict(
    category="proof",
    text="Coq theorems: flags() is bit for bit the header word with opcode/rcode masked out in the lower half and the EDNS flags in the upper "
         "half, for every word and OPT value (C04_flags_word); dnssec() is AD for responses and DO for queries (C04_dnssec_bits). PARTIAL: "
         "question extraction (raw, raw-without-root, lowercase text, cache filled/empty) and the EDNS summary fields equal independent "
         "decoding on all generated packets and all 65536 flag words with/without OPT (thorough) - decided by correspondence + oracle, not yet "
         "by a theorem.",
    ref="6/C04",
    note="trusted: as C01",
    technique="Coq proof (bit-vector identities) + correspondence with reference-decoder oracle over all flag words")
CLAIMED["C05"] = dict(
    category="proof",
    text="Coq theorems: decompression output starts with the input's 12 header bytes and name copying only appends (C05_header_kept, "
         "C05_name_copy_appends); with C03's theorems the section walks inside uncompress cannot panic on accepted packets. PARTIAL: the full "
         "statement (output = canonical pointer-free encoding of the decoded message, accepted, stable, record-boundary translation) is "
         "decided each run by exact comparison, at EVERY record boundary of every generated packet, with an independent canonical encoder, "
         "and by model = implementation correspondence.",
    ref="6/C05",
    note="trusted: as C01; gen/dnsgen.py:encode_plain is the independent canonical encoder used as oracle",
    technique="Coq proof (frame/append invariants over the re-emission) + correspondence with canonical-encoder oracle at every record boundary")

CLAIMED["C13"] = dict(
    category="proof",
    text="Coq theorem C13_synth_total: for every byte string, RR::from_string returns Ok or Err in the model, never a Panic outcome (the grammar "
         "model - chomp combinators with backtracking, checked decimal folds, escapes, hex digests, the IPv6 text parser, the nine builders - "
         "has no partial operation). PARTIAL: that every text of the supported grammar yields exactly the RFC 1035 wire form, that the excluded "
         "texts are errors, and that inserting the result keeps the packet acceptable, is decided each run by the correspondence on texts "
         "rendered from abstract records (boundary values, arbitrary whitespace/case) against an independent encoder, on field-wise damaged "
         "texts, and on arbitrary strings.",
    ref="6/C13",
    note="trusted: as C01 plus the hand reproduction of chomp1-0.3.4 combinators, hex::decode and Ipv6Addr::from_str in Model/Text.v "
         "(exercised by the correspondence); strings are UTF-8",
    technique="Coq proof (totality of the grammar model) + correspondence with independent RFC 1035 encoder oracle")
CLAIMED["C14"] = dict(
    category="proof",
    text="Coq theorems: text-to-wire conversion is total and what it appends for an accepted text is 1..253 bytes, the text at most 253 bytes "
         "(C14_from_str_total, C14_from_str_len). PARTIAL: the label-by-label statement (labels = dot-separated labels of the input plus zone; "
         "LDH names within the limits accepted; empty/over-long labels rejected) and read-back through set_raw_name/name() are decided each run "
         "by an exhaustive sweep of all 9331 strings of length <= 5 over {a,B,-,_,.,1}, boundary lengths 61..64 / 248..257, random LDH names "
         "and arbitrary bytes, with and without zone, against an independent splitter.",
    ref="6/C14",
    note="trusted: as C01",
    technique="Coq proof (totality and length bounds) + exhaustive short-name correspondence with independent splitter oracle")

_HIST_NOTE = ("trusted: as C01; gen/hist.py (abstract message model, abstract walk) and gen/dnsgen.py decode_ref are independent oracles; "
              "three known-finding classes (question-less object, QR gating, TTL write on OPT) are listed in known_findings.json")
CLAIMED["C08"] = dict(
    category="proof",
    text="PARTIAL. The mutation API is modelled function by function in a state-and-error monad (coq/Model/Mutate.v, Walk.v) and run as an "
         "executable script interpreter; proved so far: header setters leave every view field untouched (C08_header_setters_keep_view) and the "
         "byte-level shape of a successful insertion (C08_insert_shape). The invariant itself - after any history the bytes are accepted and the "
         "view, cached question and pointer flag equal/are sound w.r.t. a fresh parse - is decided each run by step-by-step correspondence on "
         "random histories over parsed/synthesised objects plus a fresh-parse oracle after EVERY step; it is not yet a theorem.",
    ref="6/C08", note=_HIST_NOTE,
    technique="Coq model with frame lemmas (proof) + per-step correspondence and fresh-parse oracle over operation histories")
CLAIMED["C09"] = dict(
    category="proof",
    text="PARTIAL. Proved: insertion splices exactly the record at the section's insertion offset with exactly one count incremented "
         "(C09_insert_appends); the TTL setter changes exactly four bytes (C09_set_ttl_frame). The refinement of every operation to the abstract "
         "message operations (set name / delete / insert / TTL / address / header / rename leave everything else equal) is decided each run "
         "by correspondence and by decoding the bytes before and after every step and comparing with the abstract effect.",
    ref="6/C09", note=_HIST_NOTE,
    technique="Coq model with splice/frame lemmas (proof) + abstract-message refinement oracle over operation histories")
CLAIMED["C10"] = dict(
    category="proof",
    text="Proved (unbounded): a successful insert never yields more than 8192 bytes whatever the starting size, the size test cannot underflow "
         "(C10_insert_bound); when the insertion core fails (too large, second question, 65535 records) the object is unchanged because the "
         "count is checked before any byte moves (C10_insert_core_atomic, C10_second_question_refused). PARTIAL: atomicity of the other failing "
         "operations is decided each run by error-provoking histories (bad text, invalid/over-long/pointer-bearing names, tombstone reuse, "
         "rename overflow, packets of 8100-9500 and >65535 bytes) with a before/after oracle.",
    ref="6/C10", note=_HIST_NOTE,
    technique="Coq proof (size bound, atomicity of insert) + error-provoking histories with before/after oracle")
CLAIMED["C11"] = dict(
    category="proof",
    text="Proved for the abstract deletion walk, for any section, any record type and any set of records chosen for deletion: termination within "
         "(|D|+1)(n+1) yields, final section = survivors in original order, every survivor yielded, only records of the current section are ever "
         "yielded (C11_walk_terminates, C11_walk_exact, C11_yields_from_current_section). PARTIAL: that the concrete cursor code (delete, "
         "tombstone, restart from the section start, count, emptied section reads as absent) refines this machine is decided each run by "
         "correspondence over all deletion subsets of sections of 0..5 (thorough 0..8) records in all three sections and the question.",
    ref="6/C11", note=_HIST_NOTE,
    technique="Coq proof (abstract walk machine: termination measure, filter invariant) + exhaustive-subset correspondence")

CLAIMED["C06"] = dict(
    category="proof",
    text="PARTIAL. Proved: compress output starts with the input's header and name emission only appends (C06_header_kept, "
         "C06_name_emission_appends). The packet-level statement (accepted, not longer, same records up to name case, question name byte-identical, "
         "round trip, pointers designate their suffix in the output) is decided each run by correspondence and a reference-decoder oracle on "
         "pointer-free packets built to stress the dictionary (nesting 2..30, 31..70 suffixes, 120..200-byte suffixes, mixed case, OPT anywhere, "
         "all name-bearing types, offsets beyond 16383 in thorough). Known finding: chains deeper than 16 hops.",
    ref="6/C06", note="trusted: as C01; known finding chain-depth in known_findings.json",
    technique="Coq model with frame lemmas (proof) + compress/decompress round-trip correspondence with reference-decoder oracle")
CLAIMED["C07"] = dict(
    category="proof",
    text="PARTIAL. Proved: shape of every replacement replace_raw produces (C07_replace_raw_shape). The packet-level statement is decided each "
         "run by correspondence and the abstract rename applied to the independently decoded message: sources at every label depth, case "
         "variants, partial-label near misses, identity, overflow past 255 bytes, every name-bearing type, OPT anywhere. Known finding: chains "
         "deeper than 16 hops.",
    ref="6/C07", note="trusted: as C01; gen/hist.py apply_rename is the independent abstract rename; known finding chain-depth",
    technique="Coq model with replacement-shape lemma (proof) + abstract-rename refinement oracle")

CLAIMED["C16"] = dict(
    category="proof",
    text="Coq theorem C16_thread_private: in the slot-per-thread model, for EVERY interleaving of (failing call, read description) steps of any "
         "number of threads each read returns the reader's own most recent failure; steps of other threads are irrelevant "
         "(C16_other_threads_irrelevant). The regenerated source inventory must show CERR declared inside thread_local! "
         "(cerr_is_thread_local, vm_compute on Generated/Ambient.v). Real threads are driven through barriers along generated schedules "
         "(all interleavings of 2 threads x 3 steps in quick; 3x2 and long random ones in thorough) through the actual C table entries, and the "
         "strings read are compared with the model.",
    ref="6/C16",
    note="trusted: Rust's thread_local! implementation; the token-level source scan; real-thread validation is testing, not proof",
    technique="Coq proof (induction over interleavings of a slot model) + regenerated thread_local inventory + barrier-scripted real threads")
CLAIMED["C17"] = dict(
    category="proof",
    text="Thin proof + validation: purity of the model is definitional (C17_amb_independent, C17_history_independent with the ambient state made "
         "explicit; C17_empty_only_tid_random). The deciding obligations are regenerated from the source on every run: ambient_inventory (the "
         "only static state is the thread-local C error slot; the random generator is used only for the id of ParsedPacket::empty) and "
         "dict_fresh_per_call (every SuffixDict::new() is inside compress / rename_with_raw_names). Each of parse / uncompress / compress / "
         "rename / synthesis is run alone, after another input, in a reused context and on 8 threads concurrently; all results must be "
         "byte-identical and equal to the model's.",
    ref="6/C17",
    note="trusted: token-level source scan for statics / thread_local / lazy / atomics / rng; concurrent runs are testing, not proof",
    technique="regenerated ambient-state inventory checked in Coq + definitional purity of the model + sequential/concurrent differential runs")

CLAIMED["C02"] = dict(
    category="proof",
    text="Coq theorems C02_parse_sound, C02_parse_complete, C02_parse_ok_iff_wf: for every byte string, the parser model accepts p if and only if "
         "wf_packet p, a declarative statement of the policy (inductive name relation with strictly-backward pointers, <= 16 hops, <= 255 "
         "bytes, label charset; per-type rdata rules; single root-named OPT in the additional section with options tiling its data; QR gating; "
         "one question of class IN; nothing left over) written without reference to the parser's control flow; C02_name_policy gives the same "
         "equivalence for the two public name checkers. Unbounded, closed under the global context. Tie: the verdict of the implementation is "
         "compared on ~12k generated packets per run (clause-by-clause boundaries) with the model and, in both directions, with an independent "
         "Python recogniser of the same policy.",
    ref="6/C02",
    note="trusted: as C01; the Python recogniser gen/dnsgen.py:wf_ref is an independent oracle (search aid), not part of the proof",
    technique="Coq proof (soundness and completeness of the parser model w.r.t. an inductive policy specification) + two-direction recogniser oracle")

CLAIMED["C15"] = dict(
    category="proof",
    text="PARTIAL (this is where the technique is weakest). Decided in Coq on objects regenerated from the source each run: abi_table_match - the "
         "Rust FnTable and the struct in the shipped c_hook.h have the same entries in the same order with the same ABI class for every "
         "parameter and result, repr(C), and the header's capacities / ABI version are the library's; proved: rr_ip yields exactly 4 or 16 "
         "bytes, converted names fit the 256-byte buffer, raw_packet copies only within the stated capacity. Validation, not proof: a C driver "
         "compiled with the system compiler against the shipped header drives the real table along generated hook scripts with every "
         "out-buffer flush against a guard page and canary-filled; each observation must equal the native model's and the object must match a "
         "fresh parse after every step.",
    ref="6/C15",
    note="trusted: the C compiler, guard pages as the only memory-safety observation, regex translation of the Rust struct and C header, "
         "documented preconditions of the table; UB inside unsafe blocks and panics across FFI are outside the model",
    technique="regenerated ABI-table equality decided in Coq + buffer-bound lemmas (proof) + C-driver facade/native correspondence with guard pages")

PENDING_REASON = "check not built yet in this round (model/theorems in progress; see DESIGN.md section 11 for the order of work)"


def level_text(pid, fallback):
    """The claim of a check is kept in one place, next to its generator and oracle (tools/props.py: `strength` = what is proved,
    `rule` = what the correspondence runs on every change); the table above only supplies category, trusted base and technique."""
    import sys
    sys.path.insert(0, os.path.join(V, "tools"))
    sys.path.insert(0, os.path.join(V, "gen"))
    try:
        import props as P
        c = P.REGISTRY[pid]
        return "Theorems: " + c.strength + " Tie to /repo on every run (differential, not proof): " + c.rule
    except Exception:
        return fallback


TECHNIQUE = {
    "C03": "Coq proof (both section walks, the question cursor and the option cursor return the declarative reading of the packet: induction over the record chain) + correspondence with reference-decoder oracle",
    "C04": "Coq proof (bit-vector identities; question getters and EDNS summary = declarative decoding) + correspondence with reference-decoder oracle over all flag words",
    "C05": "Coq proof (decompression = canonical pointer-free encoding of the unique declarative reading; re-acceptance via the completeness theorem of C02; fixed point; boundary translation) + correspondence with canonical-encoder oracle",
    "C09": "Coq model with splice/frame lemmas and the message-level effect of the TTL setter under an explicit footprint hypothesis (proof, with a refutation witness without it) + abstract-message refinement oracle over operation sequences",
    "C10": "Coq proof (size bound, atomicity of the insertion core, failed insert keeps the message via the C05 round trip) + error-provoking histories with before/after oracle",
    "C13": "Coq proof (totality of the grammar model; every returned record is well-formed; builder data characterised) + correspondence with independent RFC 1035 encoder",
    "C14": "Coq proof (text -> wire label-by-label specification in both directions, rejections, round trip through the wire reader) + exhaustive short-name correspondence with independent splitter",
}


def main():
    props = [json.loads(l)["id"] for l in open(os.path.join(V, "properties.jsonl"))]
    try:
        hook_commits = subprocess.run(["git", "-C", "/repo", "log", "--format=%h", "--grep=^verif hooks"], capture_output=True, text=True).stdout.split()
    except Exception:
        hook_commits = []
    checks = []
    for p in props:
        if p in CLAIMED:
            c = CLAIMED[p]
            checks.append({
                "property_id": p,
                "quick_cmd": "python3 tools/check.py %s --tier quick" % p,
                "thorough_cmd": "python3 tools/check.py %s --tier thorough" % p,
                "evidence_file": "evidence/%s.json" % p,
                "replay_cmd_template": "python3 tools/check.py %s --replay {path}" % p,
                "engine": "coq-model+correspondence",
                "level_claimed": {"category": c["category"], "text": level_text(p, c["text"]), "design_ref": c["ref"]},
                "level_note": c["note"],
                "technique": TECHNIQUE.get(p, c["technique"]),
            })
    m = {
        "version": 1,
        "setup_cmd": "python3 tools/setup.py",
        "hooks": {
            "guard": "dnssector_verif",
            "enable": "RUSTFLAGS=\"--cfg dnssector_verif\" cargo build --offline in /verif/harness (path dependency on /repo); done by every check",
            "baseline_off_cmd": "cd /repo && cargo test --workspace --no-fail-fast --offline",
            "source_commits": hook_commits,
            "add_only": True,
        },
        "engines": [{
            "name": "coq-model+correspondence", "path": "tools/check.py", "serves_properties": sorted(CLAIMED),
            "kind_free_text": "Coq 8.16 theorems about a hand-written Gallina model (coq/), tied to /repo on every run by differential "
                              "correspondence (extracted OCaml model vs Rust harness on generated cases) and by Generated/*.v regenerated from the source",
        }],
        "checks": checks,
        "not_applicable": [{"property_id": p, "reason": PENDING_REASON} for p in props if p not in CLAIMED],
        "notes": "Design, trusted base and findings: DESIGN.md. Known findings: known_findings.json.",
    }
    with open(os.path.join(V, "MANIFEST.json"), "w") as f:
        json.dump(m, f, indent=1)
    print("MANIFEST.json: %d checks, %d not claimed" % (len(checks), len(m["not_applicable"])))


if __name__ == "__main__":
    main()
