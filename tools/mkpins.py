#!/usr/bin/env python3
"""One-off helper: writes tools/pins/<Cxx>.v from the theorem statements currently in coq/props/<Cxx>.v.
The pins file is committed; from then on every check type-checks `Check (thm : <pinned statement>)`, so a
theorem in props/ cannot be weakened without the pin (a reviewed, committed file) being changed too."""
import re
import sys

for prop in sys.argv[1:]:
    src = open("/verif/coq/props/%s.v" % prop).read()
    imports = re.findall(r"^(From .*?\.)\s*$", src, flags=re.M | re.S)
    m = re.search(r"(From DV Require Import.*?\.)\n", src, flags=re.S)
    head = m.group(1)
    head = head.rstrip(".") + " props.%s." % prop
    out = ["(* Pinned statements of %s (generated once by tools/mkpins.py from coq/props/%s.v, then committed). *)" % (prop, prop), head]
    for extra in re.findall(r"^(Local Open Scope \w+\.)", src, flags=re.M):
        out.append(extra)
    for name, stmt in re.findall(r"^Theorem\s+(\w+)\s*:\s*(.*?)\.\s*\nProof", src, flags=re.M | re.S):
        out.append("Check (%s : %s)." % (name, stmt))
        out.append("Print Assumptions %s." % name)
    open("/verif/tools/pins/%s.v" % prop, "w").write("\n".join(out) + "\n")
    print(prop, "pinned", len(out) // 2 - 1, "theorems")
    # the pins file must type-check on its own (it imports only the first `From DV Require Import` sentence of the props file)
    import subprocess
    subprocess.run("cd /verif/coq && make props/%s.vo >/dev/null 2>&1" % prop, shell=True)
    r = subprocess.run(["coqc", "-Q", "/verif/coq", "DV", "/verif/tools/pins/%s.v" % prop], cwd="/verif/coq", capture_output=True, text=True)
    if r.returncode != 0:
        print(prop, "PINS DO NOT TYPE-CHECK:", (r.stdout + r.stderr)[-600:])
        sys.exit(1)
