#!/bin/sh
# Extract the Coq model to OCaml and build the model driver. Usage: build_driver.sh
set -e
V=/verif
mkdir -p $V/.cache/driver
cd $V/.cache/driver
coqc -Q $V/coq DV $V/coq/Extract.v >/dev/null 2>extract.err || { cat extract.err; exit 1; }
cp $V/driver/main.ml main.ml
ocamlfind ocamlopt -O3 -w -a model.mli model.ml main.ml -o dv-model 2>build.err || ocamlfind ocamlopt -w -a model.mli model.ml main.ml -o dv-model 2>build.err || { cat build.err; exit 1; }
