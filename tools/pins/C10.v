(* Pinned statements of C10 (generated once by tools/mkpins.py from coq/props/C10.v, then committed). *)
From DV Require Import Model.Base Model.NameCheck Model.Parser Model.Header Model.Readers Model.Uncompress
  Model.Mutate Spec.PlainSpec Proofs.Hoare Proofs.HeaderBits Proofs.InsertLemmas Proofs.PlainWf Proofs.InsertFail Proofs.InsertSpec Proofs.HeaderInv Spec.RecordSpec Proofs.WalkSkip Proofs.ReplaceInv Proofs.Totality
  Model.Renamer Proofs.FailAtomic Spec.NameSpec Proofs.RenameSpec Proofs.RenameContent Proofs.RenameAny Proofs.WalkFresh Proofs.CursorHist Proofs.RenameTotal props.C10.
Check (C10_insert_bound : forall sec rr s s',
  m_insert_rr sec rr s = (s', Ok tt) -> (N.of_nat (length (pp_packet (fst s'))) <= 8192)%N).
Print Assumptions C10_insert_bound.
Check (C10_insert_core_atomic : forall sec rr s s' e,
  insert_core sec rr s = (s', Err e) -> s' = s).
Print Assumptions C10_insert_core_atomic.
Check (C10_second_question_refused : forall p c,
  be16_at p 4 612 = Ok c -> (1 <= c)%N -> rrcount_inc p SQuestion = Err InvalidPacket).
Print Assumptions C10_second_question_refused.
Check (C10_failed_insert_keeps_message : forall p v sec rr it s' e, bytes_ok p -> parse p = Ok v ->
  m_insert_rr sec rr (v, it) = (s', Err e) ->
  exists q v' qls qt lxa lxn lxr lxa' lxn' lxr',
    pp_packet (fst s') = q /\ snd s' = it /\ uncompress p = Ok q /\ parse q = Ok v' /\
    reading p qls qt lxa lxn lxr /\ reading q qls qt lxa' lxn' lxr' /\
    map plain_record lxa' = map plain_record lxa /\ map plain_record lxn' = map plain_record lxn /\
    map plain_record lxr' = map plain_record lxr).
Print Assumptions C10_failed_insert_keeps_message.
Check (C10_failed_insert_keeps_invariant : forall p v it sec rr s' e, bytes_ok p -> parse p = Ok v ->
  m_insert_rr sec rr (v, it) = (s', Err e) ->
  exists dv, s' = (dv, it) /\ dinv dv /\ uncompress p = Ok (pp_packet dv)).
Print Assumptions C10_failed_insert_keeps_invariant.
Check (C10_failed_insert_changes_nothing : forall v it sec rr s' e, dinv v -> m_insert_rr sec rr (v, it) = (s', Err e) -> s' = (v, it)).
Print Assumptions C10_failed_insert_changes_nothing.
Check (C10_failed_set_name_changes_nothing : forall nm v it qls qt lA lN lR r x,
  dinv v -> bytes_ok nm -> reading (pp_packet v) qls qt lA lN lR -> In (r, x) (lA ++ lN ++ lR) -> is_opt r = false ->
  it_offset it = Some (rv_off r) -> it_name_end it = rv_name_end r -> it_offset_next it = rv_name_end r + 10 + rv_rdlen r ->
  it_section it <> SQuestion ->
  (exists s', m_set_raw_name nm (v, it) = (s', Ok tt)) \/ (exists e, m_set_raw_name nm (v, it) = ((v, it), Err e))).
Print Assumptions C10_failed_set_name_changes_nothing.
Check (C10_failed_set_ip_changes_nothing : forall v it ip qls qt lA lN lR r x,
  dinv v -> reading (pp_packet v) qls qt lA lN lR -> In (r, x) (lA ++ lN ++ lR) ->
  it_offset it = Some (rv_off r) -> it_name_end it = rv_name_end r ->
  (exists s', m_set_ip ip (v, it) = (s', Ok tt)) \/ (exists e, m_set_ip ip (v, it) = ((v, it), Err e))).
Print Assumptions C10_failed_set_ip_changes_nothing.
Check (C10_delete_succeeds : forall v it qls qt lA lN lR r x,
  dinv v -> reading (pp_packet v) qls qt lA lN lR -> In (r, x) (lA ++ lN ++ lR) -> is_opt r = false ->
  it_offset it = Some (rv_off r) -> it_name_end it = rv_name_end r -> it_offset_next it = rv_name_end r + 10 + rv_rdlen r ->
  exists s', m_delete (v, it) = (s', Ok tt)).
Print Assumptions C10_delete_succeeds.
Check (C10_set_ttl_succeeds : forall v it t qls qt lA lN lR r x,
  dinv v -> reading (pp_packet v) qls qt lA lN lR -> In (r, x) (lA ++ lN ++ lR) ->
  it_offset it <> None -> it_name_end it = rv_name_end r ->
  exists s', m_set_ttl t (v, it) = (s', Ok tt)).
Print Assumptions C10_set_ttl_succeeds.
Check (C10_refused_name_changes_nothing : forall nm s e, check_compressed_name nm 0 = Err e -> m_set_raw_name nm s = (s, Err e)).
Print Assumptions C10_refused_name_changes_nothing.
Check (C10_failed_rename_changes_nothing : forall target source sfx st st' e,
  m_rename target source sfx st = (st', Err e) -> st' = st).
Print Assumptions C10_failed_rename_changes_nothing.
Check (C10_failed_recompute_changes_nothing : forall st st' e, m_recompute st = (st', Err e) -> st' = st).
Print Assumptions C10_failed_recompute_changes_nothing.
Check (C10_rename_keeps_edns_summary : forall p v sl tl sfx out f, bytes_ok p -> parse p = Ok v ->
  Forall lab sl -> Forall lab tl -> sl <> [] -> tl <> [] -> bytes_ok (wire_of_labels tl) ->
  length (wire_of_labels sl) <= 255 -> length (wire_of_labels tl) <= 255 ->
  renamer_rename v (wire_of_labels tl) (wire_of_labels sl) sfx = Ok out -> parse out = Ok f ->
  edns_summary_same v f = true).
Print Assumptions C10_rename_keeps_edns_summary.
Check (C10_rename_total : forall p v it sl tl sfx, bytes_ok p -> parse p = Ok v ->
  Forall lab sl -> Forall lab tl -> sl <> [] -> tl <> [] -> bytes_ok (wire_of_labels tl) ->
  length (wire_of_labels sl) <= 255 -> length (wire_of_labels tl) <= 255 ->
  (exists s', m_rename (wire_of_labels tl) (wire_of_labels sl) sfx (v, it) = (s', Ok tt)) \/
  (exists e, m_rename (wire_of_labels tl) (wire_of_labels sl) sfx (v, it) = ((v, it), Err e))).
Print Assumptions C10_rename_total.
Check (C10_rename_total_on_decompressed : forall v it sl tl sfx, dinv v ->
  Forall lab sl -> Forall lab tl -> sl <> [] -> tl <> [] -> bytes_ok (wire_of_labels tl) ->
  length (wire_of_labels sl) <= 255 -> length (wire_of_labels tl) <= 255 ->
  (exists s', m_rename (wire_of_labels tl) (wire_of_labels sl) sfx (v, it) = (s', Ok tt)) \/
  (exists e, m_rename (wire_of_labels tl) (wire_of_labels sl) sfx (v, it) = ((v, it), Err e))).
Print Assumptions C10_rename_total_on_decompressed.
Check (C10_step_with_rename_outcome : forall o v it, objst v -> is_response (pp_packet v) -> it_section it <> SQuestion -> hop4_ok_at v o ->
  exists s1 r, run_hop4 o (v, it) = (s1, r) /\ (r = Ok tt \/ exists e, r = Err e) /\
               objst (fst s1) /\ snd s1 = it /\ is_response (pp_packet (fst s1))).
Print Assumptions C10_step_with_rename_outcome.
Check (C10_first_operation_outcome : forall p v it o, bytes_ok p -> parse p = Ok v -> is_response p -> it_section it <> SQuestion ->
  decompresses_first o -> hop3_ok_at v o ->
  exists s1 r, run_hop3 o (v, it) = (s1, r) /\ (r = Ok tt \/ exists e, r = Err e) /\
               objst (fst s1) /\ snd s1 = it /\ is_response (pp_packet (fst s1))).
Print Assumptions C10_first_operation_outcome.
