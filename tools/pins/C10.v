(* Pinned statements of C10 (generated once by tools/mkpins.py from coq/props/C10.v, then committed). *)
From DV Require Import Model.Base Model.NameCheck Model.Parser Model.Header Model.Readers Model.Uncompress
  Model.Mutate Proofs.Hoare Proofs.HeaderBits Proofs.InsertLemmas props.C10.
Check (C10_insert_bound : forall sec rr s s',
  m_insert_rr sec rr s = (s', Ok tt) -> (N.of_nat (length (pp_packet (fst s'))) <= 8192)%N).
Print Assumptions C10_insert_bound.
Check (C10_insert_core_atomic : forall sec rr s s' e,
  insert_core sec rr s = (s', Err e) -> s' = s).
Print Assumptions C10_insert_core_atomic.
Check (C10_second_question_refused : forall p c,
  be16_at p 4 612 = Ok c -> (1 <= c)%N -> rrcount_inc p SQuestion = Err InvalidPacket).
Print Assumptions C10_second_question_refused.
