(* Pinned statements of C05 (generated once by tools/mkpins.py from coq/props/C05.v, then committed). *)
From DV Require Import Model.Base Model.Parser Model.Header Model.Readers Model.Uncompress
  Proofs.Hoare Proofs.UncompressFrame props.C05.
Check (C05_header_kept : forall (p : bytes) (off : nat) (out : bytes) (o : nat),
  uncompress_with_previous_offset p off = Ok (out, o) ->
  firstn 12 out = firstn 12 p /\ 12 <= length out).
Print Assumptions C05_header_kept.
Check (C05_name_copy_appends : forall name0 p off name l f,
  copy_uncompressed_name name0 p off = Ok (name, l, f) -> exists sfx, name = name0 ++ sfx).
Print Assumptions C05_name_copy_appends.
