(* Pinned statements of C05 (generated once by tools/mkpins.py from coq/props/C05.v, then committed). *)
From DV Require Import Model.Base Model.Parser Model.Header Model.Readers Model.Uncompress
  Spec.NameSpec Spec.PacketSpec Spec.RecordSpec Spec.PlainSpec
  Proofs.Hoare Proofs.UncompressFrame Proofs.QuestionSpec Proofs.UncompressSpec Proofs.PlainWf props.C05.
Check (C05_header_kept : forall (p : bytes) (off : nat) (out : bytes) (o : nat),
  uncompress_with_previous_offset p off = Ok (out, o) ->
  firstn 12 out = firstn 12 p /\ 12 <= length out).
Print Assumptions C05_header_kept.
Check (C05_name_copy_appends : forall name0 p off name l f,
  copy_uncompressed_name name0 p off = Ok (name, l, f) -> exists sfx, name = name0 ++ sfx).
Print Assumptions C05_name_copy_appends.
Check (C05_uncompress_is_plain_encoding : forall p v, bytes_ok p -> parse p = Ok v ->
  exists qls qt qe e1 e2 lxa lxn lxr,
    question_of p qls qt CLASS_IN /\ cname_l p 12 qls qe /\
    records_at p (qe + 4) (map fst lxa) e1 /\ records_at p e1 (map fst lxn) e2 /\
    records_at p e2 (map fst lxr) (length p) /\
    Forall (fun rx => rdata_at p (fst rx) (snd rx)) (lxa ++ lxn ++ lxr) /\
    hdr_ancount p = Ok (N.of_nat (length lxa)) /\ hdr_nscount p = Ok (N.of_nat (length lxn)) /\
    hdr_arcount p = Ok (N.of_nat (length lxr)) /\
    uncompress p = Ok (firstn 12 p ++ plain_question qls qt CLASS_IN ++ concat (map plain_record (lxa ++ lxn ++ lxr)))).
Print Assumptions C05_uncompress_is_plain_encoding.
Check (C05_roundtrip : forall p v, bytes_ok p -> parse p = Ok v ->
  exists q v' qls qt lxa lxn lxr lxa' lxn' lxr',
    uncompress p = Ok q /\ bytes_ok q /\ parse q = Ok v' /\ uncompress q = Ok q /\
    reading p qls qt lxa lxn lxr /\ reading q qls qt lxa' lxn' lxr' /\
    map plain_record lxa' = map plain_record lxa /\ map plain_record lxn' = map plain_record lxn /\
    map plain_record lxr' = map plain_record lxr /\
    Forall2 same_rec (lxa ++ lxn ++ lxr) (lxa' ++ lxn' ++ lxr')).
Print Assumptions C05_roundtrip.
Check (C05_reading_unique : forall p qls qt lxa lxn lxr qls' qt' lxa' lxn' lxr',
  reading p qls qt lxa lxn lxr -> reading p qls' qt' lxa' lxn' lxr' ->
  qls = qls' /\ qt = qt' /\ lxa = lxa' /\ lxn = lxn' /\ lxr = lxr').
Print Assumptions C05_reading_unique.
Check (C05_boundary_translation : forall p v, bytes_ok p -> parse p = Ok v ->
  exists qls qt qe e1 e2 lxa lxn lxr,
    question_of p qls qt CLASS_IN /\ cname_l p 12 qls qe /\
    records_at p (qe + 4) (map fst lxa) e1 /\ records_at p e1 (map fst lxn) e2 /\
    records_at p e2 (map fst lxr) (length p) /\
    Forall (fun rx => rdata_at p (fst rx) (snd rx)) (lxa ++ lxn ++ lxr) /\
    hdr_ancount p = Ok (N.of_nat (length lxa)) /\ hdr_nscount p = Ok (N.of_nat (length lxn)) /\
    hdr_arcount p = Ok (N.of_nat (length lxr)) /\
    let q0 := firstn 12 p ++ plain_question qls qt CLASS_IN in
    let lx := lxa ++ lxn ++ lxr in
    let q := q0 ++ concat (map plain_record lx) in
    uncompress_with_previous_offset p 12 = Ok (q, 12) /\
    uncompress_with_previous_offset p (length p) = Ok (q, length q) /\
    forall l1 rx l2, lx = l1 ++ rx :: l2 ->
      uncompress_with_previous_offset p (rv_off (fst rx)) = Ok (q, length (q0 ++ concat (map plain_record l1)))).
Print Assumptions C05_boundary_translation.
