(* Pinned statements of C06 (generated once by tools/mkpins.py from coq/props/C06.v, then committed). *)
From DV Require Import Model.Base Model.Parser Model.Header Model.Readers Model.Uncompress Model.Compress
  Spec.NameSpec Proofs.Hoare Proofs.CompressFrame Proofs.RenameSpec Proofs.CompressName Proofs.CompressSize Proofs.PlainWf Proofs.CompressContent props.C06.
Check (C06_header_kept : forall (p out : bytes),
  compress p = Ok out -> firstn 12 out = firstn 12 p /\ 12 <= length out).
Print Assumptions C06_header_kept.
Check (C06_name_emission_appends : forall d out p off out' d' l f,
  copy_compressed_name d out p off = Ok (out', d', l, f) -> exists sfx, out' = out ++ sfx).
Print Assumptions C06_name_emission_appends.
Check (C06_name_emission : forall ls A B d out, Forall lab ls -> length (wire_of_labels ls) <= 255 -> sd_wf d ->
  exists enc d',
    copy_compressed_name d out (A ++ wire_of_labels ls ++ B) (length A) =
      Ok (out ++ enc, d', length enc, length A + length (wire_of_labels ls)) /\
    emission d (length out) ls enc d').
Print Assumptions C06_name_emission.
Check (C06_dictionary_comparison : forall a b, Forall lab a -> Forall lab b ->
  raw_names_eq_ignore_case (wire_of_labels a) (wire_of_labels b) 0 = true -> ci_labels a b).
Print Assumptions C06_dictionary_comparison.
Check (C06_succeeds_and_never_grows : forall p v, bytes_ok p -> parse p = Ok v -> uncompress p = Ok p ->
  exists out, compress p = Ok out /\ length out <= length p).
Print Assumptions C06_succeeds_and_never_grows.
Check (C06_reference_decoder_is_a_function : forall out o ls e ls' e', dec_in out o ls e -> dec_in out o ls' e' -> ls = ls' /\ e = e').
Print Assumptions C06_reference_decoder_is_a_function.
Check (C06_reference_decoder_reads_policy_names : forall p off ls e, bytes_ok p -> cname_l p off ls e -> dec_in p off ls e).
Print Assumptions C06_reference_decoder_reads_policy_names.
Check (C06_content : forall p v, bytes_ok p -> parse p = Ok v -> uncompress p = Ok p ->
  exists out qls qt lxa lxn lxr X,
    compress p = Ok out /\ bytes_ok out /\ reading p qls qt lxa lxn lxr /\
    out = (firstn 12 p ++ wire_of_labels qls ++ firstn 4 (skipn (12 + length (wire_of_labels qls)) p)) ++ X /\
    recs_enc p out (12 + length (wire_of_labels qls) + 4) (lxa ++ lxn ++ lxr) (length out)).
Print Assumptions C06_content.
Check (C06_same_message : forall p v out v', bytes_ok p -> parse p = Ok v -> uncompress p = Ok p ->
  compress p = Ok out -> parse out = Ok v' ->
  exists qls qt lxa lxn lxr lxa' lxn' lxr',
    reading p qls qt lxa lxn lxr /\ reading out qls qt lxa' lxn' lxr' /\
    Forall2 ci_rec lxa lxa' /\ Forall2 ci_rec lxn lxn' /\ Forall2 ci_rec lxr lxr' /\
    uncompress out = Ok (plain_packet_of out qls qt lxa' lxn' lxr')).
Print Assumptions C06_same_message.
