(* Pinned statements of C06 (generated once by tools/mkpins.py from coq/props/C06.v, then committed). *)
From DV Require Import Model.Base Model.Parser Model.Header Model.Readers Model.Uncompress Model.Compress
  Proofs.Hoare Proofs.CompressFrame props.C06.
Check (C06_header_kept : forall (p out : bytes),
  compress p = Ok out -> firstn 12 out = firstn 12 p /\ 12 <= length out).
Print Assumptions C06_header_kept.
Check (C06_name_emission_appends : forall d out p off out' d' l f,
  copy_compressed_name d out p off = Ok (out', d', l, f) -> exists sfx, out' = out ++ sfx).
Print Assumptions C06_name_emission_appends.
