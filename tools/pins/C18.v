From DV Require Import Model.Base Model.NameCheck Model.Parser Proofs.Hoare props.C18.
Check (C18_parse_linear : forall p : bytes, bytes_ok p -> parse_steps p <= 75 * length p + 817).
Print Assumptions C18_parse_linear.
Check (C18_name_walk_bounded : forall (p : bytes) (off : nat), cn_cost p off <= 272 /\ un_cost p off <= 256).
Print Assumptions C18_name_walk_bounded.
