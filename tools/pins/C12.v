From DV Require Import Model.Base Model.Parser Model.Header Proofs.Hoare Proofs.HeaderBits props.C12.
Local Open Scope N_scope.
Check (C12_set_flags_bits : forall w f i, w < 65536 ->
  N.testbit (w_set_flags w f) i = if is_flag_bit i then N.testbit f i else N.testbit w i).
Print Assumptions C12_set_flags_bits.
Check (C12_set_flags_ignores_upper_half : forall w f, w_set_flags w f = w_set_flags w (f mod 65536)).
Print Assumptions C12_set_flags_ignores_upper_half.
Check (C12_set_flags_keeps_opcode_rcode : forall w f, N.land (w_set_flags w f) 30735 = N.land w 30735).
Print Assumptions C12_set_flags_keeps_opcode_rcode.
Check (C12_flags_after_set_flags : forall p f p' x, pk_set_flags p f = Ok p' ->
  pk_flags p' x = Ok (N.lor (N.shiftl (match x with Some v => v | None => 0 end) 16) (N.land f 34800))).
Print Assumptions C12_flags_after_set_flags.
Check (C12_set_response_bits : forall w r i, w < 65536 ->
  N.testbit (w_set_response w r) i = if i =? 15 then r else N.testbit w i).
Print Assumptions C12_set_response_bits.
Check (C12_set_rcode_spec : forall b r, b < 256 -> r < 256 ->
  b_rcode (b_set_rcode b r) = r mod 16 /\ N.land (b_set_rcode b r) 240 = N.land b 240 /\ b_set_rcode b r < 256).
Print Assumptions C12_set_rcode_spec.
Check (C12_set_opcode_spec : forall b o, b < 256 -> o < 256 ->
  b_opcode (b_set_opcode b o) = o mod 16 /\ N.land (b_set_opcode b o) 135 = N.land b 135 /\ b_set_opcode b o < 256).
Print Assumptions C12_set_opcode_spec.
Check (C12_tid_after_set_tid : forall p t p', pk_set_tid p t = Ok p' -> pk_tid p' = Ok (t mod 65536)).
Print Assumptions C12_tid_after_set_tid.
Check (C12_frames : forall p a p',
  (pk_set_flags p a = Ok p' -> only_bytes_changed p p' 2 4) /\
  (pk_set_rcode p a = Ok p' -> only_bytes_changed p p' 3 4) /\
  (pk_set_opcode p a = Ok p' -> only_bytes_changed p p' 2 3) /\
  (pk_set_tid p a = Ok p' -> only_bytes_changed p p' 0 2) /\
  (forall r, pk_set_response p r = Ok p' -> only_bytes_changed p p' 2 4)).
Print Assumptions C12_frames.
Check (C12_setters_total : forall p a, (12 <= length p)%nat ->
  nopanic (pk_set_flags p a) /\ nopanic (pk_set_tid p a) /\ nopanic (pk_set_rcode p a) /\
  nopanic (pk_set_opcode p a) /\ nopanic (pk_set_response p true) /\ nopanic (pk_set_response p false)).
Print Assumptions C12_setters_total.
