(* Pinned statements of C09 (generated once by tools/mkpins.py from coq/props/C09.v, then committed). *)
From DV Require Import Model.Base Model.NameCheck Model.Parser Model.Header Model.Readers Model.Uncompress
  Model.Mutate Spec.NameSpec Spec.PacketSpec Spec.RecordSpec Proofs.Hoare Proofs.HeaderBits Proofs.InsertLemmas
  Spec.PlainSpec Proofs.WalkValues Proofs.SetTtl Proofs.WalkSkip Proofs.PlainWf Proofs.InsertSpec Proofs.SetTtlInv Proofs.DeleteInv Proofs.SetNameInv Proofs.ReplaceInv Proofs.WalkInv Proofs.DecompressFirst Proofs.NameCheckTotal
  Model.Renamer Proofs.RenameSpec Proofs.CompressContent Proofs.RenameContent Proofs.RenameAny props.C09.
Check (C09_insert_appends : forall sec rr v it s',
  insert_core sec rr (v, it) = (s', Ok tt) ->
  exists p1 ins,
    rrcount_inc (pp_packet v) sec = Ok p1 /\ length p1 = length (pp_packet v) /\
    insertion_offset v sec = Ok ins /\
    pp_packet (fst s') = firstn ins p1 ++ rr ++ skipn ins p1).
Print Assumptions C09_insert_appends.
Check (C09_set_ttl_frame : forall ttl v it s',
  m_set_ttl ttl (v, it) = (s', Ok tt) ->
  snd s' = it /\
  only_bytes_changed (pp_packet v) (pp_packet (fst s')) (it_name_end it + 4) (it_name_end it + 8)).
Print Assumptions C09_set_ttl_frame.
Check (C09_set_ttl_effect : forall p v sec count off l e k r t it,
  bytes_ok p -> pp_packet v = p -> 12 <= off ->
  records_at p off l e -> e <= length p -> count = N.of_nat (length l) ->
  (match sec with
   | SAnswer => hdr_ancount p = Ok count /\ pp_offset_answers v = (if (0 <? count)%N then Some off else None)
   | SNameServers => hdr_nscount p = Ok count /\ pp_offset_nameservers v = (if (0 <? count)%N then Some off else None)
   | SAdditional => hdr_arcount p = Ok count /\ pp_offset_additional v = (if (0 <? count)%N then Some off else None)
   | _ => False
   end) ->
  nth_error l k = Some r -> it_offset it = Some (rv_off r) -> it_name_end it = rv_name_end r ->
  (t < 4294967296)%N ->
  (forall r', In r' l -> forall i, name_reads p (rv_off r') i -> i < rv_name_end r + 4 \/ rv_name_end r + 8 <= i) ->
  exists v', m_set_ttl t (v, it) = ((v', it), Ok tt) /\
    only_bytes_changed p (pp_packet v') (rv_name_end r + 4) (rv_name_end r + 8) /\
    walk_views v sec = Ok (map (view_of p) l) /\
    walk_views v' sec = Ok (map (view_of p) (replace_nth l k (rv_with_ttl r t)))).
Print Assumptions C09_set_ttl_effect.
Check (C09_set_ttl_without_it_refuted : exists v v' it,
    parse data_pointer_packet = Ok v /\ m_set_ttl 23265280 (v, it) = ((v', it), Ok tt) /\
    it_offset it = Some 19 /\
    (exists l, walk_views v SAnswer = Ok l /\ map view_name l = [[97]; [98]]%N) /\
    (exists l', walk_views v' SAnswer = Ok l' /\ map view_name l' = [[97]; [99]]%N)).
Print Assumptions C09_set_ttl_without_it_refuted.
Check (C09_insert_effect : forall p v it sec rx s',
  bytes_ok p -> parse p = Ok v -> plain_rr_ok rx -> sec = SAnswer \/ sec = SNameServers \/ sec = SAdditional ->
  (sec <> SAdditional -> exists w, u16_at p 2 w /\ N.land w 32768 = 32768%N) ->
  m_insert_rr sec (plain_record rx) (v, it) = (s', Ok tt) ->
  exists q qls qt A Nn R,
    let o1 := 12 + length (wire_of_labels qls) + 4 in
    uncompress p = Ok q /\
    reading q qls qt (place o1 A) (place (o1 + length (cat A)) Nn) (place (o1 + length (cat A) + length (cat Nn)) R) /\
    let A' := ext_a sec rx A in let N' := ext_n sec rx Nn in let R' := ext_r sec rx R in
    let z := pp_packet (fst s') in
    q = build (firstn 12 q) qls qt A Nn R /\ z = build (firstn 12 z) qls qt A' N' R' /\
    bytes_ok z /\ wf_packet z /\
    reading z qls qt (place o1 A') (place (o1 + length (cat A')) N') (place (o1 + length (cat A') + length (cat N')) R') /\
    snd s' = it /\
    exists f, parse z = Ok f /\
      pp_offset_question (fst s') = pp_offset_question f /\ pp_offset_answers (fst s') = pp_offset_answers f /\
      pp_offset_nameservers (fst s') = pp_offset_nameservers f /\ pp_offset_additional (fst s') = pp_offset_additional f /\
      pp_offset_edns (fst s') = pp_offset_edns f /\ pp_edns_count (fst s') = pp_edns_count f /\
      pp_ext_rcode (fst s') = pp_ext_rcode f /\ pp_edns_version (fst s') = pp_edns_version f /\
      pp_ext_flags (fst s') = pp_ext_flags f /\ pp_max_payload (fst s') = pp_max_payload f /\
      pp_maybe_compressed (fst s') = false /\ pp_cached (fst s') = None).
Print Assumptions C09_insert_effect.
Check (C09_accepted_records_insertable : forall p0 sec seen off off1 seen1, bytes_ok p0 -> rr_wf p0 sec seen off off1 seen1 ->
  exists r x, rv_off r = off /\ record_at p0 r off1 /\ rdata_at p0 r x /\ (is_opt r = false -> plain_rr_ok (r, x))).
Print Assumptions C09_accepted_records_insertable.
Check (C09_set_ttl_on_decompressed : forall v it t s' qls qt lA lN lR r x,
  dinv v -> (t < 4294967296)%N -> reading (pp_packet v) qls qt lA lN lR -> In (r, x) (lA ++ lN ++ lR) -> is_opt r = false ->
  it_offset it <> None -> it_name_end it = rv_name_end r ->
  m_set_ttl t (v, it) = (s', Ok tt) ->
  dinv (fst s') /\ snd s' = it /\
  exists lA' lN' lR' L1 L2, reading (pp_packet (fst s')) qls qt lA' lN' lR' /\
    length lA' = length lA /\ length lN' = length lN /\ length lR' = length lR /\
    lA ++ lN ++ lR = L1 ++ (r, x) :: L2 /\ lA' ++ lN' ++ lR' = L1 ++ (rv_with_ttl r t, x) :: L2).
Print Assumptions C09_set_ttl_on_decompressed.
Check (C09_delete_on_decompressed : forall v it s' qls qt lA lN lR r x,
  dinv v -> reading (pp_packet v) qls qt lA lN lR -> In (r, x) (lA ++ lN ++ lR) -> is_opt r = false ->
  it_offset it = Some (rv_off r) -> it_name_end it = rv_name_end r -> it_offset_next it = rv_name_end r + 10 + rv_rdlen r ->
  m_delete (v, it) = (s', Ok tt) ->
  dinv (fst s') /\ it_offset (snd s') = None /\
  exists A Nn R A' Nn' R' X1 r0 X2,
    let o1 := 12 + length (wire_of_labels qls) + 4 in
    lA = place o1 A /\ lN = place (o1 + length (cat A)) Nn /\ lR = place (o1 + length (cat A) + length (cat Nn)) R /\
    reading (pp_packet (fst s')) qls qt (place o1 A') (place (o1 + length (cat A')) Nn') (place (o1 + length (cat A') + length (cat Nn')) R') /\
    A ++ Nn ++ R = X1 ++ (r0, x) :: X2 /\ A' ++ Nn' ++ R' = X1 ++ X2 /\ r = rv_at r0 x (o1 + length (cat X1)) /\
    ((length A' + 1 = length A /\ Nn' = Nn /\ R' = R) \/ (A' = A /\ length Nn' + 1 = length Nn /\ R' = R) \/
     (A' = A /\ Nn' = Nn /\ length R' + 1 = length R)) /\
    (forall w0, u16_at (pp_packet v) 2 w0 -> u16_at (pp_packet (fst s')) 2 w0)).
Print Assumptions C09_delete_on_decompressed.
Check (C09_set_name_on_decompressed : forall nm v it s' qls qt lA lN lR r x,
  dinv v -> bytes_ok nm -> reading (pp_packet v) qls qt lA lN lR -> In (r, x) (lA ++ lN ++ lR) -> is_opt r = false ->
  it_offset it = Some (rv_off r) -> it_name_end it = rv_name_end r ->
  m_set_raw_name nm (v, it) = (s', Ok tt) ->
  dinv (fst s') /\
  exists n ls A Nn R A' Nn' R' X1 r0 X2,
    let o1 := 12 + length (wire_of_labels qls) + 4 in
    check_compressed_name nm 0 = Ok n /\ firstn n nm = wire_of_labels ls /\ name_ok ls /\
    lA = place o1 A /\ lN = place (o1 + length (cat A)) Nn /\ lR = place (o1 + length (cat A) + length (cat Nn)) R /\
    reading (pp_packet (fst s')) qls qt (place o1 A') (place (o1 + length (cat A')) Nn') (place (o1 + length (cat A') + length (cat Nn')) R') /\
    A ++ Nn ++ R = X1 ++ (r0, x) :: X2 /\ A' ++ Nn' ++ R' = X1 ++ with_labels (r0, x) ls :: X2 /\ r = rv_at r0 x (o1 + length (cat X1)) /\
    length A' = length A /\ length Nn' = length Nn /\ length R' = length R /\
    (forall w0, u16_at (pp_packet v) 2 w0 -> u16_at (pp_packet (fst s')) 2 w0)).
Print Assumptions C09_set_name_on_decompressed.
Check (C09_set_ip_on_decompressed : forall v it ip s' qls qt lA lN lR r x,
  dinv v -> bytes_ok ip -> reading (pp_packet v) qls qt lA lN lR -> In (r, x) (lA ++ lN ++ lR) ->
  it_offset it = Some (rv_off r) -> it_name_end it = rv_name_end r ->
  m_set_ip ip (v, it) = (s', Ok tt) ->
  dinv (fst s') /\ snd s' = it /\ ip_type_len (rv_type r) (length ip) /\
  exists lA' lN' lR' L1 L2, reading (pp_packet (fst s')) qls qt lA' lN' lR' /\
    length lA' = length lA /\ length lN' = length lN /\ length lR' = length lR /\
    lA ++ lN ++ lR = L1 ++ (r, x) :: L2 /\ lA' ++ lN' ++ lR' = L1 ++ (rv_at r (RdRaw ip) (rv_off r), RdRaw ip) :: L2).
Print Assumptions C09_set_ip_on_decompressed.
Check (C09_delete_on_parsed_packet : forall p v qls qt lA lN lR sec l1 r x l2 n s',
  bytes_ok p -> parse p = Ok v -> reading p qls qt lA lN lR -> sec = SAnswer \/ sec = SNameServers \/ sec = SAdditional ->
  sec_list sec lA lN lR = l1 ++ (r, x) :: l2 -> is_opt r = false ->
  m_delete (v, cur_on sec r n) = (s', Ok tt) ->
  dinv (fst s') /\ it_offset (snd s') = None /\ it_section (snd s') = sec /\
  exists lA' lN' lR', reading (pp_packet (fst s')) qls qt lA' lN' lR' /\
    map unpl (sec_list sec lA' lN' lR') = map unpl l1 ++ map unpl l2 /\ other_sections_kept sec lA lN lR lA' lN' lR').
Print Assumptions C09_delete_on_parsed_packet.
Check (C09_set_name_on_parsed_packet : forall nm p v qls qt lA lN lR sec l1 r x l2 n s',
  bytes_ok p -> bytes_ok nm -> parse p = Ok v -> reading p qls qt lA lN lR -> sec = SAnswer \/ sec = SNameServers \/ sec = SAdditional ->
  sec_list sec lA lN lR = l1 ++ (r, x) :: l2 -> is_opt r = false ->
  m_set_raw_name nm (v, cur_on sec r n) = (s', Ok tt) ->
  dinv (fst s') /\
  exists n0 ls lA' lN' lR' U1 U2,
    check_compressed_name nm 0 = Ok n0 /\ firstn n0 nm = wire_of_labels ls /\ name_ok ls /\
    reading (pp_packet (fst s')) qls qt lA' lN' lR' /\
    length lA' = length lA /\ length lN' = length lN /\ length lR' = length lR /\
    map unpl (lA ++ lN ++ lR) = U1 ++ unpl (r, x) :: U2 /\
    map unpl (lA' ++ lN' ++ lR') = U1 ++ unpl (with_labels (r, x) ls) :: U2 /\
    length U1 = (match sec with SAnswer => 0 | SNameServers => length lA | _ => length lA + length lN end) + length l1).
Print Assumptions C09_set_name_on_parsed_packet.
Check (C09_insert_on_decompressed : forall v it sec rx s',
  dinv v -> plain_rr_ok rx -> sec = SAnswer \/ sec = SNameServers \/ sec = SAdditional ->
  (sec <> SAdditional -> is_response (pp_packet v)) ->
  m_insert_rr sec (plain_record rx) (v, it) = (s', Ok tt) ->
  dinv (fst s') /\ snd s' = it /\ (is_response (pp_packet v) -> is_response (pp_packet (fst s'))) /\
  exists qls qt A Nn R,
    let o1 := 12 + length (wire_of_labels qls) + 4 in
    reading (pp_packet v) qls qt (place o1 A) (place (o1 + length (cat A)) Nn) (place (o1 + length (cat A) + length (cat Nn)) R) /\
    let A' := ext_a sec rx A in let N' := ext_n sec rx Nn in let R' := ext_r sec rx R in
    reading (pp_packet (fst s')) qls qt (place o1 A') (place (o1 + length (cat A')) N') (place (o1 + length (cat A') + length (cat N')) R')).
Print Assumptions C09_insert_on_decompressed.
Check (C09_rename_effect : forall p v it sl tl sfx s', bytes_ok p -> parse p = Ok v ->
  Forall lab sl -> Forall lab tl -> sl <> [] -> tl <> [] -> bytes_ok (wire_of_labels tl) ->
  length (wire_of_labels sl) <= 255 -> length (wire_of_labels tl) <= 255 ->
  m_rename (wire_of_labels tl) (wire_of_labels sl) sfx (v, it) = (s', Ok tt) ->
  snd s' = it /\
  exists qls qt lxa lxn lxr qls' L' lxa' lxn' lxr',
    reading p qls qt lxa lxn lxr /\ renamed sl tl sfx qls qls' /\ Forall2 (ren_rec sl tl sfx) (lxa ++ lxn ++ lxr) L' /\
    reading (pp_packet (fst s')) qls' qt lxa' lxn' lxr' /\ Forall2 ci_rec L' (lxa' ++ lxn' ++ lxr') /\
    length lxa' = length lxa /\ length lxn' = length lxn /\ length lxr' = length lxr /\ firstn 12 (pp_packet (fst s')) = firstn 12 p).
Print Assumptions C09_rename_effect.
Check (C09_rename_on_decompressed : forall v it sl tl sfx s', dinv v ->
  Forall lab sl -> Forall lab tl -> sl <> [] -> tl <> [] -> bytes_ok (wire_of_labels tl) ->
  length (wire_of_labels sl) <= 255 -> length (wire_of_labels tl) <= 255 ->
  m_rename (wire_of_labels tl) (wire_of_labels sl) sfx (v, it) = (s', Ok tt) ->
  snd s' = it /\ bytes_ok (pp_packet (fst s')) /\ parse (pp_packet (fst s')) = Ok (fst s') /\
  exists qls qt lxa lxn lxr qls' L' lxa' lxn' lxr',
    reading (pp_packet v) qls qt lxa lxn lxr /\ renamed sl tl sfx qls qls' /\ Forall2 (ren_rec sl tl sfx) (lxa ++ lxn ++ lxr) L' /\
    reading (pp_packet (fst s')) qls' qt lxa' lxn' lxr' /\ Forall2 ci_rec L' (lxa' ++ lxn' ++ lxr') /\
    length lxa' = length lxa /\ length lxn' = length lxn /\ length lxr' = length lxr /\ firstn 12 (pp_packet (fst s')) = firstn 12 (pp_packet v)).
Print Assumptions C09_rename_on_decompressed.
