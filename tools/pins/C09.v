(* Pinned statements of C09 (generated once by tools/mkpins.py from coq/props/C09.v, then committed). *)
From DV Require Import Model.Base Model.NameCheck Model.Parser Model.Header Model.Readers Model.Uncompress
  Model.Mutate Proofs.Hoare Proofs.HeaderBits Proofs.InsertLemmas props.C09.
Check (C09_insert_appends : forall sec rr v it s',
  insert_core sec rr (v, it) = (s', Ok tt) ->
  exists p1 ins,
    rrcount_inc (pp_packet v) sec = Ok p1 /\ length p1 = length (pp_packet v) /\
    insertion_offset v sec = Ok ins /\
    pp_packet (fst s') = firstn ins p1 ++ rr ++ skipn ins p1).
Print Assumptions C09_insert_appends.
Check (C09_set_ttl_frame : forall ttl v it s',
  m_set_ttl ttl (v, it) = (s', Ok tt) ->
  snd s' = it /\
  only_bytes_changed (pp_packet v) (pp_packet (fst s')) (it_name_end it + 4) (it_name_end it + 8)).
Print Assumptions C09_set_ttl_frame.
