(* Pinned statements of C09 (generated once by tools/mkpins.py from coq/props/C09.v, then committed). *)
From DV Require Import Model.Base Model.NameCheck Model.Parser Model.Header Model.Readers Model.Uncompress
  Model.Mutate Spec.NameSpec Spec.PacketSpec Spec.RecordSpec Proofs.Hoare Proofs.HeaderBits Proofs.InsertLemmas
  Proofs.WalkValues Proofs.SetTtl props.C09.
Check (C09_insert_appends : forall sec rr v it s',
  insert_core sec rr (v, it) = (s', Ok tt) ->
  exists p1 ins,
    rrcount_inc (pp_packet v) sec = Ok p1 /\ length p1 = length (pp_packet v) /\
    insertion_offset v sec = Ok ins /\
    pp_packet (fst s') = firstn ins p1 ++ rr ++ skipn ins p1).
Print Assumptions C09_insert_appends.
Check (C09_set_ttl_frame : forall ttl v it s',
  m_set_ttl ttl (v, it) = (s', Ok tt) ->
  snd s' = it /\
  only_bytes_changed (pp_packet v) (pp_packet (fst s')) (it_name_end it + 4) (it_name_end it + 8)).
Print Assumptions C09_set_ttl_frame.
Check (C09_set_ttl_effect : forall p v sec count off l e k r t it,
  bytes_ok p -> pp_packet v = p -> 12 <= off ->
  records_at p off l e -> e <= length p -> count = N.of_nat (length l) ->
  (match sec with
   | SAnswer => hdr_ancount p = Ok count /\ pp_offset_answers v = (if (0 <? count)%N then Some off else None)
   | SNameServers => hdr_nscount p = Ok count /\ pp_offset_nameservers v = (if (0 <? count)%N then Some off else None)
   | SAdditional => hdr_arcount p = Ok count /\ pp_offset_additional v = (if (0 <? count)%N then Some off else None)
   | _ => False
   end) ->
  nth_error l k = Some r -> it_offset it = Some (rv_off r) -> it_name_end it = rv_name_end r ->
  (t < 4294967296)%N ->
  (forall r', In r' l -> forall i, name_reads p (rv_off r') i -> i < rv_name_end r + 4 \/ rv_name_end r + 8 <= i) ->
  exists v', m_set_ttl t (v, it) = ((v', it), Ok tt) /\
    only_bytes_changed p (pp_packet v') (rv_name_end r + 4) (rv_name_end r + 8) /\
    walk_views v sec = Ok (map (view_of p) l) /\
    walk_views v' sec = Ok (map (view_of p) (replace_nth l k (rv_with_ttl r t)))).
Print Assumptions C09_set_ttl_effect.
Check (C09_set_ttl_without_it_refuted : exists v v' it,
    parse data_pointer_packet = Ok v /\ m_set_ttl 23265280 (v, it) = ((v', it), Ok tt) /\
    it_offset it = Some 19 /\
    (exists l, walk_views v SAnswer = Ok l /\ map view_name l = [[97]; [98]]%N) /\
    (exists l', walk_views v' SAnswer = Ok l' /\ map view_name l' = [[97]; [99]]%N)).
Print Assumptions C09_set_ttl_without_it_refuted.
