(* Pinned statements of C14 (generated once by tools/mkpins.py from coq/props/C14.v, then committed). *)
From DV Require Import Model.Base Model.Parser Model.Header Model.Readers Model.Uncompress Model.Mutate
  Model.Gen Model.Text Proofs.Hoare Proofs.SynthTotal props.C14.
Check (C14_from_str_total : forall name zone, nopanic (raw_name_from_str name zone)).
Print Assumptions C14_from_str_total.
Check (C14_from_str_len : forall raw name zone w,
  copy_raw_name_from_str raw name zone = Ok w ->
  exists enc, w = raw ++ enc /\ 1 <= length enc <= 253 /\ length name <= 253).
Print Assumptions C14_from_str_len.
