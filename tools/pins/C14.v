(* Pinned statements of C14 (generated once by tools/mkpins.py from coq/props/C14.v, then committed). *)
From DV Require Import Model.Base Model.Parser Model.Header Model.Readers Model.Uncompress Model.Mutate
  Model.Gen Model.Text Spec.NameSpec Spec.RecordSpec Proofs.Hoare Proofs.SynthTotal Proofs.NameText
  Spec.PacketSpec Spec.PlainSpec Proofs.WalkSkip Proofs.PlainWf Proofs.InsertSpec Proofs.HeaderInv Proofs.WalkInv Proofs.RenameCursor Proofs.ReadersLabels Proofs.QuestionSpec props.C14.
Check (C14_from_str_total : forall name zone, nopanic (raw_name_from_str name zone)).
Print Assumptions C14_from_str_total.
Check (C14_from_str_len : forall raw name zone w,
  copy_raw_name_from_str raw name zone = Ok w ->
  exists enc, w = raw ++ enc /\ 1 <= length enc <= 253 /\ length name <= 253).
Print Assumptions C14_from_str_len.
Check (C14_from_str_sound : forall raw name z w,
  copy_raw_name_from_str raw name z = Ok w ->
  exists ls, Forall tlabel_ok ls /\
    ((ls <> [] /\ name = dotted ls /\ w = raw ++ labels_flat ls ++ zone_or_root z /\
      length (labels_flat ls ++ zone_or_root z) <= 253)
     \/ ((name = dots ls \/ (name = [46%N] /\ ls = [])) /\ w = raw ++ wire_of_labels ls /\
         length (wire_of_labels ls) <= 253))).
Print Assumptions C14_from_str_sound.
Check (C14_accepts_open : forall raw ls last z,
  Forall tlabel_ok ls -> tlabel_ok last ->
  length (labels_flat (ls ++ [last]) ++ zone_or_root z) <= 253 ->
  copy_raw_name_from_str raw (dotted (ls ++ [last])) z = Ok (raw ++ labels_flat (ls ++ [last]) ++ zone_or_root z)).
Print Assumptions C14_accepts_open.
Check (C14_accepts_closed : forall raw ls z,
  Forall tlabel_ok ls -> length (wire_of_labels ls) <= 253 ->
  copy_raw_name_from_str raw (dots ls) z = Ok (raw ++ wire_of_labels ls)).
Print Assumptions C14_accepts_closed.
Check (C14_rejects_empty_label : forall raw a b z,
  copy_raw_name_from_str raw (a ++ 46%N :: 46%N :: b) z = Err InvalidName).
Print Assumptions C14_rejects_empty_label.
Check (C14_rejects_leading_dot : forall raw b z, b <> [] ->
  copy_raw_name_from_str raw (46%N :: b) z = Err InvalidName).
Print Assumptions C14_rejects_leading_dot.
Check (C14_rejects_long_label : forall raw l b z,
  forallb (fun c => negb (c =? 46)%N) l = true -> 63 <= length l ->
  copy_raw_name_from_str raw (l ++ b) z = Err InvalidName).
Print Assumptions C14_rejects_long_label.
Check (C14_rejects_long_label_after_dot : forall raw a l b z, a <> [] ->
  forallb text_char_ok a = true -> length a <= 62 ->
  forallb (fun c => negb (c =? 46)%N) l = true -> 63 <= length l ->
  copy_raw_name_from_str raw (a ++ 46%N :: l ++ b) z = Err InvalidName).
Print Assumptions C14_rejects_long_label_after_dot.
Check (C14_rejects_long_text : forall raw name z, 253 < length name ->
  copy_raw_name_from_str raw name z = Err InvalidName).
Print Assumptions C14_rejects_long_text.
Check (C14_ldh_roundtrip : forall ls, Forall ldh_label ls -> length (wire_of_labels ls) <= 253 ->
  raw_name_from_str (dots ls) None = Ok (wire_of_labels ls) /\
  (ls <> [] -> raw_name_from_str (dotted ls) None = Ok (wire_of_labels ls)) /\
  raw_name_to_str (wire_of_labels ls) 0 = Ok (dotted ls) /\
  cname_l (wire_of_labels ls) 0 ls (length (wire_of_labels ls))).
Print Assumptions C14_ldh_roundtrip.
Check (C14_set_name_reads_back : forall ls v sec l1 r x l2 n s' qls qt lA lN lR,
  dinv v -> Forall (fun l : bytes => l <> []) ls -> bytes_ok (wire_of_labels ls) ->
  reading (pp_packet v) qls qt lA lN lR -> sec = SAnswer \/ sec = SNameServers \/ sec = SAdditional ->
  sec_list sec lA lN lR = l1 ++ (r, x) :: l2 -> is_opt r = false ->
  m_set_raw_name (wire_of_labels ls) (v, cur_on sec r n) = (s', Ok tt) ->
  it_name (fst s') (snd s') = Ok (ascii_lowercase (dotted ls)) /\
  it_copy_raw_name (fst s') (snd s') = Ok (wire_of_labels ls, length (wire_of_labels ls))).
Print Assumptions C14_set_name_reads_back.
Check (C14_text_reads_back : forall ls v sec l1 r x l2 n s' qls qt lA lN lR w,
  Forall ldh_label ls -> ls <> [] -> length (wire_of_labels ls) <= 253 ->
  raw_name_from_str (dotted ls) None = Ok w ->
  dinv v -> reading (pp_packet v) qls qt lA lN lR -> sec = SAnswer \/ sec = SNameServers \/ sec = SAdditional ->
  sec_list sec lA lN lR = l1 ++ (r, x) :: l2 -> is_opt r = false ->
  m_set_raw_name w (v, cur_on sec r n) = (s', Ok tt) ->
  it_name (fst s') (snd s') = Ok (ascii_lowercase (dotted ls))).
Print Assumptions C14_text_reads_back.
Check (C14_accepted_text_is_policy_name : forall raw name w, copy_raw_name_from_str raw name None = Ok w ->
  exists ls, Forall label_ok ls /\ w = raw ++ wire_of_labels ls /\ length (wire_of_labels ls) <= 253 /\
             cname_l (wire_of_labels ls) 0 ls (length (wire_of_labels ls)) /\
             (name = dotted ls \/ name = dots ls \/ (name = [46%N] /\ ls = []))).
Print Assumptions C14_accepted_text_is_policy_name.
