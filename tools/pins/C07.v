(* Pinned statements of C07 (generated once by tools/mkpins.py from coq/props/C07.v, then committed). *)
From DV Require Import Model.Base Model.Parser Model.Header Model.Readers Model.Uncompress Model.Compress
  Model.Renamer Proofs.Hoare Proofs.CompressFrame props.C07.
Check (C07_replace_raw_shape : forall name target source sfx r,
  replace_raw name target source sfx = Ok (Some r) ->
  length source <= length name /\
  r = firstn (length name - length source) name ++ target /\
  length name - length source + length target <= 255 /\
  (sfx = false -> length name = length source)).
Print Assumptions C07_replace_raw_shape.
