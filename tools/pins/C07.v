(* Pinned statements of C07 (generated once by tools/mkpins.py from coq/props/C07.v, then committed). *)
From DV Require Import Model.Base Model.Parser Model.Header Model.Readers Model.Uncompress Model.Compress
  Model.Renamer Spec.NameSpec Spec.PacketSpec Spec.RecordSpec Spec.PlainSpec Proofs.Hoare Proofs.CompressFrame Proofs.RenameSpec Proofs.PlainWf
  Proofs.CompressContent Proofs.RenameContent props.C07.
Check (C07_replace_raw_shape : forall name target source sfx r,
  replace_raw name target source sfx = Ok (Some r) ->
  length source <= length name /\
  r = firstn (length name - length source) name ++ target /\
  length name - length source + length target <= 255 /\
  (sfx = false -> length name = length source)).
Print Assumptions C07_replace_raw_shape.
Check (C07_replaces_matching_suffix : forall (nl sl tl : list bytes) (sfx : bool),
  Forall lab nl -> Forall lab sl -> Forall lab tl -> sl <> [] -> tl <> [] ->
  forall pre rest, nl = pre ++ rest -> ci_labels rest sl -> sfx = true \/ pre = [] ->
  replace_raw (wire_of_labels nl) (wire_of_labels tl) (wire_of_labels sl) sfx =
    if DNS_MAX_HOSTNAME_LEN <? length (labels_flat pre) + length (wire_of_labels tl) then Err InvalidName
    else Ok (Some (wire_of_labels (pre ++ tl)))).
Print Assumptions C07_replaces_matching_suffix.
Check (C07_keeps_other_names : forall (nl sl tl : list bytes) (sfx : bool),
  Forall lab nl -> Forall lab sl -> Forall lab tl -> sl <> [] -> tl <> [] ->
  (forall pre rest, nl = pre ++ rest -> ci_labels rest sl -> ~ (sfx = true \/ pre = [])) ->
  replace_raw (wire_of_labels nl) (wire_of_labels tl) (wire_of_labels sl) sfx = Ok None).
Print Assumptions C07_keeps_other_names.
Check (C07_identity : forall nl sl, Forall lab nl -> Forall lab sl -> sl <> [] -> ci_labels nl sl ->
  length (wire_of_labels sl) <= 255 ->
  replace_raw (wire_of_labels nl) (wire_of_labels sl) (wire_of_labels sl) false = Ok (Some (wire_of_labels sl))).
Print Assumptions C07_identity.
Check (C07_packet : forall p v sl tl sfx, bytes_ok p -> parse p = Ok v ->
  Forall lab sl -> Forall lab tl -> sl <> [] -> tl <> [] -> bytes_ok (wire_of_labels tl) ->
  length (wire_of_labels sl) <= 255 -> length (wire_of_labels tl) <= 255 ->
  exists qls qt lxa lxn lxr qe, reading p qls qt lxa lxn lxr /\ cname_l p 12 qls qe /\
    ((renamer_rename v (wire_of_labels tl) (wire_of_labels sl) sfx = Err InvalidName /\
      (overflows sl tl sfx qls \/ Exists (rec_overflows sl tl sfx) (lxa ++ lxn ++ lxr))) \/
     exists out qls' L' X, renamer_rename v (wire_of_labels tl) (wire_of_labels sl) sfx = Ok out /\ bytes_ok out /\
       renamed sl tl sfx qls qls' /\ Forall2 (ren_rec sl tl sfx) (lxa ++ lxn ++ lxr) L' /\
       ~ overflows sl tl sfx qls /\ Forall (fun rx => ~ rec_overflows sl tl sfx rx) (lxa ++ lxn ++ lxr) /\
       out = (firstn 12 p ++ wire_of_labels qls' ++ firstn 4 (skipn qe p)) ++ X /\
       recs_enc p out (12 + length (wire_of_labels qls') + 4) L' (length out))).
Print Assumptions C07_packet.
Check (C07_same_message : forall p v sl tl sfx out v', bytes_ok p -> parse p = Ok v ->
  Forall lab sl -> Forall lab tl -> sl <> [] -> tl <> [] -> bytes_ok (wire_of_labels tl) ->
  length (wire_of_labels sl) <= 255 -> length (wire_of_labels tl) <= 255 ->
  renamer_rename v (wire_of_labels tl) (wire_of_labels sl) sfx = Ok out -> parse out = Ok v' ->
  exists qls qt lxa lxn lxr qls' L' lxa' lxn' lxr',
    reading p qls qt lxa lxn lxr /\ renamed sl tl sfx qls qls' /\ Forall2 (ren_rec sl tl sfx) (lxa ++ lxn ++ lxr) L' /\
    reading out qls' qt lxa' lxn' lxr' /\ Forall2 ci_rec L' (lxa' ++ lxn' ++ lxr') /\
    length lxa' = length lxa /\ length lxn' = length lxn /\ length lxr' = length lxr /\ firstn 12 out = firstn 12 p).
Print Assumptions C07_same_message.
