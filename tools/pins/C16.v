(* Pinned statements of C16 (generated once by tools/mkpins.py from coq/props/C16.v, then committed). *)
From DV Require Import Model.Base Model.ErrSlot Proofs.ErrSlotPrivate props.C16.
Check (C16_thread_private : forall ops : list cop,
  run_sched slots_init ops = reads_with_history [] ops).
Print Assumptions C16_thread_private.
Check (C16_other_threads_irrelevant : forall (ops : list cop) (t : nat),
  last_fail t (filter (fun o => match o with CFail u _ => Nat.eqb u t | CRead u => Nat.eqb u t end) ops)
  = last_fail t ops).
Print Assumptions C16_other_threads_irrelevant.
