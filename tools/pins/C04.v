(* Pinned statements of C04 (generated once by tools/mkpins.py from coq/props/C04.v, then committed). *)
From DV Require Import Model.Base Model.Parser Model.Header Proofs.Hoare Proofs.HeaderBits Proofs.SummaryBits props.C04.
Local Open Scope N_scope.
Check (C04_flags_word : forall w x i, w < 65536 ->
  N.testbit (w_flags w x) i =
  if i <? 16 then (if is_flag_bit i then N.testbit w i else false)
  else N.testbit (match x with Some v => v | None => 0 end) (i - 16)).
Print Assumptions C04_flags_word.
Check (C04_dnssec_bits : forall w x, w < 65536 ->
  f_dnssec (w_flags w x) =
  if N.testbit w 15 then N.testbit w 5 else N.testbit (match x with Some v => v | None => 0 end) 15).
Print Assumptions C04_dnssec_bits.
