(* Pinned statements of C04 (generated once by tools/mkpins.py from coq/props/C04.v, then committed). *)
From DV Require Import Model.Base Model.Parser Model.Header Model.Readers Spec.NameSpec Spec.RecordSpec Proofs.Hoare Proofs.HeaderBits
  Proofs.SummaryBits Proofs.ReadersLabels Proofs.QuestionSpec Proofs.EdnsFacts Proofs.WalkSkip Proofs.EdnsPlain Spec.PacketSpec Proofs.HeaderFields Model.NameCheck Model.Uncompress Model.Mutate Model.Gen Proofs.NameText Proofs.QueryFresh props.C04.
Local Open Scope N_scope.
Check (C04_flags_word : forall w x i, w < 65536 ->
  N.testbit (w_flags w x) i =
  if i <? 16 then (if is_flag_bit i then N.testbit w i else false)
  else N.testbit (match x with Some v => v | None => 0 end) (i - 16)).
Print Assumptions C04_flags_word.
Check (C04_dnssec_bits : forall w x, w < 65536 ->
  f_dnssec (w_flags w x) =
  if N.testbit w 15 then N.testbit w 5 else N.testbit (match x with Some v => v | None => 0 end) 15).
Print Assumptions C04_dnssec_bits.
Check (C04_question_getters : forall p v, bytes_ok p -> parse p = Ok v ->
  exists ls t, question_of p ls t CLASS_IN /\
    let wire := wire_of_labels ls in
    let v' := pp_with_cached v (Some (wire, t, CLASS_IN)) in
    pp_question_raw0 v = Ok (v', Some (wire, t, CLASS_IN)) /\
    pp_question_raw v = Ok (v', Some (labels_flat ls, t, CLASS_IN)) /\
    pp_question v = Ok (Some (ascii_lowercase (dotted ls), t, CLASS_IN)) /\
    pp_qtype_qclass v = Ok (Some (t, CLASS_IN)) /\
    pp_question_raw0 v' = Ok (v', Some (wire, t, CLASS_IN)) /\
    pp_question_raw v' = Ok (v', Some (labels_flat ls, t, CLASS_IN)) /\
    pp_question v' = Ok (Some (ascii_lowercase (dotted ls), t, CLASS_IN)) /\
    pp_qtype_qclass v' = Ok (Some (t, CLASS_IN))).
Print Assumptions C04_question_getters.
Check (C04_question_decoding_unique : forall p ls t c ls' t' c',
  question_of p ls t c -> question_of p ls' t' c' -> ls = ls' /\ t = t' /\ c = c').
Print Assumptions C04_question_decoding_unique.
Check (C04_edns_summary : forall p v, bytes_ok p -> parse p = Ok v -> esum_v p v).
Print Assumptions C04_edns_summary.
Check (C04_summary_of_opt_record : forall p v, bytes_ok p -> parse p = Ok v ->
  exists an ns ar qe e1 e2 la ln lr,
    pp_packet v = p /\ cname p 12 qe /\
    hdr_ancount p = Ok an /\ hdr_nscount p = Ok ns /\ hdr_arcount p = Ok ar /\
    records_at p (qe + 4) la e1 /\ length la = N.to_nat an /\
    records_at p e1 ln e2 /\ length ln = N.to_nat ns /\
    records_at p e2 lr (length p) /\ length lr = N.to_nat ar /\
    summary_of p (find is_opt (la ++ ln ++ lr)) v).
Print Assumptions C04_summary_of_opt_record.
Check (C04_id_opcode_rcode : forall p t w, bytes_ok p -> u16_at p 0 t -> u16_at p 2 w ->
  pk_tid p = Ok t /\ pk_rcode p = Ok (w mod 16) /\ pk_opcode p = Ok ((w / 2048) mod 16)).
Print Assumptions C04_id_opcode_rcode.
Check (C04_query_getters : forall tid name qt v, (tid < 65536)%N -> (qt < 65536)%N -> gen_query tid name qt CLASS_IN = Ok v ->
  exists ls, Forall label_ok ls /\ (name = dotted ls \/ name = dots ls \/ (name = [46%N] /\ ls = [])) /\
    let wire := wire_of_labels ls in
    let v' := pp_with_cached v (Some (wire, qt, CLASS_IN)) in
    pp_question_raw0 v = Ok (v', Some (wire, qt, CLASS_IN)) /\
    pp_question_raw v = Ok (v', Some (labels_flat ls, qt, CLASS_IN)) /\
    pp_question v = Ok (Some (ascii_lowercase (dotted ls), qt, CLASS_IN)) /\
    pp_qtype_qclass v = Ok (Some (qt, CLASS_IN)) /\
    pp_question_raw0 v' = Ok (v', Some (wire, qt, CLASS_IN)) /\
    pp_question_raw v' = Ok (v', Some (labels_flat ls, qt, CLASS_IN)) /\
    pp_question v' = Ok (Some (ascii_lowercase (dotted ls), qt, CLASS_IN)) /\
    pp_qtype_qclass v' = Ok (Some (qt, CLASS_IN))).
Print Assumptions C04_query_getters.
