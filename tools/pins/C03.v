(* Pinned statements of C03 (generated once by tools/mkpins.py from coq/props/C03.v, then committed). *)
From DV Require Import Model.Base Model.NameCheck Model.Parser Model.Header Model.Readers
  Proofs.Hoare Proofs.ParserTotal Proofs.ParserInv Proofs.ReadersAgree props.C03.
Check (C03_skip_name_agrees : forall (p : bytes) (off e : nat),
  check_compressed_name p off = Ok e -> e < length p -> skip_name p off = Ok e).
Print Assumptions C03_skip_name_agrees.
Check (C03_skip_rr_agrees : forall (p : bytes) (s s' : pstate), rr_shape p s s' ->
  exists ne, skip_name p (ps_off s) = Ok ne /\ skip_rdata p ne = Ok (ps_off s') /\
             ps_off s < ne /\ ps_off s + 11 <= ps_off s' /\ ps_off s' <= length p).
Print Assumptions C03_skip_rr_agrees.
Check (C03_accepted_record_shape : forall (p : bytes), bytes_ok p -> forall s sec, pinv p s ->
  forall s', parse_rr p s sec = Ok s' -> rr_shape p s s').
Print Assumptions C03_accepted_record_shape.
Check (C03_walk_including_opt_total : forall (p : bytes) (v : ppacket), bytes_ok p -> parse p = Ok v ->
  exists an ns ar la ln lr,
    hdr_ancount p = Ok an /\ hdr_nscount p = Ok ns /\ hdr_arcount p = Ok ar /\
    walk_offsets v SAnswer = Ok la /\ length la = N.to_nat an /\
    walk_offsets v SNameServers = Ok ln /\ length ln = N.to_nat ns /\
    walk_offsets v SAdditional = Ok lr /\ length lr = N.to_nat ar).
Print Assumptions C03_walk_including_opt_total.
