(* Pinned statements of C03 (generated once by tools/mkpins.py from coq/props/C03.v, then committed). *)
From DV Require Import Model.Base Model.NameCheck Model.Parser Model.Header Model.Readers
  Spec.NameSpec Spec.PacketSpec Spec.RecordSpec
  Proofs.Hoare Proofs.ParserTotal Proofs.ParserInv Proofs.ReadersAgree Proofs.ReadersLabels Proofs.WalkValues Proofs.WalkSkip Proofs.EdnsFacts props.C03.
Check (C03_skip_name_agrees : forall (p : bytes) (off e : nat),
  check_compressed_name p off = Ok e -> e < length p -> skip_name p off = Ok e).
Print Assumptions C03_skip_name_agrees.
Check (C03_skip_rr_agrees : forall (p : bytes) (s s' : pstate), rr_shape p s s' ->
  exists ne, skip_name p (ps_off s) = Ok ne /\ skip_rdata p ne = Ok (ps_off s') /\
             ps_off s < ne /\ ps_off s + 11 <= ps_off s' /\ ps_off s' <= length p).
Print Assumptions C03_skip_rr_agrees.
Check (C03_accepted_record_shape : forall (p : bytes), bytes_ok p -> forall s sec, pinv p s ->
  forall s', parse_rr p s sec = Ok s' -> rr_shape p s s').
Print Assumptions C03_accepted_record_shape.
Check (C03_walk_including_opt_total : forall (p : bytes) (v : ppacket), bytes_ok p -> parse p = Ok v ->
  exists an ns ar la ln lr,
    hdr_ancount p = Ok an /\ hdr_nscount p = Ok ns /\ hdr_arcount p = Ok ar /\
    walk_offsets v SAnswer = Ok la /\ length la = N.to_nat an /\
    walk_offsets v SNameServers = Ok ln /\ length ln = N.to_nat ns /\
    walk_offsets v SAdditional = Ok lr /\ length lr = N.to_nat ar).
Print Assumptions C03_walk_including_opt_total.
Check (C03_copy_name_labels : forall (p : bytes), bytes_ok p -> forall off ls e nm,
  cname_l p off ls e ->
  copy_uncompressed_name nm p off = Ok (nm ++ wire_of_labels ls, length (wire_of_labels ls), e)).
Print Assumptions C03_copy_name_labels.
Check (C03_name_text : forall (p : bytes) off ls e, bytes_ok p ->
  cname_l p off ls e -> raw_name_to_str p off = Ok (dotted ls)).
Print Assumptions C03_name_text.
Check (C03_walk_values : forall p v, bytes_ok p -> parse p = Ok v ->
  exists an ns ar qe e1 e2 la ln lr,
    hdr_ancount p = Ok an /\ hdr_nscount p = Ok ns /\ hdr_arcount p = Ok ar /\ cname p 12 qe /\
    records_at p (qe + 4) la e1 /\ length la = N.to_nat an /\ walk_views v SAnswer = Ok (map (view_of p) la) /\
    records_at p e1 ln e2 /\ length ln = N.to_nat ns /\ walk_views v SNameServers = Ok (map (view_of p) ln) /\
    records_at p e2 lr (length p) /\ length lr = N.to_nat ar /\ walk_views v SAdditional = Ok (map (view_of p) lr)).
Print Assumptions C03_walk_values.
Check (C03_walks : forall p v, bytes_ok p -> parse p = Ok v ->
  exists an ns ar qe e1 e2 la ln lr,
    hdr_ancount p = Ok an /\ hdr_nscount p = Ok ns /\ hdr_arcount p = Ok ar /\ cname p 12 qe /\
    records_at p (qe + 4) la e1 /\ length la = N.to_nat an /\
    records_at p e1 ln e2 /\ length ln = N.to_nat ns /\
    records_at p e2 lr (length p) /\ length lr = N.to_nat ar /\
    forallb non_opt la = true /\ forallb non_opt ln = true /\ opt_ok false lr /\
    walk_views v SAnswer = Ok (map (view_of p) la) /\ walk_views_skip v SAnswer = Ok (map (view_of p) la) /\
    walk_views v SNameServers = Ok (map (view_of p) ln) /\ walk_views_skip v SNameServers = Ok (map (view_of p) ln) /\
    walk_views v SAdditional = Ok (map (view_of p) lr) /\
    walk_views_skip v SAdditional = Ok (map (view_of p) (filter non_opt lr))).
Print Assumptions C03_walks.
Check (C03_question_cursor : forall p v, bytes_ok p -> parse p = Ok v ->
  exists ls qe t c it,
    cname_l p 12 ls qe /\ u16_at p qe t /\ u16_at p (qe + 2) c /\
    q_next v (it_new SQuestion) = Ok (Some it) /\ it_offset it = Some 12 /\ it_name_end it = qe /\
    it_copy_raw_name v it = Ok (wire_of_labels ls, length (wire_of_labels ls)) /\
    it_name v it = Ok (ascii_lowercase (dotted ls)) /\
    it_rr_type v it = Ok t /\ it_rr_class v it = Ok c /\
    q_next v it = Ok None).
Print Assumptions C03_question_cursor.
Check (C03_option_cursor : forall p v, bytes_ok p -> parse p = Ok v ->
  match pp_offset_edns v with
  | None => walk_opts v = Ok []
  | Some st => exists e l, opts_read p st e l /\ e <= length p /\ pp_edns_count v = N.of_nat (length l) /\
                           walk_opts v = Ok l
  end).
Print Assumptions C03_option_cursor.
Check (C03_reading_unique : forall p off l e, records_at p off l e ->
  forall l' e', records_at p off l' e' -> length l = length l' -> l = l' /\ e = e').
Print Assumptions C03_reading_unique.
