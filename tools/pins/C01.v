(* Pinned statements of C01: type-checked on every run so that a theorem cannot be quietly
   weakened, followed by the axioms each depends on. *)
From DV Require Import Model.Base Model.NameCheck Model.Parser Proofs.Hoare props.C01.
Check (C01_parse_total : forall p : bytes, bytes_ok p ->
  (exists v, parse p = Ok v /\ pp_packet v = p) \/ (exists e, parse p = Err e)).
Print Assumptions C01_parse_total.
Check (C01_check_compressed_name_total : forall (p : bytes) (off : nat),
  (exists e, check_compressed_name p off = Ok e /\ off < e) \/
  (exists e, check_compressed_name p off = Err e)).
Print Assumptions C01_check_compressed_name_total.
Check (C01_check_uncompressed_name_total : forall (p : bytes) (off : nat),
  (exists e, check_uncompressed_name p off = Ok e /\ off < e) \/
  (exists e, check_uncompressed_name p off = Err e)).
Print Assumptions C01_check_uncompressed_name_total.
Check (C01_cursor_total : forall (p : bytes) (ops : list cursor_op), bytes_ok p ->
  exists s outs, cursor_run p ps_init ops = Ok (s, outs) /\ ps_off s <= length p).
Print Assumptions C01_cursor_total.
