(* Pinned statements of C13 (generated once by tools/mkpins.py from coq/props/C13.v, then committed). *)
From DV Require Import Model.Base Model.Parser Model.Header Model.Readers Model.Uncompress Model.Mutate
  Model.Gen Model.Text Spec.NameSpec Proofs.Hoare Proofs.SynthTotal Proofs.NameText Proofs.SynthShape Model.NameCheck Spec.PacketSpec Spec.RecordSpec Spec.PlainSpec Proofs.ReadersLabels Proofs.InsertSpec Proofs.BuiltRecord props.C13.
Check (C13_synth_total : forall s : bytes, nopanic (rr_from_string s)).
Print Assumptions C13_synth_total.
Check (C13_synth_result_cases : forall s : bytes,
  (exists rr, rr_from_string s = Ok rr) \/ (exists e, rr_from_string s = Err e)).
Print Assumptions C13_synth_result_cases.
Check (C13_result_well_formed : forall s rr, rr_from_string s = Ok rr -> rr_shape rr).
Print Assumptions C13_result_well_formed.
Check (C13_txt : forall n ttl txt rr, build_txt n ttl txt = Ok rr ->
  exists cs, concat cs = txt /\ txt_chunks cs /\ rr_shape_with rr TYPE_TXT (strings_wire cs)).
Print Assumptions C13_txt.
Check (C13_name_rr : forall t n ttl tg rr, build_name_rr t n ttl tg = Ok rr ->
  exists ls, Forall tlabel_ok ls /\ rr_shape_with rr t (wire_of_labels ls)).
Print Assumptions C13_name_rr.
Check (C13_mx : forall n ttl pref h rr, build_mx n ttl pref h = Ok rr ->
  exists ls, Forall tlabel_ok ls /\ rr_shape_with rr TYPE_MX (be16_bytes pref ++ wire_of_labels ls)).
Print Assumptions C13_mx.
Check (C13_soa : forall n ttl a b ts refresh retry auth neg rr,
  build_soa n ttl a b ts refresh retry auth neg = Ok rr ->
  exists ls1 ls2, Forall tlabel_ok ls1 /\ Forall tlabel_ok ls2 /\
    rr_shape_with rr TYPE_SOA (wire_of_labels ls1 ++ wire_of_labels ls2 ++ be32_bytes ts ++ be32_bytes refresh ++
                               be32_bytes retry ++ be32_bytes auth ++ be32_bytes neg)).
Print Assumptions C13_soa.
Check (C13_built_record_is_insertable : forall name ttl cls t rd rr,
  rr_new name ttl cls t rd = Ok rr -> bytes_ok rd -> (t < 65536)%N -> (cls < 65536)%N -> (ttl < 4294967296)%N -> raw_type t ->
  (t = TYPE_A -> length rd = 4) -> (t = TYPE_AAAA -> length rd = 16) ->
  exists ls, Forall label_ok ls /\ (name = dotted ls \/ name = dots ls \/ (name = [46%N] /\ ls = [])) /\
    rr = plain_record (raw_rec ls t cls ttl rd) /\ plain_rr_ok (raw_rec ls t cls ttl rd)).
Print Assumptions C13_built_record_is_insertable.
Check (C13_built_record_inserts : forall name ttl t rd rr p v it sec s',
  rr_new name ttl CLASS_IN t rd = Ok rr -> bytes_ok rd -> (t < 65536)%N -> (ttl < 4294967296)%N -> raw_type t ->
  (t = TYPE_A -> length rd = 4) -> (t = TYPE_AAAA -> length rd = 16) ->
  bytes_ok p -> parse p = Ok v -> sec = SAnswer \/ sec = SNameServers \/ sec = SAdditional ->
  (sec <> SAdditional -> exists w, u16_at p 2 w /\ N.land w 32768 = 32768%N) ->
  m_insert_rr sec rr (v, it) = (s', Ok tt) ->
  exists f, bytes_ok (pp_packet (fst s')) /\ wf_packet (pp_packet (fst s')) /\ parse (pp_packet (fst s')) = Ok f /\
    pp_offset_question (fst s') = pp_offset_question f /\ pp_offset_answers (fst s') = pp_offset_answers f /\
    pp_offset_nameservers (fst s') = pp_offset_nameservers f /\ pp_offset_additional (fst s') = pp_offset_additional f /\
    pp_offset_edns (fst s') = pp_offset_edns f /\ pp_edns_count (fst s') = pp_edns_count f /\
    pp_maybe_compressed (fst s') = false /\ pp_cached (fst s') = None).
Print Assumptions C13_built_record_inserts.
Check (C13_built_name_record_is_insertable : forall t name ttl target rr,
  build_name_rr t name ttl target = Ok rr -> is_name_type t = true -> (ttl < 4294967296)%N ->
  exists ls ls2, Forall label_ok ls /\ Forall label_ok ls2 /\
    (name = dotted ls \/ name = dots ls \/ (name = [46%N] /\ ls = [])) /\
    (target = dotted ls2 \/ target = dots ls2 \/ (target = [46%N] /\ ls2 = [])) /\
    rr = plain_record (name_rec ls t CLASS_IN ttl ls2) /\ plain_rr_ok (name_rec ls t CLASS_IN ttl ls2)).
Print Assumptions C13_built_name_record_is_insertable.
Check (C13_built_mx_record_is_insertable : forall name ttl pref mxhost rr,
  build_mx name ttl pref mxhost = Ok rr -> (ttl < 4294967296)%N ->
  exists ls ls2, Forall label_ok ls /\ Forall label_ok ls2 /\
    (name = dotted ls \/ name = dots ls \/ (name = [46%N] /\ ls = [])) /\
    (mxhost = dotted ls2 \/ mxhost = dots ls2 \/ (mxhost = [46%N] /\ ls2 = [])) /\
    rr = plain_record (mx_rec ls CLASS_IN ttl pref ls2) /\ plain_rr_ok (mx_rec ls CLASS_IN ttl pref ls2)).
Print Assumptions C13_built_mx_record_is_insertable.
Check (C13_built_soa_record_is_insertable : forall name ttl primary_ns contact ts refresh retry auth neg rr,
  build_soa name ttl primary_ns contact ts refresh retry auth neg = Ok rr -> (ttl < 4294967296)%N ->
  exists ls ls1 ls2, Forall label_ok ls /\ Forall label_ok ls1 /\ Forall label_ok ls2 /\
    (name = dotted ls \/ name = dots ls \/ (name = [46%N] /\ ls = [])) /\
    (primary_ns = dotted ls1 \/ primary_ns = dots ls1 \/ (primary_ns = [46%N] /\ ls1 = [])) /\
    (contact = dotted ls2 \/ contact = dots ls2 \/ (contact = [46%N] /\ ls2 = [])) /\
    let tail := be32_bytes ts ++ be32_bytes refresh ++ be32_bytes retry ++ be32_bytes auth ++ be32_bytes neg in
    rr = plain_record (soa_rec ls CLASS_IN ttl ls1 ls2 tail) /\ plain_rr_ok (soa_rec ls CLASS_IN ttl ls1 ls2 tail)).
Print Assumptions C13_built_soa_record_is_insertable.
Check (C13_built_txt_record_is_insertable : forall name ttl txt rr,
  build_txt name ttl txt = Ok rr -> bytes_ok txt -> (ttl < 4294967296)%N ->
  exists ls, Forall label_ok ls /\ (name = dotted ls \/ name = dots ls \/ (name = [46%N] /\ ls = [])) /\
    let rd := chunks255 (length txt + 1) txt in
    rr = plain_record (raw_rec ls TYPE_TXT CLASS_IN ttl rd) /\ plain_rr_ok (raw_rec ls TYPE_TXT CLASS_IN ttl rd)).
Print Assumptions C13_built_txt_record_is_insertable.
Check (C13_built_ds_record_is_insertable : forall name ttl key_tag alg dtype digest rr,
  build_ds name ttl key_tag alg dtype digest = Ok rr -> bytes_ok digest -> (alg < 256)%N -> (dtype < 256)%N -> (ttl < 4294967296)%N ->
  exists ls, Forall label_ok ls /\ (name = dotted ls \/ name = dots ls \/ (name = [46%N] /\ ls = [])) /\
    let rd := be16_bytes key_tag ++ [alg; dtype] ++ digest in
    rr = plain_record (raw_rec ls TYPE_DS CLASS_IN ttl rd) /\ plain_rr_ok (raw_rec ls TYPE_DS CLASS_IN ttl rd)).
Print Assumptions C13_built_ds_record_is_insertable.
