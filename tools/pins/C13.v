(* Pinned statements of C13 (generated once by tools/mkpins.py from coq/props/C13.v, then committed). *)
From DV Require Import Model.Base Model.Parser Model.Header Model.Readers Model.Uncompress Model.Mutate
  Model.Gen Model.Text Spec.NameSpec Proofs.Hoare Proofs.SynthTotal Proofs.NameText Proofs.SynthShape props.C13.
Check (C13_synth_total : forall s : bytes, nopanic (rr_from_string s)).
Print Assumptions C13_synth_total.
Check (C13_synth_result_cases : forall s : bytes,
  (exists rr, rr_from_string s = Ok rr) \/ (exists e, rr_from_string s = Err e)).
Print Assumptions C13_synth_result_cases.
Check (C13_result_well_formed : forall s rr, rr_from_string s = Ok rr -> rr_shape rr).
Print Assumptions C13_result_well_formed.
Check (C13_txt : forall n ttl txt rr, build_txt n ttl txt = Ok rr ->
  exists cs, concat cs = txt /\ txt_chunks cs /\ rr_shape_with rr TYPE_TXT (strings_wire cs)).
Print Assumptions C13_txt.
Check (C13_name_rr : forall t n ttl tg rr, build_name_rr t n ttl tg = Ok rr ->
  exists ls, Forall tlabel_ok ls /\ rr_shape_with rr t (wire_of_labels ls)).
Print Assumptions C13_name_rr.
Check (C13_mx : forall n ttl pref h rr, build_mx n ttl pref h = Ok rr ->
  exists ls, Forall tlabel_ok ls /\ rr_shape_with rr TYPE_MX (be16_bytes pref ++ wire_of_labels ls)).
Print Assumptions C13_mx.
Check (C13_soa : forall n ttl a b ts refresh retry auth neg rr,
  build_soa n ttl a b ts refresh retry auth neg = Ok rr ->
  exists ls1 ls2, Forall tlabel_ok ls1 /\ Forall tlabel_ok ls2 /\
    rr_shape_with rr TYPE_SOA (wire_of_labels ls1 ++ wire_of_labels ls2 ++ be32_bytes ts ++ be32_bytes refresh ++
                               be32_bytes retry ++ be32_bytes auth ++ be32_bytes neg)).
Print Assumptions C13_soa.
