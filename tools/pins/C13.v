(* Pinned statements of C13 (generated once by tools/mkpins.py from coq/props/C13.v, then committed). *)
From DV Require Import Model.Base Model.Parser Model.Header Model.Readers Model.Uncompress Model.Mutate
  Model.Gen Model.Text Proofs.Hoare Proofs.SynthTotal props.C13.
Check (C13_synth_total : forall s : bytes, nopanic (rr_from_string s)).
Print Assumptions C13_synth_total.
Check (C13_synth_result_cases : forall s : bytes,
  (exists rr, rr_from_string s = Ok rr) \/ (exists e, rr_from_string s = Err e)).
Print Assumptions C13_synth_result_cases.
