(* Pinned statements of C11 (generated once by tools/mkpins.py from coq/props/C11.v, then committed). *)
From DV Require Import Model.Base Model.Parser Model.Header Model.Readers Model.Mutate Spec.NameSpec Spec.PacketSpec Spec.RecordSpec Spec.PlainSpec
  Proofs.Hoare Proofs.WalkSkip Proofs.PlainWf Proofs.InsertSpec Proofs.DeleteInv Proofs.Totality Proofs.DeleteWalk props.C11.
Check (C11_walk_terminates : forall (A : Type) (D : A -> bool) (l : list A),
  exists r, awalk D ((ndel D l + 1) * (length l + 1)) l 0 [] = Some r).
Print Assumptions C11_walk_terminates.
Check (C11_walk_exact : forall (A : Type) (D : A -> bool) fuel (l l' ys : list A),
  awalk D fuel l 0 [] = Some (l', ys) ->
  l' = filter (keep D) l /\ (forall x, In x l' -> In x ys)).
Print Assumptions C11_walk_exact.
Check (C11_yields_from_current_section : forall (A : Type) (D : A -> bool) fuel (l : list A) i ys l' ys',
  awalk D fuel l i ys = Some (l', ys') ->
  exists zs, ys' = ys ++ zs /\ forall z, In z zs -> In z l).
Print Assumptions C11_yields_from_current_section.
Check (C11_delete_removes_the_record_under_the_cursor : forall v it s' qls qt lA lN lR r x,
  dinv v -> reading (pp_packet v) qls qt lA lN lR -> In (r, x) (lA ++ lN ++ lR) -> is_opt r = false ->
  it_offset it = Some (rv_off r) -> it_name_end it = rv_name_end r -> it_offset_next it = rv_name_end r + 10 + rv_rdlen r ->
  m_delete (v, it) = (s', Ok tt) ->
  dinv (fst s') /\ it_offset (snd s') = None /\
  exists A Nn R A' Nn' R' X1 r0 X2,
    let o1 := 12 + length (wire_of_labels qls) + 4 in
    lA = place o1 A /\ lN = place (o1 + length (cat A)) Nn /\ lR = place (o1 + length (cat A) + length (cat Nn)) R /\
    reading (pp_packet (fst s')) qls qt (place o1 A') (place (o1 + length (cat A')) Nn') (place (o1 + length (cat A') + length (cat Nn')) R') /\
    A ++ Nn ++ R = X1 ++ (r0, x) :: X2 /\ A' ++ Nn' ++ R' = X1 ++ X2 /\ r = rv_at r0 x (o1 + length (cat X1)) /\
    ((length A' + 1 = length A /\ Nn' = Nn /\ R' = R) \/ (A' = A /\ length Nn' + 1 = length Nn /\ R' = R) \/
     (A' = A /\ Nn' = Nn /\ length R' + 1 = length R)) /\
    (forall w0, u16_at (pp_packet v) 2 w0 -> u16_at (pp_packet (fst s')) 2 w0)).
Print Assumptions C11_delete_removes_the_record_under_the_cursor.
Check (C11_second_delete_void : forall v it, it_offset it = None -> m_delete (v, it) = ((v, it), Err VoidRecord)).
Print Assumptions C11_second_delete_void.
Check (C11_section_offsets : forall v qls qt lA lN lR, dinv v -> reading (pp_packet v) qls qt lA lN lR ->
  pp_offset_question v = Some 12 /\ pp_offset_answers v = first_off lA /\ pp_offset_nameservers v = first_off lN /\
  pp_offset_additional v = first_off lR).
Print Assumptions C11_section_offsets.
Check (C11_delete_succeeds : forall v it qls qt lA lN lR r x,
  dinv v -> reading (pp_packet v) qls qt lA lN lR -> In (r, x) (lA ++ lN ++ lR) -> is_opt r = false ->
  it_offset it = Some (rv_off r) -> it_name_end it = rv_name_end r -> it_offset_next it = rv_name_end r + 10 + rv_rdlen r ->
  exists s', m_delete (v, it) = (s', Ok tt)).
Print Assumptions C11_delete_succeeds.
