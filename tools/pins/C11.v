(* Pinned statements of C11 (generated once by tools/mkpins.py from coq/props/C11.v, then committed). *)
From Coq Require Import List Arith Bool.
Import ListNotations.
From DV Require Import Proofs.DeleteWalk props.C11.
Check (C11_walk_terminates : forall (A : Type) (D : A -> bool) (l : list A),
  exists r, awalk D ((ndel D l + 1) * (length l + 1)) l 0 [] = Some r).
Print Assumptions C11_walk_terminates.
Check (C11_walk_exact : forall (A : Type) (D : A -> bool) fuel (l l' ys : list A),
  awalk D fuel l 0 [] = Some (l', ys) ->
  l' = filter (keep D) l /\ (forall x, In x l' -> In x ys)).
Print Assumptions C11_walk_exact.
Check (C11_yields_from_current_section : forall (A : Type) (D : A -> bool) fuel (l : list A) i ys l' ys',
  awalk D fuel l i ys = Some (l', ys') ->
  exists zs, ys' = ys ++ zs /\ forall z, In z zs -> In z l).
Print Assumptions C11_yields_from_current_section.
