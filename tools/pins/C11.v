(* Pinned statements of C11 (generated once by tools/mkpins.py from coq/props/C11.v, then committed). *)
From DV Require Import Model.Base Model.Parser Model.Header Model.Readers Model.Mutate Spec.NameSpec Spec.PacketSpec Spec.RecordSpec Spec.PlainSpec
  Proofs.Hoare Proofs.WalkSkip Proofs.PlainWf Proofs.InsertSpec Proofs.DeleteInv Proofs.Totality Proofs.WalkInv Proofs.DecompressFirst Proofs.WalkFresh Proofs.WalkSkipInv Proofs.DeleteWalk props.C11.
Check (C11_walk_terminates : forall (A : Type) (D : A -> bool) (l : list A),
  exists r, awalk D ((ndel D l + 1) * (length l + 1)) l 0 [] = Some r).
Print Assumptions C11_walk_terminates.
Check (C11_walk_exact : forall (A : Type) (D : A -> bool) fuel (l l' ys : list A),
  awalk D fuel l 0 [] = Some (l', ys) ->
  l' = filter (keep D) l /\ (forall x, In x l' -> In x ys)).
Print Assumptions C11_walk_exact.
Check (C11_yields_from_current_section : forall (A : Type) (D : A -> bool) fuel (l : list A) i ys l' ys',
  awalk D fuel l i ys = Some (l', ys') ->
  exists zs, ys' = ys ++ zs /\ forall z, In z zs -> In z l).
Print Assumptions C11_yields_from_current_section.
Check (C11_delete_removes_the_record_under_the_cursor : forall v it s' qls qt lA lN lR r x,
  dinv v -> reading (pp_packet v) qls qt lA lN lR -> In (r, x) (lA ++ lN ++ lR) -> is_opt r = false ->
  it_offset it = Some (rv_off r) -> it_name_end it = rv_name_end r -> it_offset_next it = rv_name_end r + 10 + rv_rdlen r ->
  m_delete (v, it) = (s', Ok tt) ->
  dinv (fst s') /\ it_offset (snd s') = None /\
  exists A Nn R A' Nn' R' X1 r0 X2,
    let o1 := 12 + length (wire_of_labels qls) + 4 in
    lA = place o1 A /\ lN = place (o1 + length (cat A)) Nn /\ lR = place (o1 + length (cat A) + length (cat Nn)) R /\
    reading (pp_packet (fst s')) qls qt (place o1 A') (place (o1 + length (cat A')) Nn') (place (o1 + length (cat A') + length (cat Nn')) R') /\
    A ++ Nn ++ R = X1 ++ (r0, x) :: X2 /\ A' ++ Nn' ++ R' = X1 ++ X2 /\ r = rv_at r0 x (o1 + length (cat X1)) /\
    ((length A' + 1 = length A /\ Nn' = Nn /\ R' = R) \/ (A' = A /\ length Nn' + 1 = length Nn /\ R' = R) \/
     (A' = A /\ Nn' = Nn /\ length R' + 1 = length R)) /\
    (forall w0, u16_at (pp_packet v) 2 w0 -> u16_at (pp_packet (fst s')) 2 w0)).
Print Assumptions C11_delete_removes_the_record_under_the_cursor.
Check (C11_second_delete_void : forall v it, it_offset it = None -> m_delete (v, it) = ((v, it), Err VoidRecord)).
Print Assumptions C11_second_delete_void.
Check (C11_section_offsets : forall v qls qt lA lN lR, dinv v -> reading (pp_packet v) qls qt lA lN lR ->
  pp_offset_question v = Some 12 /\ pp_offset_answers v = first_off lA /\ pp_offset_nameservers v = first_off lN /\
  pp_offset_additional v = first_off lR).
Print Assumptions C11_section_offsets.
Check (C11_delete_succeeds : forall v it qls qt lA lN lR r x,
  dinv v -> reading (pp_packet v) qls qt lA lN lR -> In (r, x) (lA ++ lN ++ lR) -> is_opt r = false ->
  it_offset it = Some (rv_off r) -> it_name_end it = rv_name_end r -> it_offset_next it = rv_name_end r + 10 + rv_rdlen r ->
  exists s', m_delete (v, it) = (s', Ok tt)).
Print Assumptions C11_delete_succeeds.
Check (C11_cursor_restarts_from_section_start : forall v it qls qt lA lN lR sec, dinv v -> reading (pp_packet v) qls qt lA lN lR ->
  it_offset it = None -> it_section it = sec -> sec = SAnswer \/ sec = SNameServers \/ sec = SAdditional ->
  r_next_including_opt v it = Ok (match sec_list sec lA lN lR with [] => None | rx :: l' => Some (cur_on sec (fst rx) (length l')) end)).
Print Assumptions C11_cursor_restarts_from_section_start.
Check (C11_cursor_advances : forall v qls qt lA lN lR sec l1 rx l2, dinv v -> reading (pp_packet v) qls qt lA lN lR ->
  sec = SAnswer \/ sec = SNameServers \/ sec = SAdditional -> sec_list sec lA lN lR = l1 ++ rx :: l2 ->
  r_next_including_opt v (cur_on sec (fst rx) (length l2)) =
  Ok (match l2 with [] => None | rx2 :: l3 => Some (cur_on sec (fst rx2) (length l3)) end)).
Print Assumptions C11_cursor_advances.
Check (C11_concrete_walk_refines_machine : forall sec, sec = SAnswer \/ sec = SNameServers \/ sec = SAdditional ->
  forall (D : rec_view * rd_view -> bool) (dec : ppacket -> rrit -> bool),
  (forall y, D y = true -> is_opt (fst y) = false) ->
  (forall v qls qt lA lN lR rxp n, reading (pp_packet v) qls qt lA lN lR -> In rxp (sec_list sec lA lN lR) ->
     dec v (cur_on sec (fst rxp) n) = D (unpl rxp)) ->
  forall fuel v it qls qt lA lN lR i cs ys,
    dinv v -> reading (pp_packet v) qls qt lA lN lR -> Cur sec it (sec_list sec lA lN lR) i -> Forall2 (yielded sec) cs ys ->
    match awalk D fuel (map unpl (sec_list sec lA lN lR)) i ys with
    | None => cwalk dec fuel v it cs = None
    | Some (l', ys') =>
      exists v' cs' lA' lN' lR', cwalk dec fuel v it cs = Some (v', cs') /\ dinv v' /\ reading (pp_packet v') qls qt lA' lN' lR' /\
        map unpl (sec_list sec lA' lN' lR') = l' /\ other_sections_kept sec lA lN lR lA' lN' lR' /\ Forall2 (yielded sec) cs' ys'
    end).
Print Assumptions C11_concrete_walk_refines_machine.
Check (C11_concrete_walk_exact : forall sec, sec = SAnswer \/ sec = SNameServers \/ sec = SAdditional ->
  forall (D : rec_view * rd_view -> bool) (dec : ppacket -> rrit -> bool),
  (forall y, D y = true -> is_opt (fst y) = false) ->
  (forall v qls qt lA lN lR rxp n, reading (pp_packet v) qls qt lA lN lR -> In rxp (sec_list sec lA lN lR) ->
     dec v (cur_on sec (fst rxp) n) = D (unpl rxp)) ->
  forall v it qls qt lA lN lR,
    dinv v -> reading (pp_packet v) qls qt lA lN lR -> it_offset it = None -> it_section it = sec ->
    let l := map unpl (sec_list sec lA lN lR) in
    exists v' cs lA' lN' lR' ys,
      cwalk dec ((ndel D l + 1) * (length l + 1)) v it [] = Some (v', cs) /\ dinv v' /\ reading (pp_packet v') qls qt lA' lN' lR' /\
      map unpl (sec_list sec lA' lN' lR') = filter (keep D) l /\ other_sections_kept sec lA lN lR lA' lN' lR' /\
      Forall2 (yielded sec) cs ys /\ (forall y, In y (filter (keep D) l) -> In y ys) /\ (forall y, In y ys -> In y l)).
Print Assumptions C11_concrete_walk_exact.
Check (C11_delete_everything_but_opt : forall sec v it qls qt lA lN lR,
  sec = SAnswer \/ sec = SNameServers \/ sec = SAdditional ->
  dinv v -> reading (pp_packet v) qls qt lA lN lR -> it_offset it = None -> it_section it = sec ->
  let l := map unpl (sec_list sec lA lN lR) in
  exists v' cs lA' lN' lR',
    cwalk dec_nonopt ((ndel D_nonopt_all l + 1) * (length l + 1)) v it [] = Some (v', cs) /\ dinv v' /\
    reading (pp_packet v') qls qt lA' lN' lR' /\
    map unpl (sec_list sec lA' lN' lR') = filter (fun y => is_opt (fst y)) l /\ other_sections_kept sec lA lN lR lA' lN' lR').
Print Assumptions C11_delete_everything_but_opt.
Check (C11_delete_on_any_object : forall sec v qls qt lA lN lR l1 r x l2 n,
  objst v -> reading (pp_packet v) qls qt lA lN lR -> sec = SAnswer \/ sec = SNameServers \/ sec = SAdditional ->
  sec_list sec lA lN lR = l1 ++ (r, x) :: l2 -> is_opt r = false ->
  exists s', m_delete (v, cur_on sec r n) = (s', Ok tt) /\
  dinv (fst s') /\ it_offset (snd s') = None /\ it_section (snd s') = sec /\
  exists lA' lN' lR', reading (pp_packet (fst s')) qls qt lA' lN' lR' /\
    map unpl (sec_list sec lA' lN' lR') = map unpl l1 ++ map unpl l2 /\ other_sections_kept sec lA lN lR lA' lN' lR').
Print Assumptions C11_delete_on_any_object.
Check (C11_walk_on_any_object : forall sec, sec = SAnswer \/ sec = SNameServers \/ sec = SAdditional ->
  forall (D : rec_view * rd_view -> bool) (dec : ppacket -> rrit -> bool),
  (forall y, D y = true -> is_opt (fst y) = false) ->
  (forall v qls qt lA lN lR rxp n, reading (pp_packet v) qls qt lA lN lR -> In rxp (sec_list sec lA lN lR) ->
     dec v (cur_on sec (fst rxp) n) = D (unpl rxp)) ->
  forall v it qls qt lA lN lR,
    objst v -> reading (pp_packet v) qls qt lA lN lR -> it_offset it = None -> it_section it = sec ->
    let l := map unpl (sec_list sec lA lN lR) in
    exists v' cs lA' lN' lR' ys,
      cwalk dec ((ndel D l + 1) * (length l + 1)) v it [] = Some (v', cs) /\ objst v' /\ reading (pp_packet v') qls qt lA' lN' lR' /\
      map unpl (sec_list sec lA' lN' lR') = filter (keep D) l /\ other_sections_kept sec lA lN lR lA' lN' lR' /\
      Forall2 (yielded sec) cs ys /\ (forall y, In y (filter (keep D) l) -> In y ys) /\ (forall y, In y ys -> In y l)).
Print Assumptions C11_walk_on_any_object.
Check (C11_parsed_packets_are_such_objects : forall p v, bytes_ok p -> parse p = Ok v -> objst v).
Print Assumptions C11_parsed_packets_are_such_objects.
Check (C11_next_skips_opt : forall v it qls qt lA lN lR sec l1 l, objst v -> reading (pp_packet v) qls qt lA lN lR ->
  sec = SAnswer \/ sec = SNameServers \/ sec = SAdditional -> sec_list sec lA lN lR = l1 ++ l ->
  ((l1 = [] /\ it_offset it = None /\ it_section it = sec) \/ (exists l0 rxp, l1 = l0 ++ [rxp] /\ it = cur_on sec (fst rxp) (length l))) ->
  r_next v it = Ok (match skip_first l with None => None | Some (rx, l') => Some (cur_on sec (fst rx) (length l')) end)).
Print Assumptions C11_next_skips_opt.
Check (C11_walk_with_next_refines_machine : forall sec, sec = SAnswer \/ sec = SNameServers \/ sec = SAdditional ->
  forall (D : rec_view * rd_view -> bool) (dec : ppacket -> rrit -> bool),
  (forall v qls qt lA lN lR rxp n, reading (pp_packet v) qls qt lA lN lR -> In rxp (sec_list sec lA lN lR) ->
     dec v (cur_on sec (fst rxp) n) = D (unpl rxp)) ->
  forall fuel v it qls qt lA lN lR i cs ys,
    objst v -> reading (pp_packet v) qls qt lA lN lR -> Cur_s sec it (sec_list sec lA lN lR) i -> Forall2 (yielded sec) cs ys ->
    match awalk D fuel (filter nonoptp (map unpl (sec_list sec lA lN lR))) i ys with
    | None => cwalk_s dec fuel v it cs = None
    | Some (l', ys') =>
      exists v' cs' lA' lN' lR', cwalk_s dec fuel v it cs = Some (v', cs') /\ objst v' /\ reading (pp_packet v') qls qt lA' lN' lR' /\
        filter nonoptp (map unpl (sec_list sec lA' lN' lR')) = l' /\ other_sections_kept sec lA lN lR lA' lN' lR' /\
        Forall2 (yielded sec) cs' ys'
    end).
Print Assumptions C11_walk_with_next_refines_machine.
Check (C11_walk_with_next_exact : forall sec, sec = SAnswer \/ sec = SNameServers \/ sec = SAdditional ->
  forall (D : rec_view * rd_view -> bool) (dec : ppacket -> rrit -> bool),
  (forall v qls qt lA lN lR rxp n, reading (pp_packet v) qls qt lA lN lR -> In rxp (sec_list sec lA lN lR) ->
     dec v (cur_on sec (fst rxp) n) = D (unpl rxp)) ->
  forall v it qls qt lA lN lR,
    objst v -> reading (pp_packet v) qls qt lA lN lR -> it_offset it = None -> it_section it = sec ->
    let l := filter nonoptp (map unpl (sec_list sec lA lN lR)) in
    exists v' cs lA' lN' lR' ys,
      cwalk_s dec ((ndel D l + 1) * (length l + 1)) v it [] = Some (v', cs) /\ objst v' /\ reading (pp_packet v') qls qt lA' lN' lR' /\
      filter nonoptp (map unpl (sec_list sec lA' lN' lR')) = filter (keep D) l /\ other_sections_kept sec lA lN lR lA' lN' lR' /\
      Forall2 (yielded sec) cs ys /\ (forall y, In y (filter (keep D) l) -> In y ys) /\ (forall y, In y ys -> In y l)).
Print Assumptions C11_walk_with_next_exact.
