(* Pinned statements of C02 (generated once by tools/mkpins.py from coq/props/C02.v, then committed). *)
From DV Require Import Model.Base Model.NameCheck Model.Parser Spec.NameSpec Spec.PacketSpec
  Proofs.Hoare Proofs.NameIff Proofs.ParseSound Proofs.ParseComplete props.C02.
Check (C02_parse_sound : forall (p : bytes) (v : ppacket), bytes_ok p -> parse p = Ok v -> wf_packet p).
Print Assumptions C02_parse_sound.
Check (C02_parse_complete : forall p : bytes, bytes_ok p -> wf_packet p -> exists v, parse p = Ok v).
Print Assumptions C02_parse_complete.
Check (C02_parse_ok_iff_wf : forall p : bytes, bytes_ok p -> ((exists v, parse p = Ok v) <-> wf_packet p)).
Print Assumptions C02_parse_ok_iff_wf.
Check (C02_name_policy : forall (p : bytes) (off e : nat),
  (check_compressed_name p off = Ok e <-> cname p off e) /\
  (check_uncompressed_name p off = Ok e <-> plain_name p off e)).
Print Assumptions C02_name_policy.
