(* Pinned statements of C08 (generated once by tools/mkpins.py from coq/props/C08.v, then committed). *)
From DV Require Import Model.Base Model.NameCheck Model.Parser Model.Header Model.Readers Model.Uncompress
  Model.Mutate Model.Compress Model.Renamer Spec.PacketSpec Spec.RecordSpec Spec.PlainSpec Proofs.Hoare Proofs.HeaderBits Proofs.InsertLemmas Proofs.EdnsPlain Proofs.WalkSkip
  Proofs.PlainWf Proofs.ViewAfter Proofs.InsertSpec Proofs.HeaderInv Proofs.CursorHist Proofs.DecompressFirst Proofs.FreshHist Proofs.DeleteInv Proofs.SetNameInv Proofs.WalkInv Proofs.RenameCursor Spec.NameSpec Proofs.RenameSpec Proofs.RenameContent Proofs.WalkFresh Proofs.RenameAny Proofs.RenameTotal Model.Gen Proofs.NameText Proofs.ReadersLabels Proofs.QueryFresh props.C08.
Check (C08_decompression_keeps_edns_summary : forall p v q v',
  bytes_ok p -> parse p = Ok v -> uncompress p = Ok q -> parse q = Ok v' ->
  pp_edns_count v' = pp_edns_count v /\ pp_ext_rcode v' = pp_ext_rcode v /\ pp_edns_version v' = pp_edns_version v /\
  pp_ext_flags v' = pp_ext_flags v /\ pp_max_payload v' = pp_max_payload v).
Print Assumptions C08_decompression_keeps_edns_summary.
Check (C08_recompute_is_fresh_parse : forall p v it, bytes_ok p -> parse p = Ok v ->
  exists q v', uncompress p = Ok q /\ parse q = Ok v' /\ pp_packet v' = q /\
               m_recompute (v, it) = ((decompressed_view v', it), Ok tt)).
Print Assumptions C08_recompute_is_fresh_parse.
Check (C08_insert_prologue_is_fresh_parse : forall p v it, bytes_ok p -> parse p = Ok v ->
  exists q v', uncompress p = Ok q /\ parse q = Ok v' /\ pp_packet v' = q /\
               insert_prologue (v, it) = ((decompressed_view v', it), Ok tt)).
Print Assumptions C08_insert_prologue_is_fresh_parse.
Check (C08_header_setters_keep_view : forall v v',
  (exists n, pp_set_tid v n = Ok v' \/ pp_set_flags v n = Ok v' \/ pp_set_rcode v n = Ok v' \/ pp_set_opcode v n = Ok v') \/
  (exists b, pp_set_response v b = Ok v') ->
  pp_offset_question v' = pp_offset_question v /\ pp_offset_answers v' = pp_offset_answers v /\
  pp_offset_nameservers v' = pp_offset_nameservers v /\ pp_offset_additional v' = pp_offset_additional v /\
  pp_offset_edns v' = pp_offset_edns v /\ pp_edns_count v' = pp_edns_count v /\
  pp_ext_flags v' = pp_ext_flags v /\ pp_maybe_compressed v' = pp_maybe_compressed v /\ pp_cached v' = pp_cached v /\
  length (pp_packet v') = length (pp_packet v)).
Print Assumptions C08_header_setters_keep_view.
Check (C08_insert_shape : forall sec rr v it s',
  insert_core sec rr (v, it) = (s', Ok tt) ->
  exists p1 ins,
    rrcount_inc (pp_packet v) sec = Ok p1 /\ insertion_offset v sec = Ok ins /\ ins <= length p1 /\
    pp_packet (fst s') = firstn ins p1 ++ rr ++ skipn ins p1 /\
    (N.of_nat (length (pp_packet v) + length rr) <= 8192)%N /\ snd s' = it).
Print Assumptions C08_insert_shape.
Check (C08_recompute_view : forall v it s', pp_maybe_compressed v = true -> m_recompute (v, it) = (s', Ok tt) ->
  exists u f, uncompress (pp_packet v) = Ok u /\ parse u = Ok f /\ view_of_parse (fst s') f u /\
              pp_maybe_compressed (fst s') = false /\ snd s' = it).
Print Assumptions C08_recompute_view.
Check (C08_rename_view : forall target source sfx v it s', m_rename target source sfx (v, it) = (s', Ok tt) ->
  exists r f, renamer_rename v target source sfx = Ok r /\ parse r = Ok f /\ view_of_parse (fst s') f r /\
              pp_maybe_compressed (fst s') = true /\ snd s' = it).
Print Assumptions C08_rename_view.
Check (C08_insert_view : forall p v it sec rx s',
  bytes_ok p -> parse p = Ok v -> plain_rr_ok rx -> sec = SAnswer \/ sec = SNameServers \/ sec = SAdditional ->
  (sec <> SAdditional -> exists w, u16_at p 2 w /\ N.land w 32768 = 32768%N) ->
  m_insert_rr sec (plain_record rx) (v, it) = (s', Ok tt) ->
  exists f, parse (pp_packet (fst s')) = Ok f /\
    pp_offset_question (fst s') = pp_offset_question f /\ pp_offset_answers (fst s') = pp_offset_answers f /\
    pp_offset_nameservers (fst s') = pp_offset_nameservers f /\ pp_offset_additional (fst s') = pp_offset_additional f /\
    pp_offset_edns (fst s') = pp_offset_edns f /\ pp_edns_count (fst s') = pp_edns_count f /\
    pp_ext_rcode (fst s') = pp_ext_rcode f /\ pp_edns_version (fst s') = pp_edns_version f /\
    pp_ext_flags (fst s') = pp_ext_flags f /\ pp_max_payload (fst s') = pp_max_payload f /\
    pp_maybe_compressed (fst s') = false /\ pp_cached (fst s') = None).
Print Assumptions C08_insert_view.
Check (C08_step_keeps_invariant : forall o v it s1, dinv v -> is_response (pp_packet v) -> hop2_ok o ->
  run_hop2 o (v, it) = (s1, Ok tt) -> dinv (fst s1) /\ snd s1 = it /\ is_response (pp_packet (fst s1))).
Print Assumptions C08_step_keeps_invariant.
Check (C08_histories : forall p v it o ops s', bytes_ok p -> parse p = Ok v -> is_response p ->
  (o = H2Recompute \/ exists sec rx, o = H2Insert sec rx) -> Forall hop2_ok (o :: ops) ->
  run_hops2 (o :: ops) (v, it) = (s', Ok tt) -> dinv (fst s') /\ snd s' = it).
Print Assumptions C08_histories.
Check (C08_histories_total : forall ops v it, dinv v -> is_response (pp_packet v) -> Forall hop2_ok ops ->
  exists s', run_hops2_tol ops (v, it) = (s', Ok tt) /\ dinv (fst s') /\ snd s' = it /\ is_response (pp_packet (fst s'))).
Print Assumptions C08_histories_total.
Check (C08_histories_with_cursor : forall ops v it s', dinv v -> is_response (pp_packet v) -> it_section it <> SQuestion ->
  ok_along ops (v, it) -> run_hops3 ops (v, it) = (s', Ok tt) -> dinv (fst s') /\ snd s' = it /\ is_response (pp_packet (fst s'))).
Print Assumptions C08_histories_with_cursor.
Check (C08_histories_with_cursor_total : forall ops v it, dinv v -> is_response (pp_packet v) -> it_section it <> SQuestion ->
  ok_along_tol ops (v, it) ->
  exists s', run_hops3_tol ops (v, it) = (s', Ok tt) /\ dinv (fst s') /\ snd s' = it /\ is_response (pp_packet (fst s'))).
Print Assumptions C08_histories_with_cursor_total.
Check (C08_histories_from_parse_with_cursor : forall p v it o ops s1 s', bytes_ok p -> parse p = Ok v -> is_response p -> it_section it <> SQuestion ->
  (o = H2Recompute \/ exists sec rx, o = H2Insert sec rx) -> hop2_ok o ->
  run_hop2 o (v, it) = (s1, Ok tt) -> ok_along ops s1 -> run_hops3 ops s1 = (s', Ok tt) ->
  dinv (fst s') /\ snd s' = it /\ is_response (pp_packet (fst s'))).
Print Assumptions C08_histories_from_parse_with_cursor.
Check (C08_histories_from_parse_with_cursor_total : forall p v it o ops s1, bytes_ok p -> parse p = Ok v -> is_response p -> it_section it <> SQuestion ->
  (o = H2Recompute \/ exists sec rx, o = H2Insert sec rx) -> hop2_ok o ->
  run_hop2 o (v, it) = (s1, Ok tt) -> ok_along_tol ops s1 ->
  exists s', run_hops3_tol ops s1 = (s', Ok tt) /\ dinv (fst s') /\ snd s' = it /\ is_response (pp_packet (fst s'))).
Print Assumptions C08_histories_from_parse_with_cursor_total.
Check (C08_cursor_decompress : forall p v it qls qt lxa lxn lxr l1 r x l2,
  bytes_ok p -> parse p = Ok v -> reading p qls qt lxa lxn lxr -> lxa ++ lxn ++ lxr = l1 ++ (r, x) :: l2 ->
  it_section it <> SQuestion ->
  exists dv lA' lN' lR' l1' r' l2',
    m_cursor_decompress (rv_off r) (v, it) =
      ((dv, it_set (it_set it (Some (rv_off r')) (it_offset_next it) (it_name_end it)) (Some (rv_off r')) (rv_name_end r' + 10 + rv_rdlen r') (rv_name_end r')), Ok tt) /\
    dinv dv /\ uncompress p = Ok (pp_packet dv) /\ (is_response p -> is_response (pp_packet dv)) /\
    reading (pp_packet dv) qls qt lA' lN' lR' /\ lA' ++ lN' ++ lR' = l1' ++ (r', x) :: l2' /\ length l1' = length l1 /\
    length lA' = length lxa /\ length lN' = length lxn /\ length lR' = length lxr /\
    Forall2 same_rec (lxa ++ lxn ++ lxr) (lA' ++ lN' ++ lR')).
Print Assumptions C08_cursor_decompress.
Check (C08_histories_from_parse_any_first : forall p v it o ops s1 s', bytes_ok p -> parse p = Ok v -> is_response p -> it_section it <> SQuestion ->
  (o = H3Base H2Recompute \/ (exists sec rx, o = H3Base (H2Insert sec rx)) \/ (exists off, o = H3Delete off) \/ (exists off nm, o = H3SetName off nm)) ->
  hop3_ok_at v o -> run_hop3 o (v, it) = (s1, Ok tt) -> ok_along ops s1 -> run_hops3 ops s1 = (s', Ok tt) ->
  dinv (fst s') /\ snd s' = it /\ is_response (pp_packet (fst s'))).
Print Assumptions C08_histories_from_parse_any_first.
Check (C08_cursor_after_rename : forall nm v sec l1 r x l2 n s' qls qt lA lN lR,
  dinv v -> bytes_ok nm -> reading (pp_packet v) qls qt lA lN lR -> sec = SAnswer \/ sec = SNameServers \/ sec = SAdditional ->
  sec_list sec lA lN lR = l1 ++ (r, x) :: l2 -> is_opt r = false ->
  m_set_raw_name nm (v, cur_on sec r n) = (s', Ok tt) ->
  exists lA' lN' lR' l1' r' l2' ls,
    dinv (fst s') /\ reading (pp_packet (fst s')) qls qt lA' lN' lR' /\ sec_list sec lA' lN' lR' = l1' ++ (r', x) :: l2' /\
    map unpl l1' = map unpl l1 /\ map unpl l2' = map unpl l2 /\ unpl (r', x) = unpl (with_labels (r, x) ls) /\ name_ok ls /\
    rv_off r' = rv_off r /\ snd s' = cur_on sec r' n).
Print Assumptions C08_cursor_after_rename.
Check (C08_next_after_rename : forall nm v sec l1 r x l2 s' qls qt lA lN lR,
  dinv v -> bytes_ok nm -> reading (pp_packet v) qls qt lA lN lR -> sec = SAnswer \/ sec = SNameServers \/ sec = SAdditional ->
  sec_list sec lA lN lR = l1 ++ (r, x) :: l2 -> is_opt r = false ->
  m_set_raw_name nm (v, cur_on sec r (length l2)) = (s', Ok tt) ->
  exists lA' lN' lR' l1' r' l2',
    reading (pp_packet (fst s')) qls qt lA' lN' lR' /\ sec_list sec lA' lN' lR' = l1' ++ (r', x) :: l2' /\
    map unpl l1' = map unpl l1 /\ map unpl l2' = map unpl l2 /\
    r_next_including_opt (fst s') (snd s') =
      Ok (match l2' with [] => None | rx2 :: l3 => Some (cur_on sec (fst rx2) (length l3)) end)).
Print Assumptions C08_next_after_rename.
Check (C08_rename_is_fresh_parse : forall p v it sl tl sfx s', bytes_ok p -> parse p = Ok v ->
  Forall lab sl -> Forall lab tl -> sl <> [] -> tl <> [] -> bytes_ok (wire_of_labels tl) ->
  length (wire_of_labels sl) <= 255 -> length (wire_of_labels tl) <= 255 ->
  m_rename (wire_of_labels tl) (wire_of_labels sl) sfx (v, it) = (s', Ok tt) ->
  bytes_ok (pp_packet (fst s')) /\ parse (pp_packet (fst s')) = Ok (fst s')).
Print Assumptions C08_rename_is_fresh_parse.
Check (C08_step_with_rename : forall o v it s1, objst v -> is_response (pp_packet v) -> it_section it <> SQuestion -> hop4_ok_at v o ->
  run_hop4 o (v, it) = (s1, Ok tt) -> objst (fst s1) /\ snd s1 = it /\ is_response (pp_packet (fst s1))).
Print Assumptions C08_step_with_rename.
Check (C08_histories_with_rename : forall p v it ops s', bytes_ok p -> parse p = Ok v -> is_response p -> it_section it <> SQuestion ->
  ok_along4 ops (v, it) -> run_hops4 ops (v, it) = (s', Ok tt) -> objst (fst s') /\ snd s' = it /\ is_response (pp_packet (fst s'))).
Print Assumptions C08_histories_with_rename.
Check (C08_step_with_rename_total : forall o v it, objst v -> is_response (pp_packet v) -> it_section it <> SQuestion -> hop4_ok_at v o ->
  exists s1 r, run_hop4 o (v, it) = (s1, r) /\ (r = Ok tt \/ exists e, r = Err e) /\
               objst (fst s1) /\ snd s1 = it /\ is_response (pp_packet (fst s1))).
Print Assumptions C08_step_with_rename_total.
Check (C08_histories_with_rename_total : forall p v it ops, bytes_ok p -> parse p = Ok v -> is_response p -> it_section it <> SQuestion ->
  ok_along4_tol ops (v, it) ->
  exists s', run_hops4_tol ops (v, it) = (s', Ok tt) /\ objst (fst s') /\ snd s' = it /\ is_response (pp_packet (fst s'))).
Print Assumptions C08_histories_with_rename_total.
Check (C08_query_is_fresh_parse : forall tid name qt v, (tid < 65536)%N -> (qt < 65536)%N -> gen_query tid name qt CLASS_IN = Ok v ->
  exists ls f,
    Forall label_ok ls /\ (name = dotted ls \/ name = dots ls \/ (name = [46%N] /\ ls = [])) /\
    pp_packet v = query_header tid ++ wire_of_labels ls ++ be16_bytes qt ++ be16_bytes CLASS_IN /\
    bytes_ok (pp_packet v) /\ parse (pp_packet v) = Ok f /\ view_of_parse v f (pp_packet v) /\
    pp_maybe_compressed v = false /\ uncompress (pp_packet v) = Ok (pp_packet v) /\
    reading (pp_packet v) ls qt [] [] []).
Print Assumptions C08_query_is_fresh_parse.
