(* Pinned statements of C08 (generated once by tools/mkpins.py from coq/props/C08.v, then committed). *)
From DV Require Import Model.Base Model.NameCheck Model.Parser Model.Header Model.Readers Model.Uncompress
  Model.Mutate Proofs.Hoare Proofs.HeaderBits Proofs.InsertLemmas Proofs.EdnsPlain props.C08.
Check (C08_decompression_keeps_edns_summary : forall p v q v',
  bytes_ok p -> parse p = Ok v -> uncompress p = Ok q -> parse q = Ok v' ->
  pp_edns_count v' = pp_edns_count v /\ pp_ext_rcode v' = pp_ext_rcode v /\ pp_edns_version v' = pp_edns_version v /\
  pp_ext_flags v' = pp_ext_flags v /\ pp_max_payload v' = pp_max_payload v).
Print Assumptions C08_decompression_keeps_edns_summary.
Check (C08_recompute_is_fresh_parse : forall p v it, bytes_ok p -> parse p = Ok v ->
  exists q v', uncompress p = Ok q /\ parse q = Ok v' /\ pp_packet v' = q /\
               m_recompute (v, it) = ((decompressed_view v', it), Ok tt)).
Print Assumptions C08_recompute_is_fresh_parse.
Check (C08_insert_prologue_is_fresh_parse : forall p v it, bytes_ok p -> parse p = Ok v ->
  exists q v', uncompress p = Ok q /\ parse q = Ok v' /\ pp_packet v' = q /\
               insert_prologue (v, it) = ((decompressed_view v', it), Ok tt)).
Print Assumptions C08_insert_prologue_is_fresh_parse.
Check (C08_header_setters_keep_view : forall v v',
  (exists n, pp_set_tid v n = Ok v' \/ pp_set_flags v n = Ok v' \/ pp_set_rcode v n = Ok v' \/ pp_set_opcode v n = Ok v') \/
  (exists b, pp_set_response v b = Ok v') ->
  pp_offset_question v' = pp_offset_question v /\ pp_offset_answers v' = pp_offset_answers v /\
  pp_offset_nameservers v' = pp_offset_nameservers v /\ pp_offset_additional v' = pp_offset_additional v /\
  pp_offset_edns v' = pp_offset_edns v /\ pp_edns_count v' = pp_edns_count v /\
  pp_ext_flags v' = pp_ext_flags v /\ pp_maybe_compressed v' = pp_maybe_compressed v /\ pp_cached v' = pp_cached v /\
  length (pp_packet v') = length (pp_packet v)).
Print Assumptions C08_header_setters_keep_view.
Check (C08_insert_shape : forall sec rr v it s',
  insert_core sec rr (v, it) = (s', Ok tt) ->
  exists p1 ins,
    rrcount_inc (pp_packet v) sec = Ok p1 /\ insertion_offset v sec = Ok ins /\ ins <= length p1 /\
    pp_packet (fst s') = firstn ins p1 ++ rr ++ skipn ins p1 /\
    (N.of_nat (length (pp_packet v) + length rr) <= 8192)%N /\ snd s' = it).
Print Assumptions C08_insert_shape.
