(* Pinned statements of C15 (generated once by tools/mkpins.py from coq/props/C15.v, then committed). *)
From DV Require Import Model.Base Model.Parser Model.Header Model.Readers Model.Gen Proofs.Hoare Proofs.FacadeBounds props.C15.
Check (C15_rr_ip_len : forall v it ip, it_rr_ip v it = Ok ip -> length ip = 4 \/ length ip = 16).
Print Assumptions C15_rr_ip_len.
Check (C15_name_from_str_fits : forall name w,
  raw_name_from_str name None = Ok w -> length w <= 253 /\ 253 < DNS_MAX_HOSTNAME_LEN + 1).
Print Assumptions C15_name_from_str_fits.
Check (C15_raw_packet_fits : forall v max_len out,
  facade_raw_packet v max_len = Some out -> length out <= max_len /\ out = pp_packet v).
Print Assumptions C15_raw_packet_fits.
