(* Pinned statements of C17 (generated once by tools/mkpins.py from coq/props/C17.v, then committed). *)
From DV Require Import Model.Base Model.Parser Model.Header Model.Readers Model.Uncompress Model.Compress
  Model.Mutate Model.Renamer Model.Gen Model.Text Model.ErrSlot props.C17.
Check (C17_amb_independent : forall (A B : Type) (f : A -> B) (amb1 amb2 : ambient) (x : A),
  fst (api_pure f amb1 x) = fst (api_pure f amb2 x) /\ snd (api_pure f amb1 x) = amb1).
Print Assumptions C17_amb_independent.
Check (C17_history_independent : forall (A B : Type) (f : A -> B) amb (hist : list A) (x : A),
  last (fst (run_calls f amb (hist ++ [x]))) (f x) = f x).
Print Assumptions C17_history_independent.
Check (C17_empty_only_tid_random : forall t1 t2 v1 v2,
  pp_empty t1 = Ok v1 -> pp_empty t2 = Ok v2 ->
  skipn 2 (pp_packet v1) = skipn 2 (pp_packet v2)).
Print Assumptions C17_empty_only_tid_random.
