"""Core of the check pipeline (DESIGN.md section 5): build steps, running cases through the
implementation harness and the extracted model, diffing, verdicts, evidence."""
import fcntl
import glob
import hashlib
import json
import os
import re
import subprocess
import sys
import time

V = "/verif"
REPO = os.environ.get("DV_REPO", "/repo")
CACHE = os.path.join(V, ".cache")
COQ = os.path.join(V, "coq")
HARNESS = os.path.join(CACHE, "target", "debug", "dv-harness")
HARNESS_REL = os.path.join(CACHE, "target", "release", "dv-harness")
DRIVER = os.path.join(CACHE, "driver", "dv-model")
NPROC = min(16, os.cpu_count() or 4)

sys.path.insert(0, os.path.join(V, "gen"))


def log(*a):
    print(*a, file=sys.stderr, flush=True)


class Lock:
    def __init__(self, name="build"):
        os.makedirs(CACHE, exist_ok=True)
        self.path = os.path.join(CACHE, name + ".lock")

    def __enter__(self):
        self.f = open(self.path, "w")
        fcntl.flock(self.f, fcntl.LOCK_EX)
        return self

    def __exit__(self, *a):
        fcntl.flock(self.f, fcntl.LOCK_UN)
        self.f.close()


def sh(cmd, timeout=1800, cwd=None, env=None, inp=None):
    e = dict(os.environ)
    e.update({"CARGO_NET_OFFLINE": "true", "LC_ALL": "C"})
    if env:
        e.update(env)
    try:
        r = subprocess.run(cmd, shell=isinstance(cmd, str), cwd=cwd, env=e, input=inp, capture_output=True, text=True, timeout=timeout)
        return r.returncode, r.stdout + r.stderr
    except subprocess.TimeoutExpired as ex:
        return 124, "TIMEOUT after %ss: %s" % (timeout, cmd)


def file_hash(paths):
    h = hashlib.sha256()
    for p in sorted(paths):
        h.update(p.encode())
        try:
            with open(p, "rb") as f:
                h.update(f.read())
        except OSError:
            h.update(b"<missing>")
    return h.hexdigest()


# ---- Coq ---------------------------------------------------------------------------------------

FORBIDDEN = re.compile(r"\b(Admitted|admit|Axiom|Axioms|Parameter|Parameters|Conjecture|Hypothesis|Hypotheses|Variable|Variables|Unset\s+Guard|bypass_check|Admit\s+Obligations|Abort)\b|type-in-type|impredicative-set")


def strip_coq_comments(s):
    out, depth, i = [], 0, 0
    while i < len(s):
        if s.startswith("(*", i):
            depth += 1
            i += 2
        elif s.startswith("*)", i) and depth > 0:
            depth -= 1
            i += 2
        else:
            if depth == 0:
                out.append(s[i])
            i += 1
    return "".join(out)


def grep_forbidden():
    """Admitted / Axiom / ... anywhere in the development; Variable / Hypothesis outside sections."""
    bad = []
    files = glob.glob(os.path.join(COQ, "**", "*.v"), recursive=True) + glob.glob(os.path.join(V, "tools", "pins", "*.v"))
    files += [os.path.join(COQ, "_CoqProject")]
    for fn in files:
        if "/Generated/" in fn:
            continue
        src = strip_coq_comments(open(fn).read())
        depth = 0
        for ln, line in enumerate(src.split("\n"), 1):
            if re.match(r"\s*Section\s+\w+", line):
                depth += 1
            elif re.match(r"\s*End\s+\w+\s*\.", line) and depth > 0:
                depth -= 1
            for m in FORBIDDEN.finditer(line):
                w = m.group(0)
                if w.split()[0] in ("Variable", "Variables", "Hypothesis", "Hypotheses") and depth > 0:
                    continue
                bad.append("%s:%d: %s" % (os.path.relpath(fn, V), ln, w))
    return bad


def translate():
    rc, out = sh([sys.executable, os.path.join(V, "gen", "translate.py")], timeout=120)
    status = dict(re.findall(r"translate (\w+): (.*)", out))
    return status


def coq_make(targets=None, timeout=3000):
    """Full .vo build of the hand-written development (cached by make)."""
    with Lock("coq"):
        if not os.path.exists(os.path.join(COQ, "Makefile")) or os.path.getmtime(os.path.join(COQ, "Makefile")) < os.path.getmtime(os.path.join(COQ, "_CoqProject")):
            rc, out = sh("coq_makefile -f _CoqProject -o Makefile", cwd=COQ, timeout=120)
            if rc != 0:
                return False, out
        tgt = " ".join(targets) if targets else ""
        rc, out = sh("make -j%d %s" % (NPROC, tgt), cwd=COQ, timeout=timeout)
        return rc == 0, out


def coqc(path, timeout=600):
    with Lock("coq"):
        return sh(["coqc", "-Q", COQ, "DV", path], cwd=COQ, timeout=timeout)


def generated_checks(names):
    """Compile Generated/<X>.v and Check/<X>Check.v for each name; returns {name: (ok, log)}."""
    res = {}
    for n in names:
        g = os.path.join(COQ, "Generated", n + ".v")
        c = os.path.join(COQ, "Check", n + "Check.v")
        if not os.path.exists(g):
            res[n] = (False, "translator produced no Generated/%s.v" % n)
            continue
        rc, out = coqc(g)
        if rc != 0:
            res[n] = (False, out[-2000:])
            continue
        rc, out = coqc(c)
        res[n] = (rc == 0, out[-2000:])
    return res


def run_pins(prop):
    """Type-check the pinned statements of a property and collect Print Assumptions output.
    Returns (theorems, discharged, axioms, log)."""
    path = os.path.join(V, "tools", "pins", prop + ".v")
    src = open(path).read()
    theorems = re.findall(r"^Check\s*\(\s*(\w+)\s*:", src, flags=re.M)
    rc, out = coqc(path)
    if rc != 0:
        return theorems, [], [], out[-3000:]
    closed = out.count("Closed under the global context")
    axioms = []
    for blk in re.findall(r"Axioms:\s*\n((?:.+\n)+?)(?=\n|\Z)", out):
        for m in re.finditer(r"^(\S+)\s*:", blk, flags=re.M):
            axioms.append(m.group(1))
    n_print = len(re.findall(r"^Print Assumptions", src, flags=re.M))
    ok = theorems if (closed + len(set(axioms)) >= 1 and closed == n_print) else theorems[:closed]
    return theorems, ok, sorted(set(axioms)), out[-3000:]


# ---- builds ------------------------------------------------------------------------------------

def build_harness(release=False):
    with Lock("cargo"):
        lockf = os.path.join(V, "harness", "Cargo.lock")
        if not os.path.exists(lockf):
            import shutil
            shutil.copy(os.path.join(REPO, "Cargo.lock"), lockf)
        cmd = "cargo build --offline" + (" --release" if release else "")
        rc, out = sh(cmd, cwd=os.path.join(V, "harness"), timeout=1500,
                     env={"RUSTFLAGS": "--cfg dnssector_verif", "CARGO_TARGET_DIR": os.path.join(CACHE, "target")})
        return rc == 0, out[-4000:]


def build_driver():
    with Lock("driver"):
        srcs = glob.glob(os.path.join(COQ, "Model", "*.v")) + [os.path.join(COQ, "Extract.v"), os.path.join(V, "driver", "main.ml")]
        h = file_hash(srcs)
        stamp = os.path.join(CACHE, "driver", "stamp")
        if os.path.exists(DRIVER) and os.path.exists(stamp) and open(stamp).read() == h:
            return True, "cached"
        rc, out = sh(os.path.join(V, "tools", "build_driver.sh"), timeout=1500)
        if rc == 0:
            open(stamp, "w").write(h)
        return rc == 0, out[-4000:]


# ---- running cases -----------------------------------------------------------------------------

def _run_sharded(binary, lines, shards, timeout, isolate=True):
    if not lines:
        return {}
    shards = max(1, min(shards, len(lines)))
    import threading

    def run_round(todo):
        """One sharded run. Returns (outputs by case id, cases that must be run again, cases that crashed the process)."""
        chunks = [todo[i::shards] for i in range(shards)]
        chunks = [ch for ch in chunks if ch]
        procs = [(subprocess.Popen([binary], stdin=subprocess.PIPE, stdout=subprocess.PIPE, stderr=subprocess.DEVNULL, text=True), ch) for ch in chunks]
        results = [None] * len(procs)

        def work(i, p, ch):
            try:
                out, _ = p.communicate("\n".join(ch) + "\n", timeout=timeout)
                results[i] = out
            except subprocess.TimeoutExpired:
                p.kill()
                results[i] = ""
        ths = [threading.Thread(target=work, args=(i, p, ch)) for i, (p, ch) in enumerate(procs)]
        for t in ths:
            t.start()
        for t in ths:
            t.join()
        got, again, crashed = {}, [], []
        for (p, ch), out in zip(procs, results):
            for l in (out or "").split("\n"):
                if l:
                    parts = l.split("\t")
                    got[parts[0]] = parts[1:]
            # outputs come in input order: the first case of the shard without output is the one that killed the process
            # (abort, segfault, hang); the cases after it were never run
            rest = [l for l in ch if l.split("\t", 1)[0] not in got]
            if rest:
                crashed.append(rest[0])
                again.extend(rest[1:])
        return got, again, crashed

    res = {}
    todo = list(lines)
    suspects = []
    rounds = 0
    while todo and rounds < 200:
        got, again, crashed = run_round(todo)
        res.update(got)
        suspects.extend(crashed)
        todo = again
        rounds += 1
    # the suspects get one more chance alone (a timeout of the whole shard is not the fault of its first unanswered case)
    if suspects and isolate:
        from concurrent.futures import ThreadPoolExecutor

        def one(l):
            try:
                r = subprocess.run([binary], input=l + "\n", capture_output=True, text=True, timeout=min(timeout, 120))
                return r.stdout
            except subprocess.TimeoutExpired:
                return ""
        with ThreadPoolExecutor(max_workers=NPROC) as ex:
            for out in ex.map(one, suspects):
                for l in (out or "").split("\n"):
                    if l:
                        parts = l.split("\t")
                        res[parts[0]] = parts[1:]
    return res


def run_impl(lines, shards=NPROC, timeout=900, release=False):
    return _run_sharded(HARNESS_REL if release else HARNESS, lines, shards, timeout)


def run_model(lines, shards=NPROC, timeout=1800):
    return _run_sharded(DRIVER, lines, shards, timeout)


STEPS_RE = re.compile(r" steps=\d+")
ERRV_RE = re.compile(r"ERR:\w+")


def canon(obs, keep_steps=False, keep_err=False):
    """Canonicalise one observation before diffing: the error variant and the step counter are
    compared only where a property asks for them."""
    if not keep_steps:
        obs = STEPS_RE.sub("", obs)
    if not keep_err:
        obs = ERRV_RE.sub("ERR", obs)
    return obs


def diff_obs(a, b, keep_steps=False, keep_err=False):
    """First index where two observation lists differ, or None."""
    if a is None or b is None:
        return 0
    for i in range(max(len(a), len(b))):
        x = canon(a[i], keep_steps, keep_err) if i < len(a) else "<missing>"
        y = canon(b[i], keep_steps, keep_err) if i < len(b) else "<missing>"
        if x != y:
            return i
    return None


# ---- known findings ----------------------------------------------------------------------------

def load_known():
    p = os.path.join(V, "known_findings.json")
    if not os.path.exists(p):
        return {"findings": [], "fixed": []}
    return json.load(open(p))


# ---- evidence ----------------------------------------------------------------------------------

TRUSTED_BASE = [
    "Coq 8.16.1 kernel (coqc), including vm_compute for Examples and finite generated checks; no native_compute",
    "Print Assumptions of every pinned theorem: Closed under the global context (no axioms)",
    "hand-written Gallina model (coq/Model) tied to /repo by differential correspondence: extracted OCaml model vs Rust harness linked against /repo's working tree",
    "extraction: ExtrOcamlBasic only (bool, option, unit, list, prod, sumbool, sumor; andb/orb inlined); nat, N, positive stay extracted inductives; OCaml 4.13.1; driver/main.ml",
    "gen/translate.py (constants, FnTable layout, ambient-state inventory, call graph) regenerated from source every run",
    "generators, canonicalisation and diff in tools/ and gen/ (Python); Rust harness harness/src/main.rs",
    "modelled not verified: usize is 64-bit and no length approaches 2^63; Vec/slice/byteorder semantics; rustc/LLVM",
]


def write_evidence(prop, tier, seed, coverage, wall, violations, assumptions=None, level="proof"):
    os.makedirs(os.path.join(V, "evidence"), exist_ok=True)
    ev = {"property_id": prop, "tier": tier, "seed": seed, "level": level, "coverage": coverage,
          "assumptions": assumptions or [], "wall_s": round(wall, 2), "violations": violations}
    tmp = os.path.join(V, "evidence", prop + ".json.tmp")
    with open(tmp, "w") as f:
        json.dump(ev, f, indent=1, sort_keys=True)
    os.replace(tmp, os.path.join(V, "evidence", prop + ".json"))


def write_replay(prop, seed, n, payload):
    d = os.path.join(V, "replays")
    os.makedirs(d, exist_ok=True)
    path = os.path.join(d, "%s-%d-%d.json" % (prop, seed, n))
    payload = dict(payload)
    payload.setdefault("property", prop)
    payload.setdefault("seed", seed)
    payload.setdefault("rerun", "python3 tools/check.py %s --replay %s" % (prop, path))
    with open(path, "w") as f:
        json.dump(payload, f, indent=1)
    return path
