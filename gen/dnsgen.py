"""Packet generators and an independent reference decoder for DNS wire format.

Everything random derives from one random.Random(seed) passed in by the caller.

* Msg / RR: abstract messages.
* Encoder: message -> wire under many pointer layouts (none / greedy / random / chains).
* decode_ref: an independent, executable statement of the parser's acceptance policy (C02) that
  also returns the decoded message (used as the oracle of C03-C11). It is written from the
  property text, not from the Rust control flow.
"""
import struct

T_A, T_NS, T_CNAME, T_SOA, T_PTR, T_MX, T_TXT, T_AAAA, T_DNAME, T_OPT, T_DS = 1, 2, 5, 6, 12, 15, 16, 28, 39, 41, 43
NAME_TYPES = (T_NS, T_CNAME, T_PTR)


def wire_name(labels):
    return b"".join(bytes([len(l)]) + l for l in labels) + b"\0"


def wire_len(labels):
    return sum(len(l) + 1 for l in labels) + 1


class RR:
    """rdata kinds: ('raw', bytes) | ('name', labels) | ('mx', pref, labels) |
    ('soa', labels, labels, bytes20) | ('dname', labels) | ('opt', [(code, data)])"""

    def __init__(self, name, rtype, rclass, ttl, rdata):
        self.name, self.rtype, self.rclass, self.ttl, self.rdata = name, rtype, rclass, ttl, rdata

    def key(self):
        return (tuple(self.name), self.rtype, self.rclass, self.ttl, repr(self.rdata))


class Msg:
    def __init__(self, tid=0, flags=0, qname=(), qtype=1, qclass=1, an=None, ns=None, ar=None):
        self.tid, self.flags = tid, flags
        self.qname, self.qtype, self.qclass = list(qname), qtype, qclass
        self.an, self.ns, self.ar = an or [], ns or [], ar or []


# ------------------------------------------------------------------------------------------
# Encoder


class Encoder:
    """layout: 'none' | 'greedy' | 'random' | 'chain'. With 'chain', emitted pointers are
    themselves registered as targets, giving pointer-to-pointer chains."""

    def __init__(self, rng, layout="greedy", p_ptr=0.7):
        self.rng, self.layout, self.p_ptr = rng, layout, p_ptr
        self.buf = bytearray()
        self.table = []  # (suffix tuple lowercased, offset)
        self.boundaries = []  # record start offsets

    def lookup(self, suffix):
        cands = [o for (s, o) in self.table if s == suffix and o < 0x4000]
        if not cands:
            return None
        if self.layout == "greedy":
            return cands[0]
        return self.rng.choice(cands)

    def want_pointer(self):
        if self.layout == "none":
            return False
        if self.layout == "greedy":
            return True
        return self.rng.random() < self.p_ptr

    def put_name(self, labels, compress=True):
        pending = []
        i = 0
        done = False
        while i < len(labels):
            suffix = tuple(l.lower() for l in labels[i:])
            tgt = self.lookup(suffix) if (compress and self.want_pointer()) else None
            if tgt is not None:
                if self.layout == "chain":
                    pending.append((suffix, len(self.buf)))
                self.buf += bytes([0xC0 | (tgt >> 8), tgt & 0xFF])
                done = True
                break
            pending.append((suffix, len(self.buf)))
            self.buf += bytes([len(labels[i])]) + labels[i]
            i += 1
        if not done:
            self.buf.append(0)
        self.table.extend(pending)

    def put_rr(self, rr):
        self.boundaries.append(len(self.buf))
        if rr.rtype == T_OPT and rr.rdata[0] == "opt":
            self.buf.append(0)
        else:
            self.put_name(rr.name)
        self.buf += struct.pack(">HHIH", rr.rtype, rr.rclass, rr.ttl & 0xFFFFFFFF, 0)
        rdlen_at = len(self.buf) - 2
        start = len(self.buf)
        k = rr.rdata[0]
        if k == "raw":
            self.buf += rr.rdata[1]
        elif k == "name":
            self.put_name(rr.rdata[1])
        elif k == "mx":
            self.buf += struct.pack(">H", rr.rdata[1])
            self.put_name(rr.rdata[2])
        elif k == "soa":
            self.put_name(rr.rdata[1])
            self.put_name(rr.rdata[2])
            self.buf += rr.rdata[3]
        elif k == "dname":
            self.buf += wire_name(rr.rdata[1])
        elif k == "opt":
            for code, data in rr.rdata[1]:
                self.buf += struct.pack(">HH", code, len(data)) + data
        rdlen = len(self.buf) - start
        self.buf[rdlen_at:rdlen_at + 2] = struct.pack(">H", rdlen & 0xFFFF)

    def encode(self, m):
        self.buf += struct.pack(">HHHHHH", m.tid, m.flags, 1, len(m.an) & 0xFFFF, len(m.ns) & 0xFFFF, len(m.ar) & 0xFFFF)
        self.boundaries.append(len(self.buf))
        self.put_name(m.qname)
        self.buf += struct.pack(">HH", m.qtype, m.qclass)
        for rr in m.an + m.ns + m.ar:
            self.put_rr(rr)
        self.boundaries.append(len(self.buf))
        return bytes(self.buf)


def encode(rng, m, layout="greedy"):
    e = Encoder(rng, layout)
    b = e.encode(m)
    return b, e.boundaries


# ------------------------------------------------------------------------------------------
# Reference decoder (the policy of C02, stated independently)


class Reject(Exception):
    pass


def _label_ok(l):
    return all(c >= 32 and c != 127 and c != 0x2E and c != 0x5C for c in l)


PTR_TARGETS = []  # every pointer target followed by ref_cname since it was last cleared (used to recognise names read through the header)


def has_header_pointer(p):
    """True when some name of the accepted packet p is read through bytes of the 12-byte header."""
    del PTR_TARGETS[:]
    try:
        decode_ref(p)
    except (Reject, IndexError):
        return False
    return any(t < 12 for t in PTR_TARGETS)


def name_slots(p):
    """Offsets of an accepted packet at which a label, a pointer or a root byte of a name is laid out in place (question, owner names,
    names in NS/CNAME/PTR/MX/SOA/DNAME data). A pointer target outside this set reads a name through bytes that are not a name."""
    slots = set()

    def walk(off):
        while True:
            slots.add(off)
            b = p[off]
            if b & 0xC0 == 0xC0:
                return off + 2
            if b == 0:
                return off + 1
            off += b + 1
    pos = walk(12) + 4
    for _ in range(be16(p, 6) + be16(p, 8) + be16(p, 10)):
        ne = walk(pos)
        t, rdlen = be16(p, ne), be16(p, ne + 8)
        rd = ne + 10
        if t in (2, 5, 12, 39):
            walk(rd)
        elif t == 15:
            walk(rd + 2)
        elif t == 6:
            walk(walk(rd))
        pos = rd + rdlen
    return slots


def alien_pointer_targets(p):
    """Pointer targets (>= 12) of the names of an accepted packet that are not name slots: TTLs, fixed fields, addresses, opaque data."""
    del PTR_TARGETS[:]
    try:
        decode_ref(p)
    except (Reject, IndexError):
        return []
    tg = [t for t in PTR_TARGETS if t >= 12]
    if not tg:
        return []
    sl = name_slots(p)
    return [t for t in tg if t not in sl]


def ref_cname(p, off):
    """A (possibly compressed) name at off. Returns (labels, wire_end, hops)."""
    n = len(p)
    if off >= n:
        raise Reject("name starts outside")
    bar, low, hops, total = n, off, 0, 0
    end = None
    labels = []
    while True:
        if off >= bar:
            raise Reject("label start beyond the segment it may use")
        b = p[off]
        if b & 0xC0 == 0xC0:
            hops += 1
            if hops > 16:
                raise Reject("more than 16 pointers")
            if off + 1 >= n:
                raise Reject("truncated pointer")
            t = ((b & 0x3F) << 8) | p[off + 1]
            if t >= low:
                raise Reject("pointer not strictly backward")
            if p[t] == 0:
                raise Reject("pointer to a root label")
            if end is None:
                end = off + 2
            PTR_TARGETS.append(t)
            bar, low, off = low, t, t
            continue
        if b > 63:
            raise Reject("label longer than 63")
        if off + b + 1 > n:
            raise Reject("label leaves the packet")
        total += b + 1
        if total > 255:
            raise Reject("name longer than 255")
        l = bytes(p[off + 1:off + 1 + b])
        if not _label_ok(l):
            raise Reject("bad character")
        off += b + 1
        if b == 0:
            break
        labels.append(l)
    return labels, (end if end is not None else off), hops


def ref_plain_name(p, off):
    """Pointer-free name, any label bytes (DNAME target)."""
    n = len(p)
    if off >= n:
        raise Reject("name starts outside")
    total = 0
    labels = []
    while True:
        if off >= n:
            raise Reject("truncated")
        b = p[off]
        if b & 0xC0 == 0xC0:
            raise Reject("pointer in a pointer-free name")
        if b > 63:
            raise Reject("label longer than 63")
        if off + b + 1 > n:
            raise Reject("label leaves the packet")
        total += b + 1
        if total > 255:
            raise Reject("name longer than 255")
        l = bytes(p[off + 1:off + 1 + b])
        off += b + 1
        if b == 0:
            break
        labels.append(l)
    return labels, off


class DRR:
    pass


class DMsg:
    pass


def be16(p, o):
    return (p[o] << 8) | p[o + 1]


def be32(p, o):
    return (p[o] << 24) | (p[o + 1] << 16) | (p[o + 2] << 8) | p[o + 3]


def decode_ref(p):
    """Returns a DMsg when p is well-formed under the policy, raises Reject otherwise."""
    n = len(p)
    if n < 12:
        raise Reject("shorter than a header")
    m = DMsg()
    m.raw = bytes(p)
    m.tid, m.flags = be16(p, 0), be16(p, 2)
    qd, an, ns, ar = be16(p, 4), be16(p, 6), be16(p, 8), be16(p, 10)
    m.counts = (qd, an, ns, ar)
    if qd != 1:
        raise Reject("not exactly one question")
    qr = bool(m.flags & 0x8000)
    off = 12
    m.q_off = off
    m.qname, off, m.q_hops = ref_cname(p, off)
    m.q_name_end = off
    if off + 4 > n or off >= n:
        raise Reject("question fixed part outside")
    m.qtype, m.qclass = be16(p, off), be16(p, off + 2)
    if m.qclass != 1:
        raise Reject("question class is not IN")
    off += 4
    m.q_end = off
    if (an or ns) and not qr:
        raise Reject("answer/authority records in a query")
    m.opt = None
    m.sections = []
    m.sec_off = []
    for si, cnt in enumerate((an, ns, ar)):
        recs = []
        m.sec_off.append(off if cnt else None)
        for _ in range(cnt):
            r = DRR()
            r.off = off
            r.name, ne, r.hops = ref_cname(p, off)
            r.name_end = ne
            if ne + 10 > n or ne >= n:
                raise Reject("record fixed part outside")
            r.rtype, r.rclass, r.ttl, r.rdlen = be16(p, ne), be16(p, ne + 2), be32(p, ne + 4), be16(p, ne + 8)
            rd = ne + 10
            r.rd_off = rd
            r.names = []  # names inside rdata: (labels, start, end)
            r.opts = None
            if rd + r.rdlen > n:
                raise Reject("rdata outside")
            if r.rtype == T_OPT:
                if si != 2:
                    raise Reject("OPT outside the additional section")
                if ne - r.off != 1:
                    raise Reject("OPT owner is not the root")
                if m.opt is not None:
                    raise Reject("second OPT")
                o, e = rd, rd + r.rdlen
                opts = []
                while o < e:
                    if o + 4 > e:
                        raise Reject("option header overruns")
                    code, ln = be16(p, o), be16(p, o + 2)
                    if o + 4 + ln > e:
                        raise Reject("option data overruns")
                    opts.append((code, bytes(p[o + 4:o + 4 + ln]), o))
                    o += 4 + ln
                r.opts = opts
                m.opt = r
            elif r.rtype in NAME_TYPES:
                if r.rdlen < 1:
                    raise Reject("empty name rdata")
                l, e, _ = ref_cname(p, rd)
                if e - rd != r.rdlen:
                    raise Reject("name does not fill rdata")
                r.names.append((l, rd, e))
            elif r.rtype == T_MX:
                if r.rdlen <= 2:
                    raise Reject("short MX")
                l, e, _ = ref_cname(p, rd + 2)
                if e - rd != r.rdlen:
                    raise Reject("MX name does not fill rdata")
                r.names.append((l, rd + 2, e))
            elif r.rtype == T_SOA:
                if r.rdlen <= 21:
                    raise Reject("short SOA")
                l1, e1, _ = ref_cname(p, rd)
                l2, e2, _ = ref_cname(p, e1)
                if e2 - rd != r.rdlen - 20:
                    raise Reject("SOA names + 20 do not fill rdata")
                r.names.append((l1, rd, e1))
                r.names.append((l2, e1, e2))
            elif r.rtype == T_DNAME:
                if r.rdlen < 1:
                    raise Reject("empty DNAME")
                l, e = ref_plain_name(p, rd)
                if e - rd != r.rdlen:
                    raise Reject("DNAME name does not fill rdata")
            elif r.rtype == T_A:
                if r.rdlen != 4:
                    raise Reject("A is not 4 bytes")
            elif r.rtype == T_AAAA:
                if r.rdlen != 16:
                    raise Reject("AAAA is not 16 bytes")
            r.rdata = bytes(p[rd:rd + r.rdlen])
            off = rd + r.rdlen
            r.end = off
            r.section = si
            recs.append(r)
        m.sections.append(recs)
    if off != n:
        raise Reject("trailing bytes")
    return m


def wf_ref(p):
    try:
        decode_ref(p)
        return True
    except Reject:
        return False
    except IndexError:
        return False


def plain_rdata(r):
    """rdata of a decoded record with the names the library understands expanded."""
    if r.rtype in NAME_TYPES:
        return wire_name(r.names[0][0])
    if r.rtype == T_MX:
        return r.rdata[:2] + wire_name(r.names[0][0])
    if r.rtype == T_SOA:
        return wire_name(r.names[0][0]) + wire_name(r.names[1][0]) + r.rdata[-20:]
    return r.rdata


def encode_plain(m):
    """Canonical pointer-free encoding of a decoded message (C05)."""
    out = bytearray(m.raw[:12])
    out += wire_name(m.qname) + struct.pack(">HH", m.qtype, m.qclass)
    bounds = {m.q_off: 12}
    for recs in m.sections:
        for r in recs:
            bounds[r.off] = len(out)
            rd = plain_rdata(r)
            out += wire_name(r.name) + struct.pack(">HHIH", r.rtype, r.rclass, r.ttl, len(rd) & 0xFFFF) + rd
    bounds[len(m.raw)] = len(out)
    return bytes(out), bounds


def lower_name(labels):
    return [bytes(l).lower() for l in labels]


def message_key(m, ci=False):
    """Comparable content of a decoded message: header, question, record sequence with names
    expanded. ci=True compares names case-insensitively."""
    f = (lambda ls: tuple(lower_name(ls))) if ci else (lambda ls: tuple(ls))
    secs = []
    for recs in m.sections:
        rs = []
        for r in recs:
            if r.rtype in NAME_TYPES:
                rd = ("name", f(r.names[0][0]))
            elif r.rtype == T_MX:
                rd = ("mx", r.rdata[:2], f(r.names[0][0]))
            elif r.rtype == T_SOA:
                rd = ("soa", f(r.names[0][0]), f(r.names[1][0]), r.rdata[-20:])
            else:
                rd = ("raw", r.rdata)
            rs.append((f(r.name), r.rtype, r.rclass, r.ttl, rd))
        secs.append(tuple(rs))
    return (m.raw[:4], m.counts, f(m.qname), m.qtype, m.qclass, tuple(secs))


# ------------------------------------------------------------------------------------------
# Random abstract messages (G_msg)

LABEL_POOL = [b"www", b"example", b"com", b"net", b"org", b"a", b"b", b"ns1", b"mail", b"MiXeD", b"Example",
              b"COM", b"x-y", b"_tcp", b"0", b"xn--caf-dma", b"sub", b"deep", b"q" * 63, b"r" * 62, b"\x80\xff",
              b"sp ace", b"a~b"]


def rand_label(rng):
    r = rng.random()
    if r < 0.85:
        return rng.choice(LABEL_POOL[:18])
    if r < 0.95:
        return rng.choice(LABEL_POOL)
    n = rng.randint(1, 12)
    return bytes(rng.choice(b"abcdefghijklmnopqrstuvwxyzABCDEFGHIJKLMNOPQRSTUVWXYZ0123456789-_") for _ in range(n))


def rand_name(rng, pool=None, maxlabels=5):
    """A name; with a pool of earlier names, often shares a suffix with one of them."""
    r = rng.random()
    if r < 0.04:
        return []
    if pool and r < 0.65:
        base = rng.choice(pool)
        cut = rng.randint(0, len(base))
        suffix = list(base[cut:])
        if rng.random() < 0.2:
            suffix = [l.swapcase() if rng.random() < 0.5 else l for l in suffix]
        pre = [rand_label(rng) for _ in range(rng.randint(0, 2))]
        nm = pre + suffix
    else:
        nm = [rand_label(rng) for _ in range(rng.randint(1, maxlabels))]
    while wire_len(nm) > 255:
        nm = nm[1:]
    return nm


def rand_opt(rng):
    opts = []
    for _ in range(rng.choice([0, 0, 1, 1, 2, 3])):
        code = rng.choice([3, 8, 10, 12, 65001, rng.randint(0, 65535)])
        data = bytes(rng.randint(0, 255) for _ in range(rng.choice([0, 0, 1, 4, 8, 11])))
        opts.append((code, data))
    ttl = (rng.choice([0, 0, 1, 255]) << 24) | (rng.choice([0, 0, 1]) << 16) | rng.choice([0, 0x8000, 0x8000, 0xFFFF, rng.randint(0, 0xFFFF)])
    return RR([], T_OPT, rng.choice([512, 1232, 4096, 0, 65535]), ttl, ("opt", opts))


SPECIAL_V4 = [bytes(x) for x in ([0, 0, 0, 0], [127, 0, 0, 1], [255, 255, 255, 255], [10, 0, 0, 1], [224, 0, 0, 1], [169, 254, 1, 1], [192, 0, 2, 1])]


def rand_rr(rng, pool, types=None):
    t = rng.choice(types or [T_A, T_A, T_AAAA, T_NS, T_CNAME, T_PTR, T_MX, T_SOA, T_DNAME, T_TXT, T_DS, 99, 65280])
    name = rand_name(rng, pool)
    pool.append(name)
    ttl = rng.choice([0, 1, 60, 3600, 0x7FFFFFFF, 0xFFFFFFFF, rng.randint(0, 0xFFFFFFFF)])
    cls = rng.choice([1, 1, 1, 1, 3, 255])
    if t == T_A:
        rd = ("raw", rng.choice(SPECIAL_V4) if rng.random() < 0.2 else bytes(rng.randint(0, 255) for _ in range(4)))
    elif t == T_AAAA:
        # a third of the addresses are of the kinds address libraries treat specially (IPv4-mapped, IPv4-compatible, NAT64,
        # unspecified, loopback, link-local, multicast): a conversion on the way out must not change the family or the bytes
        if rng.random() < 0.35:
            v4 = bytes(rng.randint(0, 255) for _ in range(4))
            rd = ("raw", rng.choice([b"\0" * 10 + b"\xff\xff" + v4, b"\0" * 12 + v4, b"\0" * 16, b"\0" * 15 + b"\1",
                                     bytes.fromhex("0064ff9b") + b"\0" * 8 + v4, bytes.fromhex("fe80") + b"\0" * 10 + v4,
                                     bytes.fromhex("ff02") + b"\0" * 13 + b"\1", b"\0" * 10 + b"\xff\xff" + rng.choice(SPECIAL_V4)]))
        else:
            rd = ("raw", bytes(rng.randint(0, 255) for _ in range(16)))
    elif t in NAME_TYPES:
        n2 = rand_name(rng, pool)
        pool.append(n2)
        rd = ("name", n2)
    elif t == T_MX:
        n2 = rand_name(rng, pool)
        pool.append(n2)
        rd = ("mx", rng.choice([0, 10, 65535]), n2)
    elif t == T_SOA:
        n2, n3 = rand_name(rng, pool), rand_name(rng, pool)
        pool += [n2, n3]
        rd = ("soa", n2, n3, bytes(rng.randint(0, 255) for _ in range(20)))
    elif t == T_DNAME:
        n2 = rand_name(rng, pool)
        rd = ("dname", n2)
    elif t == T_TXT:
        s = bytes(rng.randint(32, 126) for _ in range(rng.choice([0, 1, 5, 40])))
        rd = ("raw", bytes([len(s)]) + s)
    else:
        rd = ("raw", bytes(rng.randint(0, 255) for _ in range(rng.choice([0, 1, 2, 7, 30]))))
    return RR(name, t, cls, ttl, rd)


def rand_msg(rng, max_rr=4, response=None, opt=None, types=None):
    pool = []
    qname = rand_name(rng, None, 4)
    pool.append(qname)
    if response is None:
        response = rng.random() < 0.8
    flags = rng.randint(0, 0xFFFF)
    flags = (flags | 0x8000) if response else (flags & 0x7FFF)
    m = Msg(rng.randint(0, 0xFFFF), flags, qname, rng.choice([1, 28, 15, 255, 6]), 1)
    if response:
        m.an = [rand_rr(rng, pool, types) for _ in range(rng.randint(0, max_rr))]
        m.ns = [rand_rr(rng, pool, types) for _ in range(rng.randint(0, max_rr))]
    m.ar = [rand_rr(rng, pool, types) for _ in range(rng.randint(0, max_rr))]
    if opt is None:
        opt = rng.random() < 0.5
    if opt:
        m.ar.insert(rng.randint(0, len(m.ar)), rand_opt(rng))
    return m


def rand_valid_packet(rng, max_rr=4, layout=None, **kw):
    m = rand_msg(rng, max_rr, **kw)
    layout = layout or rng.choice(["none", "greedy", "greedy", "random", "chain", "chain"])
    b, bounds = encode(rng, m, layout)
    return b, bounds, m


# ------------------------------------------------------------------------------------------
# Special families


def chain_packet(hops, tail_records=0):
    """Question example.com; record k's owner is a pointer to record k-1's owner, so record k is
    read through k hops; each tail record is read through exactly `hops` hops as well."""
    b = bytearray(struct.pack(">HHHHHH", 0x1234, 0x8180, 1, (hops + tail_records) & 0xFFFF, 0, 0))
    b += wire_name([b"example", b"com"]) + struct.pack(">HH", 1, 1)
    offs = [12]
    for k in range(hops):
        prev = offs[-1]
        offs.append(len(b))
        b += bytes([0xC0 | (prev >> 8), prev & 0xFF]) + struct.pack(">HHIH", 1, 1, 60, 4) + bytes([10, 0, 0, k & 255])
    tgt = offs[-2] if hops >= 1 else 12
    for k in range(tail_records):
        b += bytes([0xC0 | (tgt >> 8), tgt & 0xFF]) + struct.pack(">HHIH", 1, 1, 60, 4) + bytes([10, 0, 1, k & 255])
    return bytes(b)


def header_pointer_packet(tid_hi_label=True):
    """Query whose question name is a pointer to offset 0: tid = 01 'a', flags hi = 00, so the
    header bytes read as the name 'a'."""
    b = bytearray(struct.pack(">HHHHHH", 0x0161, 0x0020, 1, 0, 0, 0))
    b += bytes([0xC0, 0x00]) + struct.pack(">HH", 1, 1)
    return bytes(b)


def jumbo_packet(second_at, big_rdlen=None, second=None):
    """An accepted response larger than 64 KiB: question a/A, a TXT record that runs up to offset `second_at`, then a second
    record (default: an A record whose owner is a pointer to the question). `big_rdlen` fixes the TXT data length instead
    (the second record then follows wherever that ends)."""
    hdr0 = wire_name([b"a"]) + struct.pack(">HH", 1, 1)
    start = 12 + len(hdr0) + 2 + 10
    rdlen = big_rdlen if big_rdlen is not None else second_at - start
    assert 1 <= rdlen, rdlen
    pads = []
    while rdlen > 65535:  # more than one TXT record is needed: full ones first (each takes 12 + 65535 bytes)
        pads.append(65535)
        rdlen -= 65535 + 12
    assert 1 <= rdlen <= 65535, rdlen
    pads.append(rdlen)
    recs = b""
    for rl in pads:
        data = bytearray()
        left = rl
        while left > 0:
            k = min(255, left - 1)
            data += bytes([k]) + b"t" * k
            left -= k + 1
        recs += b"\xc0\x0c" + struct.pack(">HHIH", 16, 1, 9, rl) + bytes(data)
    rec2 = second if second is not None else b"\xc0\x0c" + struct.pack(">HHIH", 1, 1, 7, 4) + b"\xc0\x00\x02\x01"
    return struct.pack(">HHHHHH", 0x4a4a, 0x8180, 1, len(pads) + 1, 0, 0) + hdr0 + recs + rec2


def label_at_packets(T):
    """Accepted responses in which a label starts at offset exactly T (a TXT pad before it) and every kind of name - owner, NS,
    CNAME, PTR, MX, SOA (both) - is a pointer to it: T = 255, 256, 257, 512 ... exercises the low byte of the pointer."""
    hdr = lambda n: struct.pack(">HHHHHH", 0x5151, 0x8180, 1, n, 0, 0) + wire_name([b"a"]) + struct.pack(">HH", 1, 1)
    rrb = lambda nm, t, rd: nm + struct.pack(">HHIH", t, 1, 77, len(rd)) + rd
    base = len(hdr(0))
    pad = T - base - 12          # pad record = 2-byte owner + 10 fixed bytes + `pad` bytes of character-strings
    if pad < 2:
        return []
    txt = b""
    rest = pad
    while rest > 0:
        k = min(255, rest - 1)
        if rest - (k + 1) == 1:  # never leave a single byte (a character-string needs its length byte plus >= 0 bytes: fine) - keep it simple
            k -= 1
        txt += bytes([k]) + b"p" * k
        rest -= k + 1
    padrec = rrb(b"\xc0\x0c", 16, txt)
    off = base + len(padrec)
    assert off == T, (off, T)
    anchor = rrb(wire_name([b"anchor", b"zone"]), 1, b"\1\2\3\4")   # owner name starts exactly at T
    ptr = struct.pack(">H", 0xc000 | T)
    recs = [padrec, anchor, rrb(ptr, 1, bytes([5, 6, 7, 8])), rrb(b"\xc0\x0c", 2, ptr), rrb(b"\xc0\x0c", 5, b"\3www" + ptr),
            rrb(b"\xc0\x0c", 12, ptr), rrb(b"\xc0\x0c", 15, b"\0\5" + ptr), rrb(b"\xc0\x0c", 15, b"\0\7\4mail" + ptr),
            rrb(b"\xc0\x0c", 6, ptr + ptr + bytes(range(20))), rrb(b"\xc0\x0c", 6, b"\2ns" + ptr + b"\5admin" + ptr + bytes(range(20)))]
    return [hdr(len(recs)) + b"".join(recs)]


def name_of_wire_len(n):
    """labels whose wire length is exactly n (n >= 1)."""
    labels = []
    rest = n - 1
    while rest > 0:
        l = min(63, rest - 1)
        if l <= 0:
            break
        labels.append(b"x" * l)
        rest -= l + 1
    return labels


def simple_response(qname, records, tid=7, flags=0x8180, ar=None):
    m = Msg(tid, flags, qname, 1, 1, an=records, ar=ar or [])
    return m


def mutate_boundary(rng, pkt, bounds):
    """G_boundary: systematic damage of a valid packet, one clause at a time. Returns a list."""
    out = []
    n = len(pkt)
    # truncations
    for cut in sorted(set([0, 1, 11, 12, 13] + [rng.randint(0, n) for _ in range(3)] + [n - 1])):
        if 0 <= cut < n:
            out.append(pkt[:cut])
    out.append(pkt + b"\0")  # trailing byte
    out.append(pkt + bytes([rng.randint(0, 255)]))
    b = bytearray(pkt)
    for off in (4, 5, 6, 7, 8, 9, 10, 11):  # lying counts
        c = bytearray(pkt)
        c[off] = rng.choice([0, 1, 2, 0xFF])
        out.append(bytes(c))
    c = bytearray(pkt)
    c[2] ^= 0x80  # flip QR
    out.append(bytes(c))
    for _ in range(4):  # single byte corruption
        c = bytearray(pkt)
        i = rng.randrange(n)
        c[i] = rng.choice([0, 1, 0x3F, 0x40, 0xC0, 0xFF, c[i] ^ 1, rng.randint(0, 255), 0x2E, 0x5C, 0x7F, 0x1F])
        out.append(bytes(c))
    for _ in range(2):  # inject a pointer
        c = bytearray(pkt)
        i = rng.randrange(max(1, n - 1))
        t = rng.choice([0, 12, i, max(0, i - 1), rng.randrange(n), i + 1])
        c[i] = 0xC0 | ((t >> 8) & 0x3F)
        c[i + 1 if i + 1 < n else i] = t & 0xFF
        out.append(bytes(c))
    return out


def boundary_family(rng):
    """Hand-built clause-by-clause boundary packets (each paired with its valid neighbour)."""
    out = []
    q = [b"example", b"com"]
    H = lambda an=0, ns=0, ar=0, flags=0x8180: struct.pack(">HHHHHH", 1, flags, 1, an, ns, ar)
    Q = wire_name(q) + struct.pack(">HH", 1, 1)

    def rr(name_wire, t, rdata, cls=1, ttl=1, rdlen=None):
        return name_wire + struct.pack(">HHIH", t, cls, ttl, len(rdata) if rdlen is None else rdlen) + rdata

    ptr = b"\xc0\x0c"
    # label 63 / 64
    for l in (62, 63, 64):
        out.append(H(1) + Q + rr(bytes([l]) + b"a" * l + b"\0", 1, b"\1\2\3\4"))
    # name 254/255/256 wire bytes
    for n in (253, 254, 255, 256, 257):
        out.append(H(1) + Q + rr(wire_name(name_of_wire_len(n)), 1, b"\1\2\3\4"))
    # the same two limits in every position a name can take: question, owner, NS/CNAME/PTR, MX, SOA (both names), DNAME
    def in_position(pos, nw):
        if pos == "question":
            return struct.pack(">HHHHHH", 1, 0x0100, 1, 0, 0, 0) + nw + struct.pack(">HH", 1, 1)
        if pos == "owner":
            return H(1) + Q + rr(nw, 16, b"\3abc")
        if pos == "ns":
            return H(1) + Q + rr(ptr, rng.choice(NAME_TYPES), nw)
        if pos == "mx":
            return H(1) + Q + rr(ptr, 15, b"\0\5" + nw)
        if pos == "soa1":
            return H(1) + Q + rr(ptr, 6, nw + ptr + bytes(range(20)))
        if pos == "soa2":
            return H(1) + Q + rr(ptr, 6, ptr + nw + bytes(range(20)))
        return H(1) + Q + rr(ptr, 39, nw)
    for pos in ("question", "owner", "ns", "mx", "soa1", "soa2", "dname"):
        for n in (253, 254, 255, 256, 257):
            out.append(in_position(pos, wire_name(name_of_wire_len(n))))
        for l in (62, 63, 64):
            out.append(in_position(pos, bytes([l]) + b"a" * l + b"\3com\0"))
        if pos != "dname":
            for n in (242, 243, 244):
                out.append(in_position(pos, wire_name(name_of_wire_len(n))[:-1] + ptr))
    # name 255 reached through a pointer (labels + pointed-to suffix)
    for n in (242, 243, 244):
        out.append(H(1) + Q + rr(wire_name(name_of_wire_len(n))[:-1] + ptr, 1, b"\1\2\3\4"))
    # pointer chains 15..18
    for h in (1, 15, 16, 17, 18):
        out.append(chain_packet(h))
    # forward / self / root pointers
    out.append(H(1) + Q + rr(b"\xc0\x1d", 1, b"\1\2\3\4"))  # self (offset 29)
    out.append(H(1) + Q + rr(b"\xc0\x30", 1, b"\1\2\3\4"))  # forward
    out.append(H(1) + Q + rr(b"\xc0\x18", 1, b"\1\2\3\4"))  # to the root label of the question (offset 24)
    out.append(H(1) + Q + rr(b"\xc0\x14", 1, b"\1\2\3\4"))  # to 'com'
    out.append(H(1) + Q + rr(b"\xc0\x0d", 1, b"\1\2\3\4"))  # into the middle of a label ('x' = 120 > 63)
    out.append(H(1) + Q + rr(b"\xc0\x04", 1, b"\1\2\3\4"))  # into the header: qdcount hi byte = 0 (root)
    out.append(H(1) + Q + rr(b"\xc0\x05", 1, b"\1\2\3\4"))  # header: 01 then 00 -> label with NUL
    out.append(header_pointer_packet())
    # bad characters
    for ch in (0, 1, 31, 32, 46, 92, 126, 127, 128, 255):
        out.append(H(1) + Q + rr(bytes([3, 97, ch, 98, 0]), 1, b"\1\2\3\4"))
    # A / AAAA lengths
    for n in (3, 4, 5):
        out.append(H(1) + Q + rr(ptr, 1, bytes(n)))
    for n in (15, 16, 17):
        out.append(H(1) + Q + rr(ptr, 28, bytes(n)))
    # rdlen lies
    out.append(H(1) + Q + rr(ptr, 1, bytes(4), rdlen=5))
    out.append(H(1) + Q + rr(ptr, 1, bytes(4), rdlen=3))
    out.append(H(1) + Q + rr(ptr, 16, bytes(4), rdlen=0xFFFF))
    # NS/CNAME/PTR
    for t in NAME_TYPES:
        out.append(H(1) + Q + rr(ptr, t, ptr))
        out.append(H(1) + Q + rr(ptr, t, ptr + b"\0"))  # one spare byte
        out.append(H(1) + Q + rr(ptr, t, wire_name([b"ns"]) ))
        out.append(H(1) + Q + rr(ptr, t, wire_name([b"ns"])[:-1] + ptr))
        out.append(H(1) + Q + rr(ptr, t, b""))
        out.append(H(1) + Q + rr(ptr, t, wire_name([b"ns"]), rdlen=3))
    # MX
    out.append(H(1) + Q + rr(ptr, 15, b"\0\5" + ptr))
    out.append(H(1) + Q + rr(ptr, 15, b"\0\5" + ptr + b"\0"))
    out.append(H(1) + Q + rr(ptr, 15, b"\0\5"))
    out.append(H(1) + Q + rr(ptr, 15, b"\0\5\0"))
    out.append(H(1) + Q + rr(ptr, 15, b"\0"))
    # SOA
    soa_tail = bytes(range(20))
    out.append(H(1) + Q + rr(ptr, 6, ptr + ptr + soa_tail))
    out.append(H(1) + Q + rr(ptr, 6, ptr + ptr + soa_tail + b"\0"))
    out.append(H(1) + Q + rr(ptr, 6, ptr + ptr + soa_tail[:-1]))
    out.append(H(1) + Q + rr(ptr, 6, b"\0\0" + soa_tail))
    out.append(H(1) + Q + rr(ptr, 6, b"\0" + soa_tail))
    out.append(H(1) + Q + rr(ptr, 6, wire_name([b"ns"]) + b"\xc0\x29" + soa_tail))  # 2nd name points at 1st (offset 41)
    # DNAME
    out.append(H(1) + Q + rr(ptr, 39, wire_name([b"t", b"com"])))
    out.append(H(1) + Q + rr(ptr, 39, wire_name([b"t\x00.", b"com"])))  # any bytes allowed
    out.append(H(1) + Q + rr(ptr, 39, ptr))  # pointer not allowed
    out.append(H(1) + Q + rr(ptr, 39, wire_name([b"t"]) + b"\0"))
    out.append(H(1) + Q + rr(ptr, 39, b""))
    out.append(H(1) + Q + rr(ptr, 39, bytes([64]) + b"a" * 64 + b"\0"))
    # OPT
    opt = lambda rd, name=b"\0", rdlen=None: rr(name, 41, rd, cls=4096, ttl=0x00008000, rdlen=rdlen)
    o1 = struct.pack(">HH", 10, 2) + b"ab"
    out.append(H(0, 0, 1) + Q + opt(b""))
    out.append(H(0, 0, 1) + Q + opt(o1))
    out.append(H(0, 0, 1) + Q + opt(o1 + o1))
    out.append(H(0, 0, 2) + Q + opt(o1) + opt(o1))  # duplicate
    out.append(H(0, 0, 2) + Q + opt(b"") + opt(b""))
    out.append(H(1, 0, 0) + Q + opt(o1))  # in the answer section
    out.append(H(0, 1, 0) + Q + opt(o1))
    out.append(H(0, 0, 1) + Q + opt(o1, name=ptr))  # non-root owner
    out.append(H(0, 0, 1) + Q + opt(o1, name=wire_name([b"a"])))
    out.append(H(0, 0, 1) + Q + opt(o1[:-1]))  # option overruns by one
    out.append(H(0, 0, 1) + Q + opt(o1 + b"\0"))  # spare byte
    out.append(H(0, 0, 1) + Q + opt(o1 + b"\0\0\0"))
    out.append(H(0, 0, 1) + Q + opt(o1 + struct.pack(">HH", 1, 0)))
    out.append(H(0, 0, 1) + Q + opt(o1, rdlen=7))
    out.append(H(0, 0, 1) + Q + opt(o1, rdlen=5))
    out.append(H(0, 0, 2) + Q + rr(ptr, 1, b"\1\2\3\4") + opt(o1))
    out.append(H(0, 0, 2) + Q + opt(o1) + rr(ptr, 1, b"\1\2\3\4"))
    out.append(H(0, 0, 3) + Q + rr(ptr, 1, b"\1\2\3\4") + opt(o1) + rr(ptr, 1, b"\1\2\3\4"))
    # query with answers / authority; qdcount 0/2; class != IN
    out.append(H(1, 0, 0, flags=0x0100) + Q + rr(ptr, 1, b"\1\2\3\4"))
    out.append(H(0, 1, 0, flags=0x0100) + Q + rr(ptr, 1, b"\1\2\3\4"))
    out.append(H(0, 0, 1, flags=0x0100) + Q + rr(ptr, 1, b"\1\2\3\4"))
    out.append(struct.pack(">HHHHHH", 1, 0x0100, 0, 0, 0, 0))
    out.append(struct.pack(">HHHHHH", 1, 0x0100, 2, 0, 0, 0) + Q + Q)
    out.append(H(0, 0, 0, flags=0x0100) + wire_name(q) + struct.pack(">HH", 1, 3))
    out.append(H(0, 0, 0, flags=0x0100) + wire_name(q) + struct.pack(">HH", 1, 1))
    out.append(H(0, 0, 0, flags=0x0100) + wire_name(q) + struct.pack(">HH", 1, 1)[:3])
    out.append(H(0, 0, 0, flags=0x0100) + wire_name(q))
    out.append(H(0, 0, 0, flags=0x0100) + b"\0" + struct.pack(">HH", 1, 1))
    out.append(struct.pack(">HHHHHH", 1, 0x8180, 1, 0xFFFF, 0xFFFF, 0xFFFF) + Q)
    # sizes 0..13
    for n in range(0, 14):
        out.append(bytes([1] * n))
        out.append((H() + Q)[:n])
    return out


def rdlen_sweep_packets():
    """A response whose only answer is an SOA (or MX) record, the declared data length running over every value from 0 to the true
    length + 3 (and 0xffff); the names are long and uncompressed in one series, pointers in the other; the packet always carries the
    full true data, so the names are readable whatever the declared length says."""
    out = []
    q = wire_name([b"a"]) + struct.pack(">HH", 1, 1)
    long1 = wire_name([b"m" * 9, b"example"])       # 19 bytes
    long2 = wire_name([b"r" * 5, b"ex"])            # 10 bytes
    fixed = struct.pack(">IIIII", 1, 2, 3, 4, 5)
    series = [(6, long1 + long2 + fixed), (6, b"\xc0\x0c" + long2 + fixed), (6, b"\xc0\x0c\xc0\x0c" + fixed),
              (15, struct.pack(">H", 10) + long1), (15, struct.pack(">H", 10) + b"\xc0\x0c")]
    for t, rd in series:
        for rl in list(range(0, len(rd) + 4)) + [0xFFFF]:
            for tail in (b"", b"\0" * 8):
                b = struct.pack(">HHHHHH", 0x6161, 0x8180, 1, 1, 0, 0) + q
                b += b"\xc0\x0c" + struct.pack(">HHIH", t, 1, 30, rl) + rd + tail
                out.append(b)
    return out


def opt_len_packets(thorough=False):
    """Queries with an OPT record whose (first or second) option declares a length at the top of the 16-bit range."""
    out = []
    q = wire_name([b"a"]) + struct.pack(">HH", 1, 1)
    lens = [65531, 65532, 65533, 65534, 65535] + ([65527, 65528, 65529, 65530] if thorough else [])
    for ol in lens:
        for lead in (b"", struct.pack(">HH", 10, 2) + b"zz"):
            opts = lead + struct.pack(">HH", 12, ol)
            for rl in (len(opts), len(opts) + 4, 0xFFFF, len(opts) + ol if len(opts) + ol <= 0xFFFF else 0xFFFF):
                for fill in ((0, 4, 64) if not thorough else (0, 1, 2, 3, 4, 64, ol)):
                    b = struct.pack(">HHHHHH", 0x6f6f, 0x0100, 1, 0, 0, 1) + q
                    b += b"\0" + struct.pack(">HHIH", 41, 1232, 0, rl) + opts + b"\0" * fill
                    out.append(b)
    return out


def misaligned_packets(rng, n):
    """Responses in which label contents hold pointer-like byte pairs (0xc0|hi, lo) and length-like bytes, and a later name ends in a
    pointer to an arbitrary - mostly misaligned - earlier offset: what the bytes mean depends on where reading starts, so every rule
    about where a followed name may run (strictly below the pointer / below the segment that held it) is exercised."""
    out = []
    for _ in range(n):
        qn = [bytes(rng.choice(b"nq") for _ in range(rng.choice([1, 3, 20, 31])))] + ([b"q"] if rng.random() < 0.7 else [])
        b = bytearray(struct.pack(">HHHHHH", 0x7777, 0x8180, 1, 2, 0, 0) + wire_name(qn) + struct.pack(">HH", 1, 1))
        # answer 1: TXT-like opaque data with short labels / pointer-like pairs inside
        filler = bytes(rng.choice([3, 1, 2, 0x78, 0x79, 0x78, 0x79, 0xC0, 12, 0x21, 0x34, 33, 40]) for _ in range(rng.choice([3, 3, 4, 6, 9, 40])))
        b += b"\xc0\x0c" + struct.pack(">HHIH", 16, 1, 5, len(filler)) + filler
        S = len(b)
        L = rng.choice([32, 33, 34, 40, 47, 48, 62, 63, rng.randint(32, 63)])
        content = bytearray()
        okc = lambda c: c >= 32 and c not in (0x2E, 0x5C, 127)
        while len(content) < L:
            k = rng.random()
            if k < 0.45:
                lo = rng.choice([0x21, 0x22, 0x34, S - 3, S - 2, S - 1, rng.randint(32, max(32, min(S, 255)))]) & 0xFF
                content += bytes([0xC0, lo if okc(lo) else 0x21])
            elif k < 0.6:
                content += bytes([rng.choice([32, 33, 34, 40, L & 63 if okc(L & 63) else 33])])
            else:
                content += bytes([rng.choice(b"abcxyz")])
        content = bytes(content[:L])
        T = rng.choice([rng.randint(12, S - 1), S - 3, S - 2, S - 1, S - len(filler), 12, 13])
        owner = bytes([L]) + content + bytes([0xC0 | (T >> 8), T & 0xFF])
        b += owner + struct.pack(">HHIH", 1, 1, 5, 4) + b"\1\2\3\4"
        out.append(bytes(b))
    return out


def mixed_chain_packet(label_hops, run, records=3, label_first=True):
    """Pointer chains of mixed shape. Opaque data of one record hold a run of `run` back-to-back pointers (each to the one before, the
    first to the question name) and `label_hops` names of the form <1-byte label> + pointer (each to the name before, the first to
    the head of the run); `records` A records are then owned by a pointer to the last of them. Reading an owner takes
    1 + label_hops + run hops, alternating pointer-to-label and pointer-to-pointer steps; with label_first=False the names come first
    (the run points at them)."""
    q = wire_name([b"a"]) + struct.pack(">HH", 1, 1)
    s0 = 12 + len(q) + 12                    # start of the opaque data of record 1
    data = bytearray()
    if label_first:
        prev = 12
        for i in range(run):
            at = s0 + len(data)
            data += struct.pack(">H", 0xC000 | prev)
            prev = at
        for i in range(label_hops):
            at = s0 + len(data)
            data += bytes([1, 0x78 + (i % 3)]) + struct.pack(">H", 0xC000 | prev)
            prev = at
    else:
        prev = 12
        for i in range(label_hops):
            at = s0 + len(data)
            data += bytes([1, 0x78 + (i % 3)]) + struct.pack(">H", 0xC000 | prev)
            prev = at
        for i in range(run):
            at = s0 + len(data)
            data += struct.pack(">H", 0xC000 | prev)
            prev = at
    if prev > 0x3FFF:
        return None
    b = struct.pack(">HHHHHH", 0x4d4d, 0x8180, 1, 1 + records, 0, 0) + q
    b += b"\xc0\x0c" + struct.pack(">HHIH", 10, 1, 1, len(data)) + bytes(data)
    head = struct.pack(">H", 0xC000 | prev)
    for k in range(records):
        b += head + struct.pack(">HHIH", 1, 1, 1, 4) + bytes([10, 9, 8, k & 255])
    return b


def field_matrix_packets():
    """Records whose fixed fields are combined freely: every type with a rule of its own (A, AAAA, NS, MX, SOA, DNAME, TXT, OPT) under
    classes IN / CH / HS / NONE / ANY / 0 / 65535 with declared data lengths 0, 1, the natural one and one more, in the answer and in
    the additional section, last in the packet and followed by another record."""
    q = wire_name([b"a"]) + struct.pack(">HH", 1, 1)
    nat = {1: b"\1\2\3\4", 28: bytes(range(16)), 2: b"\xc0\x0c", 15: b"\0\5\xc0\x0c", 6: b"\xc0\x0c\xc0\x0c" + bytes(20), 39: b"\1b\0",
           16: b"\3abc", 41: b""}
    out = []
    for t, data in nat.items():
        for cls in (1, 3, 4, 254, 255, 0, 65535):
            for rdlen in sorted(set([0, 1, len(data), len(data) + 1])):
                rd = (data + b"\0")[:rdlen] if rdlen <= len(data) + 1 else data
                owner = b"\0" if t == 41 else b"\xc0\x0c"
                rec = owner + struct.pack(">HHIH", t, cls, 60, rdlen) + rd
                tail = b"\xc0\x0c" + struct.pack(">HHIH", 16, 1, 60, 4) + b"\3xyz"
                for follow in (False, True):
                    for sec in (0, 2):
                        cnt = [0, 0, 0]
                        cnt[sec] = 2 if follow else 1
                        out.append(struct.pack(">HHHHHH", 0x4646, 0x8180, 1, cnt[0], cnt[1], cnt[2]) + q + rec + (tail if follow else b""))
    return out


def limit_product_packet(nlabels, hops, spread=False):
    """Both limits of a name at once: `nlabels` one-byte labels (127 of them make the maximal 255-byte name) read through `hops`
    pointers. The material sits in the opaque data of a NULL record; an A record is owned by a pointer to its head. With spread=True the
    labels are distributed over the hops (each hop: some labels, then a pointer to the hop before)."""
    q = wire_name([b"a"]) + struct.pack(">HH", 1, 1)
    s0 = 12 + len(q) + 12
    data = bytearray()
    per = [nlabels // (hops + 1)] * (hops + 1)
    for i in range(nlabels - sum(per)):
        per[i] += 1
    if not spread:
        per = [nlabels] + [0] * hops
    # segment 0 ends with the root, segment i > 0 ends with a pointer to segment i - 1
    prev = None
    for i, n in enumerate(per):
        at = s0 + len(data)
        data += b"".join(bytes([1, 0x61 + (j % 26)]) for j in range(n))
        data += b"\0" if prev is None else struct.pack(">H", 0xC000 | prev)
        prev = at
    if prev > 0x3FFF:
        return None
    b = struct.pack(">HHHHHH", 0x4c4c, 0x8180, 1, 2, 0, 0) + q
    b += b"\xc0\x0c" + struct.pack(">HHIH", 10, 1, 1, len(data)) + bytes(data)
    b += struct.pack(">H", 0xC000 | prev) + struct.pack(">HHIH", 1, 1, 1, 4) + bytes([10, 9, 8, 7])
    return b


def limit_product_family(thorough=False):
    out = []
    for nl in ((126, 127, 128) if not thorough else (1, 63, 64, 120, 125, 126, 127, 128, 129)):
        for hops in ((15, 16, 17) if not thorough else (1, 8, 14, 15, 16, 17, 18)):
            for spread in (False, True):
                b = limit_product_packet(nl, hops - 1, spread)   # the owner's own pointer is the first hop
                if b is not None:
                    out.append(b)
    return out


def mixed_chain_family(thorough=False):
    out = []
    for lh in (0, 1, 2, 3, 4):
        for run in ((12, 13, 14, 15, 16, 17, 40) if not thorough else tuple(range(8, 20)) + (40, 400, 4000)):
            for lf in (True, False):
                b = mixed_chain_packet(lh, run, records=3 if run < 100 else 300, label_first=lf)
                if b is not None:
                    out.append(b)
    return out
